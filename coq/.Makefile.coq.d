theories/Base/Sx.vo theories/Base/Sx.glob theories/Base/Sx.v.beautified theories/Base/Sx.required_vo: theories/Base/Sx.v 
theories/Base/Sx.vio: theories/Base/Sx.v 
theories/Base/Sx.vos theories/Base/Sx.vok theories/Base/Sx.required_vos: theories/Base/Sx.v 
theories/Gen/C01ArgTables.vo theories/Gen/C01ArgTables.glob theories/Gen/C01ArgTables.v.beautified theories/Gen/C01ArgTables.required_vo: theories/Gen/C01ArgTables.v theories/Base/Sx.vo theories/Model/ArgTypes.vo
theories/Gen/C01ArgTables.vio: theories/Gen/C01ArgTables.v theories/Base/Sx.vio theories/Model/ArgTypes.vio
theories/Gen/C01ArgTables.vos theories/Gen/C01ArgTables.vok theories/Gen/C01ArgTables.required_vos: theories/Gen/C01ArgTables.v theories/Base/Sx.vos theories/Model/ArgTypes.vos
theories/Gen/C02HashSpec.vo theories/Gen/C02HashSpec.glob theories/Gen/C02HashSpec.v.beautified theories/Gen/C02HashSpec.required_vo: theories/Gen/C02HashSpec.v theories/Base/Sx.vo theories/Model/KeyEnc.vo
theories/Gen/C02HashSpec.vio: theories/Gen/C02HashSpec.v theories/Base/Sx.vio theories/Model/KeyEnc.vio
theories/Gen/C02HashSpec.vos theories/Gen/C02HashSpec.vok theories/Gen/C02HashSpec.required_vos: theories/Gen/C02HashSpec.v theories/Base/Sx.vos theories/Model/KeyEnc.vos
theories/Gen/C02HashSpec_ok.vo theories/Gen/C02HashSpec_ok.glob theories/Gen/C02HashSpec_ok.v.beautified theories/Gen/C02HashSpec_ok.required_vo: theories/Gen/C02HashSpec_ok.v theories/Base/Sx.vo theories/Model/KeyEnc.vo theories/Gen/C02HashSpec.vo
theories/Gen/C02HashSpec_ok.vio: theories/Gen/C02HashSpec_ok.v theories/Base/Sx.vio theories/Model/KeyEnc.vio theories/Gen/C02HashSpec.vio
theories/Gen/C02HashSpec_ok.vos theories/Gen/C02HashSpec_ok.vok theories/Gen/C02HashSpec_ok.required_vos: theories/Gen/C02HashSpec_ok.v theories/Base/Sx.vos theories/Model/KeyEnc.vos theories/Gen/C02HashSpec.vos
theories/Gen/C04Consts.vo theories/Gen/C04Consts.glob theories/Gen/C04Consts.v.beautified theories/Gen/C04Consts.required_vo: theories/Gen/C04Consts.v 
theories/Gen/C04Consts.vio: theories/Gen/C04Consts.v 
theories/Gen/C04Consts.vos theories/Gen/C04Consts.vok theories/Gen/C04Consts.required_vos: theories/Gen/C04Consts.v 
theories/Gen/C05ArgTable.vo theories/Gen/C05ArgTable.glob theories/Gen/C05ArgTable.v.beautified theories/Gen/C05ArgTable.required_vo: theories/Gen/C05ArgTable.v 
theories/Gen/C05ArgTable.vio: theories/Gen/C05ArgTable.v 
theories/Gen/C05ArgTable.vos theories/Gen/C05ArgTable.vok theories/Gen/C05ArgTable.required_vos: theories/Gen/C05ArgTable.v 
theories/Gen/C05HashSpec.vo theories/Gen/C05HashSpec.glob theories/Gen/C05HashSpec.v.beautified theories/Gen/C05HashSpec.required_vo: theories/Gen/C05HashSpec.v 
theories/Gen/C05HashSpec.vio: theories/Gen/C05HashSpec.v 
theories/Gen/C05HashSpec.vos theories/Gen/C05HashSpec.vok theories/Gen/C05HashSpec.required_vos: theories/Gen/C05HashSpec.v 
theories/Gen/C07Consts.vo theories/Gen/C07Consts.glob theories/Gen/C07Consts.v.beautified theories/Gen/C07Consts.required_vo: theories/Gen/C07Consts.v 
theories/Gen/C07Consts.vio: theories/Gen/C07Consts.v 
theories/Gen/C07Consts.vos theories/Gen/C07Consts.vok theories/Gen/C07Consts.required_vos: theories/Gen/C07Consts.v 
theories/Gen/C07Consts_ok.vo theories/Gen/C07Consts_ok.glob theories/Gen/C07Consts_ok.v.beautified theories/Gen/C07Consts_ok.required_vo: theories/Gen/C07Consts_ok.v theories/Model/Lru.vo theories/Gen/C07Consts.vo
theories/Gen/C07Consts_ok.vio: theories/Gen/C07Consts_ok.v theories/Model/Lru.vio theories/Gen/C07Consts.vio
theories/Gen/C07Consts_ok.vos theories/Gen/C07Consts_ok.vok theories/Gen/C07Consts_ok.required_vos: theories/Gen/C07Consts_ok.v theories/Model/Lru.vos theories/Gen/C07Consts.vos
theories/Gen/C12Window.vo theories/Gen/C12Window.glob theories/Gen/C12Window.v.beautified theories/Gen/C12Window.required_vo: theories/Gen/C12Window.v theories/Model/CompilerCache.vo
theories/Gen/C12Window.vio: theories/Gen/C12Window.v theories/Model/CompilerCache.vio
theories/Gen/C12Window.vos theories/Gen/C12Window.vok theories/Gen/C12Window.required_vos: theories/Gen/C12Window.v theories/Model/CompilerCache.vos
theories/Gen/C16Startup.vo theories/Gen/C16Startup.glob theories/Gen/C16Startup.v.beautified theories/Gen/C16Startup.required_vo: theories/Gen/C16Startup.v theories/Model/Jobserver.vo
theories/Gen/C16Startup.vio: theories/Gen/C16Startup.v theories/Model/Jobserver.vio
theories/Gen/C16Startup.vos theories/Gen/C16Startup.vok theories/Gen/C16Startup.required_vos: theories/Gen/C16Startup.v theories/Model/Jobserver.vos
theories/Gen/C16Startup_ok.vo theories/Gen/C16Startup_ok.glob theories/Gen/C16Startup_ok.v.beautified theories/Gen/C16Startup_ok.required_vo: theories/Gen/C16Startup_ok.v theories/Model/Jobserver.vo theories/Gen/C16Startup.vo
theories/Gen/C16Startup_ok.vio: theories/Gen/C16Startup_ok.v theories/Model/Jobserver.vio theories/Gen/C16Startup.vio
theories/Gen/C16Startup_ok.vos theories/Gen/C16Startup_ok.vok theories/Gen/C16Startup_ok.required_vos: theories/Gen/C16Startup_ok.v theories/Model/Jobserver.vos theories/Gen/C16Startup.vos
theories/Gen/C18Consts.vo theories/Gen/C18Consts.glob theories/Gen/C18Consts.v.beautified theories/Gen/C18Consts.required_vo: theories/Gen/C18Consts.v 
theories/Gen/C18Consts.vio: theories/Gen/C18Consts.v 
theories/Gen/C18Consts.vos theories/Gen/C18Consts.vok theories/Gen/C18Consts.required_vos: theories/Gen/C18Consts.v 
theories/Gen/C18Locks.vo theories/Gen/C18Locks.glob theories/Gen/C18Locks.v.beautified theories/Gen/C18Locks.required_vo: theories/Gen/C18Locks.v theories/Model/LockOrder.vo
theories/Gen/C18Locks.vio: theories/Gen/C18Locks.v theories/Model/LockOrder.vio
theories/Gen/C18Locks.vos theories/Gen/C18Locks.vok theories/Gen/C18Locks.required_vos: theories/Gen/C18Locks.v theories/Model/LockOrder.vos
theories/Model/ArgTypes.vo theories/Model/ArgTypes.glob theories/Model/ArgTypes.v.beautified theories/Model/ArgTypes.required_vo: theories/Model/ArgTypes.v 
theories/Model/ArgTypes.vio: theories/Model/ArgTypes.v 
theories/Model/ArgTypes.vos theories/Model/ArgTypes.vok theories/Model/ArgTypes.required_vos: theories/Model/ArgTypes.v 
theories/Model/Args.vo theories/Model/Args.glob theories/Model/Args.v.beautified theories/Model/Args.required_vo: theories/Model/Args.v theories/Base/Sx.vo theories/Model/ArgTypes.vo
theories/Model/Args.vio: theories/Model/Args.v theories/Base/Sx.vio theories/Model/ArgTypes.vio
theories/Model/Args.vos theories/Model/Args.vok theories/Model/Args.required_vos: theories/Model/Args.v theories/Base/Sx.vos theories/Model/ArgTypes.vos
theories/Model/ArgsInst.vo theories/Model/ArgsInst.glob theories/Model/ArgsInst.v.beautified theories/Model/ArgsInst.required_vo: theories/Model/ArgsInst.v theories/Base/Sx.vo theories/Model/ArgTypes.vo theories/Model/Args.vo theories/Gen/C01ArgTables.vo
theories/Model/ArgsInst.vio: theories/Model/ArgsInst.v theories/Base/Sx.vio theories/Model/ArgTypes.vio theories/Model/Args.vio theories/Gen/C01ArgTables.vio
theories/Model/ArgsInst.vos theories/Model/ArgsInst.vok theories/Model/ArgsInst.required_vos: theories/Model/ArgsInst.v theories/Base/Sx.vos theories/Model/ArgTypes.vos theories/Model/Args.vos theories/Gen/C01ArgTables.vos
theories/Model/Client.vo theories/Model/Client.glob theories/Model/Client.v.beautified theories/Model/Client.required_vo: theories/Model/Client.v 
theories/Model/Client.vio: theories/Model/Client.v 
theories/Model/Client.vos theories/Model/Client.vok theories/Model/Client.required_vos: theories/Model/Client.v 
theories/Model/CompilerCache.vo theories/Model/CompilerCache.glob theories/Model/CompilerCache.v.beautified theories/Model/CompilerCache.required_vo: theories/Model/CompilerCache.v 
theories/Model/CompilerCache.vio: theories/Model/CompilerCache.v 
theories/Model/CompilerCache.vos theories/Model/CompilerCache.vok theories/Model/CompilerCache.required_vos: theories/Model/CompilerCache.v 
theories/Model/Crc32.vo theories/Model/Crc32.glob theories/Model/Crc32.v.beautified theories/Model/Crc32.required_vo: theories/Model/Crc32.v 
theories/Model/Crc32.vio: theories/Model/Crc32.v 
theories/Model/Crc32.vos theories/Model/Crc32.vok theories/Model/Crc32.required_vos: theories/Model/Crc32.v 
theories/Model/DepInfo.vo theories/Model/DepInfo.glob theories/Model/DepInfo.v.beautified theories/Model/DepInfo.required_vo: theories/Model/DepInfo.v theories/Base/Sx.vo theories/Model/RustPath.vo
theories/Model/DepInfo.vio: theories/Model/DepInfo.v theories/Base/Sx.vio theories/Model/RustPath.vio
theories/Model/DepInfo.vos theories/Model/DepInfo.vok theories/Model/DepInfo.required_vos: theories/Model/DepInfo.v theories/Base/Sx.vos theories/Model/RustPath.vos
theories/Model/DiskCache.vo theories/Model/DiskCache.glob theories/Model/DiskCache.v.beautified theories/Model/DiskCache.required_vo: theories/Model/DiskCache.v theories/Base/Sx.vo theories/Model/Lru.vo
theories/Model/DiskCache.vio: theories/Model/DiskCache.v theories/Base/Sx.vio theories/Model/Lru.vio
theories/Model/DiskCache.vos theories/Model/DiskCache.vok theories/Model/DiskCache.required_vos: theories/Model/DiskCache.v theories/Base/Sx.vos theories/Model/Lru.vos
theories/Model/DiskConfig.vo theories/Model/DiskConfig.glob theories/Model/DiskConfig.v.beautified theories/Model/DiskConfig.required_vo: theories/Model/DiskConfig.v theories/Base/Sx.vo
theories/Model/DiskConfig.vio: theories/Model/DiskConfig.v theories/Base/Sx.vio
theories/Model/DiskConfig.vos theories/Model/DiskConfig.vok theories/Model/DiskConfig.required_vos: theories/Model/DiskConfig.v theories/Base/Sx.vos
theories/Model/DiskTree.vo theories/Model/DiskTree.glob theories/Model/DiskTree.v.beautified theories/Model/DiskTree.required_vo: theories/Model/DiskTree.v theories/Base/Sx.vo theories/Model/Lru.vo theories/Model/DiskCache.vo theories/Model/RoCache.vo
theories/Model/DiskTree.vio: theories/Model/DiskTree.v theories/Base/Sx.vio theories/Model/Lru.vio theories/Model/DiskCache.vio theories/Model/RoCache.vio
theories/Model/DiskTree.vos theories/Model/DiskTree.vok theories/Model/DiskTree.required_vos: theories/Model/DiskTree.v theories/Base/Sx.vos theories/Model/Lru.vos theories/Model/DiskCache.vos theories/Model/RoCache.vos
theories/Model/DistArgs.vo theories/Model/DistArgs.glob theories/Model/DistArgs.v.beautified theories/Model/DistArgs.required_vo: theories/Model/DistArgs.v theories/Base/Sx.vo
theories/Model/DistArgs.vio: theories/Model/DistArgs.v theories/Base/Sx.vio
theories/Model/DistArgs.vos theories/Model/DistArgs.vok theories/Model/DistArgs.required_vos: theories/Model/DistArgs.v theories/Base/Sx.vos
theories/Model/DistFallback.vo theories/Model/DistFallback.glob theories/Model/DistFallback.v.beautified theories/Model/DistFallback.required_vo: theories/Model/DistFallback.v theories/Model/DistStatus.vo
theories/Model/DistFallback.vio: theories/Model/DistFallback.v theories/Model/DistStatus.vio
theories/Model/DistFallback.vos theories/Model/DistFallback.vok theories/Model/DistFallback.required_vos: theories/Model/DistFallback.v theories/Model/DistStatus.vos
theories/Model/DistHistory.vo theories/Model/DistHistory.glob theories/Model/DistHistory.v.beautified theories/Model/DistHistory.required_vo: theories/Model/DistHistory.v theories/Model/DistStatus.vo theories/Model/DistFallback.vo
theories/Model/DistHistory.vio: theories/Model/DistHistory.v theories/Model/DistStatus.vio theories/Model/DistFallback.vio
theories/Model/DistHistory.vos theories/Model/DistHistory.vok theories/Model/DistHistory.required_vos: theories/Model/DistHistory.v theories/Model/DistStatus.vos theories/Model/DistFallback.vos
theories/Model/DistPaths.vo theories/Model/DistPaths.glob theories/Model/DistPaths.v.beautified theories/Model/DistPaths.required_vo: theories/Model/DistPaths.v 
theories/Model/DistPaths.vio: theories/Model/DistPaths.v 
theories/Model/DistPaths.vos theories/Model/DistPaths.vok theories/Model/DistPaths.required_vos: theories/Model/DistPaths.v 
theories/Model/DistRustInputs.vo theories/Model/DistRustInputs.glob theories/Model/DistRustInputs.v.beautified theories/Model/DistRustInputs.required_vo: theories/Model/DistRustInputs.v 
theories/Model/DistRustInputs.vio: theories/Model/DistRustInputs.v 
theories/Model/DistRustInputs.vos theories/Model/DistRustInputs.vok theories/Model/DistRustInputs.required_vos: theories/Model/DistRustInputs.v 
theories/Model/DistStatus.vo theories/Model/DistStatus.glob theories/Model/DistStatus.v.beautified theories/Model/DistStatus.required_vo: theories/Model/DistStatus.v 
theories/Model/DistStatus.vio: theories/Model/DistStatus.v 
theories/Model/DistStatus.vos theories/Model/DistStatus.vok theories/Model/DistStatus.required_vos: theories/Model/DistStatus.v 
theories/Model/EntryBytes.vo theories/Model/EntryBytes.glob theories/Model/EntryBytes.v.beautified theories/Model/EntryBytes.required_vo: theories/Model/EntryBytes.v 
theories/Model/EntryBytes.vio: theories/Model/EntryBytes.v 
theories/Model/EntryBytes.vos theories/Model/EntryBytes.vok theories/Model/EntryBytes.required_vos: theories/Model/EntryBytes.v 
theories/Model/Extract.vo theories/Model/Extract.glob theories/Model/Extract.v.beautified theories/Model/Extract.required_vo: theories/Model/Extract.v theories/Base/Sx.vo theories/Model/FsModel.vo
theories/Model/Extract.vio: theories/Model/Extract.v theories/Base/Sx.vio theories/Model/FsModel.vio
theories/Model/Extract.vos theories/Model/Extract.vok theories/Model/Extract.required_vos: theories/Model/Extract.v theories/Base/Sx.vos theories/Model/FsModel.vos
theories/Model/FsModel.vo theories/Model/FsModel.glob theories/Model/FsModel.v.beautified theories/Model/FsModel.required_vo: theories/Model/FsModel.v theories/Base/Sx.vo
theories/Model/FsModel.vio: theories/Model/FsModel.v theories/Base/Sx.vio
theories/Model/FsModel.vos theories/Model/FsModel.vok theories/Model/FsModel.required_vos: theories/Model/FsModel.v theories/Base/Sx.vos
theories/Model/HitModel.vo theories/Model/HitModel.glob theories/Model/HitModel.v.beautified theories/Model/HitModel.required_vo: theories/Model/HitModel.v theories/Base/Sx.vo theories/Model/Lru.vo
theories/Model/HitModel.vio: theories/Model/HitModel.v theories/Base/Sx.vio theories/Model/Lru.vio
theories/Model/HitModel.vos theories/Model/HitModel.vok theories/Model/HitModel.required_vos: theories/Model/HitModel.v theories/Base/Sx.vos theories/Model/Lru.vos
theories/Model/Jobserver.vo theories/Model/Jobserver.glob theories/Model/Jobserver.v.beautified theories/Model/Jobserver.required_vo: theories/Model/Jobserver.v 
theories/Model/Jobserver.vio: theories/Model/Jobserver.v 
theories/Model/Jobserver.vos theories/Model/Jobserver.vok theories/Model/Jobserver.required_vos: theories/Model/Jobserver.v 
theories/Model/KeyEnc.vo theories/Model/KeyEnc.glob theories/Model/KeyEnc.v.beautified theories/Model/KeyEnc.required_vo: theories/Model/KeyEnc.v theories/Base/Sx.vo
theories/Model/KeyEnc.vio: theories/Model/KeyEnc.v theories/Base/Sx.vio
theories/Model/KeyEnc.vos theories/Model/KeyEnc.vok theories/Model/KeyEnc.required_vos: theories/Model/KeyEnc.v theories/Base/Sx.vos
theories/Model/LineMarker.vo theories/Model/LineMarker.glob theories/Model/LineMarker.v.beautified theories/Model/LineMarker.required_vo: theories/Model/LineMarker.v theories/Base/Sx.vo theories/Gen/C04Consts.vo theories/Model/PpPaths.vo theories/Model/TimeMacro.vo theories/Model/PpCache.vo
theories/Model/LineMarker.vio: theories/Model/LineMarker.v theories/Base/Sx.vio theories/Gen/C04Consts.vio theories/Model/PpPaths.vio theories/Model/TimeMacro.vio theories/Model/PpCache.vio
theories/Model/LineMarker.vos theories/Model/LineMarker.vok theories/Model/LineMarker.required_vos: theories/Model/LineMarker.v theories/Base/Sx.vos theories/Gen/C04Consts.vos theories/Model/PpPaths.vos theories/Model/TimeMacro.vos theories/Model/PpCache.vos
theories/Model/LockOrder.vo theories/Model/LockOrder.glob theories/Model/LockOrder.v.beautified theories/Model/LockOrder.required_vo: theories/Model/LockOrder.v 
theories/Model/LockOrder.vio: theories/Model/LockOrder.v 
theories/Model/LockOrder.vos theories/Model/LockOrder.vok theories/Model/LockOrder.required_vos: theories/Model/LockOrder.v 
theories/Model/Lru.vo theories/Model/Lru.glob theories/Model/Lru.v.beautified theories/Model/Lru.required_vo: theories/Model/Lru.v theories/Base/Sx.vo
theories/Model/Lru.vio: theories/Model/Lru.v theories/Base/Sx.vio
theories/Model/Lru.vos theories/Model/Lru.vok theories/Model/Lru.required_vos: theories/Model/Lru.v theories/Base/Sx.vos
theories/Model/LruPut.vo theories/Model/LruPut.glob theories/Model/LruPut.v.beautified theories/Model/LruPut.required_vo: theories/Model/LruPut.v theories/Base/Sx.vo theories/Model/Lru.vo
theories/Model/LruPut.vio: theories/Model/LruPut.v theories/Base/Sx.vio theories/Model/Lru.vio
theories/Model/LruPut.vos theories/Model/LruPut.vok theories/Model/LruPut.required_vos: theories/Model/LruPut.v theories/Base/Sx.vos theories/Model/Lru.vos
theories/Model/Paths.vo theories/Model/Paths.glob theories/Model/Paths.v.beautified theories/Model/Paths.required_vo: theories/Model/Paths.v theories/Base/Sx.vo
theories/Model/Paths.vio: theories/Model/Paths.v theories/Base/Sx.vio
theories/Model/Paths.vos theories/Model/Paths.vok theories/Model/Paths.required_vos: theories/Model/Paths.v theories/Base/Sx.vos
theories/Model/PpCache.vo theories/Model/PpCache.glob theories/Model/PpCache.v.beautified theories/Model/PpCache.required_vo: theories/Model/PpCache.v theories/Base/Sx.vo theories/Gen/C04Consts.vo theories/Model/PpPaths.vo theories/Model/TimeMacro.vo
theories/Model/PpCache.vio: theories/Model/PpCache.v theories/Base/Sx.vio theories/Gen/C04Consts.vio theories/Model/PpPaths.vio theories/Model/TimeMacro.vio
theories/Model/PpCache.vos theories/Model/PpCache.vok theories/Model/PpCache.required_vos: theories/Model/PpCache.v theories/Base/Sx.vos theories/Gen/C04Consts.vos theories/Model/PpPaths.vos theories/Model/TimeMacro.vos
theories/Model/PpPaths.vo theories/Model/PpPaths.glob theories/Model/PpPaths.v.beautified theories/Model/PpPaths.required_vo: theories/Model/PpPaths.v theories/Base/Sx.vo
theories/Model/PpPaths.vio: theories/Model/PpPaths.v theories/Base/Sx.vio
theories/Model/PpPaths.vos theories/Model/PpPaths.vok theories/Model/PpPaths.required_vos: theories/Model/PpPaths.v theories/Base/Sx.vos
theories/Model/PpTimeline.vo theories/Model/PpTimeline.glob theories/Model/PpTimeline.v.beautified theories/Model/PpTimeline.required_vo: theories/Model/PpTimeline.v theories/Base/Sx.vo theories/Gen/C04Consts.vo theories/Model/PpPaths.vo theories/Model/TimeMacro.vo theories/Model/PpCache.vo
theories/Model/PpTimeline.vio: theories/Model/PpTimeline.v theories/Base/Sx.vio theories/Gen/C04Consts.vio theories/Model/PpPaths.vio theories/Model/TimeMacro.vio theories/Model/PpCache.vio
theories/Model/PpTimeline.vos theories/Model/PpTimeline.vok theories/Model/PpTimeline.required_vos: theories/Model/PpTimeline.v theories/Base/Sx.vos theories/Gen/C04Consts.vos theories/Model/PpPaths.vos theories/Model/TimeMacro.vos theories/Model/PpCache.vos
theories/Model/ReqSM.vo theories/Model/ReqSM.glob theories/Model/ReqSM.v.beautified theories/Model/ReqSM.required_vo: theories/Model/ReqSM.v theories/Base/Sx.vo theories/Model/Stats.vo
theories/Model/ReqSM.vio: theories/Model/ReqSM.v theories/Base/Sx.vio theories/Model/Stats.vio
theories/Model/ReqSM.vos theories/Model/ReqSM.vok theories/Model/ReqSM.required_vos: theories/Model/ReqSM.v theories/Base/Sx.vos theories/Model/Stats.vos
theories/Model/ReqSMExt.vo theories/Model/ReqSMExt.glob theories/Model/ReqSMExt.v.beautified theories/Model/ReqSMExt.required_vo: theories/Model/ReqSMExt.v theories/Base/Sx.vo theories/Model/Stats.vo theories/Model/ReqSM.vo
theories/Model/ReqSMExt.vio: theories/Model/ReqSMExt.v theories/Base/Sx.vio theories/Model/Stats.vio theories/Model/ReqSM.vio
theories/Model/ReqSMExt.vos theories/Model/ReqSMExt.vok theories/Model/ReqSMExt.required_vos: theories/Model/ReqSMExt.v theories/Base/Sx.vos theories/Model/Stats.vos theories/Model/ReqSM.vos
theories/Model/RoCache.vo theories/Model/RoCache.glob theories/Model/RoCache.v.beautified theories/Model/RoCache.required_vo: theories/Model/RoCache.v theories/Base/Sx.vo theories/Model/Lru.vo
theories/Model/RoCache.vio: theories/Model/RoCache.v theories/Base/Sx.vio theories/Model/Lru.vio
theories/Model/RoCache.vos theories/Model/RoCache.vok theories/Model/RoCache.required_vos: theories/Model/RoCache.v theories/Base/Sx.vos theories/Model/Lru.vos
theories/Model/RoConc.vo theories/Model/RoConc.glob theories/Model/RoConc.v.beautified theories/Model/RoConc.required_vo: theories/Model/RoConc.v theories/Base/Sx.vo theories/Model/Lru.vo theories/Model/RoCache.vo
theories/Model/RoConc.vio: theories/Model/RoConc.v theories/Base/Sx.vio theories/Model/Lru.vio theories/Model/RoCache.vio
theories/Model/RoConc.vos theories/Model/RoConc.vok theories/Model/RoConc.required_vos: theories/Model/RoConc.v theories/Base/Sx.vos theories/Model/Lru.vos theories/Model/RoCache.vos
theories/Model/RustArgs.vo theories/Model/RustArgs.glob theories/Model/RustArgs.v.beautified theories/Model/RustArgs.required_vo: theories/Model/RustArgs.v theories/Base/Sx.vo theories/Model/RustPath.vo theories/Gen/C05ArgTable.vo
theories/Model/RustArgs.vio: theories/Model/RustArgs.v theories/Base/Sx.vio theories/Model/RustPath.vio theories/Gen/C05ArgTable.vio
theories/Model/RustArgs.vos theories/Model/RustArgs.vok theories/Model/RustArgs.required_vos: theories/Model/RustArgs.v theories/Base/Sx.vos theories/Model/RustPath.vos theories/Gen/C05ArgTable.vos
theories/Model/RustKey.vo theories/Model/RustKey.glob theories/Model/RustKey.v.beautified theories/Model/RustKey.required_vo: theories/Model/RustKey.v theories/Base/Sx.vo theories/Model/RustPath.vo theories/Model/DepInfo.vo theories/Model/RustArgs.vo theories/Gen/C05HashSpec.vo
theories/Model/RustKey.vio: theories/Model/RustKey.v theories/Base/Sx.vio theories/Model/RustPath.vio theories/Model/DepInfo.vio theories/Model/RustArgs.vio theories/Gen/C05HashSpec.vio
theories/Model/RustKey.vos theories/Model/RustKey.vok theories/Model/RustKey.required_vos: theories/Model/RustKey.v theories/Base/Sx.vos theories/Model/RustPath.vos theories/Model/DepInfo.vos theories/Model/RustArgs.vos theories/Gen/C05HashSpec.vos
theories/Model/RustPath.vo theories/Model/RustPath.glob theories/Model/RustPath.v.beautified theories/Model/RustPath.required_vo: theories/Model/RustPath.v theories/Base/Sx.vo
theories/Model/RustPath.vio: theories/Model/RustPath.v theories/Base/Sx.vio
theories/Model/RustPath.vos theories/Model/RustPath.vok theories/Model/RustPath.required_vos: theories/Model/RustPath.v theories/Base/Sx.vos
theories/Model/RustToolchain.vo theories/Model/RustToolchain.glob theories/Model/RustToolchain.v.beautified theories/Model/RustToolchain.required_vo: theories/Model/RustToolchain.v 
theories/Model/RustToolchain.vio: theories/Model/RustToolchain.v 
theories/Model/RustToolchain.vos theories/Model/RustToolchain.vok theories/Model/RustToolchain.required_vos: theories/Model/RustToolchain.v 
theories/Model/Scheduler.vo theories/Model/Scheduler.glob theories/Model/Scheduler.v.beautified theories/Model/Scheduler.required_vo: theories/Model/Scheduler.v theories/Base/Sx.vo theories/Gen/C18Consts.vo
theories/Model/Scheduler.vio: theories/Model/Scheduler.v theories/Base/Sx.vio theories/Gen/C18Consts.vio
theories/Model/Scheduler.vos theories/Model/Scheduler.vok theories/Model/Scheduler.required_vos: theories/Model/Scheduler.v theories/Base/Sx.vos theories/Gen/C18Consts.vos
theories/Model/ServerLife.vo theories/Model/ServerLife.glob theories/Model/ServerLife.v.beautified theories/Model/ServerLife.required_vo: theories/Model/ServerLife.v 
theories/Model/ServerLife.vio: theories/Model/ServerLife.v 
theories/Model/ServerLife.vos theories/Model/ServerLife.vok theories/Model/ServerLife.required_vos: theories/Model/ServerLife.v 
theories/Model/Startup.vo theories/Model/Startup.glob theories/Model/Startup.v.beautified theories/Model/Startup.required_vo: theories/Model/Startup.v 
theories/Model/Startup.vio: theories/Model/Startup.v 
theories/Model/Startup.vos theories/Model/Startup.vok theories/Model/Startup.required_vos: theories/Model/Startup.v 
theories/Model/Stats.vo theories/Model/Stats.glob theories/Model/Stats.v.beautified theories/Model/Stats.required_vo: theories/Model/Stats.v 
theories/Model/Stats.vio: theories/Model/Stats.v 
theories/Model/Stats.vos theories/Model/Stats.vok theories/Model/Stats.required_vos: theories/Model/Stats.v 
theories/Model/TcCache.vo theories/Model/TcCache.glob theories/Model/TcCache.v.beautified theories/Model/TcCache.required_vo: theories/Model/TcCache.v theories/Base/Sx.vo theories/Model/Lru.vo
theories/Model/TcCache.vio: theories/Model/TcCache.v theories/Base/Sx.vio theories/Model/Lru.vio
theories/Model/TcCache.vos theories/Model/TcCache.vok theories/Model/TcCache.required_vos: theories/Model/TcCache.v theories/Base/Sx.vos theories/Model/Lru.vos
theories/Model/TimeMacro.vo theories/Model/TimeMacro.glob theories/Model/TimeMacro.v.beautified theories/Model/TimeMacro.required_vo: theories/Model/TimeMacro.v theories/Base/Sx.vo theories/Gen/C04Consts.vo
theories/Model/TimeMacro.vio: theories/Model/TimeMacro.v theories/Base/Sx.vio theories/Gen/C04Consts.vio
theories/Model/TimeMacro.vos theories/Model/TimeMacro.vok theories/Model/TimeMacro.required_vos: theories/Model/TimeMacro.v theories/Base/Sx.vos theories/Gen/C04Consts.vos
theories/Model/Zip.vo theories/Model/Zip.glob theories/Model/Zip.v.beautified theories/Model/Zip.required_vo: theories/Model/Zip.v theories/Model/Crc32.vo
theories/Model/Zip.vio: theories/Model/Zip.v theories/Model/Crc32.vio
theories/Model/Zip.vos theories/Model/Zip.vok theories/Model/Zip.required_vos: theories/Model/Zip.v theories/Model/Crc32.vos
theories/Proofs/ArgTables.vo theories/Proofs/ArgTables.glob theories/Proofs/ArgTables.v.beautified theories/Proofs/ArgTables.required_vo: theories/Proofs/ArgTables.v theories/Base/Sx.vo theories/Model/ArgTypes.vo theories/Model/Args.vo theories/Gen/C01ArgTables.vo theories/Model/ArgsInst.vo theories/Proofs/Args.vo
theories/Proofs/ArgTables.vio: theories/Proofs/ArgTables.v theories/Base/Sx.vio theories/Model/ArgTypes.vio theories/Model/Args.vio theories/Gen/C01ArgTables.vio theories/Model/ArgsInst.vio theories/Proofs/Args.vio
theories/Proofs/ArgTables.vos theories/Proofs/ArgTables.vok theories/Proofs/ArgTables.required_vos: theories/Proofs/ArgTables.v theories/Base/Sx.vos theories/Model/ArgTypes.vos theories/Model/Args.vos theories/Gen/C01ArgTables.vos theories/Model/ArgsInst.vos theories/Proofs/Args.vos
theories/Proofs/Args.vo theories/Proofs/Args.glob theories/Proofs/Args.v.beautified theories/Proofs/Args.required_vo: theories/Proofs/Args.v theories/Base/Sx.vo theories/Model/ArgTypes.vo theories/Model/Args.vo
theories/Proofs/Args.vio: theories/Proofs/Args.v theories/Base/Sx.vio theories/Model/ArgTypes.vio theories/Model/Args.vio
theories/Proofs/Args.vos theories/Proofs/Args.vok theories/Proofs/Args.required_vos: theories/Proofs/Args.v theories/Base/Sx.vos theories/Model/ArgTypes.vos theories/Model/Args.vos
theories/Proofs/ArgsReq.vo theories/Proofs/ArgsReq.glob theories/Proofs/ArgsReq.v.beautified theories/Proofs/ArgsReq.required_vo: theories/Proofs/ArgsReq.v theories/Base/Sx.vo theories/Model/Stats.vo theories/Model/ReqSM.vo theories/Proofs/ReqSM.vo
theories/Proofs/ArgsReq.vio: theories/Proofs/ArgsReq.v theories/Base/Sx.vio theories/Model/Stats.vio theories/Model/ReqSM.vio theories/Proofs/ReqSM.vio
theories/Proofs/ArgsReq.vos theories/Proofs/ArgsReq.vok theories/Proofs/ArgsReq.required_vos: theories/Proofs/ArgsReq.v theories/Base/Sx.vos theories/Model/Stats.vos theories/Model/ReqSM.vos theories/Proofs/ReqSM.vos
theories/Proofs/Client.vo theories/Proofs/Client.glob theories/Proofs/Client.v.beautified theories/Proofs/Client.required_vo: theories/Proofs/Client.v theories/Model/Client.vo
theories/Proofs/Client.vio: theories/Proofs/Client.v theories/Model/Client.vio
theories/Proofs/Client.vos theories/Proofs/Client.vok theories/Proofs/Client.required_vos: theories/Proofs/Client.v theories/Model/Client.vos
theories/Proofs/CompilerCache.vo theories/Proofs/CompilerCache.glob theories/Proofs/CompilerCache.v.beautified theories/Proofs/CompilerCache.required_vo: theories/Proofs/CompilerCache.v theories/Model/CompilerCache.vo
theories/Proofs/CompilerCache.vio: theories/Proofs/CompilerCache.v theories/Model/CompilerCache.vio
theories/Proofs/CompilerCache.vos theories/Proofs/CompilerCache.vok theories/Proofs/CompilerCache.required_vos: theories/Proofs/CompilerCache.v theories/Model/CompilerCache.vos
theories/Proofs/ComposeC03.vo theories/Proofs/ComposeC03.glob theories/Proofs/ComposeC03.v.beautified theories/Proofs/ComposeC03.required_vo: theories/Proofs/ComposeC03.v theories/Base/Sx.vo theories/Model/Lru.vo theories/Model/HitModel.vo theories/Proofs/Lru.vo theories/Proofs/HitModel.vo theories/Model/KeyEnc.vo theories/Proofs/KeyEnc.vo theories/Proofs/KeyEncSpec.vo theories/Gen/C02HashSpec.vo theories/Gen/C02HashSpec_ok.vo theories/Properties/C02.vo
theories/Proofs/ComposeC03.vio: theories/Proofs/ComposeC03.v theories/Base/Sx.vio theories/Model/Lru.vio theories/Model/HitModel.vio theories/Proofs/Lru.vio theories/Proofs/HitModel.vio theories/Model/KeyEnc.vio theories/Proofs/KeyEnc.vio theories/Proofs/KeyEncSpec.vio theories/Gen/C02HashSpec.vio theories/Gen/C02HashSpec_ok.vio theories/Properties/C02.vio
theories/Proofs/ComposeC03.vos theories/Proofs/ComposeC03.vok theories/Proofs/ComposeC03.required_vos: theories/Proofs/ComposeC03.v theories/Base/Sx.vos theories/Model/Lru.vos theories/Model/HitModel.vos theories/Proofs/Lru.vos theories/Proofs/HitModel.vos theories/Model/KeyEnc.vos theories/Proofs/KeyEnc.vos theories/Proofs/KeyEncSpec.vos theories/Gen/C02HashSpec.vos theories/Gen/C02HashSpec_ok.vos theories/Properties/C02.vos
theories/Proofs/ComposeC04.vo theories/Proofs/ComposeC04.glob theories/Proofs/ComposeC04.v.beautified theories/Proofs/ComposeC04.required_vo: theories/Proofs/ComposeC04.v theories/Base/Sx.vo theories/Gen/C04Consts.vo theories/Model/PpPaths.vo theories/Model/TimeMacro.vo theories/Model/PpCache.vo theories/Proofs/TimeMacro.vo theories/Proofs/PpCache.vo theories/Proofs/ComposePpLocal.vo theories/Model/KeyEnc.vo theories/Proofs/KeyEnc.vo theories/Proofs/KeyEncSpec.vo theories/Gen/C02HashSpec.vo theories/Gen/C02HashSpec_ok.vo theories/Properties/C02.vo
theories/Proofs/ComposeC04.vio: theories/Proofs/ComposeC04.v theories/Base/Sx.vio theories/Gen/C04Consts.vio theories/Model/PpPaths.vio theories/Model/TimeMacro.vio theories/Model/PpCache.vio theories/Proofs/TimeMacro.vio theories/Proofs/PpCache.vio theories/Proofs/ComposePpLocal.vio theories/Model/KeyEnc.vio theories/Proofs/KeyEnc.vio theories/Proofs/KeyEncSpec.vio theories/Gen/C02HashSpec.vio theories/Gen/C02HashSpec_ok.vio theories/Properties/C02.vio
theories/Proofs/ComposeC04.vos theories/Proofs/ComposeC04.vok theories/Proofs/ComposeC04.required_vos: theories/Proofs/ComposeC04.v theories/Base/Sx.vos theories/Gen/C04Consts.vos theories/Model/PpPaths.vos theories/Model/TimeMacro.vos theories/Model/PpCache.vos theories/Proofs/TimeMacro.vos theories/Proofs/PpCache.vos theories/Proofs/ComposePpLocal.vos theories/Model/KeyEnc.vos theories/Proofs/KeyEnc.vos theories/Proofs/KeyEncSpec.vos theories/Gen/C02HashSpec.vos theories/Gen/C02HashSpec_ok.vos theories/Properties/C02.vos
theories/Proofs/ComposeC09.vo theories/Proofs/ComposeC09.glob theories/Proofs/ComposeC09.v.beautified theories/Proofs/ComposeC09.required_vo: theories/Proofs/ComposeC09.v theories/Base/Sx.vo theories/Model/Stats.vo theories/Model/ReqSM.vo theories/Proofs/ReqSM.vo theories/Model/KeyEnc.vo theories/Proofs/KeyEnc.vo theories/Proofs/KeyEncSpec.vo theories/Gen/C02HashSpec.vo theories/Gen/C02HashSpec_ok.vo theories/Properties/C02.vo
theories/Proofs/ComposeC09.vio: theories/Proofs/ComposeC09.v theories/Base/Sx.vio theories/Model/Stats.vio theories/Model/ReqSM.vio theories/Proofs/ReqSM.vio theories/Model/KeyEnc.vio theories/Proofs/KeyEnc.vio theories/Proofs/KeyEncSpec.vio theories/Gen/C02HashSpec.vio theories/Gen/C02HashSpec_ok.vio theories/Properties/C02.vio
theories/Proofs/ComposeC09.vos theories/Proofs/ComposeC09.vok theories/Proofs/ComposeC09.required_vos: theories/Proofs/ComposeC09.v theories/Base/Sx.vos theories/Model/Stats.vos theories/Model/ReqSM.vos theories/Proofs/ReqSM.vos theories/Model/KeyEnc.vos theories/Proofs/KeyEnc.vos theories/Proofs/KeyEncSpec.vos theories/Gen/C02HashSpec.vos theories/Gen/C02HashSpec_ok.vos theories/Properties/C02.vos
theories/Proofs/ComposeEx.vo theories/Proofs/ComposeEx.glob theories/Proofs/ComposeEx.v.beautified theories/Proofs/ComposeEx.required_vo: theories/Proofs/ComposeEx.v theories/Base/Sx.vo theories/Gen/C04Consts.vo theories/Model/PpPaths.vo theories/Model/TimeMacro.vo theories/Model/PpCache.vo theories/Proofs/TimeMacro.vo theories/Proofs/PpCache.vo theories/Proofs/ComposePpLocal.vo theories/Model/KeyEnc.vo theories/Proofs/KeyEnc.vo theories/Proofs/KeyEncSpec.vo theories/Gen/C02HashSpec.vo theories/Gen/C02HashSpec_ok.vo theories/Proofs/ComposeC04.vo theories/Model/Stats.vo theories/Model/ReqSM.vo theories/Proofs/ReqSM.vo theories/Proofs/ComposeC09.vo theories/Model/Lru.vo theories/Model/HitModel.vo theories/Proofs/HitModel.vo theories/Proofs/ComposeC03.vo theories/Model/DiskCache.vo theories/Proofs/DiskCache.vo
theories/Proofs/ComposeEx.vio: theories/Proofs/ComposeEx.v theories/Base/Sx.vio theories/Gen/C04Consts.vio theories/Model/PpPaths.vio theories/Model/TimeMacro.vio theories/Model/PpCache.vio theories/Proofs/TimeMacro.vio theories/Proofs/PpCache.vio theories/Proofs/ComposePpLocal.vio theories/Model/KeyEnc.vio theories/Proofs/KeyEnc.vio theories/Proofs/KeyEncSpec.vio theories/Gen/C02HashSpec.vio theories/Gen/C02HashSpec_ok.vio theories/Proofs/ComposeC04.vio theories/Model/Stats.vio theories/Model/ReqSM.vio theories/Proofs/ReqSM.vio theories/Proofs/ComposeC09.vio theories/Model/Lru.vio theories/Model/HitModel.vio theories/Proofs/HitModel.vio theories/Proofs/ComposeC03.vio theories/Model/DiskCache.vio theories/Proofs/DiskCache.vio
theories/Proofs/ComposeEx.vos theories/Proofs/ComposeEx.vok theories/Proofs/ComposeEx.required_vos: theories/Proofs/ComposeEx.v theories/Base/Sx.vos theories/Gen/C04Consts.vos theories/Model/PpPaths.vos theories/Model/TimeMacro.vos theories/Model/PpCache.vos theories/Proofs/TimeMacro.vos theories/Proofs/PpCache.vos theories/Proofs/ComposePpLocal.vos theories/Model/KeyEnc.vos theories/Proofs/KeyEnc.vos theories/Proofs/KeyEncSpec.vos theories/Gen/C02HashSpec.vos theories/Gen/C02HashSpec_ok.vos theories/Proofs/ComposeC04.vos theories/Model/Stats.vos theories/Model/ReqSM.vos theories/Proofs/ReqSM.vos theories/Proofs/ComposeC09.vos theories/Model/Lru.vos theories/Model/HitModel.vos theories/Proofs/HitModel.vos theories/Proofs/ComposeC03.vos theories/Model/DiskCache.vos theories/Proofs/DiskCache.vos
theories/Proofs/ComposePpLocal.vo theories/Proofs/ComposePpLocal.glob theories/Proofs/ComposePpLocal.v.beautified theories/Proofs/ComposePpLocal.required_vo: theories/Proofs/ComposePpLocal.v theories/Base/Sx.vo theories/Gen/C04Consts.vo theories/Model/PpPaths.vo theories/Model/TimeMacro.vo theories/Model/PpCache.vo theories/Proofs/TimeMacro.vo theories/Proofs/PpCache.vo
theories/Proofs/ComposePpLocal.vio: theories/Proofs/ComposePpLocal.v theories/Base/Sx.vio theories/Gen/C04Consts.vio theories/Model/PpPaths.vio theories/Model/TimeMacro.vio theories/Model/PpCache.vio theories/Proofs/TimeMacro.vio theories/Proofs/PpCache.vio
theories/Proofs/ComposePpLocal.vos theories/Proofs/ComposePpLocal.vok theories/Proofs/ComposePpLocal.required_vos: theories/Proofs/ComposePpLocal.v theories/Base/Sx.vos theories/Gen/C04Consts.vos theories/Model/PpPaths.vos theories/Model/TimeMacro.vos theories/Model/PpCache.vos theories/Proofs/TimeMacro.vos theories/Proofs/PpCache.vos
theories/Proofs/ComposeStore.vo theories/Proofs/ComposeStore.glob theories/Proofs/ComposeStore.v.beautified theories/Proofs/ComposeStore.required_vo: theories/Proofs/ComposeStore.v theories/Base/Sx.vo theories/Model/Lru.vo theories/Model/DiskCache.vo theories/Proofs/DiskCache.vo theories/Proofs/Lru.vo
theories/Proofs/ComposeStore.vio: theories/Proofs/ComposeStore.v theories/Base/Sx.vio theories/Model/Lru.vio theories/Model/DiskCache.vio theories/Proofs/DiskCache.vio theories/Proofs/Lru.vio
theories/Proofs/ComposeStore.vos theories/Proofs/ComposeStore.vok theories/Proofs/ComposeStore.required_vos: theories/Proofs/ComposeStore.v theories/Base/Sx.vos theories/Model/Lru.vos theories/Model/DiskCache.vos theories/Proofs/DiskCache.vos theories/Proofs/Lru.vos
theories/Proofs/Crc32.vo theories/Proofs/Crc32.glob theories/Proofs/Crc32.v.beautified theories/Proofs/Crc32.required_vo: theories/Proofs/Crc32.v theories/Model/Crc32.vo
theories/Proofs/Crc32.vio: theories/Proofs/Crc32.v theories/Model/Crc32.vio
theories/Proofs/Crc32.vos theories/Proofs/Crc32.vok theories/Proofs/Crc32.required_vos: theories/Proofs/Crc32.v theories/Model/Crc32.vos
theories/Proofs/DepInfo.vo theories/Proofs/DepInfo.glob theories/Proofs/DepInfo.v.beautified theories/Proofs/DepInfo.required_vo: theories/Proofs/DepInfo.v theories/Base/Sx.vo theories/Model/RustPath.vo theories/Model/DepInfo.vo
theories/Proofs/DepInfo.vio: theories/Proofs/DepInfo.v theories/Base/Sx.vio theories/Model/RustPath.vio theories/Model/DepInfo.vio
theories/Proofs/DepInfo.vos theories/Proofs/DepInfo.vok theories/Proofs/DepInfo.required_vos: theories/Proofs/DepInfo.v theories/Base/Sx.vos theories/Model/RustPath.vos theories/Model/DepInfo.vos
theories/Proofs/DiskCache.vo theories/Proofs/DiskCache.glob theories/Proofs/DiskCache.v.beautified theories/Proofs/DiskCache.required_vo: theories/Proofs/DiskCache.v theories/Base/Sx.vo theories/Model/Lru.vo theories/Model/DiskCache.vo theories/Proofs/Lru.vo
theories/Proofs/DiskCache.vio: theories/Proofs/DiskCache.v theories/Base/Sx.vio theories/Model/Lru.vio theories/Model/DiskCache.vio theories/Proofs/Lru.vio
theories/Proofs/DiskCache.vos theories/Proofs/DiskCache.vok theories/Proofs/DiskCache.required_vos: theories/Proofs/DiskCache.v theories/Base/Sx.vos theories/Model/Lru.vos theories/Model/DiskCache.vos theories/Proofs/Lru.vos
theories/Proofs/DiskConfig.vo theories/Proofs/DiskConfig.glob theories/Proofs/DiskConfig.v.beautified theories/Proofs/DiskConfig.required_vo: theories/Proofs/DiskConfig.v theories/Base/Sx.vo theories/Model/Lru.vo theories/Model/RoCache.vo theories/Model/DiskConfig.vo theories/Proofs/RoCache.vo
theories/Proofs/DiskConfig.vio: theories/Proofs/DiskConfig.v theories/Base/Sx.vio theories/Model/Lru.vio theories/Model/RoCache.vio theories/Model/DiskConfig.vio theories/Proofs/RoCache.vio
theories/Proofs/DiskConfig.vos theories/Proofs/DiskConfig.vok theories/Proofs/DiskConfig.required_vos: theories/Proofs/DiskConfig.v theories/Base/Sx.vos theories/Model/Lru.vos theories/Model/RoCache.vos theories/Model/DiskConfig.vos theories/Proofs/RoCache.vos
theories/Proofs/DiskTree.vo theories/Proofs/DiskTree.glob theories/Proofs/DiskTree.v.beautified theories/Proofs/DiskTree.required_vo: theories/Proofs/DiskTree.v theories/Base/Sx.vo theories/Model/Lru.vo theories/Model/DiskCache.vo theories/Model/DiskTree.vo theories/Model/RoCache.vo theories/Proofs/Lru.vo theories/Proofs/DiskCache.vo
theories/Proofs/DiskTree.vio: theories/Proofs/DiskTree.v theories/Base/Sx.vio theories/Model/Lru.vio theories/Model/DiskCache.vio theories/Model/DiskTree.vio theories/Model/RoCache.vio theories/Proofs/Lru.vio theories/Proofs/DiskCache.vio
theories/Proofs/DiskTree.vos theories/Proofs/DiskTree.vok theories/Proofs/DiskTree.required_vos: theories/Proofs/DiskTree.v theories/Base/Sx.vos theories/Model/Lru.vos theories/Model/DiskCache.vos theories/Model/DiskTree.vos theories/Model/RoCache.vos theories/Proofs/Lru.vos theories/Proofs/DiskCache.vos
theories/Proofs/DistArgs.vo theories/Proofs/DistArgs.glob theories/Proofs/DistArgs.v.beautified theories/Proofs/DistArgs.required_vo: theories/Proofs/DistArgs.v theories/Base/Sx.vo theories/Model/DistArgs.vo
theories/Proofs/DistArgs.vio: theories/Proofs/DistArgs.v theories/Base/Sx.vio theories/Model/DistArgs.vio
theories/Proofs/DistArgs.vos theories/Proofs/DistArgs.vok theories/Proofs/DistArgs.required_vos: theories/Proofs/DistArgs.v theories/Base/Sx.vos theories/Model/DistArgs.vos
theories/Proofs/DistFallback.vo theories/Proofs/DistFallback.glob theories/Proofs/DistFallback.v.beautified theories/Proofs/DistFallback.required_vo: theories/Proofs/DistFallback.v theories/Model/DistStatus.vo theories/Model/DistFallback.vo theories/Proofs/DistStatus.vo
theories/Proofs/DistFallback.vio: theories/Proofs/DistFallback.v theories/Model/DistStatus.vio theories/Model/DistFallback.vio theories/Proofs/DistStatus.vio
theories/Proofs/DistFallback.vos theories/Proofs/DistFallback.vok theories/Proofs/DistFallback.required_vos: theories/Proofs/DistFallback.v theories/Model/DistStatus.vos theories/Model/DistFallback.vos theories/Proofs/DistStatus.vos
theories/Proofs/DistHistory.vo theories/Proofs/DistHistory.glob theories/Proofs/DistHistory.v.beautified theories/Proofs/DistHistory.required_vo: theories/Proofs/DistHistory.v theories/Model/DistStatus.vo theories/Model/DistFallback.vo theories/Model/DistHistory.vo theories/Proofs/DistStatus.vo theories/Proofs/DistFallback.vo
theories/Proofs/DistHistory.vio: theories/Proofs/DistHistory.v theories/Model/DistStatus.vio theories/Model/DistFallback.vio theories/Model/DistHistory.vio theories/Proofs/DistStatus.vio theories/Proofs/DistFallback.vio
theories/Proofs/DistHistory.vos theories/Proofs/DistHistory.vok theories/Proofs/DistHistory.required_vos: theories/Proofs/DistHistory.v theories/Model/DistStatus.vos theories/Model/DistFallback.vos theories/Model/DistHistory.vos theories/Proofs/DistStatus.vos theories/Proofs/DistFallback.vos
theories/Proofs/DistPaths.vo theories/Proofs/DistPaths.glob theories/Proofs/DistPaths.v.beautified theories/Proofs/DistPaths.required_vo: theories/Proofs/DistPaths.v theories/Model/DistPaths.vo
theories/Proofs/DistPaths.vio: theories/Proofs/DistPaths.v theories/Model/DistPaths.vio
theories/Proofs/DistPaths.vos theories/Proofs/DistPaths.vok theories/Proofs/DistPaths.required_vos: theories/Proofs/DistPaths.v theories/Model/DistPaths.vos
theories/Proofs/DistRustInputs.vo theories/Proofs/DistRustInputs.glob theories/Proofs/DistRustInputs.v.beautified theories/Proofs/DistRustInputs.required_vo: theories/Proofs/DistRustInputs.v theories/Model/DistRustInputs.vo
theories/Proofs/DistRustInputs.vio: theories/Proofs/DistRustInputs.v theories/Model/DistRustInputs.vio
theories/Proofs/DistRustInputs.vos theories/Proofs/DistRustInputs.vok theories/Proofs/DistRustInputs.required_vos: theories/Proofs/DistRustInputs.v theories/Model/DistRustInputs.vos
theories/Proofs/DistStatus.vo theories/Proofs/DistStatus.glob theories/Proofs/DistStatus.v.beautified theories/Proofs/DistStatus.required_vo: theories/Proofs/DistStatus.v theories/Model/DistStatus.vo
theories/Proofs/DistStatus.vio: theories/Proofs/DistStatus.v theories/Model/DistStatus.vio
theories/Proofs/DistStatus.vos theories/Proofs/DistStatus.vok theories/Proofs/DistStatus.required_vos: theories/Proofs/DistStatus.v theories/Model/DistStatus.vos
theories/Proofs/Extract.vo theories/Proofs/Extract.glob theories/Proofs/Extract.v.beautified theories/Proofs/Extract.required_vo: theories/Proofs/Extract.v theories/Base/Sx.vo theories/Model/FsModel.vo theories/Model/Extract.vo theories/Proofs/FsModel.vo
theories/Proofs/Extract.vio: theories/Proofs/Extract.v theories/Base/Sx.vio theories/Model/FsModel.vio theories/Model/Extract.vio theories/Proofs/FsModel.vio
theories/Proofs/Extract.vos theories/Proofs/Extract.vok theories/Proofs/Extract.required_vos: theories/Proofs/Extract.v theories/Base/Sx.vos theories/Model/FsModel.vos theories/Model/Extract.vos theories/Proofs/FsModel.vos
theories/Proofs/FsModel.vo theories/Proofs/FsModel.glob theories/Proofs/FsModel.v.beautified theories/Proofs/FsModel.required_vo: theories/Proofs/FsModel.v theories/Base/Sx.vo theories/Model/FsModel.vo
theories/Proofs/FsModel.vio: theories/Proofs/FsModel.v theories/Base/Sx.vio theories/Model/FsModel.vio
theories/Proofs/FsModel.vos theories/Proofs/FsModel.vok theories/Proofs/FsModel.required_vos: theories/Proofs/FsModel.v theories/Base/Sx.vos theories/Model/FsModel.vos
theories/Proofs/HitModel.vo theories/Proofs/HitModel.glob theories/Proofs/HitModel.v.beautified theories/Proofs/HitModel.required_vo: theories/Proofs/HitModel.v theories/Base/Sx.vo theories/Model/Lru.vo theories/Proofs/Lru.vo theories/Model/HitModel.vo
theories/Proofs/HitModel.vio: theories/Proofs/HitModel.v theories/Base/Sx.vio theories/Model/Lru.vio theories/Proofs/Lru.vio theories/Model/HitModel.vio
theories/Proofs/HitModel.vos theories/Proofs/HitModel.vok theories/Proofs/HitModel.required_vos: theories/Proofs/HitModel.v theories/Base/Sx.vos theories/Model/Lru.vos theories/Proofs/Lru.vos theories/Model/HitModel.vos
theories/Proofs/Jobserver.vo theories/Proofs/Jobserver.glob theories/Proofs/Jobserver.v.beautified theories/Proofs/Jobserver.required_vo: theories/Proofs/Jobserver.v theories/Model/Jobserver.vo
theories/Proofs/Jobserver.vio: theories/Proofs/Jobserver.v theories/Model/Jobserver.vio
theories/Proofs/Jobserver.vos theories/Proofs/Jobserver.vok theories/Proofs/Jobserver.required_vos: theories/Proofs/Jobserver.v theories/Model/Jobserver.vos
theories/Proofs/KeyEnc.vo theories/Proofs/KeyEnc.glob theories/Proofs/KeyEnc.v.beautified theories/Proofs/KeyEnc.required_vo: theories/Proofs/KeyEnc.v theories/Base/Sx.vo theories/Model/KeyEnc.vo
theories/Proofs/KeyEnc.vio: theories/Proofs/KeyEnc.v theories/Base/Sx.vio theories/Model/KeyEnc.vio
theories/Proofs/KeyEnc.vos theories/Proofs/KeyEnc.vok theories/Proofs/KeyEnc.required_vos: theories/Proofs/KeyEnc.v theories/Base/Sx.vos theories/Model/KeyEnc.vos
theories/Proofs/KeyEncSpec.vo theories/Proofs/KeyEncSpec.glob theories/Proofs/KeyEncSpec.v.beautified theories/Proofs/KeyEncSpec.required_vo: theories/Proofs/KeyEncSpec.v theories/Base/Sx.vo theories/Model/KeyEnc.vo theories/Proofs/KeyEnc.vo theories/Gen/C02HashSpec.vo theories/Gen/C02HashSpec_ok.vo
theories/Proofs/KeyEncSpec.vio: theories/Proofs/KeyEncSpec.v theories/Base/Sx.vio theories/Model/KeyEnc.vio theories/Proofs/KeyEnc.vio theories/Gen/C02HashSpec.vio theories/Gen/C02HashSpec_ok.vio
theories/Proofs/KeyEncSpec.vos theories/Proofs/KeyEncSpec.vok theories/Proofs/KeyEncSpec.required_vos: theories/Proofs/KeyEncSpec.v theories/Base/Sx.vos theories/Model/KeyEnc.vos theories/Proofs/KeyEnc.vos theories/Gen/C02HashSpec.vos theories/Gen/C02HashSpec_ok.vos
theories/Proofs/LineMarker.vo theories/Proofs/LineMarker.glob theories/Proofs/LineMarker.v.beautified theories/Proofs/LineMarker.required_vo: theories/Proofs/LineMarker.v theories/Base/Sx.vo theories/Gen/C04Consts.vo theories/Model/PpPaths.vo theories/Model/TimeMacro.vo theories/Model/PpCache.vo theories/Model/LineMarker.vo theories/Proofs/TimeMacro.vo
theories/Proofs/LineMarker.vio: theories/Proofs/LineMarker.v theories/Base/Sx.vio theories/Gen/C04Consts.vio theories/Model/PpPaths.vio theories/Model/TimeMacro.vio theories/Model/PpCache.vio theories/Model/LineMarker.vio theories/Proofs/TimeMacro.vio
theories/Proofs/LineMarker.vos theories/Proofs/LineMarker.vok theories/Proofs/LineMarker.required_vos: theories/Proofs/LineMarker.v theories/Base/Sx.vos theories/Gen/C04Consts.vos theories/Model/PpPaths.vos theories/Model/TimeMacro.vos theories/Model/PpCache.vos theories/Model/LineMarker.vos theories/Proofs/TimeMacro.vos
theories/Proofs/LockOrder.vo theories/Proofs/LockOrder.glob theories/Proofs/LockOrder.v.beautified theories/Proofs/LockOrder.required_vo: theories/Proofs/LockOrder.v theories/Model/LockOrder.vo
theories/Proofs/LockOrder.vio: theories/Proofs/LockOrder.v theories/Model/LockOrder.vio
theories/Proofs/LockOrder.vos theories/Proofs/LockOrder.vok theories/Proofs/LockOrder.required_vos: theories/Proofs/LockOrder.v theories/Model/LockOrder.vos
theories/Proofs/Lru.vo theories/Proofs/Lru.glob theories/Proofs/Lru.v.beautified theories/Proofs/Lru.required_vo: theories/Proofs/Lru.v theories/Base/Sx.vo theories/Model/Lru.vo
theories/Proofs/Lru.vio: theories/Proofs/Lru.v theories/Base/Sx.vio theories/Model/Lru.vio
theories/Proofs/Lru.vos theories/Proofs/Lru.vok theories/Proofs/Lru.required_vos: theories/Proofs/Lru.v theories/Base/Sx.vos theories/Model/Lru.vos
theories/Proofs/LruPut.vo theories/Proofs/LruPut.glob theories/Proofs/LruPut.v.beautified theories/Proofs/LruPut.required_vo: theories/Proofs/LruPut.v theories/Base/Sx.vo theories/Model/Lru.vo theories/Model/LruPut.vo theories/Proofs/Lru.vo
theories/Proofs/LruPut.vio: theories/Proofs/LruPut.v theories/Base/Sx.vio theories/Model/Lru.vio theories/Model/LruPut.vio theories/Proofs/Lru.vio
theories/Proofs/LruPut.vos theories/Proofs/LruPut.vok theories/Proofs/LruPut.required_vos: theories/Proofs/LruPut.v theories/Base/Sx.vos theories/Model/Lru.vos theories/Model/LruPut.vos theories/Proofs/Lru.vos
theories/Proofs/Paths.vo theories/Proofs/Paths.glob theories/Proofs/Paths.v.beautified theories/Proofs/Paths.required_vo: theories/Proofs/Paths.v theories/Base/Sx.vo theories/Model/Paths.vo
theories/Proofs/Paths.vio: theories/Proofs/Paths.v theories/Base/Sx.vio theories/Model/Paths.vio
theories/Proofs/Paths.vos theories/Proofs/Paths.vok theories/Proofs/Paths.required_vos: theories/Proofs/Paths.v theories/Base/Sx.vos theories/Model/Paths.vos
theories/Proofs/PpCache.vo theories/Proofs/PpCache.glob theories/Proofs/PpCache.v.beautified theories/Proofs/PpCache.required_vo: theories/Proofs/PpCache.v theories/Base/Sx.vo theories/Gen/C04Consts.vo theories/Model/TimeMacro.vo theories/Model/PpCache.vo theories/Proofs/TimeMacro.vo
theories/Proofs/PpCache.vio: theories/Proofs/PpCache.v theories/Base/Sx.vio theories/Gen/C04Consts.vio theories/Model/TimeMacro.vio theories/Model/PpCache.vio theories/Proofs/TimeMacro.vio
theories/Proofs/PpCache.vos theories/Proofs/PpCache.vok theories/Proofs/PpCache.required_vos: theories/Proofs/PpCache.v theories/Base/Sx.vos theories/Gen/C04Consts.vos theories/Model/TimeMacro.vos theories/Model/PpCache.vos theories/Proofs/TimeMacro.vos
theories/Proofs/PpTimeline.vo theories/Proofs/PpTimeline.glob theories/Proofs/PpTimeline.v.beautified theories/Proofs/PpTimeline.required_vo: theories/Proofs/PpTimeline.v theories/Base/Sx.vo theories/Gen/C04Consts.vo theories/Model/PpPaths.vo theories/Model/TimeMacro.vo theories/Model/PpCache.vo theories/Model/PpTimeline.vo theories/Proofs/TimeMacro.vo theories/Proofs/PpCache.vo
theories/Proofs/PpTimeline.vio: theories/Proofs/PpTimeline.v theories/Base/Sx.vio theories/Gen/C04Consts.vio theories/Model/PpPaths.vio theories/Model/TimeMacro.vio theories/Model/PpCache.vio theories/Model/PpTimeline.vio theories/Proofs/TimeMacro.vio theories/Proofs/PpCache.vio
theories/Proofs/PpTimeline.vos theories/Proofs/PpTimeline.vok theories/Proofs/PpTimeline.required_vos: theories/Proofs/PpTimeline.v theories/Base/Sx.vos theories/Gen/C04Consts.vos theories/Model/PpPaths.vos theories/Model/TimeMacro.vos theories/Model/PpCache.vos theories/Model/PpTimeline.vos theories/Proofs/TimeMacro.vos theories/Proofs/PpCache.vos
theories/Proofs/ReqSM.vo theories/Proofs/ReqSM.glob theories/Proofs/ReqSM.v.beautified theories/Proofs/ReqSM.required_vo: theories/Proofs/ReqSM.v theories/Base/Sx.vo theories/Model/Stats.vo theories/Model/ReqSM.vo
theories/Proofs/ReqSM.vio: theories/Proofs/ReqSM.v theories/Base/Sx.vio theories/Model/Stats.vio theories/Model/ReqSM.vio
theories/Proofs/ReqSM.vos theories/Proofs/ReqSM.vok theories/Proofs/ReqSM.required_vos: theories/Proofs/ReqSM.v theories/Base/Sx.vos theories/Model/Stats.vos theories/Model/ReqSM.vos
theories/Proofs/RoCache.vo theories/Proofs/RoCache.glob theories/Proofs/RoCache.v.beautified theories/Proofs/RoCache.required_vo: theories/Proofs/RoCache.v theories/Base/Sx.vo theories/Model/Lru.vo theories/Model/RoCache.vo
theories/Proofs/RoCache.vio: theories/Proofs/RoCache.v theories/Base/Sx.vio theories/Model/Lru.vio theories/Model/RoCache.vio
theories/Proofs/RoCache.vos theories/Proofs/RoCache.vok theories/Proofs/RoCache.required_vos: theories/Proofs/RoCache.v theories/Base/Sx.vos theories/Model/Lru.vos theories/Model/RoCache.vos
theories/Proofs/RoConc.vo theories/Proofs/RoConc.glob theories/Proofs/RoConc.v.beautified theories/Proofs/RoConc.required_vo: theories/Proofs/RoConc.v theories/Base/Sx.vo theories/Model/Lru.vo theories/Model/RoCache.vo theories/Model/RoConc.vo theories/Proofs/RoCache.vo
theories/Proofs/RoConc.vio: theories/Proofs/RoConc.v theories/Base/Sx.vio theories/Model/Lru.vio theories/Model/RoCache.vio theories/Model/RoConc.vio theories/Proofs/RoCache.vio
theories/Proofs/RoConc.vos theories/Proofs/RoConc.vok theories/Proofs/RoConc.required_vos: theories/Proofs/RoConc.v theories/Base/Sx.vos theories/Model/Lru.vos theories/Model/RoCache.vos theories/Model/RoConc.vos theories/Proofs/RoCache.vos
theories/Proofs/RustArgs.vo theories/Proofs/RustArgs.glob theories/Proofs/RustArgs.v.beautified theories/Proofs/RustArgs.required_vo: theories/Proofs/RustArgs.v theories/Base/Sx.vo theories/Model/RustPath.vo theories/Model/RustArgs.vo theories/Gen/C05ArgTable.vo
theories/Proofs/RustArgs.vio: theories/Proofs/RustArgs.v theories/Base/Sx.vio theories/Model/RustPath.vio theories/Model/RustArgs.vio theories/Gen/C05ArgTable.vio
theories/Proofs/RustArgs.vos theories/Proofs/RustArgs.vok theories/Proofs/RustArgs.required_vos: theories/Proofs/RustArgs.v theories/Base/Sx.vos theories/Model/RustPath.vos theories/Model/RustArgs.vos theories/Gen/C05ArgTable.vos
theories/Proofs/RustKey.vo theories/Proofs/RustKey.glob theories/Proofs/RustKey.v.beautified theories/Proofs/RustKey.required_vo: theories/Proofs/RustKey.v theories/Base/Sx.vo theories/Model/RustPath.vo theories/Model/DepInfo.vo theories/Model/RustArgs.vo theories/Model/RustKey.vo theories/Gen/C05HashSpec.vo
theories/Proofs/RustKey.vio: theories/Proofs/RustKey.v theories/Base/Sx.vio theories/Model/RustPath.vio theories/Model/DepInfo.vio theories/Model/RustArgs.vio theories/Model/RustKey.vio theories/Gen/C05HashSpec.vio
theories/Proofs/RustKey.vos theories/Proofs/RustKey.vok theories/Proofs/RustKey.required_vos: theories/Proofs/RustKey.v theories/Base/Sx.vos theories/Model/RustPath.vos theories/Model/DepInfo.vos theories/Model/RustArgs.vos theories/Model/RustKey.vos theories/Gen/C05HashSpec.vos
theories/Proofs/RustToolchain.vo theories/Proofs/RustToolchain.glob theories/Proofs/RustToolchain.v.beautified theories/Proofs/RustToolchain.required_vo: theories/Proofs/RustToolchain.v theories/Model/RustToolchain.vo
theories/Proofs/RustToolchain.vio: theories/Proofs/RustToolchain.v theories/Model/RustToolchain.vio
theories/Proofs/RustToolchain.vos theories/Proofs/RustToolchain.vok theories/Proofs/RustToolchain.required_vos: theories/Proofs/RustToolchain.v theories/Model/RustToolchain.vos
theories/Proofs/Scheduler.vo theories/Proofs/Scheduler.glob theories/Proofs/Scheduler.v.beautified theories/Proofs/Scheduler.required_vo: theories/Proofs/Scheduler.v theories/Base/Sx.vo theories/Gen/C18Consts.vo theories/Model/Scheduler.vo
theories/Proofs/Scheduler.vio: theories/Proofs/Scheduler.v theories/Base/Sx.vio theories/Gen/C18Consts.vio theories/Model/Scheduler.vio
theories/Proofs/Scheduler.vos theories/Proofs/Scheduler.vok theories/Proofs/Scheduler.required_vos: theories/Proofs/Scheduler.v theories/Base/Sx.vos theories/Gen/C18Consts.vos theories/Model/Scheduler.vos
theories/Proofs/ServerLife.vo theories/Proofs/ServerLife.glob theories/Proofs/ServerLife.v.beautified theories/Proofs/ServerLife.required_vo: theories/Proofs/ServerLife.v theories/Model/ServerLife.vo
theories/Proofs/ServerLife.vio: theories/Proofs/ServerLife.v theories/Model/ServerLife.vio
theories/Proofs/ServerLife.vos theories/Proofs/ServerLife.vok theories/Proofs/ServerLife.required_vos: theories/Proofs/ServerLife.v theories/Model/ServerLife.vos
theories/Proofs/Startup.vo theories/Proofs/Startup.glob theories/Proofs/Startup.v.beautified theories/Proofs/Startup.required_vo: theories/Proofs/Startup.v theories/Model/Startup.vo
theories/Proofs/Startup.vio: theories/Proofs/Startup.v theories/Model/Startup.vio
theories/Proofs/Startup.vos theories/Proofs/Startup.vok theories/Proofs/Startup.required_vos: theories/Proofs/Startup.v theories/Model/Startup.vos
theories/Proofs/Stats.vo theories/Proofs/Stats.glob theories/Proofs/Stats.v.beautified theories/Proofs/Stats.required_vo: theories/Proofs/Stats.v theories/Model/Stats.vo
theories/Proofs/Stats.vio: theories/Proofs/Stats.v theories/Model/Stats.vio
theories/Proofs/Stats.vos theories/Proofs/Stats.vok theories/Proofs/Stats.required_vos: theories/Proofs/Stats.v theories/Model/Stats.vos
theories/Proofs/TcCache.vo theories/Proofs/TcCache.glob theories/Proofs/TcCache.v.beautified theories/Proofs/TcCache.required_vo: theories/Proofs/TcCache.v theories/Base/Sx.vo theories/Model/Lru.vo theories/Model/TcCache.vo
theories/Proofs/TcCache.vio: theories/Proofs/TcCache.v theories/Base/Sx.vio theories/Model/Lru.vio theories/Model/TcCache.vio
theories/Proofs/TcCache.vos theories/Proofs/TcCache.vok theories/Proofs/TcCache.required_vos: theories/Proofs/TcCache.v theories/Base/Sx.vos theories/Model/Lru.vos theories/Model/TcCache.vos
theories/Proofs/TimeMacro.vo theories/Proofs/TimeMacro.glob theories/Proofs/TimeMacro.v.beautified theories/Proofs/TimeMacro.required_vo: theories/Proofs/TimeMacro.v theories/Base/Sx.vo theories/Gen/C04Consts.vo theories/Model/TimeMacro.vo
theories/Proofs/TimeMacro.vio: theories/Proofs/TimeMacro.v theories/Base/Sx.vio theories/Gen/C04Consts.vio theories/Model/TimeMacro.vio
theories/Proofs/TimeMacro.vos theories/Proofs/TimeMacro.vok theories/Proofs/TimeMacro.required_vos: theories/Proofs/TimeMacro.v theories/Base/Sx.vos theories/Gen/C04Consts.vos theories/Model/TimeMacro.vos
theories/Proofs/Zip.vo theories/Proofs/Zip.glob theories/Proofs/Zip.v.beautified theories/Proofs/Zip.required_vo: theories/Proofs/Zip.v theories/Model/Crc32.vo theories/Model/Zip.vo theories/Proofs/Crc32.vo theories/Proofs/ZipBase.vo
theories/Proofs/Zip.vio: theories/Proofs/Zip.v theories/Model/Crc32.vio theories/Model/Zip.vio theories/Proofs/Crc32.vio theories/Proofs/ZipBase.vio
theories/Proofs/Zip.vos theories/Proofs/Zip.vok theories/Proofs/Zip.required_vos: theories/Proofs/Zip.v theories/Model/Crc32.vos theories/Model/Zip.vos theories/Proofs/Crc32.vos theories/Proofs/ZipBase.vos
theories/Proofs/ZipBase.vo theories/Proofs/ZipBase.glob theories/Proofs/ZipBase.v.beautified theories/Proofs/ZipBase.required_vo: theories/Proofs/ZipBase.v theories/Model/Crc32.vo theories/Model/Zip.vo
theories/Proofs/ZipBase.vio: theories/Proofs/ZipBase.v theories/Model/Crc32.vio theories/Model/Zip.vio
theories/Proofs/ZipBase.vos theories/Proofs/ZipBase.vok theories/Proofs/ZipBase.required_vos: theories/Proofs/ZipBase.v theories/Model/Crc32.vos theories/Model/Zip.vos
theories/Properties/C01.vo theories/Properties/C01.glob theories/Properties/C01.v.beautified theories/Properties/C01.required_vo: theories/Properties/C01.v theories/Base/Sx.vo theories/Model/ArgTypes.vo theories/Model/Args.vo theories/Gen/C01ArgTables.vo theories/Model/ArgsInst.vo theories/Proofs/Args.vo theories/Proofs/ArgTables.vo theories/Model/Stats.vo theories/Model/ReqSM.vo theories/Proofs/ReqSM.vo theories/Proofs/ArgsReq.vo
theories/Properties/C01.vio: theories/Properties/C01.v theories/Base/Sx.vio theories/Model/ArgTypes.vio theories/Model/Args.vio theories/Gen/C01ArgTables.vio theories/Model/ArgsInst.vio theories/Proofs/Args.vio theories/Proofs/ArgTables.vio theories/Model/Stats.vio theories/Model/ReqSM.vio theories/Proofs/ReqSM.vio theories/Proofs/ArgsReq.vio
theories/Properties/C01.vos theories/Properties/C01.vok theories/Properties/C01.required_vos: theories/Properties/C01.v theories/Base/Sx.vos theories/Model/ArgTypes.vos theories/Model/Args.vos theories/Gen/C01ArgTables.vos theories/Model/ArgsInst.vos theories/Proofs/Args.vos theories/Proofs/ArgTables.vos theories/Model/Stats.vos theories/Model/ReqSM.vos theories/Proofs/ReqSM.vos theories/Proofs/ArgsReq.vos
theories/Properties/C02.vo theories/Properties/C02.glob theories/Properties/C02.v.beautified theories/Properties/C02.required_vo: theories/Properties/C02.v theories/Base/Sx.vo theories/Model/KeyEnc.vo theories/Proofs/KeyEnc.vo theories/Proofs/KeyEncSpec.vo theories/Gen/C02HashSpec.vo theories/Gen/C02HashSpec_ok.vo
theories/Properties/C02.vio: theories/Properties/C02.v theories/Base/Sx.vio theories/Model/KeyEnc.vio theories/Proofs/KeyEnc.vio theories/Proofs/KeyEncSpec.vio theories/Gen/C02HashSpec.vio theories/Gen/C02HashSpec_ok.vio
theories/Properties/C02.vos theories/Properties/C02.vok theories/Properties/C02.required_vos: theories/Properties/C02.v theories/Base/Sx.vos theories/Model/KeyEnc.vos theories/Proofs/KeyEnc.vos theories/Proofs/KeyEncSpec.vos theories/Gen/C02HashSpec.vos theories/Gen/C02HashSpec_ok.vos
theories/Properties/C03.vo theories/Properties/C03.glob theories/Properties/C03.v.beautified theories/Properties/C03.required_vo: theories/Properties/C03.v theories/Base/Sx.vo theories/Model/Lru.vo theories/Model/HitModel.vo theories/Proofs/Lru.vo theories/Proofs/HitModel.vo
theories/Properties/C03.vio: theories/Properties/C03.v theories/Base/Sx.vio theories/Model/Lru.vio theories/Model/HitModel.vio theories/Proofs/Lru.vio theories/Proofs/HitModel.vio
theories/Properties/C03.vos theories/Properties/C03.vok theories/Properties/C03.required_vos: theories/Properties/C03.v theories/Base/Sx.vos theories/Model/Lru.vos theories/Model/HitModel.vos theories/Proofs/Lru.vos theories/Proofs/HitModel.vos
theories/Properties/C04.vo theories/Properties/C04.glob theories/Properties/C04.v.beautified theories/Properties/C04.required_vo: theories/Properties/C04.v theories/Base/Sx.vo theories/Gen/C04Consts.vo theories/Model/PpPaths.vo theories/Model/TimeMacro.vo theories/Model/PpCache.vo theories/Model/LineMarker.vo theories/Model/PpTimeline.vo theories/Proofs/TimeMacro.vo theories/Proofs/PpCache.vo theories/Proofs/LineMarker.vo theories/Proofs/PpTimeline.vo theories/Run/C04.vo
theories/Properties/C04.vio: theories/Properties/C04.v theories/Base/Sx.vio theories/Gen/C04Consts.vio theories/Model/PpPaths.vio theories/Model/TimeMacro.vio theories/Model/PpCache.vio theories/Model/LineMarker.vio theories/Model/PpTimeline.vio theories/Proofs/TimeMacro.vio theories/Proofs/PpCache.vio theories/Proofs/LineMarker.vio theories/Proofs/PpTimeline.vio theories/Run/C04.vio
theories/Properties/C04.vos theories/Properties/C04.vok theories/Properties/C04.required_vos: theories/Properties/C04.v theories/Base/Sx.vos theories/Gen/C04Consts.vos theories/Model/PpPaths.vos theories/Model/TimeMacro.vos theories/Model/PpCache.vos theories/Model/LineMarker.vos theories/Model/PpTimeline.vos theories/Proofs/TimeMacro.vos theories/Proofs/PpCache.vos theories/Proofs/LineMarker.vos theories/Proofs/PpTimeline.vos theories/Run/C04.vos
theories/Properties/C05.vo theories/Properties/C05.glob theories/Properties/C05.v.beautified theories/Properties/C05.required_vo: theories/Properties/C05.v theories/Base/Sx.vo theories/Model/RustPath.vo theories/Model/DepInfo.vo theories/Model/RustArgs.vo theories/Model/RustKey.vo theories/Gen/C05HashSpec.vo theories/Gen/C05ArgTable.vo theories/Proofs/DepInfo.vo theories/Proofs/RustKey.vo theories/Proofs/RustArgs.vo
theories/Properties/C05.vio: theories/Properties/C05.v theories/Base/Sx.vio theories/Model/RustPath.vio theories/Model/DepInfo.vio theories/Model/RustArgs.vio theories/Model/RustKey.vio theories/Gen/C05HashSpec.vio theories/Gen/C05ArgTable.vio theories/Proofs/DepInfo.vio theories/Proofs/RustKey.vio theories/Proofs/RustArgs.vio
theories/Properties/C05.vos theories/Properties/C05.vok theories/Properties/C05.required_vos: theories/Properties/C05.v theories/Base/Sx.vos theories/Model/RustPath.vos theories/Model/DepInfo.vos theories/Model/RustArgs.vos theories/Model/RustKey.vos theories/Gen/C05HashSpec.vos theories/Gen/C05ArgTable.vos theories/Proofs/DepInfo.vos theories/Proofs/RustKey.vos theories/Proofs/RustArgs.vos
theories/Properties/C06.vo theories/Properties/C06.glob theories/Properties/C06.v.beautified theories/Properties/C06.required_vo: theories/Properties/C06.v theories/Base/Sx.vo theories/Model/Lru.vo theories/Model/DiskCache.vo theories/Model/DiskTree.vo theories/Proofs/DiskCache.vo theories/Proofs/DiskTree.vo theories/Model/RoCache.vo
theories/Properties/C06.vio: theories/Properties/C06.v theories/Base/Sx.vio theories/Model/Lru.vio theories/Model/DiskCache.vio theories/Model/DiskTree.vio theories/Proofs/DiskCache.vio theories/Proofs/DiskTree.vio theories/Model/RoCache.vio
theories/Properties/C06.vos theories/Properties/C06.vok theories/Properties/C06.required_vos: theories/Properties/C06.v theories/Base/Sx.vos theories/Model/Lru.vos theories/Model/DiskCache.vos theories/Model/DiskTree.vos theories/Proofs/DiskCache.vos theories/Proofs/DiskTree.vos theories/Model/RoCache.vos
theories/Properties/C07.vo theories/Properties/C07.glob theories/Properties/C07.v.beautified theories/Properties/C07.required_vo: theories/Properties/C07.v theories/Base/Sx.vo theories/Model/Lru.vo theories/Model/LruPut.vo theories/Proofs/Lru.vo theories/Proofs/LruPut.vo
theories/Properties/C07.vio: theories/Properties/C07.v theories/Base/Sx.vio theories/Model/Lru.vio theories/Model/LruPut.vio theories/Proofs/Lru.vio theories/Proofs/LruPut.vio
theories/Properties/C07.vos theories/Properties/C07.vok theories/Properties/C07.required_vos: theories/Properties/C07.v theories/Base/Sx.vos theories/Model/Lru.vos theories/Model/LruPut.vos theories/Proofs/Lru.vos theories/Proofs/LruPut.vos
theories/Properties/C08.vo theories/Properties/C08.glob theories/Properties/C08.v.beautified theories/Properties/C08.required_vo: theories/Properties/C08.v theories/Model/Crc32.vo theories/Model/Zip.vo theories/Proofs/Crc32.vo theories/Proofs/ZipBase.vo theories/Proofs/Zip.vo
theories/Properties/C08.vio: theories/Properties/C08.v theories/Model/Crc32.vio theories/Model/Zip.vio theories/Proofs/Crc32.vio theories/Proofs/ZipBase.vio theories/Proofs/Zip.vio
theories/Properties/C08.vos theories/Properties/C08.vok theories/Properties/C08.required_vos: theories/Properties/C08.v theories/Model/Crc32.vos theories/Model/Zip.vos theories/Proofs/Crc32.vos theories/Proofs/ZipBase.vos theories/Proofs/Zip.vos
theories/Properties/C09.vo theories/Properties/C09.glob theories/Properties/C09.v.beautified theories/Properties/C09.required_vo: theories/Properties/C09.v theories/Base/Sx.vo theories/Model/Stats.vo theories/Model/ReqSM.vo theories/Proofs/ReqSM.vo
theories/Properties/C09.vio: theories/Properties/C09.v theories/Base/Sx.vio theories/Model/Stats.vio theories/Model/ReqSM.vio theories/Proofs/ReqSM.vio
theories/Properties/C09.vos theories/Properties/C09.vok theories/Properties/C09.required_vos: theories/Properties/C09.v theories/Base/Sx.vos theories/Model/Stats.vos theories/Model/ReqSM.vos theories/Proofs/ReqSM.vos
theories/Properties/C10.vo theories/Properties/C10.glob theories/Properties/C10.v.beautified theories/Properties/C10.required_vo: theories/Properties/C10.v theories/Base/Sx.vo theories/Model/FsModel.vo theories/Model/Extract.vo theories/Proofs/FsModel.vo theories/Proofs/Extract.vo
theories/Properties/C10.vio: theories/Properties/C10.v theories/Base/Sx.vio theories/Model/FsModel.vio theories/Model/Extract.vio theories/Proofs/FsModel.vio theories/Proofs/Extract.vio
theories/Properties/C10.vos theories/Properties/C10.vok theories/Properties/C10.required_vos: theories/Properties/C10.v theories/Base/Sx.vos theories/Model/FsModel.vos theories/Model/Extract.vos theories/Proofs/FsModel.vos theories/Proofs/Extract.vos
theories/Properties/C11.vo theories/Properties/C11.glob theories/Properties/C11.v.beautified theories/Properties/C11.required_vo: theories/Properties/C11.v theories/Model/Client.vo theories/Proofs/Client.vo
theories/Properties/C11.vio: theories/Properties/C11.v theories/Model/Client.vio theories/Proofs/Client.vio
theories/Properties/C11.vos theories/Properties/C11.vok theories/Properties/C11.required_vos: theories/Properties/C11.v theories/Model/Client.vos theories/Proofs/Client.vos
theories/Properties/C12.vo theories/Properties/C12.glob theories/Properties/C12.v.beautified theories/Properties/C12.required_vo: theories/Properties/C12.v theories/Model/CompilerCache.vo theories/Proofs/CompilerCache.vo theories/Model/RustToolchain.vo theories/Proofs/RustToolchain.vo
theories/Properties/C12.vio: theories/Properties/C12.v theories/Model/CompilerCache.vio theories/Proofs/CompilerCache.vio theories/Model/RustToolchain.vio theories/Proofs/RustToolchain.vio
theories/Properties/C12.vos theories/Properties/C12.vok theories/Properties/C12.required_vos: theories/Properties/C12.v theories/Model/CompilerCache.vos theories/Proofs/CompilerCache.vos theories/Model/RustToolchain.vos theories/Proofs/RustToolchain.vos
theories/Properties/C13.vo theories/Properties/C13.glob theories/Properties/C13.v.beautified theories/Properties/C13.required_vo: theories/Properties/C13.v theories/Base/Sx.vo theories/Model/DistStatus.vo theories/Model/DistFallback.vo theories/Model/DistArgs.vo theories/Model/DistHistory.vo theories/Model/DistRustInputs.vo theories/Model/DistPaths.vo theories/Proofs/DistStatus.vo theories/Proofs/DistFallback.vo theories/Proofs/DistArgs.vo theories/Proofs/DistHistory.vo theories/Proofs/DistRustInputs.vo theories/Proofs/DistPaths.vo
theories/Properties/C13.vio: theories/Properties/C13.v theories/Base/Sx.vio theories/Model/DistStatus.vio theories/Model/DistFallback.vio theories/Model/DistArgs.vio theories/Model/DistHistory.vio theories/Model/DistRustInputs.vio theories/Model/DistPaths.vio theories/Proofs/DistStatus.vio theories/Proofs/DistFallback.vio theories/Proofs/DistArgs.vio theories/Proofs/DistHistory.vio theories/Proofs/DistRustInputs.vio theories/Proofs/DistPaths.vio
theories/Properties/C13.vos theories/Properties/C13.vok theories/Properties/C13.required_vos: theories/Properties/C13.v theories/Base/Sx.vos theories/Model/DistStatus.vos theories/Model/DistFallback.vos theories/Model/DistArgs.vos theories/Model/DistHistory.vos theories/Model/DistRustInputs.vos theories/Model/DistPaths.vos theories/Proofs/DistStatus.vos theories/Proofs/DistFallback.vos theories/Proofs/DistArgs.vos theories/Proofs/DistHistory.vos theories/Proofs/DistRustInputs.vos theories/Proofs/DistPaths.vos
theories/Properties/C14.vo theories/Properties/C14.glob theories/Properties/C14.v.beautified theories/Properties/C14.required_vo: theories/Properties/C14.v theories/Base/Sx.vo theories/Model/Stats.vo theories/Model/ReqSM.vo theories/Model/ReqSMExt.vo theories/Proofs/Stats.vo theories/Proofs/ReqSM.vo
theories/Properties/C14.vio: theories/Properties/C14.v theories/Base/Sx.vio theories/Model/Stats.vio theories/Model/ReqSM.vio theories/Model/ReqSMExt.vio theories/Proofs/Stats.vio theories/Proofs/ReqSM.vio
theories/Properties/C14.vos theories/Properties/C14.vok theories/Properties/C14.required_vos: theories/Properties/C14.v theories/Base/Sx.vos theories/Model/Stats.vos theories/Model/ReqSM.vos theories/Model/ReqSMExt.vos theories/Proofs/Stats.vos theories/Proofs/ReqSM.vos
theories/Properties/C15.vo theories/Properties/C15.glob theories/Properties/C15.v.beautified theories/Properties/C15.required_vo: theories/Properties/C15.v theories/Base/Sx.vo theories/Model/Lru.vo theories/Model/RoCache.vo theories/Model/RoConc.vo theories/Model/DiskConfig.vo theories/Proofs/RoCache.vo theories/Proofs/RoConc.vo theories/Proofs/DiskConfig.vo
theories/Properties/C15.vio: theories/Properties/C15.v theories/Base/Sx.vio theories/Model/Lru.vio theories/Model/RoCache.vio theories/Model/RoConc.vio theories/Model/DiskConfig.vio theories/Proofs/RoCache.vio theories/Proofs/RoConc.vio theories/Proofs/DiskConfig.vio
theories/Properties/C15.vos theories/Properties/C15.vok theories/Properties/C15.required_vos: theories/Properties/C15.v theories/Base/Sx.vos theories/Model/Lru.vos theories/Model/RoCache.vos theories/Model/RoConc.vos theories/Model/DiskConfig.vos theories/Proofs/RoCache.vos theories/Proofs/RoConc.vos theories/Proofs/DiskConfig.vos
theories/Properties/C16.vo theories/Properties/C16.glob theories/Properties/C16.v.beautified theories/Properties/C16.required_vo: theories/Properties/C16.v theories/Model/Jobserver.vo theories/Proofs/Jobserver.vo
theories/Properties/C16.vio: theories/Properties/C16.v theories/Model/Jobserver.vio theories/Proofs/Jobserver.vio
theories/Properties/C16.vos theories/Properties/C16.vok theories/Properties/C16.required_vos: theories/Properties/C16.v theories/Model/Jobserver.vos theories/Proofs/Jobserver.vos
theories/Properties/C17.vo theories/Properties/C17.glob theories/Properties/C17.v.beautified theories/Properties/C17.required_vo: theories/Properties/C17.v theories/Base/Sx.vo theories/Model/Lru.vo theories/Model/TcCache.vo theories/Proofs/TcCache.vo
theories/Properties/C17.vio: theories/Properties/C17.v theories/Base/Sx.vio theories/Model/Lru.vio theories/Model/TcCache.vio theories/Proofs/TcCache.vio
theories/Properties/C17.vos theories/Properties/C17.vok theories/Properties/C17.required_vos: theories/Properties/C17.v theories/Base/Sx.vos theories/Model/Lru.vos theories/Model/TcCache.vos theories/Proofs/TcCache.vos
theories/Properties/C18.vo theories/Properties/C18.glob theories/Properties/C18.v.beautified theories/Properties/C18.required_vo: theories/Properties/C18.v theories/Base/Sx.vo theories/Gen/C18Consts.vo theories/Model/Scheduler.vo theories/Proofs/Scheduler.vo
theories/Properties/C18.vio: theories/Properties/C18.v theories/Base/Sx.vio theories/Gen/C18Consts.vio theories/Model/Scheduler.vio theories/Proofs/Scheduler.vio
theories/Properties/C18.vos theories/Properties/C18.vok theories/Properties/C18.required_vos: theories/Properties/C18.v theories/Base/Sx.vos theories/Gen/C18Consts.vos theories/Model/Scheduler.vos theories/Proofs/Scheduler.vos
theories/Properties/C18Locks.vo theories/Properties/C18Locks.glob theories/Properties/C18Locks.v.beautified theories/Properties/C18Locks.required_vo: theories/Properties/C18Locks.v theories/Model/LockOrder.vo theories/Gen/C18Consts.vo theories/Gen/C18Locks.vo theories/Model/Scheduler.vo theories/Proofs/LockOrder.vo
theories/Properties/C18Locks.vio: theories/Properties/C18Locks.v theories/Model/LockOrder.vio theories/Gen/C18Consts.vio theories/Gen/C18Locks.vio theories/Model/Scheduler.vio theories/Proofs/LockOrder.vio
theories/Properties/C18Locks.vos theories/Properties/C18Locks.vok theories/Properties/C18Locks.required_vos: theories/Properties/C18Locks.v theories/Model/LockOrder.vos theories/Gen/C18Consts.vos theories/Gen/C18Locks.vos theories/Model/Scheduler.vos theories/Proofs/LockOrder.vos
theories/Properties/C19.vo theories/Properties/C19.glob theories/Properties/C19.v.beautified theories/Properties/C19.required_vo: theories/Properties/C19.v theories/Base/Sx.vo theories/Model/Paths.vo theories/Proofs/Paths.vo
theories/Properties/C19.vio: theories/Properties/C19.v theories/Base/Sx.vio theories/Model/Paths.vio theories/Proofs/Paths.vio
theories/Properties/C19.vos theories/Properties/C19.vok theories/Properties/C19.required_vos: theories/Properties/C19.v theories/Base/Sx.vos theories/Model/Paths.vos theories/Proofs/Paths.vos
theories/Properties/C20.vo theories/Properties/C20.glob theories/Properties/C20.v.beautified theories/Properties/C20.required_vo: theories/Properties/C20.v theories/Model/Startup.vo theories/Model/ServerLife.vo theories/Proofs/Startup.vo theories/Proofs/ServerLife.vo
theories/Properties/C20.vio: theories/Properties/C20.v theories/Model/Startup.vio theories/Model/ServerLife.vio theories/Proofs/Startup.vio theories/Proofs/ServerLife.vio
theories/Properties/C20.vos theories/Properties/C20.vok theories/Properties/C20.required_vos: theories/Properties/C20.v theories/Model/Startup.vos theories/Model/ServerLife.vos theories/Proofs/Startup.vos theories/Proofs/ServerLife.vos
theories/Properties/Composition.vo theories/Properties/Composition.glob theories/Properties/Composition.v.beautified theories/Properties/Composition.required_vo: theories/Properties/Composition.v theories/Base/Sx.vo theories/Gen/C04Consts.vo theories/Model/PpPaths.vo theories/Model/TimeMacro.vo theories/Model/PpCache.vo theories/Proofs/TimeMacro.vo theories/Proofs/PpCache.vo theories/Model/KeyEnc.vo theories/Proofs/KeyEnc.vo theories/Gen/C02HashSpec.vo theories/Model/Stats.vo theories/Model/ReqSM.vo theories/Proofs/ReqSM.vo theories/Model/Lru.vo theories/Model/HitModel.vo theories/Proofs/HitModel.vo theories/Model/DiskCache.vo theories/Proofs/DiskCache.vo theories/Proofs/Lru.vo theories/Proofs/ComposePpLocal.vo theories/Proofs/ComposeC04.vo theories/Proofs/ComposeC09.vo theories/Proofs/ComposeC03.vo theories/Proofs/ComposeStore.vo theories/Proofs/ComposeEx.vo
theories/Properties/Composition.vio: theories/Properties/Composition.v theories/Base/Sx.vio theories/Gen/C04Consts.vio theories/Model/PpPaths.vio theories/Model/TimeMacro.vio theories/Model/PpCache.vio theories/Proofs/TimeMacro.vio theories/Proofs/PpCache.vio theories/Model/KeyEnc.vio theories/Proofs/KeyEnc.vio theories/Gen/C02HashSpec.vio theories/Model/Stats.vio theories/Model/ReqSM.vio theories/Proofs/ReqSM.vio theories/Model/Lru.vio theories/Model/HitModel.vio theories/Proofs/HitModel.vio theories/Model/DiskCache.vio theories/Proofs/DiskCache.vio theories/Proofs/Lru.vio theories/Proofs/ComposePpLocal.vio theories/Proofs/ComposeC04.vio theories/Proofs/ComposeC09.vio theories/Proofs/ComposeC03.vio theories/Proofs/ComposeStore.vio theories/Proofs/ComposeEx.vio
theories/Properties/Composition.vos theories/Properties/Composition.vok theories/Properties/Composition.required_vos: theories/Properties/Composition.v theories/Base/Sx.vos theories/Gen/C04Consts.vos theories/Model/PpPaths.vos theories/Model/TimeMacro.vos theories/Model/PpCache.vos theories/Proofs/TimeMacro.vos theories/Proofs/PpCache.vos theories/Model/KeyEnc.vos theories/Proofs/KeyEnc.vos theories/Gen/C02HashSpec.vos theories/Model/Stats.vos theories/Model/ReqSM.vos theories/Proofs/ReqSM.vos theories/Model/Lru.vos theories/Model/HitModel.vos theories/Proofs/HitModel.vos theories/Model/DiskCache.vos theories/Proofs/DiskCache.vos theories/Proofs/Lru.vos theories/Proofs/ComposePpLocal.vos theories/Proofs/ComposeC04.vos theories/Proofs/ComposeC09.vos theories/Proofs/ComposeC03.vos theories/Proofs/ComposeStore.vos theories/Proofs/ComposeEx.vos
theories/Run/C01.vo theories/Run/C01.glob theories/Run/C01.v.beautified theories/Run/C01.required_vo: theories/Run/C01.v theories/Base/Sx.vo theories/Model/ArgTypes.vo theories/Model/Args.vo theories/Gen/C01ArgTables.vo theories/Model/ArgsInst.vo theories/Model/EntryBytes.vo
theories/Run/C01.vio: theories/Run/C01.v theories/Base/Sx.vio theories/Model/ArgTypes.vio theories/Model/Args.vio theories/Gen/C01ArgTables.vio theories/Model/ArgsInst.vio theories/Model/EntryBytes.vio
theories/Run/C01.vos theories/Run/C01.vok theories/Run/C01.required_vos: theories/Run/C01.v theories/Base/Sx.vos theories/Model/ArgTypes.vos theories/Model/Args.vos theories/Gen/C01ArgTables.vos theories/Model/ArgsInst.vos theories/Model/EntryBytes.vos
theories/Run/C02.vo theories/Run/C02.glob theories/Run/C02.v.beautified theories/Run/C02.required_vo: theories/Run/C02.v theories/Base/Sx.vo theories/Model/KeyEnc.vo theories/Gen/C02HashSpec.vo
theories/Run/C02.vio: theories/Run/C02.v theories/Base/Sx.vio theories/Model/KeyEnc.vio theories/Gen/C02HashSpec.vio
theories/Run/C02.vos theories/Run/C02.vok theories/Run/C02.required_vos: theories/Run/C02.v theories/Base/Sx.vos theories/Model/KeyEnc.vos theories/Gen/C02HashSpec.vos
theories/Run/C03.vo theories/Run/C03.glob theories/Run/C03.v.beautified theories/Run/C03.required_vo: theories/Run/C03.v theories/Base/Sx.vo theories/Model/Lru.vo theories/Model/HitModel.vo
theories/Run/C03.vio: theories/Run/C03.v theories/Base/Sx.vio theories/Model/Lru.vio theories/Model/HitModel.vio
theories/Run/C03.vos theories/Run/C03.vok theories/Run/C03.required_vos: theories/Run/C03.v theories/Base/Sx.vos theories/Model/Lru.vos theories/Model/HitModel.vos
theories/Run/C04.vo theories/Run/C04.glob theories/Run/C04.v.beautified theories/Run/C04.required_vo: theories/Run/C04.v theories/Base/Sx.vo theories/Gen/C04Consts.vo theories/Model/TimeMacro.vo theories/Model/PpCache.vo theories/Model/LineMarker.vo
theories/Run/C04.vio: theories/Run/C04.v theories/Base/Sx.vio theories/Gen/C04Consts.vio theories/Model/TimeMacro.vio theories/Model/PpCache.vio theories/Model/LineMarker.vio
theories/Run/C04.vos theories/Run/C04.vok theories/Run/C04.required_vos: theories/Run/C04.v theories/Base/Sx.vos theories/Gen/C04Consts.vos theories/Model/TimeMacro.vos theories/Model/PpCache.vos theories/Model/LineMarker.vos
theories/Run/C05.vo theories/Run/C05.glob theories/Run/C05.v.beautified theories/Run/C05.required_vo: theories/Run/C05.v theories/Base/Sx.vo theories/Model/RustPath.vo theories/Model/DepInfo.vo theories/Model/RustArgs.vo theories/Model/RustKey.vo theories/Gen/C05HashSpec.vo theories/Gen/C05ArgTable.vo
theories/Run/C05.vio: theories/Run/C05.v theories/Base/Sx.vio theories/Model/RustPath.vio theories/Model/DepInfo.vio theories/Model/RustArgs.vio theories/Model/RustKey.vio theories/Gen/C05HashSpec.vio theories/Gen/C05ArgTable.vio
theories/Run/C05.vos theories/Run/C05.vok theories/Run/C05.required_vos: theories/Run/C05.v theories/Base/Sx.vos theories/Model/RustPath.vos theories/Model/DepInfo.vos theories/Model/RustArgs.vos theories/Model/RustKey.vos theories/Gen/C05HashSpec.vos theories/Gen/C05ArgTable.vos
theories/Run/C06.vo theories/Run/C06.glob theories/Run/C06.v.beautified theories/Run/C06.required_vo: theories/Run/C06.v theories/Base/Sx.vo theories/Model/Lru.vo theories/Model/DiskCache.vo theories/Model/DiskTree.vo theories/Model/RoCache.vo
theories/Run/C06.vio: theories/Run/C06.v theories/Base/Sx.vio theories/Model/Lru.vio theories/Model/DiskCache.vio theories/Model/DiskTree.vio theories/Model/RoCache.vio
theories/Run/C06.vos theories/Run/C06.vok theories/Run/C06.required_vos: theories/Run/C06.v theories/Base/Sx.vos theories/Model/Lru.vos theories/Model/DiskCache.vos theories/Model/DiskTree.vos theories/Model/RoCache.vos
theories/Run/C07.vo theories/Run/C07.glob theories/Run/C07.v.beautified theories/Run/C07.required_vo: theories/Run/C07.v theories/Base/Sx.vo theories/Model/Lru.vo theories/Model/LruPut.vo
theories/Run/C07.vio: theories/Run/C07.v theories/Base/Sx.vio theories/Model/Lru.vio theories/Model/LruPut.vio
theories/Run/C07.vos theories/Run/C07.vok theories/Run/C07.required_vos: theories/Run/C07.v theories/Base/Sx.vos theories/Model/Lru.vos theories/Model/LruPut.vos
theories/Run/C08.vo theories/Run/C08.glob theories/Run/C08.v.beautified theories/Run/C08.required_vo: theories/Run/C08.v theories/Base/Sx.vo theories/Model/Crc32.vo theories/Model/Zip.vo
theories/Run/C08.vio: theories/Run/C08.v theories/Base/Sx.vio theories/Model/Crc32.vio theories/Model/Zip.vio
theories/Run/C08.vos theories/Run/C08.vok theories/Run/C08.required_vos: theories/Run/C08.v theories/Base/Sx.vos theories/Model/Crc32.vos theories/Model/Zip.vos
theories/Run/C09.vo theories/Run/C09.glob theories/Run/C09.v.beautified theories/Run/C09.required_vo: theories/Run/C09.v theories/Base/Sx.vo theories/Model/Stats.vo theories/Model/ReqSM.vo theories/Model/ReqSMExt.vo
theories/Run/C09.vio: theories/Run/C09.v theories/Base/Sx.vio theories/Model/Stats.vio theories/Model/ReqSM.vio theories/Model/ReqSMExt.vio
theories/Run/C09.vos theories/Run/C09.vok theories/Run/C09.required_vos: theories/Run/C09.v theories/Base/Sx.vos theories/Model/Stats.vos theories/Model/ReqSM.vos theories/Model/ReqSMExt.vos
theories/Run/C10.vo theories/Run/C10.glob theories/Run/C10.v.beautified theories/Run/C10.required_vo: theories/Run/C10.v theories/Base/Sx.vo theories/Model/FsModel.vo theories/Model/Extract.vo
theories/Run/C10.vio: theories/Run/C10.v theories/Base/Sx.vio theories/Model/FsModel.vio theories/Model/Extract.vio
theories/Run/C10.vos theories/Run/C10.vok theories/Run/C10.required_vos: theories/Run/C10.v theories/Base/Sx.vos theories/Model/FsModel.vos theories/Model/Extract.vos
theories/Run/C11.vo theories/Run/C11.glob theories/Run/C11.v.beautified theories/Run/C11.required_vo: theories/Run/C11.v theories/Base/Sx.vo theories/Model/Client.vo
theories/Run/C11.vio: theories/Run/C11.v theories/Base/Sx.vio theories/Model/Client.vio
theories/Run/C11.vos theories/Run/C11.vok theories/Run/C11.required_vos: theories/Run/C11.v theories/Base/Sx.vos theories/Model/Client.vos
theories/Run/C12.vo theories/Run/C12.glob theories/Run/C12.v.beautified theories/Run/C12.required_vo: theories/Run/C12.v theories/Base/Sx.vo theories/Model/CompilerCache.vo theories/Model/RustToolchain.vo theories/Gen/C12Window.vo
theories/Run/C12.vio: theories/Run/C12.v theories/Base/Sx.vio theories/Model/CompilerCache.vio theories/Model/RustToolchain.vio theories/Gen/C12Window.vio
theories/Run/C12.vos theories/Run/C12.vok theories/Run/C12.required_vos: theories/Run/C12.v theories/Base/Sx.vos theories/Model/CompilerCache.vos theories/Model/RustToolchain.vos theories/Gen/C12Window.vos
theories/Run/C13.vo theories/Run/C13.glob theories/Run/C13.v.beautified theories/Run/C13.required_vo: theories/Run/C13.v theories/Base/Sx.vo theories/Model/DistStatus.vo theories/Model/DistFallback.vo theories/Model/DistArgs.vo theories/Model/DistHistory.vo theories/Model/DistRustInputs.vo theories/Model/DistPaths.vo
theories/Run/C13.vio: theories/Run/C13.v theories/Base/Sx.vio theories/Model/DistStatus.vio theories/Model/DistFallback.vio theories/Model/DistArgs.vio theories/Model/DistHistory.vio theories/Model/DistRustInputs.vio theories/Model/DistPaths.vio
theories/Run/C13.vos theories/Run/C13.vok theories/Run/C13.required_vos: theories/Run/C13.v theories/Base/Sx.vos theories/Model/DistStatus.vos theories/Model/DistFallback.vos theories/Model/DistArgs.vos theories/Model/DistHistory.vos theories/Model/DistRustInputs.vos theories/Model/DistPaths.vos
theories/Run/C14.vo theories/Run/C14.glob theories/Run/C14.v.beautified theories/Run/C14.required_vo: theories/Run/C14.v theories/Base/Sx.vo theories/Run/C09.vo
theories/Run/C14.vio: theories/Run/C14.v theories/Base/Sx.vio theories/Run/C09.vio
theories/Run/C14.vos theories/Run/C14.vok theories/Run/C14.required_vos: theories/Run/C14.v theories/Base/Sx.vos theories/Run/C09.vos
theories/Run/C15.vo theories/Run/C15.glob theories/Run/C15.v.beautified theories/Run/C15.required_vo: theories/Run/C15.v theories/Base/Sx.vo theories/Model/Lru.vo theories/Model/RoCache.vo theories/Model/RoConc.vo theories/Model/DiskConfig.vo
theories/Run/C15.vio: theories/Run/C15.v theories/Base/Sx.vio theories/Model/Lru.vio theories/Model/RoCache.vio theories/Model/RoConc.vio theories/Model/DiskConfig.vio
theories/Run/C15.vos theories/Run/C15.vok theories/Run/C15.required_vos: theories/Run/C15.v theories/Base/Sx.vos theories/Model/Lru.vos theories/Model/RoCache.vos theories/Model/RoConc.vos theories/Model/DiskConfig.vos
theories/Run/C16.vo theories/Run/C16.glob theories/Run/C16.v.beautified theories/Run/C16.required_vo: theories/Run/C16.v theories/Base/Sx.vo theories/Model/Jobserver.vo
theories/Run/C16.vio: theories/Run/C16.v theories/Base/Sx.vio theories/Model/Jobserver.vio
theories/Run/C16.vos theories/Run/C16.vok theories/Run/C16.required_vos: theories/Run/C16.v theories/Base/Sx.vos theories/Model/Jobserver.vos
theories/Run/C17.vo theories/Run/C17.glob theories/Run/C17.v.beautified theories/Run/C17.required_vo: theories/Run/C17.v theories/Base/Sx.vo theories/Model/Lru.vo theories/Model/TcCache.vo
theories/Run/C17.vio: theories/Run/C17.v theories/Base/Sx.vio theories/Model/Lru.vio theories/Model/TcCache.vio
theories/Run/C17.vos theories/Run/C17.vok theories/Run/C17.required_vos: theories/Run/C17.v theories/Base/Sx.vos theories/Model/Lru.vos theories/Model/TcCache.vos
theories/Run/C18.vo theories/Run/C18.glob theories/Run/C18.v.beautified theories/Run/C18.required_vo: theories/Run/C18.v theories/Base/Sx.vo theories/Gen/C18Consts.vo theories/Model/Scheduler.vo
theories/Run/C18.vio: theories/Run/C18.v theories/Base/Sx.vio theories/Gen/C18Consts.vio theories/Model/Scheduler.vio
theories/Run/C18.vos theories/Run/C18.vok theories/Run/C18.required_vos: theories/Run/C18.v theories/Base/Sx.vos theories/Gen/C18Consts.vos theories/Model/Scheduler.vos
theories/Run/C19.vo theories/Run/C19.glob theories/Run/C19.v.beautified theories/Run/C19.required_vo: theories/Run/C19.v theories/Base/Sx.vo theories/Model/Paths.vo
theories/Run/C19.vio: theories/Run/C19.v theories/Base/Sx.vio theories/Model/Paths.vio
theories/Run/C19.vos theories/Run/C19.vok theories/Run/C19.required_vos: theories/Run/C19.v theories/Base/Sx.vos theories/Model/Paths.vos
theories/Run/C20.vo theories/Run/C20.glob theories/Run/C20.v.beautified theories/Run/C20.required_vo: theories/Run/C20.v theories/Base/Sx.vo theories/Model/Startup.vo theories/Model/ServerLife.vo
theories/Run/C20.vio: theories/Run/C20.v theories/Base/Sx.vio theories/Model/Startup.vio theories/Model/ServerLife.vio
theories/Run/C20.vos theories/Run/C20.vok theories/Run/C20.required_vos: theories/Run/C20.v theories/Base/Sx.vos theories/Model/Startup.vos theories/Model/ServerLife.vos
