theories/Base/Sx.vo theories/Base/Sx.glob theories/Base/Sx.v.beautified theories/Base/Sx.required_vo: theories/Base/Sx.v 
theories/Base/Sx.vio: theories/Base/Sx.v 
theories/Base/Sx.vos theories/Base/Sx.vok theories/Base/Sx.required_vos: theories/Base/Sx.v 
theories/Gen/C07Consts.vo theories/Gen/C07Consts.glob theories/Gen/C07Consts.v.beautified theories/Gen/C07Consts.required_vo: theories/Gen/C07Consts.v 
theories/Gen/C07Consts.vio: theories/Gen/C07Consts.v 
theories/Gen/C07Consts.vos theories/Gen/C07Consts.vok theories/Gen/C07Consts.required_vos: theories/Gen/C07Consts.v 
theories/Gen/C07Consts_ok.vo theories/Gen/C07Consts_ok.glob theories/Gen/C07Consts_ok.v.beautified theories/Gen/C07Consts_ok.required_vo: theories/Gen/C07Consts_ok.v theories/Model/Lru.vo theories/Gen/C07Consts.vo
theories/Gen/C07Consts_ok.vio: theories/Gen/C07Consts_ok.v theories/Model/Lru.vio theories/Gen/C07Consts.vio
theories/Gen/C07Consts_ok.vos theories/Gen/C07Consts_ok.vok theories/Gen/C07Consts_ok.required_vos: theories/Gen/C07Consts_ok.v theories/Model/Lru.vos theories/Gen/C07Consts.vos
theories/Model/Lru.vo theories/Model/Lru.glob theories/Model/Lru.v.beautified theories/Model/Lru.required_vo: theories/Model/Lru.v theories/Base/Sx.vo
theories/Model/Lru.vio: theories/Model/Lru.v theories/Base/Sx.vio
theories/Model/Lru.vos theories/Model/Lru.vok theories/Model/Lru.required_vos: theories/Model/Lru.v theories/Base/Sx.vos
theories/Model/TcCache.vo theories/Model/TcCache.glob theories/Model/TcCache.v.beautified theories/Model/TcCache.required_vo: theories/Model/TcCache.v theories/Base/Sx.vo theories/Model/Lru.vo
theories/Model/TcCache.vio: theories/Model/TcCache.v theories/Base/Sx.vio theories/Model/Lru.vio
theories/Model/TcCache.vos theories/Model/TcCache.vok theories/Model/TcCache.required_vos: theories/Model/TcCache.v theories/Base/Sx.vos theories/Model/Lru.vos
theories/Proofs/Lru.vo theories/Proofs/Lru.glob theories/Proofs/Lru.v.beautified theories/Proofs/Lru.required_vo: theories/Proofs/Lru.v theories/Base/Sx.vo theories/Model/Lru.vo
theories/Proofs/Lru.vio: theories/Proofs/Lru.v theories/Base/Sx.vio theories/Model/Lru.vio
theories/Proofs/Lru.vos theories/Proofs/Lru.vok theories/Proofs/Lru.required_vos: theories/Proofs/Lru.v theories/Base/Sx.vos theories/Model/Lru.vos
theories/Properties/C07.vo theories/Properties/C07.glob theories/Properties/C07.v.beautified theories/Properties/C07.required_vo: theories/Properties/C07.v 
theories/Properties/C07.vio: theories/Properties/C07.v 
theories/Properties/C07.vos theories/Properties/C07.vok theories/Properties/C07.required_vos: theories/Properties/C07.v 
theories/Run/C07.vo theories/Run/C07.glob theories/Run/C07.v.beautified theories/Run/C07.required_vo: theories/Run/C07.v theories/Base/Sx.vo theories/Model/Lru.vo
theories/Run/C07.vio: theories/Run/C07.v theories/Base/Sx.vio theories/Model/Lru.vio
theories/Run/C07.vos theories/Run/C07.vok theories/Run/C07.required_vos: theories/Run/C07.v theories/Base/Sx.vos theories/Model/Lru.vos
theories/Run/C17.vo theories/Run/C17.glob theories/Run/C17.v.beautified theories/Run/C17.required_vo: theories/Run/C17.v theories/Base/Sx.vo theories/Model/Lru.vo theories/Model/TcCache.vo
theories/Run/C17.vio: theories/Run/C17.v theories/Base/Sx.vio theories/Model/Lru.vio theories/Model/TcCache.vio
theories/Run/C17.vos theories/Run/C17.vok theories/Run/C17.required_vos: theories/Run/C17.v theories/Base/Sx.vos theories/Model/Lru.vos theories/Model/TcCache.vos
