(* Sx.v — the universal case/result datatype shared by every model, the extracted
   OCaml driver, the Rust harness and the python orchestration.

   Text form (one value per line):
     123            SN 123
     #68690a        SB [0x68;0x69;0x0a]        (# alone = empty byte string)
     insert         SB (ASCII bytes of "insert")   identifiers [A-Za-z_][A-Za-z0-9_./+-]*
     ( a b c )      SL [a;b;c]
*)
From Coq Require Import List NArith Ascii String Bool.
Import ListNotations.
Local Open Scope N_scope.

Inductive sx : Type :=
| SN (n : N)
| SB (b : list N)
| SL (l : list sx).

(* ASCII bytes of a Coq string literal, as list N *)
Fixpoint bs (s : string) : list N :=
  match s with
  | EmptyString => []
  | String c r => N_of_ascii c :: bs r
  end.

Fixpoint bytes_eqb (a b : list N) : bool :=
  match a, b with
  | [], [] => true
  | x :: a', y :: b' => N.eqb x y && bytes_eqb a' b'
  | _, _ => false
  end.

Lemma bytes_eqb_eq a b : bytes_eqb a b = true <-> a = b.
Proof.
  revert b; induction a as [|x a IH]; intros [|y b]; simpl; split; intro H;
    try reflexivity; try discriminate.
  - apply andb_true_iff in H as [H1 H2]. apply N.eqb_eq in H1. apply IH in H2. congruence.
  - inversion H; subst. apply andb_true_iff; split; [apply N.eqb_refl | apply IH; reflexivity].
Qed.

Lemma bytes_eqb_refl a : bytes_eqb a a = true.
Proof. apply bytes_eqb_eq; reflexivity. Qed.

Definition sym (s : string) : sx := SB (bs s).
Definition is_sym (s : string) (x : sx) : bool :=
  match x with SB b => bytes_eqb b (bs s) | _ => false end.

Definition sbool (b : bool) : sx := SN (if b then 1 else 0).
Definition snat (n : nat) : sx := SN (N.of_nat n).
Definition sopt {A} (f : A -> sx) (o : option A) : sx :=
  match o with None => SL [] | Some a => SL [f a] end.

Definition get_N (x : sx) : N := match x with SN n => n | _ => 0 end.
Definition get_B (x : sx) : list N := match x with SB b => b | _ => [] end.
Definition get_L (x : sx) : list sx := match x with SL l => l | _ => [] end.
Definition get_bool (x : sx) : bool := negb (N.eqb (get_N x) 0).

Definition err (s : string) : sx := SL [sym "model_error"; sym s].
