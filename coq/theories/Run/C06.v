(* Run/C06.v — Sx codec around Model/DiskTree.v (both stores of DiskCache over one tree) for the
   correspondence check.
   leg disk:
     case   = ( cap order ( init ... ) ( thread ... ) ( tid ... ) [ ( key ... ) ] )
              the optional last list names keys whose shard directory <root>/x/y is a mount point: the final
              rename of every put into such a shard fails
     init   = ( main key pid plen elen mtime )   entry file of the result store at make_key_path key
            | ( pp   key pid plen elen mtime )   entry file of the nested store at preprocessor/a/b/c/key
            | ( raw  path pid plen elen mtime )  any other file, path relative to the cache root
                                                 (leftover temp files at any depth)
     thread = ( put key pid plen elen nchunks fail ) | ( get key )
            | ( pp_put key pid plen elen nchunks )   | ( pp_get key )
              (fail = 1: the write fails after elen/2 bytes, written in nchunks pieces, and the call abandons)
     order  = 0: the observations look up the result store first, 1: the nested store first
     result = ( ( r ... ) OBS OBS )    first OBS through the live cache after the schedule, second through
                                       a fresh DiskCache on the directory (the server died and was restarted)
     OBS    = ( main-lookup ... ) ( pp-lookup ... ) ntmp size main-index pp-index      (flattened)
              ntmp = temp files anywhere in the tree; size = current_size (result store);
              index = none | ( ( path size ) ... ) sorted by path, paths relative to the cache root
   The entry stored by `put key pid plen elen` is elen bytes, all equal to pid (the real entry is elen
   bytes determined by (pid, plen)); a lookup is ( hit pid ) when it returns exactly such an entry
   declared for that key of that store. *)
From Coq Require Import List NArith Bool.
From Coq Require String.
Import String.StringSyntax.
From Sccache Require Import Base.Sx Model.Lru Model.DiskCache Model.DiskTree.
From Sccache Require Model.RoCache.
Import ListNotations.
Local Open Scope N_scope.
Local Open Scope string_scope.

Definition value (pid elen : N) : list N := repeat pid (N.to_nat elen).

(* nchunks pieces: total/nchunks bytes each, the remainder with the last *)
Fixpoint split_chunks (v : list N) (q : nat) (n : nat) : list (list N) :=
  match n with
  | O => [v]
  | S n' => firstn q v :: split_chunks (skipn q v) q n'
  end.

Definition chunks_of (pid elen nch : N) (fail : bool) : list (list N) :=
  let nch := if nch =? 0 then 1 else nch in
  let total := if fail then elen / 2 else elen in
  split_chunks (value pid total) (N.to_nat (total / nch)) (N.to_nat nch - 1).

(* declared entries: (key, pid, elen), per store *)
Definition decl := (list N * N * N)%type.

Inductive ikind := IMain | IPp | IRaw.

Definition dec_init (x : sx) : ikind * list N * N * N * N :=
  match x with
  | SL [t; k; pid; _; elen; mt] =>
      ((if is_sym "main" t then IMain else if is_sym "pp" t then IPp else IRaw),
       get_B k, get_N pid, get_N elen, get_N mt)
  | _ => (IRaw, [], 0, 0, 0)
  end.

Definition init_path (kd : ikind) (k : list N) : key :=
  match kd with IMain => make_key_path k | IPp => RoCache.pp_path k | IRaw => k end.

Definition mk_disk (init : list (ikind * list N * N * N * N)) : disk :=
  fold_left (fun d e =>
               let '(kd, k, pid, elen, mt) := e in
               let p := init_path kd k in
               {| d_files := ains p (elen, mt) (d_files d);
                  d_dir := (p, d_next_ino d) :: aremove p (d_dir d);
                  d_inodes := d_inodes d ++ [(d_next_ino d, value pid elen)];
                  d_tmps := [];
                  d_next_ino := d_next_ino d + 1;
                  d_next_h := 0; d_clock := 1000 |})
            init
            {| d_files := []; d_dir := []; d_inodes := []; d_tmps := []; d_next_ino := 0;
               d_next_h := 0; d_clock := 1000 |}.

(* thread, and what it declares: inl = result store, inr = nested store *)
Definition same_shard (a b : list N) : bool := bytes_eqb (firstn 2 a) (firstn 2 b).

Definition dec_thread (nr : list (list N)) (x : sx) : option (tthread * option (decl + decl)) :=
  match x with
  | SL [t; k; pid; _; elen; nch; fl] =>
      if is_sym "put" t then
        Some ((if existsb (same_shard (get_B k)) nr then TMainNR else TMain)
                (TPut (make_key_path (get_B k)) (get_N elen)
                      (chunks_of (get_N pid) (get_N elen) (get_N nch) (get_bool fl)) (get_bool fl)),
              Some (inl (get_B k, get_N pid, get_N elen)))
      else None
  | SL [t; k; pid; _; elen; nch] =>
      if is_sym "pp_put" t then
        Some (TPpPut (RoCache.pp_path (get_B k)) (chunks_of (get_N pid) (get_N elen) (get_N nch) false),
              Some (inr (get_B k, get_N pid, get_N elen)))
      else None
  | SL [t; k] =>
      if is_sym "get" t then Some (TMain (TGet (make_key_path (get_B k))), None)
      else if is_sym "pp_get" t then Some (TPpGet (RoCache.pp_path (get_B k)), None)
      else None
  | _ => None
  end.

Fixpoint dec_threads (nr : list (list N)) (l : list sx) : option (list tthread * list decl * list decl) :=
  match l with
  | [] => Some ([], [], [])
  | x :: r =>
      match dec_thread nr x, dec_threads nr r with
      | Some (th, d), Some (ths, ds, ps) =>
          Some (th :: ths,
                match d with Some (inl d) => d :: ds | _ => ds end,
                match d with Some (inr d) => d :: ps | _ => ps end)
      | _, _ => None
      end
  end.

Definition thread_key (x : sx) : list N :=
  match x with SL (_ :: k :: _) => get_B k | _ => [] end.

Definition thread_is_pp (x : sx) : bool :=
  match x with SL (t :: _) => is_sym "pp_put" t || is_sym "pp_get" t | _ => false end.

Fixpoint ins_key (k : list N) (l : list (list N)) : list (list N) :=
  match l with
  | [] => [k]
  | k' :: r => if bytes_eqb k k' then l else if bytes_ltb k k' then k :: l else k' :: ins_key k r
  end.

Fixpoint all_eq (p : N) (v : list N) : bool :=
  match v with [] => true | x :: r => (x =? p) && all_eq p r end.

Definition matches (v : list N) (d : decl) : bool :=
  let '(_, pid, elen) := d in (blen v =? elen) && all_eq pid v.

Definition classify (ds : list decl) (k : list N) (v : list N) : sx :=
  match find (fun d => bytes_eqb (fst (fst d)) k && matches v d) ds with
  | Some (_, pid, _) => SL [sym "hit"; SN pid]
  | None =>
      match find (matches v) ds with
      | Some (_, pid, _) => SL [sym "foreign"; SN pid]
      | None => sym "torn"
      end
  end.

Definition enc_gres (ds : list decl) (k : list N) (r : gres) : sx :=
  match r with
  | GMiss => sym "miss"
  | GHit v => classify ds k v
  | GErr => sym "err"
  end.

Definition enc_pres (r : pres) : sx :=
  match r with POk => sym "ok" | PTooLarge => sym "too_large" | PErr => sym "err" end.

Definition enc_thread (ds ps : list decl) (kx : list N) (th : tthread) : sx :=
  match th with
  | TMain (TPutDone r) | TMainNR (TPutDone r) => enc_pres r
  | TMain (TGetDone _ r) | TMainNR (TGetDone _ r) => enc_gres ds kx r
  | TPpPutDone r => enc_pres r
  | TPpGetDone _ r => enc_gres ps kx r
  | _ => sym "unfinished"
  end.

(* a complete lookup through the live cache *)
Definition lookup (t : tst) (th : tthread) : tst * gres :=
  let '(t1, th1, _) := tstep 0 t th in
  let '(t2, th2, _) := tstep 0 t1 th1 in
  (t2, match th2 with
       | TMain (TGetDone _ r) => r
       | TPpGetDone _ r => r
       | _ => GErr
       end).

Fixpoint observe (pp : bool) (ds : list decl) (t : tst) (ks : list (list N)) : tst * list sx :=
  match ks with
  | [] => (t, [])
  | k :: r =>
      let '(t1, g) := lookup t (if pp then TPpGet (RoCache.pp_path k) else TMain (TGet (make_key_path k))) in
      let '(t2, os) := observe pp ds t1 r in
      (t2, enc_gres ds k g :: os)
  end.

Fixpoint ins_entry (e : key * N) (l : list (key * N)) : list (key * N) :=
  match l with
  | [] => [e]
  | e' :: r => if bytes_ltb (fst e) (fst e') then e :: l else e' :: ins_entry e r
  end.

Definition enc_index (on : bool) (idx : list (key * N)) : sx :=
  if on then SL (map (fun e => SL [SB (fst e); SN (snd e)]) (fold_right ins_entry [] idx))
  else sym "none".

Definition obs6 (order : bool) (ds ps : list decl) (t : tst) (mk pk : list (list N)) : tst * list sx :=
  let '(t2, om, op) :=
    if order then
      let '(t1, op) := observe true ps t pk in
      let '(t2, om) := observe false ds t1 mk in (t2, om, op)
    else
      let '(t1, om) := observe false ds t mk in
      let '(t2, op) := observe true ps t1 pk in (t2, om, op) in
  (t2, [SL om; SL op; snat (temp_count t2);
        if inited (base t2) then SN (size (lru (base t2))) else sym "none";
        enc_index (inited (base t2)) (index (lru (base t2)));
        enc_index (pp_inited t2) (index (pps t2))]).

Definition run_case (c ord : sx) (init ths sched : list sx) (nr : list (list N)) : sx :=
      match dec_threads nr ths with
      | Some (threads, tds, tps) =>
          let ini := map dec_init init in
          let dsel := fun kd => map (fun e => let '(_, k, pid, elen, _) := e in (k, pid, elen))
                                    (filter (fun e => match fst (fst (fst (fst e))), kd with
                                                      | IMain, IMain | IPp, IPp => true | _, _ => false end) ini) in
          let ds := dsel IMain ++ tds in
          let ps := dsel IPp ++ tps in
          let mk := fold_right ins_key []
                      (map (fun d => fst (fst d)) (dsel IMain)
                       ++ map thread_key (filter (fun x => negb (thread_is_pp x)) ths)) in
          let pk := fold_right ins_key []
                      (map (fun d => fst (fst d)) (dsel IPp) ++ map thread_key (filter thread_is_pp ths)) in
          let w := texec (tstart (get_N c) (mk_disk ini) threads) (map (fun t => N.to_nat (get_N t)) sched) in
          let rs := map (fun p => enc_thread ds ps (thread_key (fst p)) (snd p)) (combine ths (twt w)) in
          let '(s1, o1) := obs6 (get_bool ord) ds ps (tws w) mk pk in
          let '(_, o2) := obs6 (get_bool ord) ds ps (trestart (get_N c) s1) mk pk in
          SL (SL rs :: o1 ++ o2)
      | None => err "bad thread"
      end.

Definition run_c06 (x : sx) : sx :=
  match x with
  | SL [c; ord; SL init; SL ths; SL sched] => run_case c ord init ths sched []
  | SL [c; ord; SL init; SL ths; SL sched; SL nr] => run_case c ord init ths sched (map get_B nr)
  (* a 7th field ( i kind m ) is a lock-scope probe for the implementation only: the model's steps are atomic,
     so the steps i+1 .. i+m simply follow step i *)
  | SL [c; ord; SL init; SL ths; SL sched; SL nr; _] => run_case c ord init ths sched (map get_B nr)
  (* an 8th field is the NAME of the cache directory: every path of the model is relative to the cache root and
     LruDiskCache::init walks whatever is below it, so the name cannot matter *)
  | SL [c; ord; SL init; SL ths; SL sched; SL nr; _; _] => run_case c ord init ths sched (map get_B nr)
  | _ => err "bad case"
  end.

Definition run_size (x : sx) : sx := err "size is an implementation-only leg".

Definition dispatch (leg : list N) (x : sx) : sx :=
  if bytes_eqb leg (bs "disk") then run_c06 x
  else if bytes_eqb leg (bs "size") then run_size x
  else err "unknown leg".
