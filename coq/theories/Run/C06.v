(* Run/C06.v — Sx codec around Model/DiskCache.v for the correspondence check.
   leg disk:
     case   = ( cap ( (key pid plen elen mtime) ... ) ( thread ... ) ( tid ... ) )
     thread = ( put key pid plen elen nchunks fail ) | ( get key )
              (fail = 1: the write fails after elen/2 bytes, written in nchunks pieces, and the call abandons)
     result = ( ( r ... ) ( o ... ) ntmp size ( o ... ) ntmp size )
   key is the cache key (hex string); the path is make_key_path key.  An initial file whose
   name starts with '.' is placed in the root under that very name (leftover temp files).
   The entry stored by `put key pid plen elen` is elen bytes, all equal to pid (the real
   entry is a zip of elen bytes around a payload determined by (pid, plen)); a lookup is
   reported as ( hit pid ) when it returns exactly such an entry declared for that key. *)
From Coq Require Import List NArith Bool.
From Coq Require String.
Import String.StringSyntax.
From Sccache Require Import Base.Sx Model.Lru Model.DiskCache.
Import ListNotations.
Local Open Scope N_scope.
Local Open Scope string_scope.

Definition path_of (k : list N) : key :=
  match k with
  | 46 :: _ => k
  | _ => make_key_path k
  end.

Definition value (pid elen : N) : list N := repeat pid (N.to_nat elen).

(* nchunks pieces: elen/nchunks bytes each, the remainder with the last *)
Fixpoint split_chunks (v : list N) (q : nat) (n : nat) : list (list N) :=
  match n with
  | O => [v]
  | S n' => firstn q v :: split_chunks (skipn q v) q n'
  end.

Definition chunks_of (pid elen nch : N) (fail : bool) : list (list N) :=
  let nch := if nch =? 0 then 1 else nch in
  let total := if fail then elen / 2 else elen in
  split_chunks (value pid total) (N.to_nat (total / nch)) (N.to_nat nch - 1).

(* declared entries: (key, pid, elen) *)
Definition decl := (list N * N * N)%type.

Definition dec_init (x : sx) : list N * N * N * N :=
  match x with
  | SL [k; pid; _; elen; mt] => (get_B k, get_N pid, get_N elen, get_N mt)
  | _ => ([], 0, 0, 0)
  end.

Definition mk_disk (init : list (list N * N * N * N)) : disk :=
  fold_left (fun d e =>
               let '(k, pid, elen, mt) := e in
               let p := path_of k in
               {| d_files := ains p (elen, mt) (d_files d);
                  d_dir := (p, d_next_ino d) :: aremove p (d_dir d);
                  d_inodes := d_inodes d ++ [(d_next_ino d, value pid elen)];
                  d_tmps := [];
                  d_next_ino := d_next_ino d + 1;
                  d_next_h := 0; d_clock := 1000 |})
            init
            {| d_files := []; d_dir := []; d_inodes := []; d_tmps := []; d_next_ino := 0;
               d_next_h := 0; d_clock := 1000 |}.

Definition dec_thread (x : sx) : option (thread * option decl) :=
  match x with
  | SL [t; k; pid; _; elen; nch; fl] =>
      if is_sym "put" t then
        Some (TPut (make_key_path (get_B k)) (get_N elen)
                   (chunks_of (get_N pid) (get_N elen) (get_N nch) (get_bool fl)) (get_bool fl),
              Some (get_B k, get_N pid, get_N elen))
      else None
  | SL [t; k] => if is_sym "get" t then Some (TGet (make_key_path (get_B k)), None) else None
  | _ => None
  end.

Fixpoint dec_threads (l : list sx) : option (list thread * list decl) :=
  match l with
  | [] => Some ([], [])
  | x :: r =>
      match dec_thread x, dec_threads r with
      | Some (th, d), Some (ths, ds) =>
          Some (th :: ths, match d with Some d => d :: ds | None => ds end)
      | _, _ => None
      end
  end.

Definition thread_key (x : sx) : list N :=
  match x with SL (_ :: k :: _) => get_B k | _ => [] end.

Fixpoint ins_key (k : list N) (l : list (list N)) : list (list N) :=
  match l with
  | [] => [k]
  | k' :: r => if bytes_eqb k k' then l else if bytes_ltb k k' then k :: l else k' :: ins_key k r
  end.

Fixpoint all_eq (p : N) (v : list N) : bool :=
  match v with [] => true | x :: r => (x =? p) && all_eq p r end.

Definition matches (v : list N) (d : decl) : bool :=
  let '(_, pid, elen) := d in (blen v =? elen) && all_eq pid v.

Definition classify (ds : list decl) (k : list N) (v : list N) : sx :=
  match find (fun d => bytes_eqb (fst (fst d)) k && matches v d) ds with
  | Some (_, pid, _) => SL [sym "hit"; SN pid]
  | None =>
      match find (matches v) ds with
      | Some (_, pid, _) => SL [sym "foreign"; SN pid]
      | None => sym "torn"
      end
  end.

Definition enc_gres (ds : list decl) (k : list N) (r : gres) : sx :=
  match r with
  | GMiss => sym "miss"
  | GHit v => classify ds k v
  | GErr => sym "err"
  end.

Definition enc_pres (r : pres) : sx :=
  match r with POk => sym "ok" | PTooLarge => sym "too_large" | PErr => sym "err" end.

(* key string of a path produced by make_key_path: drop "x/y/" *)
Definition enc_thread (ds : list decl) (kx : list N) (th : thread) : sx :=
  match th with
  | TPutDone r => enc_pres r
  | TGetDone _ r => enc_gres ds kx r
  | _ => sym "unfinished"
  end.

(* a complete lookup through the live cache *)
Definition lookup (s : dst) (p : key) : dst * gres :=
  let '(s1, th1, _) := step_thread 0 s (TGet p) in
  let '(s2, th2, _) := step_thread 0 s1 th1 in
  (s2, match th2 with TGetDone _ r => r | _ => GErr end).

Fixpoint observe (ds : list decl) (s : dst) (ks : list (list N)) : dst * list sx :=
  match ks with
  | [] => (s, [])
  | k :: r =>
      let '(s1, g) := lookup s (make_key_path k) in
      let '(s2, os) := observe ds s1 r in
      (s2, enc_gres ds k g :: os)
  end.

Definition count_temp (fs : list (key * (N * N))) : nat :=
  length (filter (fun e => is_temp (fst e)) fs).

Definition obs3 (ds : list decl) (s : dst) (ks : list (list N)) : dst * list sx :=
  let '(s1, os) := observe ds s ks in
  (s1, [SL os; snat (length (tmps s1) + count_temp (files (lru s1)));
        if inited s1 then SN (size (lru s1)) else sym "none"]).

Definition run_c06 (x : sx) : sx :=
  match x with
  | SL [c; SL init; SL ths; SL sched] =>
      match dec_threads ths with
      | Some (threads, tds) =>
          let ini := map dec_init init in
          let ds := map (fun e => let '(k, pid, elen, _) := e in (k, pid, elen)) ini ++ tds in
          let ks := fold_right ins_key []
                      (filter (fun k => match k with 46 :: _ => false | _ => true end) (map (fun e => fst (fst (fst e))) ini)
                       ++ map thread_key ths) in
          let w := exec (start (get_N c) (mk_disk ini) threads) (map (fun t => N.to_nat (get_N t)) sched) in
          let rs := map (fun p => enc_thread ds (thread_key (fst p)) (snd p)) (combine ths (wt w)) in
          let '(s1, o1) := obs3 ds (ws w) ks in
          let '(_, o2) := obs3 ds (boot (get_N c) (persist s1)) ks in
          SL (SL rs :: o1 ++ o2)
      | None => err "bad thread"
      end
  | _ => err "bad case"
  end.

Definition run_size (x : sx) : sx := err "size is an implementation-only leg".

Definition dispatch (leg : list N) (x : sx) : sx :=
  if bytes_eqb leg (bs "disk") then run_c06 x
  else if bytes_eqb leg (bs "size") then run_size x
  else err "unknown leg".
