(* Run/C03.v — Sx codec around Model/HitModel.v for the correspondence check.

   case   = ( cap ( event ... ) )
   event  = ( req tag lang compiler ( arg ... ) ( (var val) ... ) ( (var val) ... ) cwd ( input ... )
                  ( (role path optional) ... ) ppkey ( pre_ok ok cacheable size ( role ... ) ) )
          | ( delete path ) | ( restart ( (var val) ... ) ) [the new server's environment] | ( idle ) | ( probefail <req fields> ) | ( damage ( req ... ) newsize )   (the entry of that request)
   lang   = c | rust          ppkey = ( ) | ( id )
   arg    = ( h B ) | ( p B ) | ( sd B ) | ( cfg B ) | ( ext path digest ) | ( lp B ) | ( out B ) | ( u B )
   result = ( obs ... )       one per event
   obs    = ( kind compiled pre_ran stored ( (path [content]) ... ) nfiles total )   for a request
          | ( ev nfiles total )                                                      otherwise
   content = tag of the request whose compile step produced the bytes.

   The key function used here is a length-prefixed serialisation of the fingerprint (every symbol
   shifted by 256 so that no '/' or '.' occurs in a key); the compile oracle reads the row carried by the
   request itself (the last component = the roles the compile step writes). *)
From Coq Require Import List NArith Bool.
From Coq Require String.
Import String.StringSyntax.
From Sccache Require Import Base.Sx.
From Sccache Require Import Model.Lru.
From Sccache Require Import Model.HitModel.
Import ListNotations.
Local Open Scope N_scope.
Local Open Scope string_scope.

Definition enc_b (b : bytes) : list N := N.of_nat (length b) :: b.

Definition enc_fp (f : fingerprint) : key :=
  map (fun x => x + 256)
    ([match fp_lang f with LangC => 1 | LangRust => 2 end; fp_compiler f]
     ++ N.of_nat (length (fp_args f)) :: flat_map enc_b (fp_args f)
     ++ N.of_nat (length (fp_env f)) :: flat_map (fun e => enc_b (fst e) ++ enc_b (snd e)) (fp_env f)
     ++ match fp_cwd f with None => [0] | Some c => 1 :: enc_b c end
     ++ N.of_nat (length (fp_inputs f)) :: fp_inputs f).

Definition dec_arg (x : sx) : arg :=
  match x with
  | SL [t; a] =>
      if is_sym "h" t then AHashed (get_B a)
      else if is_sym "p" t then AProfile (get_B a)
      else if is_sym "sd" t then ASplitDwarf (get_B a)
      else if is_sym "cfg" t then ACfg (get_B a)
      else if is_sym "lp" t then ALinkPath (get_B a)
      else if is_sym "out" t then AOutput (get_B a)
      else AUnhashed (get_B a)
  | SL [t; a; d] => if is_sym "ext" t then AExtern (get_B a) (get_N d) else AUnhashed (get_B a)
  | _ => AUnhashed []
  end.

Definition dec_pair (x : sx) : bytes * bytes :=
  match x with SL [a; b] => (get_B a, get_B b) | _ => ([], []) end.

Definition dec_output (x : sx) : output :=
  match x with
  | SL [r; p; o] => {| o_role := get_B r; o_path := get_B p; o_optional := get_bool o |}
  | _ => {| o_role := []; o_path := []; o_optional := true |}
  end.

Record oracle_row := { or_pre_ok : bool; or_ok : bool; or_cacheable : bool; or_size : N; or_written : list bytes }.

Definition dec_req (l : list sx) : option (request * oracle_row) :=
  match l with
  | [tag; lg; comp; SL args; SL env; SL deps; cwd; SL inputs; SL outs; SL pk; SL [p; o; c; sz; SL wr]] =>
      Some ({| rq_tag := get_N tag;
               rq_lang := if is_sym "rust" lg then LangRust else LangC;
               rq_compiler := get_N comp;
               rq_args := map dec_arg args;
               rq_env := map dec_pair env;
               rq_env_deps := map (fun n => (get_B n, [])) deps;
               rq_cwd := get_B cwd;
               rq_inputs := map get_N inputs;
               rq_outputs := map dec_output outs;
               rq_ppkey := match pk with [i] => Some (get_B i) | _ => None end |},
            {| or_pre_ok := get_bool p; or_ok := get_bool o; or_cacheable := get_bool c; or_size := get_N sz;
               or_written := map get_B wr |})
  | _ => None
  end.

Inductive ev := EvReq (r : request) (o : oracle_row) | EvDelete (p : bytes)
  | EvRestart (server_env : list (bytes * bytes)) | EvIdle
  | EvDamage (r : request) (sz : N) | EvProbeFail (r : request) (o : oracle_row) | EvBad.

Definition dec_event (x : sx) : ev :=
  match x with
  | SL (t :: rest) =>
      if is_sym "req" t then match dec_req rest with Some (r, o) => EvReq r o | None => EvBad end
      else if is_sym "delete" t then match rest with [p] => EvDelete (get_B p) | _ => EvBad end
      else if is_sym "damage" t then
        match rest with
        | [SL (_ :: rq); sz] => match dec_req rq with Some (r, _) => EvDamage r (get_N sz) | None => EvBad end
        | _ => EvBad
        end
      else if is_sym "probefail" t then match dec_req rest with Some (r, o) => EvProbeFail r o | None => EvBad end
      else if is_sym "restart" t then
        match rest with [SL env] => EvRestart (map dec_pair env) | _ => EvRestart [] end
      else if is_sym "idle" t then EvIdle
      else EvBad
  | _ => EvBad
  end.

Fixpoint oracle_table (l : list ev) : list (N * oracle_row) :=
  match l with
  | [] => []
  | EvReq r o :: t => (rq_tag r, o) :: oracle_table t
  | EvProbeFail r o :: t => (rq_tag r, o) :: oracle_table t
  | _ :: t => oracle_table t
  end.

Fixpoint nlookup {V} (n : N) (l : list (N * V)) : option V :=
  match l with
  | [] => None
  | (m, v) :: r => if n =? m then Some v else nlookup n r
  end.

(* the compile step of request r writes, for every role listed in its row, bytes identified by r's tag *)
Definition oracle (tbl : list (N * oracle_row)) (r : request) (_ : N) : cresult :=
  match nlookup (rq_tag r) tbl with
  | Some o =>
      {| cr_pre_ok := or_pre_ok o; cr_ok := or_ok o; cr_cacheable := or_cacheable o;
         cr_outs := map (fun x => (x, rq_tag r)) (or_written o);
         cr_size := or_size o |}
  | None => {| cr_pre_ok := false; cr_ok := false; cr_cacheable := false; cr_outs := []; cr_size := 0 |}
  end.

(* the decoded request carries the NAMES of the variables its crate reads (in rq_env_deps, values empty); what the
   server observes for them depends on the environments: [request_in] *)
Definition seen (srv : list (bytes * bytes)) (r : request) : request :=
  request_in srv (map fst (rq_env_deps r)) r.

Definition to_event (srv : list (bytes * bytes)) (e : ev) : option event :=
  match e with
  | EvReq r _ => Some (EReq (seen srv r))
  | EvDelete p => Some (EDelete p)
  | EvRestart _ => Some ERestart
  | EvIdle => Some EIdle
  | EvDamage r sz => Some (EDamage (req_path enc_fp (seen srv r)) sz)
  | EvProbeFail r _ => Some (EProbeFail (seen srv r))
  | EvBad => None
  end.

(* the environment of the running server changes at every restart *)
Fixpoint to_events (srv : list (bytes * bytes)) (l : list ev) : option (list event) :=
  match l with
  | [] => Some []
  | e :: r =>
      let srv' := match e with EvRestart env => env | _ => srv end in
      match to_event srv' e, to_events srv' r with
      | Some x, Some xs => Some (x :: xs)
      | _, _ => None
      end
  end.

Definition enc_kind (k : kind) : sx :=
  match k with
  | KHit => sym "hit"
  | KMiss false => sym "miss"
  | KMiss true => sym "miss_read_error"
  | KCompileFailed => sym "compile_failed"
  | KNotCacheable => sym "not_cacheable"
  | KError => sym "error"
  | KUnsupported => sym "unsupported"
  | KFatal => sym "fatal"
  end.

Definition enc_outs (w : world) (r : request) : sx :=
  SL (map (fun o => match alookup (o_path o) (w_ws w) with
                    | Some c => SL [SB (o_path o); SN c]
                    | None => SL [SB (o_path o)]
                    end) (rq_outputs r)).

Definition enc_obs (x : event * (option outcome * world)) : sx :=
  let '(e, (o, w)) := x in
  let n := snat (length (files (w_store w))) in
  let t := SN (files_size (files (w_store w))) in
  match e, o with
  | EReq r, Some oc | EProbeFail r, Some oc =>
      SL [enc_kind (oc_kind oc); sbool (oc_compiled oc); sbool (oc_pre_ran oc); sbool (oc_stored oc);
          enc_outs w r; n; t]
  | _, _ => SL [sym "ev"; n; t]
  end.

Definition run_c03 (x : sx) : sx :=
  match x with
  | SL [c; SL evs] =>
      let des := map dec_event evs in
      match to_events [] des with
      | Some h =>
          let tr := trace_events enc_fp (oracle (oracle_table des)) (empty_world (get_N c)) h in
          SL (map enc_obs (combine h tr))
      | None => err "bad event"
      end
  | _ => err "bad case"
  end.

Definition dispatch (leg : list N) (x : sx) : sx :=
  if bytes_eqb leg (bs "hist") then run_c03 x else err "unknown leg".
