(* Run/C20.v — Sx codec around Model/Startup.v and Model/ServerLife.v.

   leg "race"  (trace acceptance of a real cold start):
     case   = ( kind retries k stale ( (p i label) ... ) )     kind = tcp | abstract | uds | uds_nolock
                                                               p = c | s | t    (client / server / start-up timer)
     result = ( accepted n (listening ...) (live ...) ( cfinal ... ) )
            | ( rejected idx model_label (listening ...) (live ...) ( cfinal ... ) )
     the model performs the events in the given order and checks after each that the outcome it
     computes (Startup.ev_label) is the one the real process logged.
   leg "sched" (run a bare schedule): case = ( kind retries k stale ( (p i) ... ) ),
     result = ( ( label ... ) quiescent (listening ...) (live ...) ( cfinal ... ) )
   leg "life"  (server life cycle): see below.  *)
From Coq Require Import List NArith Bool.
From Coq Require String.
Import String.StringSyntax.
From Sccache Require Import Base.Sx.
From Sccache Require Import Model.Client.
From Sccache Require Import Model.Startup.
From Sccache Require Import Model.ServerLife.
From Sccache Require Import Model.ServerExit.
From Sccache Require Import Model.MultiAddr.
Import ListNotations.
Local Open Scope N_scope.
Local Open Scope string_scope.

Definition dec_kind (x : sx) : option akind :=
  if is_sym "tcp" x then Some Tcp
  else if is_sym "abstract" x then Some Abstract
  else if is_sym "uds" x then Some (UdsPath true)
  else if is_sym "uds_nolock" x then Some (UdsPath false)
  else None.

Definition dec_ev (x : sx) : option (ev * N) :=
  match x with
  | SL (p :: i :: r) =>
      let l := match r with l :: _ => get_N l | [] => 0 end in
      if is_sym "c" p then Some (EC (get_N i), l)
      else if is_sym "s" p then Some (ES (get_N i), l)
      else if is_sym "t" p then Some (ET (get_N i), l)
      else None
  | _ => None
  end.

Fixpoint dec_evs (l : list sx) : option (list (ev * N)) :=
  match l with
  | [] => Some []
  | x :: r => match dec_ev x, dec_evs r with
              | Some e, Some es => Some (e :: es)
              | _, _ => None
              end
  end.

Definition enc_cl (c : cstate) : sx :=
  match c with
  | CDone j => SL [sym "done"; SN j]
  | CFail FTimeout => SL [sym "fail"; sym "timeout"]
  | CFail FRetry => SL [sym "fail"; sym "retry"]
  | CNone => SL [sym "none"]
  | _ => SL [sym "pending"]
  end.

Definition enc_end (k : N) (s : st) : list sx :=
  [ SL (map SN (filter (fun i => listening (sv s i)) (ids k)));
    SL (map SN (filter (fun i => live (sv s i)) (ids k)));
    SL (map (fun i => enc_cl (cl s i)) (ids k)) ].

(* accept the labelled trace event by event *)
Fixpoint accept (s : st) (es : list (ev * N)) (idx : N) : (option (N * N)) * st :=
  match es with
  | [] => (None, s)
  | (e, l) :: r =>
      let m := ev_label s e in
      if (m =? l) && negb (m =? 0) then accept (step s e) r (idx + 1)
      else (Some (idx, m), s)
  end.

Definition run_race5 (kd r k stale : sx) (es : list sx) : sx :=
  match dec_kind kd, dec_evs es with
  | Some a, Some evs =>
      let s0 := init a (N.to_nat (get_N r)) (get_N k) (get_bool stale) in
      match accept s0 evs 0 with
      | (None, s) => SL (sym "accepted" :: snat (length evs) :: enc_end (get_N k) s)
      | (Some (i, m), s) => SL (sym "rejected" :: SN i :: SN m :: enc_end (get_N k) s)
      end
  | _, _ => err "bad case"
  end.

(* an optional 6th element names the SPELLING of the socket path the run used (plain | symlink | dotdot | dslash):
   the start-up model does not depend on it (C20_started_server_report_proceeds), the replay does *)
Definition run_race (x : sx) : sx :=
  match x with
  | SL [kd; r; k; stale; SL es] => run_race5 kd r k stale es
  | SL [kd; r; k; stale; SL es; _] => run_race5 kd r k stale es
  | _ => err "bad case"
  end.

Fixpoint labels (s : st) (es : list ev) : list N * st :=
  match es with
  | [] => ([], s)
  | e :: r => let '(ls, s') := labels (step s e) r in (ev_label s e :: ls, s')
  end.

Definition run_sched (x : sx) : sx :=
  match x with
  | SL [kd; r; k; stale; SL es] =>
      match dec_kind kd, dec_evs es with
      | Some a, Some evs =>
          let s0 := init a (N.to_nat (get_N r)) (get_N k) (get_bool stale) in
          let '(ls, s) := labels s0 (map fst evs) in
          SL (SL (map SN ls) :: sbool (quiescentb (get_N k) s) :: enc_end (get_N k) s)
      | _, _ => err "bad case"
      end
  | _ => err "bad case"
  end.

(* ---------- leg "life" ----------
   case   = ( T cap ( event ... ) )        times in milliseconds
     event = (tick d) | (accept c) | (request c) | (stop c) | (finish c) | (close c) | (poll) | (wake)
   result = ( phase since-or-at reason ( open connections ... ) ( cut connections ... ) now )  *)

Definition dec_lev (x : sx) : option levent :=
  match x with
  | SL [t] =>
      if is_sym "poll" t then Some LPoll
      else if is_sym "wake" t then Some LWake
      else None
  | SL [t; a] =>
      if is_sym "tick" t then Some (LTick (get_N a))
      else if is_sym "accept" t then Some (LAccept (get_N a))
      else if is_sym "request" t then Some (LRequest (get_N a) false)
      else if is_sym "stop" t then Some (LRequest (get_N a) true)
      else if is_sym "finish" t then Some (LFinish (get_N a))
      else if is_sym "close" t then Some (LClose (get_N a))
      else None
  | _ => None
  end.

Fixpoint dec_levs (l : list sx) : option (list levent) :=
  match l with
  | [] => Some []
  | x :: r => match dec_lev x, dec_levs r with
              | Some e, Some es => Some (e :: es)
              | _, _ => None
              end
  end.

Definition enc_reason (r : reason) : sx :=
  match r with RIdle => sym "idle" | RStop => sym "stop" end.

Definition enc_life (s : lst) : sx :=
  let conns := SL (map (fun c => SL [SN (fst c); sbool (snd c)]) (lconns s)) in
  match lphase s with
  | Serving => SL [sym "serving"; SN 0; SN 0; sym "none"; conns; SL []; SN (lnow s)]
  | Draining since r => SL [sym "draining"; SN since; SN 0; enc_reason r; conns; SL []; SN (lnow s)]
  | Terminated since fin r cut =>
      SL [sym "terminated"; SN since; SN fin; enc_reason r; conns;
          SL (map (fun c => SL [SN (fst c); sbool (snd c)]) cut); SN (lnow s)]
  end.

(* life events plus arrivals: (connect c) is a client connecting; its outcome (accepted iff the listener exists)
   is collected in an extra last element of the result:  ( ... now ( (c 1|0) ... ) ) *)
Inductive lev2 := Ev (e : levent) | Conn (c : N).

Definition dec_lev2 (x : sx) : option lev2 :=
  match x with
  | SL [t; a] => if is_sym "connect" t then Some (Conn (get_N a))
                 else match dec_lev x with Some e => Some (Ev e) | None => None end
  | _ => match dec_lev x with Some e => Some (Ev e) | None => None end
  end.

Fixpoint dec_lev2s (l : list sx) : option (list lev2) :=
  match l with
  | [] => Some []
  | x :: r => match dec_lev2 x, dec_lev2s r with
              | Some e, Some es => Some (e :: es)
              | _, _ => None
              end
  end.

Fixpoint run_lev2 (s : lst) (es : list lev2) (acc : list sx) : lst * list sx :=
  match es with
  | [] => (s, rev acc)
  | Ev e :: r => run_lev2 (lstep s e) r acc
  | Conn c :: r => let '(s', ok) := lconnect s c in run_lev2 s' r (SL [SN c; sbool ok] :: acc)
  end.

Definition run_life (x : sx) : sx :=
  match x with
  | SL [t; cap; SL es] =>
      match dec_lev2s es with
      | Some evs =>
          let '(s, arr) := run_lev2 (linit (get_N t) (get_N cap)) evs [] in
          match enc_life s with
          | SL l => SL (l ++ [SL arr])
          | y => y
          end
      | None => err "bad event"
      end
  | _ => err "bad case"
  end.

(* leg "cut": case = ( k retcode stderr_len ) — a client that has the CompileStarted frame and the first k bytes of
   the CompileFinished frame (retcode, no signal, empty stdout, stderr_len bytes 'w', colour Auto), then EOF.
   result = ( local | finished rc | error ) frame_len *)
Definition run_cut4 (k rc n : sx) (e : ending) : sx :=
  let f := {| f_retcode := Some (get_N rc); f_signal := None; f_stdout := [];
              f_stderr := repeat 119 (N.to_nat (get_N n)); f_color := 2 |} in
  let o := cut_client_ending (fun _ _ => true) false f (N.to_nat (get_N k)) e in
  SL [ match o with
       | RunLocally _ => SL [sym "local"]
       | ReturnFinished g => SL [sym "finished"; SN (finished_exit g)]
       | SccacheError _ => SL [sym "error"]
       end;
       snat (length (frame (encode_finished f))) ].

(* optional 4th element: how the connection ends — eof (default; orderly close) | reset (aborting close, RST) *)
Definition run_cut (x : sx) : sx :=
  match x with
  | SL [k; rc; n] => run_cut4 k rc n Eof
  | SL [k; rc; n; e] => run_cut4 k rc n (if is_sym "reset" e then close_ending true else close_ending false)
  | _ => err "bad case"
  end.

(* leg "lockname": case = path bytes; result = the bytes of the lock file's name *)
Definition run_lockname (x : sx) : sx := SB (lock_name (get_B x)).

(* leg "multi": case = ( kind retries k ( path ... ) ( (path p i) ... ) ) — several addresses, one common schedule;
   result = per address ( path quiescent (listening) (live) (clients) ), each computed in the COMMON world *)
Definition dec_mev (x : sx) : option (path * ev) :=
  match x with
  | SL [a; p; i] =>
      if is_sym "c" p then Some (get_B a, EC (get_N i))
      else if is_sym "s" p then Some (get_B a, ES (get_N i))
      else if is_sym "t" p then Some (get_B a, ET (get_N i))
      else None
  | _ => None
  end.

Fixpoint dec_mevs (l : list sx) : option (list (path * ev)) :=
  match l with
  | [] => Some []
  | x :: r => match dec_mev x, dec_mevs r with
              | Some e, Some es => Some (e :: es)
              | _, _ => None
              end
  end.

Definition run_multi (x : sx) : sx :=
  match x with
  | SL [kd; r; k; SL ps; SL es] =>
      match dec_kind kd, dec_mevs es with
      | Some a, Some evs =>
          let l := map get_B ps in
          let w := mexec lock_name (winit a (N.to_nat (get_N r)) (get_N k) l) evs in
          SL (map (fun p => SL (SB p :: sbool (quiescentb (get_N k) (sts w p)) :: enc_end (get_N k) (sts w p))) l)
      | _, _ => err "bad case"
      end
  | _ => err "bad case"
  end.

(* leg "report": case = ( tcp port ) | ( path bytes ) | ( abstract bytes ) — the client that spawned the server for
   this address, after the server has bound.  result = proceeds | bails *)
Definition run_report (x : sx) : sx :=
  match x with
  | SL [k; a] =>
      let ad := if is_sym "tcp" k then Some (TcpPort (get_N a))
                else if is_sym "path" k then Some (Client.UdsPath (get_B a))
                else if is_sym "abstract" k then Some (UdsAbstract (get_B a))
                else None in
      match ad with
      | Some ad => if spawner_proceeds ad then sym "proceeds" else sym "bails"
      | None => err "bad address"
      end
  | _ => err "bad case"
  end.

Definition dispatch (leg : list N) (x : sx) : sx :=
  if bytes_eqb leg (bs "race") then run_race x
  else if bytes_eqb leg (bs "sched") then run_sched x
  else if bytes_eqb leg (bs "life") then run_life x
  else if bytes_eqb leg (bs "cut") then run_cut x
  else if bytes_eqb leg (bs "report") then run_report x
  else if bytes_eqb leg (bs "lockname") then run_lockname x
  else if bytes_eqb leg (bs "multi") then run_multi x
  else err "unknown leg".
