(* Run/C19.v — Sx codec around Model/Paths.v for the correspondence check.
   leg calc:  (components #p) (join #a #b) (parent #p) (join_suffix #base #suffix) (check_id #id) (lru_key #id)
              (job #dir #id n #cwd (#output ...))
   leg fs2:   ( archives ( op ... ) ),  op = (job ...) | (start key (job ...)) | (release key);
              write also (replace #path #target)
   leg fs:    ( (job #id genuine run #cwd (#output ...) (member ...) (write ...)) ... )
              member = (file #name #content) | (dir #name) | (symlink #name #target);
              write = (file #path #content) | (symlink #path #target)
   Observations are the ones printed by src/bin/sccache-dist/verif_paths.rs. *)
From Coq Require Import List NArith Bool.
From Coq Require String.
Import String.StringSyntax.
From Sccache Require Import Base.Sx Model.Paths Model.C19Docker.
Import ListNotations.
Local Open Scope N_scope.
Local Open Scope string_scope.

Definition enc_comp (c : comp) : sx :=
  match c with
  | CRoot => sym "root"
  | CCur => sym "cur"
  | CUp => sym "up"
  | CNormal n => SL [sym "n"; SB n]
  end.

Definition enc_path (p : bytes) : sx := SL (map enc_comp (components p)).

Definition ok (x : sx) : sx := SL [sym "ok"; x].

Definition enc_effect (e : effect) : sx :=
  match e with
  | Mkdir p => SL [sym "mkdir"; enc_path p]
  | MkdirAll p => SL [sym "mkdir_all"; enc_path p]
  | Open p => SL [sym "open"; enc_path p]
  end.

Definition run_calc (x : sx) : sx :=
  match x with
  | SL [t; a] =>
      if is_sym "components" t then enc_path (get_B a)
      else if is_sym "parent" t then sopt enc_path (parent (get_B a))
      else if is_sym "check_id" t then sbool (valid_id (get_B a))
      else if is_sym "lru_key" t then
        match lru_key (get_B a) with
        | Some p => ok (enc_path p)
        | None => SL [sym "panic"]
        end
      else err "bad op"
  | SL [t; a; b] =>
      if is_sym "join" t then enc_path (push (get_B a) (get_B b))
      else if is_sym "join_suffix" t then
        match join_suffix no_links (get_B a) (get_B b) with
        | Some p => ok (enc_path p)
        | None => SL [sym "err"; sym "links"]
        end
      else err "bad op"
  | SL [t; d; i; n; c; SL outs] =>
      if is_sym "job" t then
        match job_paths no_links no_links (get_B d) (get_B i) (get_N n) (get_B c) (map get_B outs) with
        | JOk effs => ok (SL (map enc_effect effs))
        | JBadId => SL [sym "err"; sym "bad_id"]
        | JTooManyLinks => SL [sym "err"; sym "links"]
        end
      else err "bad op"
  | _ => err "bad case"
  end.

(* ---------------------------------------------------------------- leg fs *)

Definition dec_member (x : sx) : option member :=
  match x with
  | SL [t; n; c] =>
      if is_sym "file" t then Some (MFile (get_B n) (get_B c))
      else if is_sym "symlink" t then Some (MLink (get_B n) (get_B c))
      else None
  | SL [t; n] => if is_sym "dir" t then Some (MDir (get_B n)) else None
  | _ => None
  end.

Definition dec_write (x : sx) : option jwrite :=
  match x with
  | SL [t; p; c] =>
      if is_sym "file" t then Some (WFile (get_B p) (get_B c))
      else if is_sym "symlink" t then Some (WLink (get_B p) (get_B c))
      else if is_sym "replace" t then Some (WReplace (get_B p) (get_B c))
      else None
  | _ => None
  end.

Definition dec_env (x : sx) : bytes * bytes :=
  match x with SL [k; v] => (get_B k, get_B v) | _ => ([], []) end.

Definition dec_job9 (t i g r c : sx) (outs ins ws env : list sx) : option job_req :=
      if is_sym "job" t then
        match all_some (map dec_member ins), all_some (map dec_write ws) with
        | Some ms, Some wl =>
            Some {| r_id := get_B i; r_genuine := get_N g; r_run := get_bool r; r_cwd := get_B c;
                    r_outs := map get_B outs; r_inputs := ms; r_writes := wl; r_env := map dec_env env |}
        | _, _ => None
        end
      else None.

Definition dec_job (x : sx) : option job_req :=
  match x with
  | SL [t; i; g; r; c; SL outs; SL ins; SL ws; SL env] => dec_job9 t i g r c outs ins ws env
  | SL [t; i; g; r; c; SL outs; SL ins; SL ws] =>
      if is_sym "job" t then
        match all_some (map dec_member ins), all_some (map dec_write ws) with
        | Some ms, Some wl =>
            Some {| r_id := get_B i; r_genuine := get_N g; r_run := get_bool r; r_cwd := get_B c;
                    r_outs := map get_B outs; r_inputs := ms; r_writes := wl; r_env := [] |}
        | _, _ => None
        end
      else None
  | _ => None
  end.

Fixpoint join_names (p : list name) : bytes :=
  match p with
  | [] => []
  | [n] => n
  | n :: r => n ++ SEP :: join_names r
  end.

(* first occurrence of a path wins (the tree is a shadowing list) *)
Fixpoint tree_canon (seen : list (list name)) (t : tree) : list sx :=
  match t with
  | [] => []
  | (p, n) :: r =>
      if existsb (names_eqb p) seen then tree_canon seen r
      else SL [sym (match n with NDir => "d" | NFile _ => "f" | NLink _ => "l" end); SB (join_names p)] :: tree_canon (p :: seen) r
  end.

Definition enc_assign (a : assign_res) : sx :=
  sym (match a with AReady => "ready" | ANeed => "need_tc" | AErr => "err" end).
Definition enc_submit (a : submit_res) : sx :=
  sym (match a with SSkipped => "skipped" | SSuccess => "success" | SNotFound => "job_not_found"
                  | SCannotCache => "cannot_cache" end).
Definition enc_run (a : run_res) : sx :=
  sym (match a with RSkipped => "skipped" | RComplete => "complete" | RNotFound => "job_not_found"
                  | RErr => "err" | RRunning => "running" | RNotRunning => "not_running" end).

Definition srv_build : bytes := bs "srv/build/".

Definition enc_toolchains (s : server) : sx :=
  let b := bld s in
  SL (flat_map (fun id =>
        match blookup id (dirmap b) with
        | Some _ =>
            [ SL [sym "d"; SB id; SB []];
              SL [sym "d"; SB (id ++ bs "/tc_bin"); SB []];
              SL [sym "f"; SB (id ++ bs "/tc_bin/tool"); SB (tool_content (kind_of s id))];
              SL [sym "d"; SB (id ++ bs "/tc_lib"); SB []] ]
        | None => [ SL [sym "d"; SB id; SB []] ]
        end) (unpacked b)).

Definition enc_cache (ids : list bytes) : sx :=
  SL (flat_map (fun id =>
        match id with
        | b0 :: b1 :: _ =>
            [ SL [sym "d"; SB [b0]; SB []];
              SL [sym "d"; SB [b0; SEP; b1]; SB []];
              SL [sym "f"; SB ([b0; SEP; b1; SEP] ++ id); SB []] ]
        | _ => []
        end) ids).

Definition enc_job (x : job_obs * server) : sx :=
  let '(o, s) := x in
  SL [ sym (if o_head o =? 1 then "start" else if o_head o =? 2 then "release" else "job");
       SL [sym "assign"; if o_head o =? 2 then sym "skipped" else enc_assign (o_assign o)];
       SL [sym "submit"; enc_submit (o_submit o)];
       SL [sym "run"; enc_run (o_run o)];
       SL [sym "target"; match o_target o with Some t => SB (srv_build ++ t) | None => SL [] end];
       SL [sym "snap"; SL (tree_canon [] (o_snap o))];
       SL [sym "outputs"; SL (map (fun e => SL [SB (fst e); SB (snd e)]) (o_outputs o))];
       SL [sym "left"; SL (map SB (live (bld s)))];
       SL [sym "toolchains"; enc_toolchains s];
       SL [sym "cache"; enc_cache (cached s)];
       SL [sym "escaped"; SL []];
       (* how the launcher was started: its argument vector up to the command, the --setenv pairs, and the
          differences between its environment and the server's (none) *)
       SL (sym "launcher" ::
           match o_target o with
           | Some t =>
               if o_head o =? 2 then []
               else
               let l := spawn_launcher [] (srv_build ++ t) (o_cwd o) (o_env o) (bs "job") [] in
               [ SL (sym "argv" :: map SB (l_argv l));
                 SL (sym "setenv" :: map (fun e => SL [SB (fst e); SB (snd e)]) (client_env (o_env o)));
                 SL (sym "envdiff" :: map (fun e => SL [sym "set"; SB (fst e); SB (snd e)]) (l_env l)) ]
           | None => []
           end) ].

Definition run_fs (x : sx) : sx :=
  match x with
  | SL js =>
      match all_some (map dec_job js) with
      | Some rs => SL (map enc_job (do_jobs (server0 0) 1 rs))
      | None => SL [sym "unmodelled"]
      end
  | _ => err "bad case"
  end.

(* leg fs2: ( archives ( op ... ) ), op = (job ...) | (start key (job ...)) | (release key) *)
Definition dec_op (x : sx) : option sop :=
  match x with
  | SL [t; k; j] =>
      if is_sym "start" t then
        match dec_job j with Some r => Some (OStart (get_N k) r) | None => None end
      else None
  | SL [t; k] => if is_sym "release" t then Some (ORelease (get_N k)) else None
  | _ => match dec_job x with Some r => Some (OJob r) | None => None end
  end.

Definition run_fs2 (x : sx) : sx :=
  match x with
  | SL [c; SL ops] =>
      match all_some (map dec_op ops) with
      | Some os => SL (map enc_job (do_ops (server0 (get_N c)) 1 os))
      | None => SL [sym "unmodelled"]
      end
  | SL [c; SL ops; f] =>
      (* third element 1: the server's directories lie on an overlay, no overlay can be mounted on them *)
      match all_some (map dec_op ops) with
      | Some os => SL (map enc_job (do_ops (server1 (negb (get_N f =? 1)) (get_N c)) 1 os))
      | None => SL [sym "unmodelled"]
      end
  | _ => err "bad case"
  end.

(* leg docker: ( #line ... ) = the docker diff of a used container *)
Definition run_docker (x : sx) : sx :=
  match x with
  | SL ls =>
      let '(rms, ok, after) := clean_lines (map get_B ls) in
      SL [ SL (sym "rms" :: map SB rms); SL [sym "ok"; sbool ok]; SL (sym "after" :: map SB after) ]
  | _ => err "bad case"
  end.

Definition dispatch (leg : list N) (x : sx) : sx :=
  if bytes_eqb leg (bs "calc") then run_calc x
  else if bytes_eqb leg (bs "fs") then run_fs x
  else if bytes_eqb leg (bs "fs2") then run_fs2 x
  else if bytes_eqb leg (bs "docker") then run_docker x
  else err "unknown leg".
