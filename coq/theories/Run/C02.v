(* Run/C02.v — Sx codec around Model/KeyEnc.v, instantiated with the translated spec Gen/C02HashSpec.the_spec.

   leg "lp"     case  #bytes                    result ( #lp-of-bytes 1 )
   leg "key"    case  ( (label..) ( req ... ) )            result ( pre ... )        req = ( digest plusplus Lang (arg..) (extra..) ((k v)..) pp )
   leg "ppkey"  case  ( (label..) ( preq ... ) )   result ( pre|none ... )
                preq = ( digest plusplus Lang (arg..) (extra..) ((k v)..) path input ignore_time
                         mtime_secs mtime_nanos sde (year month day) )      sde = () | ( #SOURCE_DATE_EPOCH )
   leg "ppkey-root"  as ppkey (the harness runs it inside a private root directory)
   pre   = ( piece ... )      the pre-image fed to BLAKE3, component by component
   piece = #bytes  |  ( #contents )   the latter standing for the 64 hex characters of the digest of contents
   (the harness leg "hashpre" turns a pre into a key with the real BLAKE3 and util::hex) *)
From Coq Require Import List NArith Bool.
From Coq Require String.
Import String.StringSyntax.
From Sccache Require Import Base.Sx Model.KeyEnc Gen.C02HashSpec.
Import ListNotations.
Local Open Scope N_scope.
Local Open Scope string_scope.

Definition dec_env (x : sx) : bytes * bytes :=
  match x with
  | SL [k; v] => (get_B k, get_B v)
  | _ => ([], [])
  end.

Definition dec_req (x : sx) : option creq :=
  match x with
  | SL [d; p; l; SL a; SL e; SL v; t] =>
      Some {| digest := get_B d; plusplus := get_bool p; lang := get_B l; args := map get_B a;
              extra := map get_B e; env := map dec_env v; pp := get_B t;
              path := []; input := []; ignore_time := false;
              date := (0, 0, 0); sde := None; mtime := (0, 0) |}
  | SL [d; p; l; SL a; SL e; SL v; pa; inp; ig; ms; mn; SL sd; SL [y; mo; da]] =>
      Some {| digest := get_B d; plusplus := get_bool p; lang := get_B l; args := map get_B a;
              extra := map get_B e; env := map dec_env v; pp := [];
              path := get_B pa; input := get_B inp; ignore_time := get_bool ig;
              date := (get_N y, get_N mo, get_N da);
              sde := match sd with x :: _ => Some (get_B x) | [] => None end;
              mtime := (get_N ms, get_N mn) |}
  | _ => None
  end.

Definition enc_piece (p : piece) : sx :=
  match p with
  | Lit b => SB b
  | Dig c => SL [SB c]
  end.

Definition run_key (x : sx) : sx :=
  match dec_req x with
  | Some r => if lang_known the_spec (lang r) then SL (map enc_piece (pieces_c the_spec r)) else sym "unknown_lang"
  | None => err "bad request"
  end.

Definition run_ppkey (x : sx) : sx :=
  match dec_req x with
  | Some r =>
      if lang_known the_spec (lang r) then
        if gated the_spec r then sym "none" else SL (map enc_piece (pieces_p the_spec r))
      else sym "unknown_lang"
  | None => err "bad request"
  end.

(* leg "driver": ( (label..) ( (exe kind version) ... ) pp_text exe_bytes ),  version = () | ( #text ).
   What get_compiler_info + generate_hash_key make of `exe -c foo.c -o foo.o` when the detection probe answers
   compiler_id=kind: the compiler digest is H(H(exe_bytes) ++ version) (c.rs CCompiler::new; just H(exe_bytes) without
   a version), plusplus comes from the translated detect_c_compiler table, the language of foo.c is C for a C driver
   and C++ for a C++ driver (gcc.rs parse_arguments), nothing else is hashed.  A nested list ( piece ... ) stands for the 64 hex characters of the digest of its pieces. *)
Definition run_driver (ppt exe : sx) (d : sx) : sx :=
  match d with
  | SL [_; k; SL v] =>
      match driver_pp the_drivers (get_B k) with
      | Some b =>
          let r := {| digest := []; plusplus := b; lang := (if b then bs "Cxx" else bs "C"); args := []; extra := []; env := [];
                      pp := get_B ppt; path := []; input := []; ignore_time := false;
                      date := (0, 0, 0); sde := None; mtime := (0, 0) |} in
          let dg := match v with
                    | ver :: _ => SL [SL [SB (get_B exe)]; SB (get_B ver)]
                    | [] => SL [SB (get_B exe)]
                    end in
          SL (dg :: map enc_piece (tl (pieces_c the_spec r)))
      | None => sym "undetected"
      end
  | _ => err "bad driver"
  end.

Definition run_drivers (x : sx) : sx :=
  match x with
  | SL [_; SL ds; ppt; exe] => SL (map (run_driver ppt exe) ds)
  | _ => err "bad case"
  end.

(* a case is ( (label ...) (request ...) ); the labels only name the mutation for the statistics *)
Definition group_of (x : sx) : list sx :=
  match x with
  | SL [_; SL reqs] => reqs
  | _ => []
  end.

(* leg "reader": ( (label..) ( (mode (#piece ..)) ... ) ): the digest of a reader that delivers these pieces *)
Definition run_reader (x : sx) : sx :=
  match x with
  | SL [_; SL ms] =>
      SL (map (fun m => match m with
                        | SL [_; SL ps] => SL [SB (loop_fed (map get_B ps))]
                        | _ => err "bad member"
                        end) ms)
  | _ => err "bad case"
  end.

Definition dispatch (leg : list N) (x : sx) : sx :=
  if bytes_eqb leg (bs "lp") then SL [SB (lp (get_B x)); SN 1]
  else if bytes_eqb leg (bs "key") then SL (map run_key (group_of x))
  else if bytes_eqb leg (bs "ppkey") then SL (map run_ppkey (group_of x))
  else if bytes_eqb leg (bs "reader") then run_reader x
  else if bytes_eqb leg (bs "driver") then run_drivers x
  else if bytes_eqb leg (bs "ppkey-root") then SL (map run_ppkey (group_of x))
  else err "unknown leg".
