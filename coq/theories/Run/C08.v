(* Run/C08.v — Sx codec around Model/Zip.v for the correspondence check (harness/src/bin/c08.rs).

   zstd is abstract in the model.  Here [compress]/[decompress] are instantiated by the finite table of the case:
   the REAL zstd frames produced by the real writer, keyed by content tokens ([] = empty content, [k] = the
   content of object number k).  decompress d = the token of the first table frame equal to d (so equal
   contents get the same token on both sides), [] for no data at all (zstd accepts an empty stream), failure
   otherwise.

   legs
     pack     ( objs so se )             -> ( render ( r ... ) so se )   |  ( render 0 )
     level    ( objs so se env cands )   -> the same, packed at the zstd level the environment selects
     read     ( entry reqs frames specs )-> ( verdict ... )
     extract  ( objs so se spec )        -> ( write_err ) | ( miss ) | ( panic ) | ( hit so se ( f ... ) )
   objs = ( (name mode content frame [optional present]) ... ), so/se = ( content frame ), frames = ( (start len isempty) ... )
   verdict = 0 | ( so se r ... ) ; so,se = 0 | 2 | ( tok ) ; r = 0 error | 1 absent | 2 panic | ( mode tok ) ; tok = e | index
   0 and 1 stand for an error of the class DecompressionFailure (the only class the model has); the harness prints 3 for
   an error of any other type and ( fatal ) when extract_objects fails with one — the model never does *)
From Coq Require Import List NArith Bool.
From Coq Require String.
Import String.StringSyntax.
From Sccache Require Import Base.Sx Model.Crc32 Model.Zip.
Import ListNotations.
Local Open Scope N_scope.
Local Open Scope string_scope.

Definition table := list (list N * list N).     (* token, frame *)

Definition compress_t (t : table) (tok : list N) : list N :=
  match find (fun e => beq (fst e) tok) t with
  | Some e => snd e
  | None => []
  end.

Definition decompress_t (t : table) (d : list N) : option (list N) :=
  match d with
  | [] => Some []
  | _ => match find (fun e => beq (snd e) d) t with
         | Some e => Some (fst e)
         | None => None
         end
  end.

Definition is_empty_content (x : sx) : bool := match x with SB [] => true | _ => false end.
Definition dec_mode (x : sx) : option N := match x with SN n => Some n | _ => None end.
Definition nth_sx (l : list sx) (i : nat) : sx := nth i l (SL []).

Definition enc_tok (t : list N) : sx := match t with [] => sym "e" | i :: _ => SN i end.
Definition enc_mode (m : option N) : sx := match m with Some n => SN n | None => sym "none" end.
Definition enc_g (g : gres) : sx :=
  match g with GOk m x => SL [enc_mode m; enc_tok x] | GErr => SN 0 | GPanic => SN 2 end.
Definition enc_b (b : bres) : sx :=
  match b with BOk x => SL [enc_tok x] | BErr => SN 0 | BPanic => SN 2 end.

(* objects of a case: (name, mode, token, frame, optional, present) *)
Record obj := mkObj { o_name : list N; o_mode : option N; o_tok : list N; o_frame : list N;
                      o_optional : bool; o_present : bool }.

Fixpoint dec_objs (l : list sx) (k : N) : list obj :=
  match l with
  | [] => []
  | x :: r =>
    let f := get_L x in
    mkObj (get_B (nth_sx f 0)) (dec_mode (nth_sx f 1))
          (if is_empty_content (nth_sx f 2) then [] else [k]) (get_B (nth_sx f 3))
          (get_bool (nth_sx f 4))
          (match f with [_; _; _; _; _; p] => get_bool p | _ => true end)
    :: dec_objs r (N.succ k)
  end.

Definition table_of (os : list obj) (so se : sx) : table * list N * list N :=
  let n := N.of_nat (length os) in
  let so_t := if is_empty_content (nth_sx (get_L so) 0) then [] else [n] in
  let se_t := if is_empty_content (nth_sx (get_L se) 0) then [] else [N.succ n] in
  let t := filter (fun e => negb (beq (snd e) []))
             (map (fun o => (o_tok o, o_frame o)) os
              ++ [(so_t, get_B (nth_sx (get_L so) 1)); (se_t, get_B (nth_sx (get_L se) 1))]) in
  (t, so_t, se_t).

(* ---------------------------------------------------------------- rendering an entry *)
Fixpoint render_body (body : list (list N)) : list sx :=
  match body with
  | lh :: d :: r => SB lh :: SL [SN (lenN d); SN (crc32 d)] :: render_body r
  | _ => []
  end.

Definition render (ms : list member) : sx :=
  let bytes := write_zip ms in
  if N.leb (lenN bytes) 150000 then SL [sym "full"; SB bytes]
  else
    let '(body, cd, cdstart) := lay ms 0 in
    SL (sym "chunks" :: render_body body
        ++ [SB (cat (cd ++ [eocd (lenN (map m_perm ms)) (sumlen cd) cdstart]))]).

(* ---------------------------------------------------------------- verdict of the reader on one byte string *)
Definition verdict (t : table) (bs : list N) (reqs : list (list N)) : sx :=
  match open_entry bs with
  | None => SN 0
  | Some ar =>
    SL (enc_b (get_bytes (decompress_t t) ar bs NAME_STDOUT)
        :: enc_b (get_bytes (decompress_t t) ar bs NAME_STDERR)
        :: map (fun n => match get_object (decompress_t t) ar bs n with
                         | GErr => SN (if has_name ar n then 0 else 1)
                         | g => enc_g g
                         end) reqs)
  end.

(* ---------------------------------------------------------------- corruption specs *)
Fixpoint nrange (lo : N) (k : nat) : list N :=
  match k with O => [] | S k' => lo :: nrange (N.succ lo) k' end.

Definition nth_byte (l : list N) (j : N) : N := hd0 (dropN j l).

Definition expand_spec (entry : list N) (s : sx) : list (list N) :=
  let f := get_L s in
  let t := nth_sx f 0 in
  if is_sym "none" t then [entry]
  else if is_sym "trunc" t then [truncate_at (get_N (nth_sx f 1)) entry]
  else if is_sym "sub" t then [subst_at (get_N (nth_sx f 1)) (get_N (nth_sx f 2)) entry]
  else if is_sym "subrange" t then
    let j0 := get_N (nth_sx f 1) in
    let j1 := N.min (get_N (nth_sx f 2)) (lenN entry) in
    flat_map (fun j =>
                let orig := nth_byte entry j in
                map (fun v => subst_at j v entry)
                    (filter (fun v => negb (N.eqb v orig)) (nrange 0 256)))
             (nrange j0 (N.to_nat (j1 - j0)))
  else if is_sym "truncall" t then
    map (fun i => truncate_at i entry) (nrange 0 (N.to_nat (lenN entry)))
  else [].

(* ---------------------------------------------------------------- legs *)
Definition run_pack (x : sx) : sx :=
  match x with
  | SL (SL objs :: so :: se :: _) =>
    let os := dec_objs objs 0 in
    let '(t, so_t, se_t) := table_of os so se in
    let ms := cache_members (compress_t t)
                (map (fun o => (o_name o, o_mode o, o_tok o)) os) so_t se_t in
    if negb (writable ms) then SL [sym "unsupported"]
    else
      let bs := write_zip ms in
      match verdict t bs (map o_name os) with
      | SL (so_v :: se_v :: rs) => SL [render ms; SL rs; so_v; se_v]
      | v => SL [render ms; v]
      end
  | _ => err "bad case"
  end.

Definition run_read (x : sx) : sx :=
  match x with
  | SL (SB entry :: SL reqs :: SL frames :: SL specs :: _) =>
    let t := filter (fun e => negb (beq (snd e) []))
               (map (fun kf =>
                       let f := get_L (snd kf) in
                       let fr := takeN (get_N (nth_sx f 1)) (dropN (get_N (nth_sx f 0)) entry) in
                       (if get_bool (nth_sx f 2) then [] else [fst kf], fr))
                    (combine (nrange 0 (length frames)) frames)) in
    let names := map (fun r => get_B (nth_sx (get_L r) 0)) reqs in
    SL (flat_map (fun s => map (fun bs => verdict t bs names) (expand_spec entry s)) specs)
  | _ => err "bad case"
  end.

(* level leg: ( objs so se env cands ); env = ( ) | ( #bytes ); cands = ( ( neg mag ( frame ... ) so_frame se_frame ) ... ):
   the real frames of the case's contents at a few levels.  The model parses the environment itself (zstd_level),
   packs with the frames of THAT level (cache_members_cfg) and reads the entry back with the level-agnostic reader. *)
Definition dec_env (x : sx) : option (list N) :=
  match x with SL [SB v] => Some v | _ => None end.

Definition cand_of (cands : list sx) (l : level) : option sx :=
  find (fun c => let f := get_L c in
                 Bool.eqb (get_bool (nth_sx f 0)) (fst l) && N.eqb (get_N (nth_sx f 1)) (snd l)) cands.

Fixpoint with_frames (os : list obj) (fs : list sx) : list obj :=
  match os, fs with
  | o :: r, f :: fr => mkObj (o_name o) (o_mode o) (o_tok o) (get_B f) (o_optional o) (o_present o) :: with_frames r fr
  | _, _ => os
  end.

Definition run_level (x : sx) : sx :=
  match x with
  | SL (SL objs :: so :: se :: env :: SL cands :: _) =>
    let os0 := dec_objs objs 0 in
    let e := dec_env env in
    let table_at (l : level) : table * list N * list N :=
      match cand_of cands l with
      | Some c =>
        let f := get_L c in
        table_of (with_frames os0 (get_L (nth_sx f 2)))
                 (SL [nth_sx (get_L so) 0; nth_sx f 3]) (SL [nth_sx (get_L se) 0; nth_sx f 4])
      | None => ([], [], [])
      end in
    match cand_of cands (zstd_level e) with
    | None => SL [sym "no_frames_for_level"; sbool (fst (zstd_level e)); SN (snd (zstd_level e))]
    | Some _ =>
      let '(t, so_t, se_t) := table_at (zstd_level e) in
      let compress_at (l : level) := compress_t (fst (fst (table_at l))) in
      let ms := cache_members_cfg compress_at e (map (fun o => (o_name o, o_mode o, o_tok o)) os0) so_t se_t in
      if negb (writable ms) then SL [sym "unsupported"]
      else
        match verdict t (write_zip ms) (map o_name os0) with
        | SL (so_v :: se_v :: rs) => SL [render ms; SL rs; so_v; se_v]
        | v => SL [render ms; v]
        end
    end
  | _ => err "bad case"
  end.

(* history leg: ( op ... ), op = ( objs so se ) with objs = ( (name mode content frame fail) ... ), fail = none | n
   (the real reader handed to put_object fails after n bytes).  One observation per op, in order: ( write_err ) for a
   pack with a failing source, else what the pack leg prints.  The model is pack_history: no state between packs. *)
Definition op_fails (x : sx) : bool :=
  match x with
  | SL (SL objs :: _) =>
    existsb (fun o => match nth_sx (get_L o) 4 with SN _ => true | _ => false end) objs
  | _ => false
  end.

Definition run_history (x : sx) : sx :=
  match x with
  | SL ops => SL (map (fun op => if op_fails op then SL [sym "write_err"] else run_pack op) ops)
  | _ => err "bad case"
  end.

Definition file_mode (m : option N) : N :=
  match m with Some md => N.land md 4095 | None => 384 end.

Definition run_extract (x : sx) : sx :=
  match x with
  | SL (SL objs :: so :: se :: spec :: _) =>
    let os := dec_objs objs 0 in
    let '(t, so_t, se_t) := table_of os so se in
    let srcs := map (fun o => (o_name o,
                               if o_present o
                               then Some (N.lor 32768 (N.land (match o_mode o with Some m => m | None => 420 end) 4095), o_tok o)
                               else None,
                               o_optional o)) os in
    match from_objects (compress_t t) [] srcs with
    | None => SL [sym "write_err"]
    | Some w =>
      let ms := put_bytes (compress_t t) (put_bytes (compress_t t) w NAME_STDOUT so_t) NAME_STDERR se_t in
      if negb (writable ms) then SL [sym "unsupported"]
      else
        let entry := write_zip ms in
        let bs := match expand_spec entry spec with b :: _ => b | [] => entry end in
        match unpack (decompress_t t) bs (map (fun o => (o_name o, o_optional o)) os) with
        | UMiss => SL [sym "miss"]
        | UPanic => SL [sym "panic"]
        | UHit o e fs =>
          SL [sym "hit"; enc_tok o; enc_tok e;
              SL (map (fun f => match f with
                                | Some (m, c) => SL [SN (file_mode m); enc_tok c]
                                | None => sym "absent"
                                end) fs)]
        end
    end
  | _ => err "bad case"
  end.

Definition dispatch (leg : list N) (x : sx) : sx :=
  if bytes_eqb leg (bs "pack") then run_pack x
  else if bytes_eqb leg (bs "level") then run_level x
  else if bytes_eqb leg (bs "history") then run_history x
  else if bytes_eqb leg (bs "read") then run_read x
  else if bytes_eqb leg (bs "extract") then run_extract x
  else err "unknown leg".
