(* Run/C07.v — Sx codec around Model/Lru.v for the correspondence check.
   case   = ( cap ( (key size mtime) ... ) ( op ... ) )
   result = ( obs ... )   one observation per op, preceded by one for the initial open
   obs    = ( res touched size len pending_size ( (key size) ... ) ( (key size mtime) ... ) ( (h written) ... ) ntmp ) *)
From Coq Require Import List NArith Bool.
From Coq Require String.
Import String.StringSyntax.
From Sccache Require Import Base.Sx Model.Lru Model.LruPut Model.LruLazy.
Import ListNotations.
Local Open Scope N_scope.
Local Open Scope string_scope.

Definition dec_op (x : sx) : option op :=
  match x with
  | SL [t; a] =>
      if is_sym "commit" t then Some (Commit (get_N a))
      else if is_sym "abandon" t then Some (Abandon (get_N a))
      else if is_sym "get" t then Some (Get (get_B a))
      else if is_sym "remove" t then Some (Remove (get_B a))
      else if is_sym "contains" t then Some (Contains (get_B a))
      else if is_sym "ext_delete" t then Some (ExternalDelete (get_B a))
      else if is_sym "reopen" t then Some (Reopen (get_N a))
      else None
  | SL [t; a; b] =>
      if is_sym "insert_bytes" t then Some (InsertBytes (get_B a) (get_N b))
      else if is_sym "insert_file" t then Some (InsertFile (get_B a) (get_N b))
      else if is_sym "prepare_add" t then Some (PrepareAdd (get_B a) (get_N b))
      else if is_sym "write_tmp" t then Some (WriteTmp (get_N a) (get_N b))
      else None
  | SL [t; a; b; c] =>
      if is_sym "insert_with" t then Some (InsertWith (get_B a) (get_N b) (get_bool c))
      else None
  | _ => None
  end.

Fixpoint dec_ops (l : list sx) : option (list op) :=
  match l with
  | [] => Some []
  | x :: r => match dec_op x, dec_ops r with
              | Some o, Some os => Some (o :: os)
              | _, _ => None
              end
  end.

Definition dec_file (x : sx) : key * (N * N) :=
  match x with
  | SL [k; sz; mt] => (get_B k, (get_N sz, get_N mt))
  | _ => ([], (0, 0))
  end.

Definition enc_res (r : res) : sx :=
  match r with
  | ROk => sym "ok" | RTooLarge => sym "too_large" | RNotInCache => sym "not_in_cache"
  | RIoErr => sym "io_err" | RBadHandle => sym "bad_handle"
  end.

Definition enc_obs (x : out * st) : sx :=
  let '(o, s) := x in
  let '(r, t) := match o with
                 | ORes r t => (enc_res r, sopt SB t)
                 | OBool b => (sym (if b then "true" else "false"), SL [])
                 end in
  SL [ r; t; SN (size s); snat (length (index s)); SN (pending_size s);
       SL (map (fun e => SL [SB (fst e); SN (snd e)]) (index s));
       SL (map (fun e => SL [SB (fst e); SN (fst (snd e)); SN (snd (snd e))]) (files s));
       SL (map (fun e => SL [SN (fst e); SN (h_written (snd e))]) (handles s));
       snat (List.length (handles s)) ].

Definition initial (c : N) (fs : list (key * (N * N))) : st :=
  reopen {| cap := c; index := []; measure := 0; pending := []; pending_size := 0;
            files := fold_right (fun e acc => ains (fst e) (snd e) acc) [] fs;
            handles := []; next_h := 0; clock := 1000 |} c.

Definition run_c07 (x : sx) : sx :=
  match x with
  | SL (c :: SL fs :: SL ops :: _) =>   (* an optional 4th element selects the harness's mtime regime; the model ignores it *)
      match dec_ops ops with
      | Some os =>
          let s0 := initial (get_N c) (map dec_file fs) in
          SL (enc_obs (ORes ROk None, s0) :: map enc_obs (trace s0 os))
      | None => err "bad op"
      end
  | _ => err "bad case"
  end.

(* ---- leg "put": DiskCache::put / get over the Lru model, with a write-fault oracle.
   case = ( cap ( (put key n fault) | (get key) ... ) )    fault: 0 = none, m+1 = the write fails after m bytes
   obs  = ( res size ( (path size) ... ) nhandles )        one per op *)
Definition kpath (k : key) : key :=
  match k with a :: b :: _ => [a; 47; b; 47] ++ k | _ => k end.

(* the file-size limit m only bites when the entry is longer than m *)
Definition dec_fault (n : N) (x : sx) : option N :=
  if N.eqb (get_N x) 0 then None else if N.ltb (get_N x - 1) n then Some (get_N x - 1) else None.

Definition dec_dop (x : sx) : option dop :=
  match x with
  | SL [t; a] => if is_sym "get" t then Some (DGet (kpath (get_B a))) else None
  | SL [t; a; b; c] =>
      if is_sym "put" t then Some (DPut (kpath (get_B a)) (get_N b) (dec_fault (get_N b) c)) else None
  | _ => None
  end.

Fixpoint dec_dops (l : list sx) : option (list dop) :=
  match l with
  | [] => Some []
  | x :: r => match dec_dop x, dec_dops r with
              | Some o, Some os => Some (o :: os)
              | _, _ => None
              end
  end.

Definition enc_dobs (x : dout * st) : sx :=
  let '(o, s) := x in
  let r := match o with
           | DP POk => sym "ok"
           | DP PWriteErr => sym "write_err"
           | DP (PRefused r) => enc_res r
           | DP (PCommitErr r) => enc_res r
           | DG r => match r with ROk => sym "hit" | RNotInCache => sym "miss" | _ => enc_res r end
           end in
  SL [ r; SN (size s);
       SL (map (fun e => SL [SB (fst e); SN (snd e)]) (index s));
       snat (List.length (handles s)) ].

Definition run_put (x : sx) : sx :=
  match x with
  | SL (c :: SL ops :: _) =>
      match dec_dops ops with
      | Some os => SL (map enc_dobs (dtrace (initial (get_N c) []) os))
      | None => err "bad op"
      end
  | _ => err "bad case"
  end.

(* ---- leg "lazy": the lazily opened DiskCache with an open-fault oracle.
   case = ( cap ( (put key n wfault ofault) | (get key ofault) ... ) )   ofault = 1: this request's open attempt fails
   obs  = ( res size ( (path size) ... ) nhandles stray loc_ok nroot )
          stray  = entry files found outside the configured directory (always 0 here)
          loc_ok = the cache reports the configured directory as its location
          nroot  = entry files under the configured directory *)
Definition dec_lop (x : sx) : option lop :=
  match x with
  | SL [t; a; f] => if is_sym "get" t then Some (LGet (kpath (get_B a)) (get_bool f)) else None
  | SL [t; a; b; c; f] =>
      if is_sym "put" t then Some (LPut (kpath (get_B a)) (get_N b) (dec_fault (get_N b) c) (get_bool f)) else None
  | _ => None
  end.

Fixpoint dec_lops (l : list sx) : option (list lop) :=
  match l with
  | [] => Some []
  | x :: r => match dec_lop x, dec_lops r with
              | Some o, Some os => Some (o :: os)
              | _, _ => None
              end
  end.

Definition enc_lobs (root : list N) (x : lout * lazy) : sx :=
  let '(o, l) := x in
  let loc := sbool (bytes_eqb (lazy_root l) root) in
  match l with
  | LInit _ s =>
      match o with
      | LD d => match enc_dobs (d, s) with
                | SL l0 => SL (l0 ++ [SN 0; loc; snat (length (index s))])
                | y => y
                end
      | LOpenErr => err "open error on an open cache"
      end
  | LUninit _ _ dir =>
      SL [ sym "open_err"; SN 0; SL []; SN 0; SN 0; loc; snat (length (files dir)) ]
  end.

Definition run_lazy (x : sx) : sx :=
  match x with
  | SL (c :: SL ops :: _) =>
      match dec_lops ops with
      | Some os => let root := bs "root" in
                   SL (map (enc_lobs root) (ltrace (LUninit root (get_N c) (empty (get_N c))) os))
      | None => err "bad op"
      end
  | _ => err "bad case"
  end.

Definition dispatch (leg : list N) (x : sx) : sx :=
  if bytes_eqb leg (bs "lru") then run_c07 x
  else if bytes_eqb leg (bs "put") then run_put x
  else if bytes_eqb leg (bs "lazy") then run_lazy x
  else err "unknown leg".
