(* Run/C16.v — Sx codec around Model/Jobserver.v.
   leg "accept": case = ( k ( ev ... ) )     the trace recorded from the real `Client`
                 result = ( ok STATE ) | ( rejected index STATE )
   leg "det":    case = ( k ( op ... ) )     result = ( ( ( ev ... ) ( pool nheld nrunning npending ndraining ) ) ... ) one per op
   leg "mt":     case = anything             result = ( accepts )   (the python side feeds the observed trace to "accept")
   ev    = ( request r ) ( helper_acquire ) ( deliver ) ( receive r ) ( cancel r ) ( drop_held r ) ( start r )
           ( spawn_fail r ) ( exit r ok ) ( drop_running r ) ( orphan_exit r ) ( done r )
   op    = ( req r kind ) ( poll ) ( advance secs ) ( wait r ) ( finish r ) ( drop r )
   STATE = ( pool reqs hand nqueue ngone nslots nheld nrunning norphans ndraining ) *)
From Coq Require Import List NArith Bool.
From Coq Require String.
Import String.StringSyntax.
From Sccache Require Import Base.Sx Model.Jobserver.
Import ListNotations.
Local Open Scope N_scope.
Local Open Scope string_scope.

Definition dec_ev (x : sx) : option event :=
  match x with
  | SL [t] =>
      if is_sym "helper_acquire" t then Some HelperAcquire
      else if is_sym "deliver" t then Some Deliver
      else None
  | SL [t; SN r] =>
      if is_sym "request" t then Some (Request r)
      else if is_sym "receive" t then Some (Receive r)
      else if is_sym "cancel" t then Some (Cancel r)
      else if is_sym "drop_held" t then Some (DropHeld r)
      else if is_sym "start" t then Some (Start r)
      else if is_sym "spawn_fail" t then Some (SpawnFail r)
      else if is_sym "drop_running" t then Some (DropRunning r)
      else if is_sym "orphan_exit" t then Some (OrphanExit r)
      else if is_sym "done" t then Some (Done r)
      else None
  | SL [t; SN r; SN b] =>
      if is_sym "exit" t then Some (Exit r (negb (b =? 0))) else None
  | _ => None
  end.

Fixpoint dec_evs (l : list sx) : option (list event) :=
  match l with
  | [] => Some []
  | x :: r => match dec_ev x, dec_evs r with
              | Some e, Some es => Some (e :: es)
              | _, _ => None
              end
  end.

Definition enc_ev (e : event) : sx :=
  match e with
  | Request r => SL [sym "request"; SN r]
  | HelperAcquire => SL [sym "helper_acquire"]
  | Deliver => SL [sym "deliver"]
  | Receive r => SL [sym "receive"; SN r]
  | Cancel r => SL [sym "cancel"; SN r]
  | DropHeld r => SL [sym "drop_held"; SN r]
  | Start r => SL [sym "start"; SN r]
  | SpawnFail r => SL [sym "spawn_fail"; SN r]
  | Exit r ok => SL [sym "exit"; SN r; sbool ok]
  | DropRunning r => SL [sym "drop_running"; SN r]
  | OrphanExit r => SL [sym "orphan_exit"; SN r]
  | Done r => SL [sym "done"; SN r]
  end.

Definition enc_st (s : st) : sx :=
  SL [SN (pool s); SN (reqs s); sbool (hand s); snat (length (queue s)); snat (length (gone s));
      snat (length (slots s)); snat (length (held s)); snat (length (running s)); snat (length (orphans s));
      snat (length (draining s))].

(* what the deterministic harness can read off the real objects: tokens in the pipe, `Acquired`s it keeps,
   live `Child` futures, futures still waiting *)
Definition enc_obs (s : st) : sx :=
  SL [SN (pool s); snat (length (held s)); snat (length (running s)); snat (length (pending s));
      snat (length (draining s))].

Definition dec_op (x : sx) : option sop :=
  match x with
  | SL [t] => if is_sym "poll" t then Some OPoll else None
  | SL [t; SN r] =>
      if is_sym "wait" t then Some (OWait r)
      else if is_sym "finish" t then Some (OFinish r)
      else if is_sym "advance" t then Some (OAdvance r)
      else if is_sym "drop" t then Some (ODrop r)
      else None
  | SL [t; SN r; SN k] => if is_sym "req" t then Some (OReq r k) else None
  | _ => None
  end.

Fixpoint dec_ops (l : list sx) : option (list sop) :=
  match l with
  | [] => Some []
  | x :: r => match dec_op x, dec_ops r with
              | Some o, Some os => Some (o :: os)
              | _, _ => None
              end
  end.

Definition run_accept (x : sx) : sx :=
  match x with
  | SL [SN k; SL evs] =>
      match dec_evs evs with
      | Some es =>
          match accept (init k) es 0 with
          | (s, None) => SL [sym "ok"; enc_st s]
          | (s, Some i) => SL [sym "rejected"; SN i; enc_st s]
          end
      | None => err "bad event"
      end
  | _ => err "bad case"
  end.

(* `done r` (the request's pipes reached EOF) moves no token and races with the helper thread's events in the
   real run: both sides list the `done`s of one step after its other events *)
Definition is_done (e : event) : bool := match e with Done _ => true | _ => false end.
Definition done_last (es : list event) : list event :=
  filter (fun e => negb (is_done e)) es ++ filter is_done es.

Definition run_det (x : sx) : sx :=
  match x with
  | SL [SN k; SL ops] =>
      match dec_ops ops with
      | Some os => SL (map (fun ds => SL [SL (map enc_ev (done_last (fst ds))); enc_obs (snd ds)]) (script [] (init k) os))
      | None => err "bad op"
      end
  | _ => err "bad case"
  end.

(* leg "env": case = ( ncpus ( kind arg ) burst ... )   kind = none | fifo tokens | fds open | garbage
   result = ( limited pool granted_at_once empty_acquireds ) for the client `Client::new()` builds *)
Definition dec_mf (x : sx) : option makeflags :=
  match x with
  | SL [t; SN a] =>
      if is_sym "none" t then Some MfNone
      else if is_sym "fifo" t then Some (MfFifo a)
      else if is_sym "fds" t then Some (MfFds (negb (a =? 0)))
      else if is_sym "garbage" t then Some MfGarbage
      else None
  | _ => None
  end.

Definition run_env (x : sx) : sx :=
  match x with
  | SL (SN ncpus :: mf :: SN burst :: _) =>
      match dec_mf mf with
      | Some m =>
          let c := client_new ncpus m in
          SL [sbool (c_limited c); SN (c_tokens c); SN (granted_at_once c burst); SN (empty_acquireds c burst)]
      | None => err "bad makeflags"
      end
  | _ => err "bad case"
  end.

Definition dispatch (leg : list N) (x : sx) : sx :=
  if bytes_eqb leg (bs "accept") then run_accept x
  else if bytes_eqb leg (bs "det") then run_det x
  else if bytes_eqb leg (bs "mt") then SL [sym "accepts"]
  else if bytes_eqb leg (bs "env") then run_env x
  else err "unknown leg".
