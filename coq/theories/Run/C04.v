(* Run/C04.v — Sx codec around Model/TimeMacro.v and Model/PpCache.v for the correspondence check.

   leg timemacro:  case = ( chunk ... )                 result = ( date time timestamp digest_ok )
   leg toonew:     case = ( (m?) (c?) start )           result = 0 | 1
   leg ppkey:      case = ( itm ( (bytes date mtime ( arg ... ) ( (name value) ... ) ( extra-hash ... ) plusplus) ... ) )
                   requests for one input path: input contents / SOURCE_DATE_EPOCH / mtime, the hashed arguments,
                   the environment, the extra hashes, the ++ flag.
                   result = ( class ... ), 0 = mode disabled for this input, otherwise 1 + index of the first
                   variant whose preprocessor-cache key is equal
   leg ppcache:    case = ( step ... )
       step = ( rec fresh date key ( (name system) ... ) ( file ... ) [ ( vanish-name ... ) ] )
              window: files removed (a bare name) or rewritten (a file entry with cnew = 1) AFTER the include
              recorder ran and BEFORE add_result stats them
       date = SOURCE_DATE_EPOCH bytes, or "@A" / "@B" = the server runs in time zone UTC-12 / UTC+14 (different local
              calendar days); the model treats the date as an opaque value
            | ( look date ( file ... ) )
       file = ( name kind bytes mtime cnew )     kind 0 regular, 1 directory (with |bytes| entries), 2 absent, 3 fifo;
                                                 cnew 1 = written after the compile start instant (rec steps only)
       logical clock: step j has start instant 500000 + 10 j; a file written in step j gets ctime start-3
       (or start+3 when cnew); mtimes are given by the case (the harness realises all order relations on a real
       file system).
       result = ( per-config ... )   32 configurations, index = fsm*16 + ctime*8 + itm*4 + ssh*2 + hwd
       per-config = ( step-out ... )
       step-out = ( r ok|disabled|empty|unstored number_of_entries ( (key n_includes) ... ) )
                  unstored: a recorded file could not be stat'ed any more when add_result ran
                | ( l miss 0 )
                | ( l hit 0 key ( (name changed has_date has_timestamp mtime_changed) ... ) date_changed )
   The executable instance takes H = identity (injective) and an injective list encoding for HT. *)
From Coq Require Import List NArith Bool.
From Coq Require String.
Import String.StringSyntax.
From Sccache Require Import Base.Sx Gen.C04Consts Model.TimeMacro Model.PpCache Model.LineMarker.
Import ListNotations.
Local Open Scope N_scope.
Local Open Scope string_scope.

(* ---------------- timemacro ---------------- *)
Definition chunk_ok (c : bytes) : bool :=
  nonempty c && N.leb (N.of_nat (length c)) hash_buffer_size.

Definition run_timemacro (x : sx) : sx :=
  let chunks := map get_B (get_L x) in
  if forallb chunk_ok chunks then
    let f := scan_chunks chunks in
    SL [sbool (f_date f); sbool (f_time f); sbool (f_timestamp f); SN 1]
  else SL [sym "bad_case"].

(* ---------------- toonew ---------------- *)
Definition get_opt_N (x : sx) : option N :=
  match x with SL (v :: _) => Some (get_N v) | _ => None end.

Definition run_toonew (x : sx) : sx :=
  match x with
  | SL [m; c; s] => sbool (include_is_too_new (get_opt_N m) (get_opt_N c) (get_N s))
  | _ => err "bad case"
  end.

(* ---------------- ppcache ---------------- *)
Definition Dg := bytes.
Definition Hx (b : bytes) : Dg := b.
Definition HTx (od : option bytes) (om : option N) : Dg :=
  (match od with Some d => 1 :: N.of_nat (length d) :: d | None => [0] end)
  ++ (match om with Some m => [1; m] | None => [0] end).

Definition cfg_of (i : N) : config :=
  {| file_stat_matches := N.testbit i 4; use_ctime_for_stat := N.testbit i 3;
     ignore_time_macros := N.testbit i 2; skip_system_headers := N.testbit i 1;
     hash_working_directory := N.testbit i 0 |}.

Fixpoint fs_remove (fs : fsnap) (p : path) : fsnap :=
  match fs with
  | [] => []
  | (q, nd) :: r => if bytes_eqb q p then fs_remove r p else (q, nd) :: fs_remove r p
  end.

Definition start_of (j : N) : N := 500000 + 10 * j.

Definition apply_file (is_rec : bool) (j : N) (fs : fsnap) (f : sx) : fsnap :=
  match f with
  | SL [name; knd; b; mt; cnew] =>
      let p := get_B name in
      let ct := if is_rec && get_bool cnew then start_of j + 3 else start_of j - 3 in
      let fs' := fs_remove fs p in
      let k := get_N knd in
      if N.eqb k 0 then
        (p, {| n_kind := KFile; n_size := N.of_nat (length (get_B b)); n_mtime := get_N mt; n_ctime := ct;
               n_bytes := get_B b |}) :: fs'
      else if N.eqb k 1 then
        (p, {| n_kind := KDir; n_size := 40 + 20 * N.of_nat (length (get_B b)); n_mtime := get_N mt; n_ctime := ct;
               n_bytes := [] |}) :: fs'
      else if N.eqb k 3 then
        (p, {| n_kind := KOther; n_size := 0; n_mtime := get_N mt; n_ctime := ct; n_bytes := [] |}) :: fs'
      else fs'
  | _ => fs
  end.

Definition apply_files (is_rec : bool) (j : N) (fs : fsnap) (files : list sx) : fsnap :=
  fold_left (apply_file is_rec j) files fs.

Definition truth_t := list (key * (list (path * bytes * option N) * bytes)).

Fixpoint truth_get (t : truth_t) (k : key) : list (path * bytes * option N) * bytes :=
  match t with
  | [] => ([], [])
  | (k', v) :: r => if bytes_eqb k' k then v else truth_get r k
  end.

Definition truth_now (fs : fsnap) (p : path) : option bytes * option N :=
  match fs_get fs p with
  | Some nd => match n_kind nd with
               | KFile => (Some (n_bytes nd), Some (n_mtime nd))
               | _ => (None, None)
               end
  | None => (None, None)
  end.

Definition opt_bytes_eqb (a b : option bytes) : bool :=
  match a, b with
  | Some x, Some y => bytes_eqb x y
  | None, None => true
  | _, _ => false
  end.

Definition enc_entry (e : entry Dg) : list sx :=
  [ SN (number_of_entries Dg e);
    SL (map (fun kv => SL [SB (fst kv); snat (length (snd kv))]) (results Dg e)) ].

Definition input_path : path := bs "input.c".

Record st := { s_fs : fsnap; s_j : N; s_entry : entry Dg; s_truth : truth_t; s_out : list sx }.

Definition rec_step (cfg : config) (s : st) (fresh date k : sx) (incs files vanish : list sx) : st :=
  let j := s_j s in
  let fs := apply_files true j (s_fs s) files in
  (* what is left when add_result runs: somebody removed the `vanish` files after the recorder looked at them *)
  let fs_add := fold_left (fun f v => match v with
                                      | SL _ => apply_file true j f v     (* rewritten, after the start instant *)
                                      | _ => fs_remove f (get_B v)         (* removed *)
                                      end) vanish fs in
  let incl := map (fun i => match i with
                            | SL [n; sy] => (get_B n, get_bool sy)
                            | _ => ([], false)
                            end) incs in
  let op := {| ro_fresh := get_bool fresh; ro_fs := fs; ro_start := start_of j; ro_date := get_B date;
               ro_input := input_path; ro_key := get_B k; ro_incs := incl |} in
  let '(e', st) := apply_rec_w Dg Hx HTx cfg (s_entry s) op fs_add in
  let '(status, truth') :=
    match st with
    | RecDisabled => ("disabled", s_truth s)
    | RecEmpty => ("empty", s_truth s)
    | RecOk =>
        let files' := match remember_all Dg Hx HTx cfg fs (start_of j) (get_B date) input_path [] incl with
                      | Some inc => sort_files Dg inc | None => [] end in
        let tr := map (fun dp => let '(b, m) := truth_now fs (snd dp) in
                                 (snd dp, match b with Some b => b | None => [] end, m)) files' in
        let base_truth := if get_bool fresh then [] else s_truth s in
        if existsb (fun dp => match fs_get fs_add (snd dp) with None => true | Some _ => false end) files'
        then ("unstored", base_truth)
        else ("ok", (get_B k, (tr, get_B date)) :: base_truth)
    end in
  {| s_fs := fs_add; s_j := j + 1; s_entry := e'; s_truth := truth';
     s_out := s_out s ++ [SL (sym "r" :: sym status :: enc_entry e')] |}.

Definition step_cfg (cfg : config) (s : st) (x : sx) : st :=
  let j := s_j s in
  match x with
  | SL [t; fresh; date; k; SL incs; SL files] =>
      if is_sym "rec" t then rec_step cfg s fresh date k incs files []
      else {| s_fs := s_fs s; s_j := j + 1; s_entry := s_entry s; s_truth := s_truth s;
              s_out := s_out s ++ [err "bad step"] |}
  | SL [t; fresh; date; k; SL incs; SL files; SL vanish] =>
      if is_sym "rec" t then rec_step cfg s fresh date k incs files vanish
      else {| s_fs := s_fs s; s_j := j + 1; s_entry := s_entry s; s_truth := s_truth s;
              s_out := s_out s ++ [err "bad step"] |}
  | SL [t; date; SL files] =>
      if is_sym "look" t then
        let fs := apply_files false j (s_fs s) files in
        let o :=
          match lookup_result_digest Dg bytes_eqb Hx HTx cfg fs (get_B date) (s_entry s) with
          | None => SL [sym "l"; sym "miss"; SN 0]
          | Some k =>
              let '(tr, date0) := truth_get (s_truth s) k in
              SL [sym "l"; sym "hit"; SN 0; SB k;
                  SL (map (fun t => let '(p, b0, m0) := t in
                                    let '(b1, m1) := truth_now fs p in
                                    SL [SB p; sbool (negb (opt_bytes_eqb b1 (Some b0)));
                                        sbool (containsb pat_date b0); sbool (containsb pat_timestamp b0);
                                        sbool (negb (opt_N_eqb m1 m0))]) tr);
                  sbool (negb (bytes_eqb date0 (get_B date)))]
          end in
        {| s_fs := fs; s_j := j + 1; s_entry := s_entry s; s_truth := s_truth s; s_out := s_out s ++ [o] |}
      else {| s_fs := s_fs s; s_j := j + 1; s_entry := s_entry s; s_truth := s_truth s;
              s_out := s_out s ++ [err "bad step"] |}
  | _ => {| s_fs := s_fs s; s_j := j + 1; s_entry := s_entry s; s_truth := s_truth s;
            s_out := s_out s ++ [err "bad step"] |}
  end.

Definition run_cfg (steps : list sx) (i : N) : sx :=
  SL (s_out (fold_left (step_cfg (cfg_of i))
                       steps {| s_fs := []; s_j := 0; s_entry := entry_new Dg; s_truth := []; s_out := [] |})).

Definition all_cfgs : list N := map N.of_nat (seq 0 32).

Definition run_ppcache (x : sx) : sx :=
  match x with
  | SL steps => SL (map (run_cfg steps) all_cfgs)
  | _ => err "bad case"
  end.

(* ---------------- ppkey ---------------- *)
Definition kparts := option (pp_key_parts Dg).

Definition kparts_eqb (a b : kparts) : bool :=
  match a, b with
  | Some x, Some y => pp_key_eqb Dg bytes_eqb x y
  | _, _ => false
  end.

Fixpoint first_pos (k : kparts) (l : list kparts) (i : N) : N :=
  match l with
  | [] => i
  | x :: r => if kparts_eqb x k then i else first_pos k r (i + 1)
  end.

Fixpoint classes (seen todo : list kparts) : list sx :=
  match todo with
  | [] => []
  | k :: r =>
      (match k with
       | None => SN 0
       | Some _ => SN (1 + first_pos k seen 0)
       end) :: classes (seen ++ [k]) r
  end.

Definition dec_pair (x : sx) : bytes * bytes :=
  match x with SL [n; v] => (get_B n, get_B v) | _ => ([], []) end.

Definition run_ppkey (x : sx) : sx :=
  match x with
  | SL [itm; SL vs] =>
      let cfg := cfg_of (if get_bool itm then 13 else 9) in
      let ks := map (fun v => match v with
                              | SL [b; d; m; SL args; SL env; SL extra; pp] =>
                                  pp_key_of Dg Hx HTx cfg (get_bool pp) (map get_B args) (map get_B extra)
                                            (map dec_pair env) (get_B b) (get_B d) (get_N m)
                              | _ => None
                              end) vs in
      SL (classes [] ks)
  | _ => err "bad case"
  end.

(* ---------------- linemarker ----------------
   case   = ( cfg start date cwd input text ( (abspath kind bytes mtime external) ... ) )
   result = ( ok ( path ... ) same ) | ( ok ( path ... ) ( patched-text ) ) | ( disabled ) | ( err )
   recorded paths are printed canonically, sorted *)
Fixpoint ins_bytes (x : bytes) (l : list bytes) : list bytes :=
  match l with
  | [] => [x]
  | y :: r => if bytes_ltb x y then x :: y :: r else y :: ins_bytes x r
  end.

Definition run_linemarker (x : sx) : sx :=
  match x with
  | SL [ci; st; date; cwd; input; text; SL files] =>
      let fs := fold_left (fun fs f =>
                  match f with
                  | SL [p; k; b; mt; _] =>
                      let nd := if N.eqb (get_N k) 0
                                then {| n_kind := KFile; n_size := N.of_nat (length (get_B b)); n_mtime := get_N mt;
                                        n_ctime := get_N st - 3; n_bytes := get_B b |}
                                else if N.eqb (get_N k) 1
                                then {| n_kind := KDir; n_size := 40; n_mtime := get_N mt; n_ctime := get_N st - 3; n_bytes := [] |}
                                else {| n_kind := KOther; n_size := 0; n_mtime := get_N mt; n_ctime := get_N st - 3; n_bytes := [] |} in
                      (get_B p, nd) :: fs_remove fs (get_B p)
                  | _ => fs
                  end) files [] in
      match process_preprocessed_file Dg Hx HTx (cfg_of (get_N ci)) fs (get_N st) (get_B date)
                                      (get_B input) (get_B cwd) (get_B text) with
      | LmOk _ inc t =>
          SL [sym "ok"; SL (map SB (fold_right ins_bytes [] (map fst inc)));
              if bytes_eqb t (get_B text) then sym "same" else SL [SB t]]
      | LmDisabled _ => SL [sym "disabled"]
      | LmErr _ => SL [sym "err"]
      end
  | _ => err "bad case"
  end.

(* ---------------- timestamp ----------------
   case = ( x ... ): instants x nanoseconds after 1_000_000 s before the Unix epoch.  `Timestamp::from(SystemTime)` is
   (floor (t / 10^9), t mod 10^9) for the signed distance t from the epoch in nanoseconds: ts_of (Model/PpCache.v).
   result = ( (negative |seconds| nanoseconds class) ... ), class = first instant with the same value: the digest of a
   header mentioning __TIMESTAMP__ is a function of exactly this value *)
Fixpoint first_N (x : N) (l : list N) (i : N) : N :=
  match l with [] => i | y :: r => if N.eqb y x then i else first_N x r (i + 1) end.

Fixpoint ts_rows (seen todo : list N) : list sx :=
  match todo with
  | [] => []
  | x :: r =>
      let '(neg, s, ns) := ts_of x in
      SL [sbool neg; SN s; SN ns; SN (first_N x seen 0)] :: ts_rows (seen ++ [x]) r
  end.

Definition run_timestamp (x : sx) : sx := SL (ts_rows [] (map get_N (get_L x))).

(* ---------------- manyinc ----------------
   case = ( n edit ): one result with n distinct includes, however many (C04_add_result_all_or_nothing: all of them are
   stored; the entry-wide limit only clears OTHER results), a lookup on the untouched tree hits, a lookup after a
   same-size edit of any one of them misses (C04_lookup_sound) *)
Definition run_manyinc (x : sx) : sx :=
  match x with
  | SL [n; _] => SL [SN (get_N n); SN (if N.eqb (get_N n) 0 then 0 else 1); SN 0]
  | _ => err "bad case"
  end.

Definition dispatch (leg : list N) (x : sx) : sx :=
  if bytes_eqb leg (bs "timemacro") then run_timemacro x
  else if bytes_eqb leg (bs "toonew") then run_toonew x
  else if bytes_eqb leg (bs "ppcache") then run_ppcache x
  else if bytes_eqb leg (bs "ppkey") then run_ppkey x
  else if bytes_eqb leg (bs "linemarker") then run_linemarker x
  else if bytes_eqb leg (bs "timestamp") then run_timestamp x
  else if bytes_eqb leg (bs "manyinc") then run_manyinc x
  else err "unknown leg".
