(* Run/C18.v — Sx codec around Model/Scheduler.v for the correspondence check.
   case   = ( msg ... )
   msg    = (hb S NONCE CPUS [TOKFAIL]) | (begin (S ...)) | (end_ok JOB STATE) | (end_fail JOB)
          | (upd JOB S STATE) | (status)                 STATE = pending | ready | started | complete
   result = ( obs ... )   one observation per message
   obs    = ( res pois_jobs pois_servers job_count ((job server state) ...)
              ((server nonce cpus tokfail last_error_rank (assigned ...) (unclaimed ...)) ...) ((job server) ...) )
   legs: "sched" = the code with the fix: commit (fx = true); "sched_legacy" = the code as it was. *)
From Coq Require Import List NArith Bool.
From Coq Require String.
Import String.StringSyntax.
From Sccache Require Import Base.Sx Gen.C18Consts Model.Scheduler.
Import ListNotations.
Local Open Scope N_scope.
Local Open Scope string_scope.

Definition dec_state (x : sx) : option jstate :=
  if is_sym "pending" x then Some Pending
  else if is_sym "ready" x then Some Ready
  else if is_sym "started" x then Some Started
  else if is_sym "complete" x then Some Complete
  else None.

Definition enc_state (s : jstate) : sx :=
  match s with
  | Pending => sym "pending" | Ready => sym "ready" | Started => sym "started" | Complete => sym "complete"
  end.

Definition dec_msg (x : sx) : option msg :=
  match x with
  | SL [t] => if is_sym "status" t then Some MStatus else None
  | SL [t; a] =>
      if is_sym "begin" t then Some (MAllocBegin (map get_N (get_L a)))
      else if is_sym "end_fail" t then Some (MAllocEndFail (get_N a))
      else None
  | SL [t; a; b] =>
      if is_sym "end_ok" t then option_map (MAllocEndOk (get_N a)) (dec_state b) else None
  | SL [t; a; b; c] =>
      if is_sym "hb" t then Some (MHeartbeat (get_N a) (get_N b) (get_N c) false)
      else if is_sym "upd" t then option_map (MUpdate (get_N a) (get_N b)) (dec_state c)
      else None
  | SL [t; a; b; c; d] =>
      if is_sym "hb" t then Some (MHeartbeat (get_N a) (get_N b) (get_N c) (get_bool d)) else None
  | _ => None
  end.

Fixpoint dec_msgs (l : list sx) : option (list msg) :=
  match l with
  | [] => Some []
  | x :: r => match dec_msg x, dec_msgs r with
              | Some m, Some ms => Some (m :: ms)
              | _, _ => None
              end
  end.

Definition enc_out (o : out) : sx :=
  match o with
  | OPanic => SL [sym "panic"]
  | OHbErr => SL [sym "hb_err"]
  | OHb b => SL [sym "hb"; sbool b]
  | OWindow j s => SL [sym "window"; SN j; SN s]
  | OAllocNoCap n => SL [sym "nocap"; SN n]
  | OAllocOk j s => SL [sym "alloc_ok"; SN j; SN s]
  | OAllocGone j s => SL [sym "alloc_gone"; SN j; SN s]
  | OAllocErr e => SL [sym "alloc_err";
                       match e with
                       | EUnassigned => sym "unassigned"
                       | EJobNotKnown => sym "job_not_known"
                       | EServerNotKnown => sym "server_not_known"
                       end]
  | OAllocTokErr => SL [sym "alloc_err"; sym "token"]
  | OUpd r => SL [sym "upd";
                  match r with
                  | UOk => sym "ok" | UNotOwner => sym "not_owner" | UInvalid => sym "invalid"
                  | UUnknown => sym "unknown" | UServerUnknown => sym "server_unknown"
                  end]
  | OStatus a b c => SL [sym "status"; SN a; SN b; SN c]
  | ONotInFlight => SL [sym "not_in_flight"]
  end.

(* rank of a last_error among all servers' last errors: 0 = none, else 1 + number of strictly older ones *)
Definition err_rank (all : list (N * server)) (e : option N) : N :=
  match e with
  | None => 0
  | Some t => 1 + len (filter (fun kv => match sv_last_error (snd kv) with
                                          | Some u => u <? t
                                          | None => false
                                          end) all)
  end.

Definition enc_obs (x : out * st) : sx :=
  let '(o, s) := x in
  SL [ enc_out o; sbool (pois_jobs s); sbool (pois_servers s); SN (job_count s);
       SL (map (fun e => SL [SN (fst e); SN (fst (snd e)); enc_state (snd (snd e))]) (jobs s));
       SL (map (fun e => SL [SN (fst e); SN (sv_nonce (snd e)); SN (sv_cpus (snd e)); sbool (sv_tokfail (snd e));
                             SN (err_rank (servers s) (sv_last_error (snd e)));
                             SL (map SN (sv_assigned (snd e))); SL (map SN (sv_unclaimed (snd e)))])
               (servers s));
       SL (map (fun e => SL [SN (fst e); SN (snd e)]) (inflight s)) ].

(* a case (stress SECS CLIENTS OBSERVERS) is a real-thread run of the implementation; what the model has to say
   about it is Properties/C18Locks.v: it cannot stop serving *)
Definition is_stress (x : sx) : bool :=
  match x with SL (t :: _) => is_sym "stress" t | _ => false end.

Definition run_c18 (fx : bool) (x : sx) : sx :=
  if is_stress x then SL [sym "stress_ok"] else
  match x with
  | SL ms =>
      match dec_msgs ms with
      | Some l => SL (map enc_obs (trace fx init l))
      | None => err "bad message"
      end
  | _ => err "bad case"
  end.

Definition dispatch (leg : list N) (x : sx) : sx :=
  if bytes_eqb leg (bs "sched") then run_c18 true x
  else if bytes_eqb leg (bs "sched_legacy") then run_c18 false x
  else err "unknown leg".
