(* Run/C13.v — Sx codec around Model/DistStatus.v, Model/DistFallback.v, Model/DistArgs.v.

   An i32 is written as two numbers  S M  (S = 1: negative, M = magnitude).

   leg status:    ( to_local S M )                 ->  ( CODE SIG SUCC )            CODE, SIG = () | ( n )
                  ( roundtrip S M )                ->  ( ( CODE SIG SUCC ) SRV BACK )
                                                       SRV = () | ( S M )   BACK = () | ( CODE SIG SUCC )
   leg fallback:  ( GEN DIST PREP PUT ALLOC SUBMIT RUN REWRITE LOCAL ( P ... ) )
                    PREP, PUT, REWRITE = ok | http | toolarge | other
                    ALLOC  = ( err CLASS ) | fail | ( ok NEED )
                    SUBMIT = ( err CLASS ) | job_not_found | cannot_cache | ok
                    RUN    = ( err CLASS ) | job_not_found | ( complete S M ( ( P W ) ... ) )   W = ok | create | copy | len
                    LOCAL  = spawn_err | ( exit S M ( P ... ) )
                  ->  ( OUT DT ST ( ( P C ) ... ) RAN SRC )      SRC = remote | local | none: whose stdout/stderr is relayed
                    OUT = ok | proc_err | err_http | err_toolarge | err_gen | err_spawn | panic
                    DT = nodist | dist_ok | dist_error | none     ST = () | ( CODE SIG SUCC )
                    C = pre | remote | partial | local        a PRE entry is P or ( P KIND ), KIND 0/1/2 = the old
                    file is shorter than / as long as / longer than what is written over it
   leg request:   ( PP ( STEP ... ) )   a history through get_cached_or_compile; see run_request below
   leg toolchain: ( LIMIT SIZE ( OP ... ) )   the client toolchain cache over requests / restarts; see run_toolchain
   leg args:      ( GCC RIO LANG DD SUPPRESS CFLAG INPUT OUT ( pre ) ( dep ) ( unhashed ) ( common ) ( arch ) EXE CWD ( ( K V ) ... ) )
                    OUT = () | ( bytes )
                  ->  err | ( ( local args ) DIST )     DIST = () | ( ( EXE ( args ) ( ( K V ) ... ) CWD ) )
   The legs status_orig / fallback_orig / args_orig run the models of the pinned commit (before the fix: commits). *)
From Coq Require Import List NArith ZArith Bool.
From Coq Require String.
Import String.StringSyntax.
From Sccache Require Import Base.Sx Model.DistStatus Model.DistFallback Model.DistArgs Model.DistHistory Model.DistRustInputs Model.DistPaths Model.DistRoutes.
Import ListNotations.
Local Open Scope N_scope.
Local Open Scope string_scope.

(* ---- i32 <-> S M ---- *)
Definition dec_z (s m : sx) : Z :=
  if get_bool s then Z.opp (Z.of_N (get_N m)) else Z.of_N (get_N m).
Definition enc_z (z : Z) : list sx :=
  [sbool (Z.ltb z 0); SN (Z.abs_N z)].

Definition enc_oz (o : option Z) : sx :=
  match o with None => SL [] | Some z => SL [SN (Z.abs_N z)] end.

Definition enc_st (raw : raw_status) : sx :=
  SL [enc_oz (code raw); enc_oz (signal raw); sbool (success raw)].

(* ---- leg status ---- *)
Definition run_status (fixed : bool) (x : sx) : sx :=
  let tl := if fixed then to_local else to_local_orig in
  match x with
  | SL [t; s; m] =>
      if is_sym "to_local" t then enc_st (tl (dec_z s m))
      else if is_sym "roundtrip" t then
        let raw := dec_z s m in
        match try_from_output raw with
        | None => SL [enc_st raw; SL []; SL []]
        | Some c => SL [enc_st raw; SL (enc_z c); enc_st (tl c)]
        end
      else err "bad status op"
  | _ => err "bad status case"
  end.

(* ---- leg fallback ---- *)
Definition dec_class (x : sx) : eclass :=
  if is_sym "http" x then EHttp4xx else if is_sym "toolarge" x then ETooLarge else EOther.
Definition dec_oclass (x : sx) : option eclass :=
  if is_sym "ok" x then None else Some (dec_class x).

Definition dec_alloc (x : sx) : alloc_res :=
  match x with
  | SL [t; a] => if is_sym "err" t then AllocErr (dec_class a) else AllocOk (get_bool a)
  | _ => AllocFail
  end.
Definition dec_submit (x : sx) : submit_res :=
  match x with
  | SL [_; a] => SubErr (dec_class a)
  | _ => if is_sym "job_not_found" x then SubJobNotFound
         else if is_sym "cannot_cache" x then SubCannotCache else SubOk
  end.
Definition dec_wres (x : sx) : wres :=
  if is_sym "create" x then WCreate else if is_sym "copy" x then WCopy
  else if is_sym "len" x then WLen else WOk.
Definition dec_out (x : sx) : path * wres :=
  match x with SL [p; w] => (get_N p, dec_wres w) | _ => (0, WOk) end.
Definition dec_run (x : sx) : run_res :=
  match x with
  | SL [_; a] => RunErr (dec_class a)
  | SL [_; s; m; SL outs] => RunComplete (dec_z s m) (map dec_out outs)
  | _ => RunJobNotFound
  end.
Definition dec_local (x : sx) : local_res :=
  match x with
  | SL [_; s; m; SL ws] => LExit (dec_z s m) (map get_N ws)
  | _ => LSpawnErr
  end.

(* a pre-existing file: P (kind 0) or ( P KIND ) *)
Definition dec_pre (x : sx) : path * N :=
  match x with SL [p; k] => (get_N p, get_N k) | _ => (get_N x, 0) end.
Definition place_pre (f : fs) (x : sx) : fs := let '(p, k) := dec_pre x in fs_write p (CPre k) f.

Definition enc_content (c : content) : sx :=
  match c with CPre _ => sym "pre" | CRemote => sym "remote" | CPartial => sym "partial" | CLocal => sym "local" end.

Fixpoint ins_sorted (e : path * content) (l : fs) : fs :=
  match l with
  | [] => [e]
  | h :: r => if fst e <=? fst h then e :: l else h :: ins_sorted e r
  end.
Definition sort_fs (f : fs) : fs := fold_right ins_sorted [] f.

Definition enc_result (r : result) : sx :=
  let '(o, dt, st) :=
    match r_out r with
    | OOk dt raw =>
        (sym "ok", sym (match dt with NoDist => "nodist" | DistOk => "dist_ok" | DistError => "dist_error" end), enc_st raw)
    | OProcErr raw => (sym "proc_err", sym "none", enc_st raw)
    | OErr KHttp => (sym "err_http", sym "none", SL [])
    | OErr KTooLarge => (sym "err_toolarge", sym "none", SL [])
    | OErr KGen => (sym "err_gen", sym "none", SL [])
    | OErr KSpawn => (sym "err_spawn", sym "none", SL [])
    | OPanic => (sym "panic", sym "none", SL [])
    end in
  let src := match r_out r with
             | OOk DistOk _ => sym "remote"
             | OOk _ _ => sym "local"
             | OProcErr _ => sym "local"
             | _ => sym "none"
             end in
  SL [o; dt; st; SL (map (fun e => SL [SN (fst e); enc_content (snd e)]) (sort_fs (r_fs r))); sbool (r_local_ran r); src].

Definition run_fallback (fixed : bool) (x : sx) : sx :=
  match x with
  | SL [g; d; prep; put; al; sub; rn; rw; lc; SL pre] =>
      let s := {| s_gen := get_bool g; s_dist := get_bool d; s_prep := dec_oclass prep; s_put := dec_oclass put;
                  s_alloc := dec_alloc al; s_submit := dec_submit sub; s_run := dec_run rn;
                  s_rewrite := dec_oclass rw; s_local := dec_local lc |} in
      let f0 := fold_left place_pre pre [] in
      enc_result (dist_or_local fixed s f0)
  | _ => err "bad fallback case"
  end.

(* ---- leg request: a history of requests through get_cached_or_compile (gcc), main cache + preprocessor cache
   case  ( PP ( STEP ... ) )      STEP = the ten script fields, then VARIANT CLEAN; PRE entries may be ( P KIND )
   obs   ( ( CLASS DT ST FS RAN SRC PPRUN SENT ) ... )
         CLASS = hit | miss | compile_failed | proc_err | err_http | err_toolarge | err_gen | err_spawn | err_zip | panic
         PPRUN = the local preprocessor ran     SENT = none | full | empty: the translation unit a job was sent ---- *)
Definition dt_sym (dt : dist_type) : sx :=
  sym (match dt with NoDist => "nodist" | DistOk => "dist_ok" | DistError => "dist_error" end).

Definition dec_step (x : sx) : option step :=
  match x with
  | SL [g; d; prep; put; al; sub; rn; rw; lc; SL pre; v; cl] =>
      Some {| st_script := {| s_gen := get_bool g; s_dist := get_bool d; s_prep := dec_oclass prep; s_put := dec_oclass put;
                              s_alloc := dec_alloc al; s_submit := dec_submit sub; s_run := dec_run rn;
                              s_rewrite := dec_oclass rw; s_local := dec_local lc |};
              st_variant := get_N v; st_clean := get_bool cl; st_pre := map dec_pre pre |}
  | _ => None
  end.

Fixpoint dec_steps (l : list sx) : option (list step) :=
  match l with
  | [] => Some []
  | x :: r => match dec_step x, dec_steps r with Some a, Some b => Some (a :: b) | _, _ => None end
  end.

Definition enc_fs (f : fs) : sx := SL (map (fun e => SL [SN (fst e); enc_content (snd e)]) (sort_fs f)).
Definition enc_src (o : option src) : sx :=
  match o with Some SrcRemote => sym "remote" | Some SrcLocal => sym "local" | None => sym "none" end.

Definition enc_hobs (o : hobs) : sx :=
  let '(cls, dt) :=
    if ho_hit o then (sym "hit", sym "none") else
    match ho_q o with
    | QMiss dt => (sym "miss", dt_sym dt)
    | QCompileFailed dt => (sym "compile_failed", dt_sym dt)
    | QProcErr => (sym "proc_err", sym "none")
    | QErr KHttp => (sym "err_http", sym "none")
    | QErr KTooLarge => (sym "err_toolarge", sym "none")
    | QErr KGen => (sym "err_gen", sym "none")
    | QErr KSpawn => (sym "err_spawn", sym "none")
    | QErrZip => (sym "err_zip", sym "none")
    | QPanic => (sym "panic", sym "none")
    end in
  let st := match ho_hit o, ho_q o, ho_out o with
            | false, QErrZip, _ => SL []
            | _, _, OOk _ raw => enc_st raw
            | _, _, OProcErr raw => enc_st raw
            | _, _, _ => SL []
            end in
  SL [cls; dt; st; enc_fs (ho_fs o); sbool (ho_ran o); enc_src (ho_src o); sbool (ho_pprun o);
      match ho_sent o with None => sym "none" | Some TuFull => sym "full" | Some TuEmpty => sym "empty" end].

Definition run_request (x : sx) : sx :=
  match x with
  | SL [pp; SL steps] =>
      match dec_steps steps with
      | Some l => SL (map enc_hobs (hrun (get_bool pp) h_init l))
      | None => err "bad step"
      end
  | _ => err "bad request case"
  end.

(* ---- leg toolchain: the real ClientToolchains under a size limit over several requests / restarts
   case  ( LIMIT SIZE ( OP ... ) )     OP = restart | ( request NEED LOCAL )
   obs   ( ( ( WEAK ARCH ) R ) ... )   R = () | ( OUT DT ST FS RAN SRC ) ---- *)
Definition dec_tcop (x : sx) : tcop :=
  match x with
  | SL [_; need; lc] => TcRequest (get_bool need) (dec_local lc)
  | _ => TcRestart
  end.

Definition run_toolchain (x : sx) : sx :=
  match x with
  | SL [limit; size; SL ops] =>
      SL (map (fun e => SL [SL [sbool (t_weak (fst e)); sbool (t_archive (fst e))];
                            match snd e with Some r => enc_result r | None => SL [] end])
              (tc_run (get_N limit) (get_N size) (tc_init, []) (map dec_tcop ops)))
  | _ => err "bad toolchain case"
  end.

(* ---- leg rustinputs: ( ( ( SPELL ty ... ) ... ) SIBLING KIND ) -> uncacheable | complete | trimmed | missing
   KIND 0: rlib with member rust.metadata.bin, 1: real rustc rlib (lib.rmeta), 2: archive without a metadata member ---- *)
Definition dec_cty (x : sx) : cty :=
  if is_sym "lib" x then TLib else if is_sym "rlib" x then TRlib else if is_sym "staticlib" x then TStaticlib
  else if is_sym "bin" x then TBin else if is_sym "dylib" x then TDylib else if is_sym "cdylib" x then TCdylib
  else TProcMacro.

Definition run_rustinputs (x : sx) : sx :=
  match x with
  | SL [SL opts; sib; kind] =>
      let os := map (fun o => map dec_cty (tl (get_L o))) opts in
      match packaged os (get_bool sib) (negb (N.eqb (get_N kind) 2)) with
      | None => sym "uncacheable"
      | Some Complete => sym "complete"
      | Some Trimmed => sym "trimmed"
      | Some Missing => sym "missing"
      end
  | _ => err "bad rustinputs case"
  end.

(* ---- leg simplify: ( ( ( LINKPATH TARGET ) ... ) ( DIR ... ) PATH ) -> refused | ( ( comp ... ) 1 )
   components: name | dotdot | dot; a TARGET may start with `root` (absolute, from the scratch root) ---- *)
Definition dec_comp (x : sx) : comp :=
  if is_sym "dotdot" x then CDotDot else if is_sym "dot" x then CDot else CName (get_B x).
Definition dec_link (x : sx) : list name * (bool * list comp) :=
  match x with
  | SL [SL at_; SL t] =>
      (map get_B at_,
       match t with
       | h :: r => if is_sym "root" h then (true, map dec_comp r) else (false, map dec_comp t)
       | [] => (false, [])
       end)
  | _ => ([], (false, []))
  end.

Definition run_simplify (x : sx) : sx :=
  match x with
  | SL [SL ls; _; SL path] =>
      match simplify_in (map dec_link ls) (map dec_comp path) with
      | None => sym "refused"
      | Some q => SL [SL (map SB q); SN 1]
      end
  | _ => err "bad simplify case"
  end.

(* ---- leg rustdeps: ( OP ... ), OP = ( build CRATE USES ) | package | touch
   crates / paths: cdep 1, bdep 2, ddep 4; top names bdep and ddep as externs ---- *)
Definition crate_id (x : sx) : N := if is_sym "bdep" x then 2 else if is_sym "ddep" x then 4 else 1.

Fixpoint run_rustdeps_ops (s : rstate) (ops : list sx) : list sx :=
  match ops with
  | [] => []
  | SL [_; c; u] :: r =>
      let '(s', _) := rstep s (RBuild (crate_id c) (if get_bool u then [1] else [])) in
      sym "ok" :: run_rustdeps_ops s' r
  | o :: r =>
      if is_sym "package" o then
        let '(s1, d2) := rstep s (RDiscover 2) in
        let '(s2, d4) := rstep s1 (RDiscover 4) in
        let names := match d2, d4 with Some a, Some b => a ++ b | _, _ => [] end in
        SL ([sym "libbdep-2222.rlib"] ++ (if existsb (N.eqb 1) names then [sym "libcdep-1111.rlib"] else [])
            ++ [sym "libddep-4444.rlib"]) :: run_rustdeps_ops s2 r
      else sym "ok" :: run_rustdeps_ops s r
  end.

Definition run_rustdeps (x : sx) : sx :=
  match x with
  | SL ops =>
      (* the harness first builds cdep, bdep and ddep (neither using cdep) *)
      let '(s1, _) := rstep r_init (RBuild 1 []) in
      let '(s2, _) := rstep s1 (RBuild 2 []) in
      let '(s3, _) := rstep s2 (RBuild 4 []) in
      SL (run_rustdeps_ops s3 ops)
  | _ => err "bad rustdeps case"
  end.

(* ---- leg rustnames: ( NAME ): the transitive dependency of top (through bdep) is the crate NAME, its library
   lib<NAME>-1111.rlib lies in the -L directory -> ( HAS_BDEP HAS_DDEP HAS_NAMED ) ---- *)
Definition run_rustnames (x : sx) : sx :=
  match x with
  | SL [n] => SL [SN 1; SN 1; sbool (lib_packaged [get_B n] (lib_prefix ++ get_B n))]
  | _ => err "bad rustnames case"
  end.

(* ---- leg aliases: ( ALIAS ... ) -> ( ( CLASS DT ( MATCH ) ) ... ); the weak key is the path as given ---- *)
Definition run_aliases (x : sx) : sx :=
  match x with
  | SL reqs =>
      SL (map (fun ok : bool =>
                 if ok then SL [sym "miss"; sym "dist_ok"; SL [SN 1]]
                 else SL [sym "compile_failed"; sym "dist_ok"; SL [SN 0]])
              (tk_run (fun a => a) {| tk_map := [] |} (map (fun a => N.min (get_N a) 3) reqs)))
  | _ => err "bad aliases case"
  end.

(* ---- leg routes: ( ROUTE KIND CODE LOCAL ): a stage of a client-facing route fails with that status ---- *)
Definition run_routes (x : sx) : sx :=
  match x with
  | SL [r; _; code; lc] =>
      let c := class_of_status (get_N code) in
      let s := {| s_gen := true; s_dist := true; s_prep := None; s_put := None;
                  s_alloc := if is_sym "alloc_job" r then AllocErr c else AllocOk true;
                  s_submit := if is_sym "submit_toolchain" r then SubErr c else SubOk;
                  s_run := if is_sym "run_job" r then RunErr c else RunComplete 0%Z [(0, WOk)];
                  s_rewrite := None; s_local := dec_local lc |} in
      enc_result (dist_or_local true s [])
  | _ => err "bad routes case"
  end.

(* ---- leg args ---- *)
Definition dec_lang (x : sx) : option language :=
  if is_sym "C" x then Some LC else if is_sym "Cxx" x then Some LCxx
  else if is_sym "GenericHeader" x then Some LGenericHeader else if is_sym "CHeader" x then Some LCHeader
  else if is_sym "CxxHeader" x then Some LCxxHeader else if is_sym "ObjectiveC" x then Some LObjC
  else if is_sym "ObjectiveCxx" x then Some LObjCxx else if is_sym "ObjectiveCxxHeader" x then Some LObjCxxHeader
  else if is_sym "Cuda" x then Some LCuda else if is_sym "CudaFE" x then Some LCudaFE
  else if is_sym "Ptx" x then Some LPtx else if is_sym "Cubin" x then Some LCubin
  else if is_sym "Rust" x then Some LRust else if is_sym "Hip" x then Some LHip else None.

Definition dec_kv (x : sx) : bytes * bytes :=
  match x with SL [k; v] => (get_B k, get_B v) | _ => ([], []) end.

Definition enc_kv (kv : bytes * bytes) : sx := SL [SB (fst kv); SB (snd kv)].

Definition run_args (fixed : bool) (x : sx) : sx :=
  match x with
  | SL [g; rio; lang; dd; sup; cflag; input; out; SL pre; SL dep; SL unh; SL com; SL arch; exe; cwd; SL vars] =>
      match dec_lang lang with
      | None => err "bad language"
      | Some l =>
          let p := {| p_input := get_B input; p_dd := get_bool dd; p_lang := l; p_cflag := get_B cflag;
                      p_out := match out with SL [o] => Some (get_B o) | _ => None end;
                      p_pre := map get_B pre; p_dep := map get_B dep; p_unhashed := map get_B unh;
                      p_common := map get_B com; p_arch := map get_B arch; p_suppress_rio := get_bool sup |} in
          let e := {| e_gcc := get_bool g; e_rio := get_bool rio; e_exe := get_B exe; e_cwd := get_B cwd;
                      e_vars := map dec_kv vars |} in
          match generate fixed e p with
          | None => sym "err"
          | Some (la, d) =>
              SL [SL (map SB la);
                  match d with
                  | None => SL []
                  | Some c => SL [SL [SB (d_exe c); SL (map SB (d_args c)); SL (map enc_kv (d_env c)); SB (d_cwd c)]]
                  end]
          end
      end
  | _ => err "bad args case"
  end.

Definition dispatch (leg : list N) (x : sx) : sx :=
  if bytes_eqb leg (bs "status") then run_status true x
  else if bytes_eqb leg (bs "status_orig") then run_status false x
  else if bytes_eqb leg (bs "fallback") then run_fallback true x
  else if bytes_eqb leg (bs "fallback_orig") then run_fallback false x
  else if bytes_eqb leg (bs "request") then run_request x
  else if bytes_eqb leg (bs "toolchain") then run_toolchain x
  else if bytes_eqb leg (bs "rustinputs") then run_rustinputs x
  else if bytes_eqb leg (bs "simplify") then run_simplify x
  else if bytes_eqb leg (bs "rustnames") then run_rustnames x
  else if bytes_eqb leg (bs "aliases") then run_aliases x
  else if bytes_eqb leg (bs "routes") then run_routes x
  else if bytes_eqb leg (bs "rustdeps") then run_rustdeps x
  else if bytes_eqb leg (bs "args") then run_args true x
  else if bytes_eqb leg (bs "args_orig") then run_args false x
  else err "unknown leg".
