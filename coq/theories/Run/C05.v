(* Run/C05.v — Sx codec around Model/{RustPath,DepInfo,RustArgs,RustKey}.v for the correspondence legs of C05.

   depinfo  ( text cwd )                 -> ( path ... )
   envdep   ( text )                     -> ( (var (val)) | (var ()) ... )
   stdhash  ( kind bytes [bytes] )       -> bytes | number          kind = path | os | str | pathcmp
   args     ( argv files )               -> ( ok ... ) | ( cannot_cache why extra ) | ( not_compilation )
   key      ( argv files depinfo env shlibs version filenames )
                                         -> ( ok PREFIX tail_ok key_ok outputs pairs compile_args ) | ( err ) | as for args
   keypair  ( reqA reqB meta )           -> ( same resA resB )
   files    = ( (relpath content digest (archive_digest)?) ... )   relative to the virtual working directory /@ *)
From Coq Require Import List NArith Bool.
From Coq Require String.
Import String.StringSyntax.
From Sccache Require Import Base.Sx Model.RustPath Model.DepInfo Model.RustArgs Model.RustKey Gen.C05HashSpec Gen.C05ArgTable.
Import ListNotations.
Local Open Scope N_scope.
Local Open Scope string_scope.

Definition vcwd : bytes := bs "/@".

Definition nth_sx (n : nat) (x : sx) : sx := nth n (get_L x) (SL []).

Definition sopt_b (o : option bytes) : sx := sopt SB o.

Definition enc_pair (p : bytes * option bytes) : sx := SL [SB (fst p); sopt_b (snd p)].

(* ---------- depinfo / envdep ---------- *)

Definition run_depinfo (x : sx) : sx :=
  if utf8_valid (get_B (nth_sx 0 x))
  then SL (map SB (parse_dep_info (get_B (nth_sx 0 x)) (get_B (nth_sx 1 x))))
  else SL [sym "invalid_utf8"].

Definition run_envdep (x : sx) : sx :=
  if utf8_valid (get_B (nth_sx 0 x))
  then SL (map enc_pair (parse_env_dep_info (get_B (nth_sx 0 x))))
  else SL [sym "invalid_utf8"].

(* ---------- stdhash ---------- *)

Definition run_stdhash (x : sx) : sx :=
  let kind := nth_sx 0 x in
  let b := get_B (nth_sx 1 x) in
  if is_sym "path" kind then SB (path_hash b)
  else if is_sym "os" kind then SB (os_hash b)
  else if is_sym "str" kind then SB (str_hash b)
  else if is_sym "pathcmp" kind then
    SN (match path_cmp b (get_B (nth_sx 2 x)) with Lt => 0 | Eq => 1 | Gt => 2 end)
  else SL [sym "bad_kind"].

(* ---------- files ---------- *)

Record vfile : Type := { vf_path : bytes; vf_digest : bytes; vf_ardigest : option bytes }.

Definition dec_file (x : sx) : vfile :=
  {| vf_path := path_join vcwd (get_B (nth_sx 0 x));
     vf_digest := get_B (nth_sx 2 x);
     vf_ardigest := match get_L (nth_sx 3 x) with d :: _ => Some (get_B d) | [] => None end |}.

Definition find_file (fs : list vfile) (p : bytes) : option vfile :=
  find (fun f => path_eqb (vf_path f) p) fs.

Definition file_exists (fs : list vfile) (p : bytes) : bool :=
  match find_file fs p with Some _ => true | None => false end.

(* ---------- args ---------- *)

Definition enc_color (c : color_mode) : sx :=
  match c with ColorOff => sym "off" | ColorOn => sym "on" | ColorAuto => sym "auto" end.

Definition enc_parsed (p : parsed) : sx :=
  SL [ sym "ok";
       SL (map enc_pair (p_arguments p));
       SB (p_output_dir p);
       SL (map SB (p_externs p));
       SL (map SB (p_crate_link_paths p));
       SL (map SB (p_staticlibs p));
       SB (p_crate_name p);
       SL [sbool (p_rlib p); sbool (p_staticlib p)];
       sopt_b (p_dep_info p);
       sopt_b (p_profile p);
       sopt_b (p_gcno p);
       SL (map SB (p_emit p));
       enc_color (p_color p);
       sbool (p_has_json p);
       sopt_b (p_target_json p) ].

Definition enc_not_ok (r : parse_result) : sx :=
  match r with
  | PRNotCompilation => SL [sym "not_compilation"]
  | PRCannotCache why extra => SL [sym "cannot_cache"; SB why; SL (map SB extra)]
  | PROk _ => SL []
  end.

Definition dec_argv (x : sx) : list bytes := map get_B (get_L x).

Definition run_args (x : sx) : sx :=
  let fs := map dec_file (get_L (nth_sx 1 x)) in
  match parse_arguments (file_exists fs) (dec_argv (nth_sx 0 x)) vcwd with
  | PROk p => enc_parsed p
  | r => enc_not_ok r
  end.

(* ---------- key ---------- *)

Fixpoint all_some {A} (l : list (option A)) : option (list A) :=
  match l with
  | [] => Some []
  | Some x :: r => match all_some r with Some xs => Some (x :: xs) | None => None end
  | None :: _ => None
  end.

Definition plain_digest (fs : list vfile) (p : bytes) : option bytes :=
  option_map vf_digest (find_file fs p).

Definition archive_digest (fs : list vfile) (p : bytes) : option bytes :=
  match find_file fs p with Some f => vf_ardigest f | None => None end.

Definition enc_output (o : output) : sx := SL [SB (o_key o); SB (o_path o); sbool (o_optional o)].

(* the observation, and the whole pre-image when there is a key *)
Definition key_full (x : sx) : sx * option bytes :=
  let fs := map dec_file (get_L (nth_sx 1 x)) in
  match parse_arguments (file_exists fs) (dec_argv (nth_sx 0 x)) vcwd with
  | PROk p =>
      match get_L (nth_sx 2 x) with
      | [] => (SL [sym "err"], None)           (* the dep-info run of rustc failed *)
      | t :: _ =>
          let text := get_B t in
          if negb (utf8_valid text) then (SL [sym "err"], None) else    (* read_to_string fails *)
          let srcs := parse_dep_info text vcwd in
          let env_deps := parse_env_dep_info text in
          match all_some (map (plain_digest fs) srcs),
                all_some (map (fun e => plain_digest fs (path_join vcwd e)) (p_externs p)),
                all_some (map (fun e => archive_digest fs (path_join vcwd e)) (p_staticlibs p)),
                all_some (map (fun e => plain_digest fs (path_join vcwd e))
                              (match p_target_json p with Some j => [j] | None => [] end)) with
          | Some dsrc, Some dext, Some dstatic, Some dtj =>
              let r := {| h_shlibs := map get_B (get_L (nth_sx 4 x));
                          h_args := p_arguments p;
                          h_target_json := match p_target_json p with Some _ => true | None => false end;
                          h_src := dsrc; h_ext := dext; h_static := dstatic; h_tjson := dtj;
                          h_env_deps := env_deps;
                          h_env := map (fun kv => (get_B (nth_sx 0 kv), get_B (nth_sx 1 kv))) (get_L (nth_sx 3 x));
                          h_cwd := vcwd;
                          h_version := get_B (nth_sx 5 x) |} in
              (SL [ sym "ok";
                    SB (encode_with spec_prefix r);
                    sbool tail_is_last;
                    sbool true;
                    SL (map enc_output (outputs_of p (map get_B (get_L (nth_sx 6 x)))));
                    SL (map enc_pair (p_arguments p));
                    SL (map SB (compile_args p));
                    SL (map SB (depinfo_args (p_arguments p))) ],
               Some (encode r))
          | _, _, _, _ => (SL [sym "err"], None)
          end
      end
  | r => (enc_not_ok r, None)
  end.

Definition run_key (x : sx) : sx := fst (key_full x).

(* ( reqA reqB meta ): equal keys <-> equal pre-images (BLAKE3 collision-freeness is the stated assumption) *)
Definition run_keypair (x : sx) : sx :=
  let '(ra, ea) := key_full (nth_sx 0 x) in
  let '(rb, eb) := key_full (nth_sx 1 x) in
  let same := match ea, eb with Some a, Some b => bytes_eqb a b | _, _ => false end in
  SL [sbool same; ra; rb].

(* ( req subA subB meta ): one request compiled in two directories under a common parent; the cwd is a key
   component, so the keys are equal exactly when the two directories are the same path (Path equality) *)
Definition run_cwdpair (x : sx) : sx :=
  let '(r, e) := key_full (nth_sx 0 x) in
  let ok := match e with Some _ => true | None => false end in
  let a := path_join vcwd (get_B (nth_sx 1 x)) in
  let b := path_join vcwd (get_B (nth_sx 2 x)) in
  SL [sbool (ok && bytes_eqb (path_hash a) (path_hash b)); sbool ok; sbool ok].

(* ( (name kind digest) ... ): the entries of <sysroot>/lib -> the digests hashed for the compiler, in order *)
Definition dec_kind (x : sx) : fkind :=
  if is_sym "file" x then KFile else if is_sym "dir" x then KDir else if is_sym "symfile" x then KSymFile
  else if is_sym "symdir" x then KSymDir else if is_sym "dangling" x then KSymDangling else KOther.

Definition run_sysroot (x : sx) : sx :=
  let es := map (fun e => (get_B (nth_sx 0 e), dec_kind (nth_sx 1 e), get_B (nth_sx 2 e))) (get_L (nth_sx 0 x)) in
  let libs := sysroot_libs (bs "/L") (map (fun e => (fst (fst e), snd (fst e))) es) in
  let digest_of p := match find (fun e => path_eqb (path_join (bs "/L") (fst (fst e))) p) es with
                     | Some e => snd e | None => [] end in
  SL [sym "ok"; SL (map (fun p => SB (digest_of p)) libs)].

(* ( ((name data) ...) bytes ): the members of a static library -> what is fed to its digest *)
Definition run_archive (x : sx) : sx :=
  SL [sym "ok"; SB (archive_preimage (map (fun m => (get_B (nth_sx 0 m), get_B (nth_sx 1 m))) (get_L (nth_sx 0 x)))); sbool true].

Definition dispatch (leg : list N) (x : sx) : sx :=
  if bytes_eqb leg (bs "depinfo") then run_depinfo x
  else if bytes_eqb leg (bs "envdep") then run_envdep x
  else if bytes_eqb leg (bs "stdhash") then run_stdhash x
  else if bytes_eqb leg (bs "args") then run_args x
  else if bytes_eqb leg (bs "key") then run_key x
  else if bytes_eqb leg (bs "keypair") then run_keypair x
  else if bytes_eqb leg (bs "cwdpair") then run_cwdpair x
  else if bytes_eqb leg (bs "sysroot") then run_sysroot x
  else if bytes_eqb leg (bs "archive") then run_archive x
  else err "unknown leg".
