(* Run/C12.v — Sx codec around Model/CompilerCache.v for the correspondence check.
   case   = ( op ... )      op = ( swap d n b m ) | ( rewrite d n b m ) | ( retarget d n d2 n2 ) | ( remove d n )
                            ( rewrite = the same change made IN PLACE — same inode — on a regular file: for
                              the model it is a swap; the generators only rewrite regular files )
                                 | ( touch d n m ) | ( compile d n src ) | ( compile d n src ( envop ... ) )
                            envop = swap / retarget / remove / touch as above: what happens to the file
                                    system WHILE the request's detection probe runs
   result = ( ev ... )      one per compile op
   ev     = ( outcome producer cur detected ( (id mode) ... ) cur0 )  (see harness/src/bin/c12.rs)
   legs:  inproc / e2e = the variant the translator read off the tree (Gen/C12Window.v);
          fixed / asfound / legacy / earlylate = the named variant.
   Instances of the external functions: bytes ids < 100 are working compilers whose
   identity digest is 1000 + id; ids >= 100 are not compilers.  H is an injective pairing. *)
From Coq Require Import List NArith Bool.
From Coq Require String.
Import String.StringSyntax.
From Sccache Require Import Base.Sx Model.CompilerCache Model.RustToolchain Gen.C12Window.
Import ListNotations.
Local Open Scope N_scope.
Local Open Scope string_scope.

Definition detect0 (b : N) : option N := if b <? 100 then Some (1000 + b) else None.
Definition H0 (id src : N) : N := id * 1000 + (src mod 1000).

Definition norm_d (d : N) : N := d mod 8.
Definition norm_n (n : N) : N := n mod 3.
Definition mkpath (d n : sx) : path := (norm_d (get_N d), norm_n (get_N n)).

Definition dec_eop (x : sx) : option eop :=
  match x with
  | SL [t; d; n; a; b] =>
      if is_sym "swap" t || is_sym "rewrite" t then Some (ESwap (mkpath d n) (get_N a) (get_N b))
      else if is_sym "retarget" t then Some (ERetarget (mkpath d n) (mkpath a b))
      else None
  | SL [t; d; n; a] =>
      if is_sym "touch" t then Some (ETouch (mkpath d n) (get_N a)) else None
  | SL [t; d; n] =>
      if is_sym "remove" t then Some (ERemove (mkpath d n)) else None
  | _ => None
  end.

Fixpoint dec_eops (l : list sx) : option (list eop) :=
  match l with
  | [] => Some []
  | x :: r => match dec_eop x, dec_eops r with
              | Some o, Some os => Some (o :: os)
              | _, _ => None
              end
  end.

Definition dec_op (x : sx) : option op :=
  match x with
  | SL [t; d; n; a; b] =>
      if is_sym "swap" t || is_sym "rewrite" t then Some (Swap (mkpath d n) (get_N a) (get_N b))
      else if is_sym "retarget" t then Some (Retarget (mkpath d n) (mkpath a b))
      else if is_sym "compile" t then
        match b with
        | SL env => match dec_eops env with
                    | Some es => Some (CompileW (mkpath d n) (get_N a mod 4) es)
                    | None => None
                    end
        | _ => None
        end
      else None
  | SL [t; d; n; a] =>
      if is_sym "touch" t then Some (Touch (mkpath d n) (get_N a))
      else if is_sym "compile" t then Some (Compile (mkpath d n) (get_N a mod 4))
      else None
  | SL [t; d; n] =>
      if is_sym "remove" t then Some (Remove (mkpath d n)) else None
  | _ => None
  end.

(* ( retargetdir l k ): the DIRECTORY l becomes a symbolic link to directory k.  For stat, canonicalize and
   exec a path through a linked directory is the same as a same-named link in it for every file name, so the
   op is the three retargets (l, n) -> (k, n); the generators never create files through a linked directory. *)
Definition dec_ops1 (x : sx) : option (list op) :=
  match x with
  | SL [t; l; k] =>
      if is_sym "retargetdir" t
      then Some [Retarget (norm_d (get_N l), 0) (norm_d (get_N k), 0);
                 Retarget (norm_d (get_N l), 1) (norm_d (get_N k), 1);
                 Retarget (norm_d (get_N l), 2) (norm_d (get_N k), 2)]
      else match dec_op x with Some o => Some [o] | None => None end
  | _ => match dec_op x with Some o => Some [o] | None => None end
  end.

Fixpoint dec_ops (l : list sx) : option (list op) :=
  match l with
  | [] => Some []
  | x :: r => match dec_ops1 x, dec_ops r with
              | Some o, Some os => Some (o ++ os)
              | _, _ => None
              end
  end.

Definition is_cc (b : N) : bool := match detect0 b with Some _ => true | None => false end.

Definition enc_event (e : event) : sx :=
  let '(o, prod) := match e_out e with
                    | OUnsupported => (sym "unsupported", 0)
                    | OFail => (sym "fail", 0)
                    | OHit p => (sym "hit", p)
                    | OMiss p => (sym "miss", p)
                    end in
  let enc_cur c := match c with Some (b, m) => SL [SN b; SN m] | None => SL [] end in
  let cur := enc_cur (e_cur e) in
  let dlog := if e_detected e
              then match e_cur0 e with
                   | Some (b, _) => [SL [SN b; sym (if is_cc b then "D" else "X")]]
                   | None => []
                   end
              else [] in
  let rlog := match e_ran e with
              | Some x =>
                  if is_cc x
                  then SL [SN x; sym "E"] :: match e_out e with OMiss _ => [SL [SN x; sym "C"]] | _ => [] end
                  else [SL [SN x; sym "X"]]
              | None => []
              end in
  SL [o; SN prod; cur; sbool (e_detected e); SL (dlog ++ rlog); enc_cur (e_cur0 e)].

Definition run_c12 (v : variant) (x : sx) : sx :=
  match x with
  | SL ops =>
      match dec_ops ops with
      | Some os => SL (map enc_event (exec detect0 H0 v (start []) os))
      | None => err "bad op"
      end
  | _ => err "bad case"
  end.

(* ---------- the rustc world: case = ( op ... ), op = ( default t ) | ( install t b m ) | ( req src )
   | ( reqd t src ) | ( holdbegin t src ) | ( holdend );  result = one ( outcome producer ( build mtime ) used ) per request ---------- *)
Definition identR (b : N) : N := 1000 + b.

Definition dec_rop (x : sx) : option rop :=
  match x with
  | SL [t; a] =>
      if is_sym "default" t then Some (RDefault (get_N a))
      else if is_sym "req" t then Some (RReq (get_N a))
      else None
  | SL [t] => if is_sym "holdend" t then Some RHoldEnd else None
  | SL [t; a; b] =>
      if is_sym "reqd" t then Some (RReqDirect (get_N a) (get_N b))
      else if is_sym "holdbegin" t then Some (RHoldBegin (get_N a) (get_N b))
      else None
  | SL [t; a; b; c] =>
      if is_sym "install" t then Some (RInstall (get_N a) (get_N b) (get_N c)) else None
  | _ => None
  end.

Fixpoint dec_rops (l : list sx) : option (list rop) :=
  match l with
  | [] => Some []
  | x :: r => match dec_rop x, dec_rops r with
              | Some o, Some os => Some (o :: os)
              | _, _ => None
              end
  end.

Definition enc_revent (e : revent) : sx :=
  let '(o, prod) := match v_out e with
                    | RUnsupported => (sym "unsupported", 0)
                    | RPending => (sym "pending", 0)
                    | RHit p => (sym "hit", p)
                    | RMiss p => (sym "miss", p)
                    end in
  SL [o; SN prod; match v_cur e with Some (b, m) => SL [SN b; SN m] | None => SL [] end;
      match v_used e with Some u => SL [SN u] | None => SL [] end].

Definition run_rust (memo join : bool) (x : sx) : sx :=
  match x with
  | SL ops =>
      match dec_rops ops with
      | Some os => SL (map enc_revent (rexec identR H0 memo join rstart os))
      | None => err "bad op"
      end
  | _ => err "bad case"
  end.

Definition dispatch (leg : list N) (x : sx) : sx :=
  if bytes_eqb leg (bs "inproc") then run_c12 tree_variant x
  else if bytes_eqb leg (bs "e2e") then run_c12 tree_variant x
  else if bytes_eqb leg (bs "fixed") then run_c12 VFixed x
  else if bytes_eqb leg (bs "asfound") then run_c12 VAsFound x
  else if bytes_eqb leg (bs "legacy") then run_c12 VLegacy x
  else if bytes_eqb leg (bs "earlylate") then run_c12 VEarlyLate x
  else if bytes_eqb leg (bs "rustworld") then run_rust false false x
  else if bytes_eqb leg (bs "rustmemo") then run_rust true false x
  else if bytes_eqb leg (bs "rustjoin") then run_rust false true x
  else err "unknown leg".
