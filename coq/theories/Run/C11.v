(* Run/C11.v — Sx codec around Model/Client.v for the correspondence legs.

   leg client       case ( ignore #bytes ending local_status )      ending = eof | reset
                    out  ( kind why exit ran out )
                         kind = finished | local | error ; why = the branch taken ; exit = process exit status ;
                         ran = 1 iff the client executed the original command itself ;
                         out = L (the client's own compiler run wrote the output) | S (still what the server left)
   leg decode_resp  case #payload      out = the decoded Response (canonical) | err
   leg decode_req   case #payload      out = the decoded Request (canonical) | err
   leg server       case ( cap ( ( id #chunk ) ... ) )
                    out  ( ( ( id ( resp ... ) open|closed ) ... ) alive ( 0 1 ) )
                         one entry per connection id in ascending order; resp = the kind of answer each decoded
                         request gets; alive = 0 iff a well-formed Shutdown was decoded; ( 0 1 ) = what the
                         bystander client must observe (exit 0, correct object). *)
From Coq Require Import List NArith Bool.
From Coq Require String.
Import String.StringSyntax.
From Sccache Require Import Base.Sx Model.Client.
Import ListNotations.
Local Open Scope N_scope.
Local Open Scope string_scope.

(* the run-time oracle: Stats / DistStatus / ShuttingDown payloads never decode.  The generators only
   produce such payloads that are too short to decode (see lib/props/c11.py); the theorems hold for every oracle. *)
Definition opq0 (_ : N) (_ : list N) : bool := false.

Definition dec_ending (x : sx) : ending :=
  if is_sym "reset" x then Reset else if is_sym "other" x then OtherIo else Eof.

Definition enc_local (w : local_reason) : sx :=
  match w with
  | LUnhandled => sym "unhandled"
  | LEofAfterAck => sym "eof_after_ack"
  | LIgnoredError => sym "ignored_error"
  end.

Definition enc_error (w : error_reason) : sx :=
  match w with
  | EBeforeAck => sym "before_ack"
  | EUnexpectedFirst => sym "unexpected_first"
  | EUnsupported => sym "unsupported"
  | EUnexpectedSecond => sym "unexpected_second"
  | EAfterAck => sym "after_ack"
  end.

Definition run_client (x : sx) : sx :=
  match x with
  | SL [ig; SB bytes; e; st] =>
      let o := client opq0 (get_bool ig) bytes (dec_ending e) in
      let local := get_N st in
      let '(kind, why) := match o with
                          | ReturnFinished _ => (sym "finished", sym "none")
                          | RunLocally w => (sym "local", enc_local w)
                          | SccacheError w => (sym "error", enc_error w)
                          end in
      SL [ kind; why; SN (exit_code o local); sbool (ran_locally o);
           (if ran_locally o && (local =? 0) then sym "L" else sym "S") ]
  | _ => err "bad case"
  end.

Definition enc_opt (o : option N) : sx := sopt SN o.

Definition enc_response (r : option response) : sx :=
  match r with
  | None => sym "err"
  | Some (RCompile CompileStarted) => SL [sym "compile"; sym "started"]
  | Some (RCompile UnhandledCompile) => SL [sym "compile"; sym "unhandled"]
  | Some (RCompile (UnsupportedCompiler m)) => SL [sym "compile"; sym "unsupported"; SB m]
  | Some RZeroStats => sym "zero_stats"
  | Some (ROpaque t) => SL [sym "opaque"; SN t]
  | Some (RFinished f) =>
      SL [sym "finished"; enc_opt (f_retcode f); enc_opt (f_signal f); SB (f_stdout f); SB (f_stderr f); SN (f_color f)]
  end.

Definition enc_request (r : option request) : sx :=
  match r with
  | None => sym "err"
  | Some ReqZeroStats => sym "zero_stats"
  | Some ReqGetStats => sym "get_stats"
  | Some ReqDistStatus => sym "dist_status"
  | Some ReqShutdown => sym "shutdown"
  | Some (ReqCompile exe cwd args env) =>
      SL [sym "compile"; SB exe; SB cwd; SL (map SB args); SL (map (fun kv => SL [SB (fst kv); SB (snd kv)]) env)]
  end.

Definition resp_kind (r : request) : sx :=
  match r with
  | ReqZeroStats => sym "zero_stats"
  | ReqGetStats => sym "stats"
  | ReqDistStatus => sym "dist_status"
  | ReqShutdown => sym "shutting_down"
  | ReqCompile _ _ _ _ => sym "compile"
  end.

Definition dec_event (x : sx) : N * list N :=
  match x with
  | SL [i; SB b] => (get_N i, b)
  | _ => (0, [])
  end.

(* insertion of an id into an ascending duplicate-free list *)
Fixpoint ins_id (i : N) (l : list N) : list N :=
  match l with
  | [] => [i]
  | j :: r => if i =? j then l else if i <? j then i :: l else j :: ins_id i r
  end.

Definition run_server (x : sx) : sx :=
  match x with
  | SL [cap; SL evs] =>
      let es := map dec_event evs in
      let s := srv_run (get_N cap) es in
      let ids := fold_left (fun acc e => ins_id (fst e) acc) es [] in
      SL [ SL (map (fun i => let c := srv_get s i in
                             SL [SN i; SL (map resp_kind (rev (c_reqs c)));
                                 (if conn_closed c then sym "closed" else sym "open")]) ids);
           sbool (negb (srv_shutdown s));
           SL [SN 0; SN 1] ]
  | _ => err "bad case"
  end.

(* leg kill: case ( phase ignore ), phase = detect | preprocess | compile | none.
   The server is SIGKILLed while the compiler it started is in that phase; what the client then finds on its
   socket is: nothing (detect: before the acknowledgement), the CompileStarted frame only (preprocess, compile),
   or the whole exchange (none) — each followed by a clean EOF (observed: the killed server had read the whole
   request, so the kernel sends FIN, not RST).  Output: the client leg's five fields, then `ok` (object correct
   whenever exit 0), the outcome of a following compile with no server running, and the same six fields for a
   CONCURRENT client of the same server that was in its compiler run when the server died. *)
Definition fin0 : finished :=
  {| f_retcode := Some 0; f_signal := None; f_stdout := []; f_stderr := []; f_color := 2 |}.

Definition run_kill (x : sx) : sx :=
  match x with
  | SL [ph; ig] =>
      let ack := frame (encode_compile_response CompileStarted) in
      let bytes := if is_sym "none" ph then ack ++ frame (encode_finished fin0)
                   else if is_sym "detect" ph then [] else ack in
      (* the concurrent client never has the switch on and is always caught after its acknowledgement *)
      let other := match run_client (SL [SN 0; SB ack; sym "eof"; SN 0]) with
                   | SL l => SL (l ++ [sym "ok"])
                   | y => y
                   end in
      match run_client (SL [ig; SB bytes; sym "eof"; SN 0]) with
      | SL l => SL (l ++ [sym "ok"; if is_sym "none" ph then sym "not_applicable" else sym "restart_ok";
                          if is_sym "none" ph then SL [] else other])
      | y => y
      end
  | _ => err "bad case"
  end.

Definition dispatch (leg : list N) (x : sx) : sx :=
  if bytes_eqb leg (bs "client") then run_client x
  else if bytes_eqb leg (bs "decode_resp") then enc_response (decode_response opq0 (get_B x))
  else if bytes_eqb leg (bs "decode_req") then enc_request (decode_request (get_B x))
  else if bytes_eqb leg (bs "server") then run_server x
  else if bytes_eqb leg (bs "kill") then run_kill x
  else err "unknown leg".
