(* Run/C11.v — Sx codec around Model/Client.v for the correspondence legs.

   leg client       case ( ignore #bytes ending local_status )      ending = eof | reset
                    out  ( kind why exit ran out )
                         kind = finished | local | error ; why = the branch taken ; exit = process exit status ;
                         ran = 1 iff the client executed the original command itself ;
                         out = L (the client's own compiler run wrote the output) | S (still what the server left)
   leg decode_resp  case #payload      out = the decoded Response (canonical) | err
   leg decode_req   case #payload      out = the decoded Request (canonical) | err
   leg server       case ( cap ( ( id #chunk ) ... ) )
                    out  ( ( ( id ( resp ... ) open|closed ) ... ) alive ( 0 1 ) )
                         one entry per connection id in ascending order; resp = the kind of answer each decoded
                         request gets; alive = 0 iff a well-formed Shutdown was decoded; ( 0 1 ) = what the
                         bystander client must observe (exit 0, correct object). *)
From Coq Require Import List NArith Bool.
From Coq Require String.
Import String.StringSyntax.
From Sccache Require Import Base.Sx Model.Client.
Import ListNotations.
Local Open Scope N_scope.
Local Open Scope string_scope.

(* the run-time oracle: Stats / DistStatus / ShuttingDown payloads never decode.  The generators only
   produce such payloads that are too short to decode (see lib/props/c11.py); the theorems hold for every oracle. *)
Definition opq0 (_ : N) (_ : list N) : bool := false.

Definition dec_ending (x : sx) : ending :=
  if is_sym "reset" x then Reset else if is_sym "other" x then OtherIo else Eof.

Definition enc_local (w : local_reason) : sx :=
  match w with
  | LUnhandled => sym "unhandled"
  | LEofAfterAck => sym "eof_after_ack"
  | LIgnoredError => sym "ignored_error"
  end.

Definition enc_error (w : error_reason) : sx :=
  match w with
  | EBeforeAck => sym "before_ack"
  | EUnexpectedFirst => sym "unexpected_first"
  | EUnsupported => sym "unsupported"
  | EUnexpectedSecond => sym "unexpected_second"
  | EAfterAck => sym "after_ack"
  end.

Definition run_client (x : sx) : sx :=
  match x with
  | SL [ig; SB bytes; e; st] =>
      let o := client opq0 (get_bool ig) bytes (dec_ending e) in
      let local := get_N st in
      let '(kind, why) := match o with
                          | ReturnFinished _ => (sym "finished", sym "none")
                          | RunLocally w => (sym "local", enc_local w)
                          | SccacheError w => (sym "error", enc_error w)
                          end in
      SL [ kind; why; SN (exit_code o local); sbool (ran_locally o);
           (if ran_locally o && (local =? 0) then sym "L" else sym "S") ]
  | _ => err "bad case"
  end.

Definition enc_opt (o : option N) : sx := sopt SN o.

Definition enc_response (r : option response) : sx :=
  match r with
  | None => sym "err"
  | Some (RCompile CompileStarted) => SL [sym "compile"; sym "started"]
  | Some (RCompile UnhandledCompile) => SL [sym "compile"; sym "unhandled"]
  | Some (RCompile (UnsupportedCompiler m)) => SL [sym "compile"; sym "unsupported"; SB m]
  | Some RZeroStats => sym "zero_stats"
  | Some (ROpaque t) => SL [sym "opaque"; SN t]
  | Some (RFinished f) =>
      SL [sym "finished"; enc_opt (f_retcode f); enc_opt (f_signal f); SB (f_stdout f); SB (f_stderr f); SN (f_color f)]
  end.

Definition enc_request (r : option request) : sx :=
  match r with
  | None => sym "err"
  | Some ReqZeroStats => sym "zero_stats"
  | Some ReqGetStats => sym "get_stats"
  | Some ReqDistStatus => sym "dist_status"
  | Some ReqShutdown => sym "shutdown"
  | Some (ReqCompile exe cwd args env) =>
      SL [sym "compile"; SB exe; SB cwd; SL (map SB args); SL (map (fun kv => SL [SB (fst kv); SB (snd kv)]) env)]
  end.

Definition resp_kind (r : request) : sx :=
  match r with
  | ReqZeroStats => sym "zero_stats"
  | ReqGetStats => sym "stats"
  | ReqDistStatus => sym "dist_status"
  | ReqShutdown => sym "shutting_down"
  | ReqCompile _ _ _ _ => sym "compile"
  end.

Definition dec_event (x : sx) : N * list N :=
  match x with
  | SL [i; SB b] => (get_N i, b)
  | _ => (0, [])
  end.

(* insertion of an id into an ascending duplicate-free list *)
Fixpoint ins_id (i : N) (l : list N) : list N :=
  match l with
  | [] => [i]
  | j :: r => if i =? j then l else if i <? j then i :: l else j :: ins_id i r
  end.

Definition run_server (x : sx) : sx :=
  match x with
  | SL [cap; SL evs] =>
      let es := map dec_event evs in
      let s := srv_run (get_N cap) es in
      let ids := fold_left (fun acc e => ins_id (fst e) acc) es [] in
      SL [ SL (map (fun i => let c := srv_get s i in
                             SL [SN i; SL (map resp_kind (rev (c_reqs c)));
                                 (if conn_closed c then sym "closed" else sym "open")]) ids);
           sbool (negb (srv_shutdown s));
           SL [SN 0; SN 1] ]
  | _ => err "bad case"
  end.

(* leg kill: case ( phase ignore ), phase = detect | preprocess | compile | none.
   The server is SIGKILLed while the compiler it started is in that phase; what the client then finds on its
   socket is: nothing (detect: before the acknowledgement), the CompileStarted frame only (preprocess, compile),
   or the whole exchange (none) — each followed by a clean EOF (observed: the killed server had read the whole
   request, so the kernel sends FIN, not RST).  Output: the client leg's five fields, then `ok` (object correct
   whenever exit 0), the outcome of a following compile with no server running, and the same six fields for a
   CONCURRENT client of the same server that was in its compiler run when the server died. *)
Definition fin0 : finished :=
  {| f_retcode := Some 0; f_signal := None; f_stdout := []; f_stderr := []; f_color := 2 |}.

Definition run_kill (x : sx) : sx :=
  match x with
  | SL [ph; ig] =>
      let ack := frame (encode_compile_response CompileStarted) in
      let bytes := if is_sym "none" ph then ack ++ frame (encode_finished fin0)
                   else if is_sym "detect" ph then [] else ack in
      (* the concurrent client never has the switch on and is always caught after its acknowledgement *)
      let other := match run_client (SL [SN 0; SB ack; sym "eof"; SN 0]) with
                   | SL l => SL (l ++ [sym "ok"])
                   | y => y
                   end in
      match run_client (SL [ig; SB bytes; sym "eof"; SN 0]) with
      | SL l => SL (l ++ [sym "ok"; if is_sym "none" ph then sym "not_applicable" else sym "restart_ok";
                          if is_sym "none" ph then SL [] else other])
      | y => y
      end
  | _ => err "bad case"
  end.

(* leg coldstart: case ( k after_kill [addr [env]] ), env = plain | xdg_ok | xdg_stale | xdg_notdir | xdg_empty |
   home_unset | home_stale | home_notdir | tmpdir_ok | tmpdir_stale | all_stale: the clients' environment; a row
   `spawn_err` exists only where the model says the rendezvous directory cannot be created (TMPDIR unusable), addr = tcp (default) | uds_plain | uds_symlink | uds_dotdot | uds_dot |
   uds_abstract: the server address is the TCP port or a Unix socket whose path is spelled canonically or not.  The
   `started` row uses what the model's server reports for that address (no `wrong_addr` row exists: the model's
   server never reports another address).  No server on a fresh address, k real clients released together.  Which
   client's server wins the port is up to the scheduler, so the model's output is its decision TABLE: for every
   start-up class a client can report (existing = first connect worked, started = its own server reported Ok,
   addr_in_use = its own server lost the port) the outcome `compile_process` predicts when a listener is there and
   the exchange is complete; the check looks every client's (class, outcome) up in it (trace acceptance). *)
Definition enc_process (p : process_outcome) : list sx :=
  match p with
  | PStartError _ => [sym "error"; SN 2]
  | PCompile o => [ match o with ReturnFinished _ => sym "finished" | RunLocally _ => sym "local"
                               | SccacheError _ => sym "error" end; SN (exit_code o 0) ]
  end.

Definition dec_saddr (k : sx) : saddr :=
  if is_sym "uds_plain" k then UdsPath (bs "/d/plain/s")
  else if is_sym "uds_symlink" k then UdsPath (bs "/d/link/s")
  else if is_sym "uds_dotdot" k then UdsPath (bs "/d/a/../b/s")
  else if is_sym "uds_dot" k then UdsPath (bs "/d/c/.//s")
  else if is_sym "uds_abstract" k then UdsAbstract (bs "vh")
  else TcpPort 1.

Definition dec_env (k : sx) : client_env :=
  let bad := Some DirUnusable in
  let ok := Some DirUsable in
  if is_sym "xdg_ok" k then {| e_tmpdir := None; e_xdg_runtime := ok; e_home := ok |}
  else if is_sym "xdg_stale" k || is_sym "xdg_notdir" k then {| e_tmpdir := None; e_xdg_runtime := bad; e_home := ok |}
  else if is_sym "home_unset" k then {| e_tmpdir := None; e_xdg_runtime := None; e_home := None |}
  else if is_sym "home_stale" k || is_sym "home_notdir" k then {| e_tmpdir := None; e_xdg_runtime := None; e_home := bad |}
  else if is_sym "tmpdir_ok" k then {| e_tmpdir := ok; e_xdg_runtime := None; e_home := ok |}
  else if is_sym "tmpdir_stale" k then {| e_tmpdir := bad; e_xdg_runtime := None; e_home := ok |}
  else if is_sym "all_stale" k then {| e_tmpdir := None; e_xdg_runtime := bad; e_home := bad |}
  else {| e_tmpdir := None; e_xdg_runtime := None; e_home := ok |}.

Definition run_coldstart (x : sx) : sx :=
  let a := dec_saddr (nth 2 (get_L x) (SN 0)) in
  let env := dec_env (nth 3 (get_L x) (SN 0)) in
  let started_rep := spawn_report env (report_of_started_server a) in
  let lost_rep := spawn_report env SAddrInUse in
  let bytes := frame (encode_compile_response CompileStarted) ++ frame (encode_finished fin0) in
  let row name first rep later :=
      SL (sym name :: enc_process (compile_process opq0 false first rep later bytes Eof)) in
  SL [ row "existing" AOk SSpawnErr [];
       row (match started_rep with SSpawnErr => "spawn_err" | _ => "started" end) ARefused started_rep [ARefused; AOk];
       row (match lost_rep with SSpawnErr => "spawn_err" | _ => "addr_in_use" end) ARefused lost_rep [ARefused; AOk];
       row "timed_out" ARefused STimedOut [AOk];
       row "start_err" ARefused SErr [AOk];
       row "no_listener" ARefused SAddrInUse [] ].

(* leg poison: case ( cc ( step ... ) ), step = ( bad how via ) | ( good via n ).
   All steps go to ONE fresh server, in order.  `bad` = a well-formed compile request that cannot be served
   because of what the REQUEST carries (environment that makes the probe fail; a working directory that does not
   exist: the probe does not use it, so the compiler is detected and the compile itself fails) or because the executable is unusable at that moment (broken_exe: fixed right afterwards, new mtime) or
   names something else (unsupported_exe, nonexistent_exe: other paths); `good` = n ordinary requests for compiler
   `cc`.  Output: per step the list of answers: served | unsupported | failed (a bad request that found the
   compiler already detected is accepted and then fails in its own compile). *)
Definition path_of (how : sx) : list N :=
  if is_sym "unsupported_exe" how then [2] else if is_sym "nonexistent_exe" how then [3] else [1].

Fixpoint run_steps (m : compilers) (mt : N) (steps : list sx) : list sx :=
  match steps with
  | [] => []
  | st :: r =>
      match st with
      | SL [t; a; b] =>
          if is_sym "bad" t then
            let how := a in
            let mt1 := if is_sym "broken_exe" how then mt + 1 else mt in
            let '(ans, m1) := compiler_info m {| q_path := path_of how; q_mtime := mt1; q_probe_ok := is_sym "bad_cwd" how |} in
            let mt2 := if is_sym "broken_exe" how then mt1 + 1 else mt1 in
            SL [if ans then sym "failed" else sym "unsupported"] :: run_steps m1 mt2 r
          else
            let qs := repeat {| q_path := [1]; q_mtime := mt; q_probe_ok := true |} (N.to_nat (get_N b)) in
            let '(ans, m1) := serve_all m qs in
            SL (map (fun x : bool => if x then sym "served" else sym "unsupported") ans) :: run_steps m1 mt r
      | _ => SL [sym "bad_step"] :: run_steps m mt r
      end
  end.

Definition run_poison (x : sx) : sx :=
  match x with
  | SL [_; SL steps] => SL (run_steps [] 1 steps)
  | _ => err "bad case"
  end.

(* leg vanish: case ( behaviour when #request_frame ), behaviour = close | reset | half_close, when = immediately |
   after_started.  Four connections each carry one complete well-formed Compile request (warm-up, bystander, the
   peer that goes away, a later client).  What a peer does with ITS end after its request is complete is not an
   input of the server's state (C11_connection_isolation: bytes only; C11_only_shutdown_stops_the_server): the
   server stays up, counts four compile requests, serves the others; the peer itself can still read both answers
   iff it only half-closed.  Output ( alive compile_requests bystander later peer_saw ). *)
Definition run_vanish (x : sx) : sx :=
  match x with
  | SL [beh; w; SB fr] =>
      let s := srv_run 8388608 [(1, fr); (2, fr); (3, fr); (4, fr)] in
      let n := fold_left (fun acc i => acc + N.of_nat (length (filter (fun r => match r with ReqCompile _ _ _ _ => true | _ => false end)
                                                                     (c_reqs (srv_get s i))))) [1; 2; 3; 4] 0 in
      SL [ sbool (negb (srv_shutdown s)); SN n; sym "served"; sym "served";
           if is_sym "half_close" beh then sym "both"
           else if is_sym "after_started" w then sym "started" else sym "none" ]
  | _ => err "bad case"
  end.

(* leg bigout: case ( cap noise status #last ).  The compiler writes `noise` bytes 'w', a newline, `last`, a newline
   to stderr and exits `status`; the server's frame limit is `cap`.  Output: the client leg's first four fields,
   then `complete` (the client's stderr carries the compiler's whole output) and `ok` (object correct when status 0). *)
Definition run_bigout (x : sx) : sx :=
  match x with
  | SL [cap; noise; st; SB last] =>
      let f := {| f_retcode := Some (get_N st); f_signal := None; f_stdout := [];
                  f_stderr := repeat 119 (N.to_nat (get_N noise)) ++ [10] ++ last ++ [10]; f_color := 2 |} in
      match run_client (SL [SN 0; SB (server_reply (get_N cap) f); sym "eof"; st]) with
      | SL [k; w; e; r; _] => SL [k; w; e; r; sym "complete"; sym "ok"]
      | y => y
      end
  | _ => err "bad case"
  end.

(* leg takeover: case ( how ).  Server 1 binds the socket path, is told to stop with a compile in flight, server 2
   binds the path inside the grace window, server 1 exits.  Output ( inflight during old_gone reachable next ):
   the in-flight compile is served, the take-over works, the path still leads to a live server (sock_owner), the
   next client is served. *)
Definition run_takeover (x : sx) : sx :=
  let owner := sock_owner [SBind 1; SBind 2; SExit 1] in
  SL [ sym "served";
       (if is_sym "client" (nth 0 (get_L x) (SN 0)) then sym "served" else sym "started");
       SN 1;
       sbool (match owner with Some 2 => true | _ => false end);
       sym "served" ].

Definition dispatch (leg : list N) (x : sx) : sx :=
  if bytes_eqb leg (bs "client") then run_client x
  else if bytes_eqb leg (bs "decode_resp") then enc_response (decode_response opq0 (get_B x))
  else if bytes_eqb leg (bs "decode_req") then enc_request (decode_request (get_B x))
  else if bytes_eqb leg (bs "server") then run_server x
  else if bytes_eqb leg (bs "kill") then run_kill x
  else if bytes_eqb leg (bs "vanish") then run_vanish x
  else if bytes_eqb leg (bs "bigout") then run_bigout x
  else if bytes_eqb leg (bs "takeover") then run_takeover x
  else if bytes_eqb leg (bs "coldstart") then run_coldstart x
  else if bytes_eqb leg (bs "poison") then run_poison x
  else err "unknown leg".
