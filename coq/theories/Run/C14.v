(* Run/C14.v — C14 shares the request state machine, the harness binary and the codec with C09. *)
From Coq Require Import List NArith.
From Sccache Require Import Base.Sx Run.C09.

Definition dispatch (leg : list N) (x : sx) : sx := Run.C09.dispatch leg x.
