(* Run/C10.v — Sx codec around Model/Extract.v + Model/FsModel.v.

   out  = ( dir name size mode optional old fault [ kind ] )      kind = mixed | zeros | ff : what the new bytes look
          like (only the harness cares: the model's contents are symbolic)
          old   = () | ( size mode ) | ( size mode shape ) | dir | special    what is at the output path before the request
                  special = a character device (a private copy of the null device): written into, never replaced
                  shape = plain | hardlink | symlink | dir700   (hardlink / symlink: the old file has the other name links/<i>)
          fault = none | missing | corrupt_head | corrupt_mid | corrupt_tail | no_dir
   Contents are symbolic in the legs `strace` and `live`: the old file of output i is the token [79; i], its
   new content the tokens [78; i; j] (one per chunk), so a prefix or a mixture is never mistaken for a whole.

   leg strace : ( seed ( out ... ) )
        ->  ( result ( canonical event ... ) ( ( path class mode ) ... ) leftovers ( aliases_bad rewritten_in_place ) )
   leg live   : ( seed ( out ... ) ( ( poll|hold out_index reads ) ... ) ( thread number ... ) nchunks )
        ->  ( result torn holders_bad ( ( path class mode ) ... ) leftovers ( aliases_bad rewritten_in_place ) )
        the extracted scheduler runs the given schedule (then lets every thread finish)
   leg request: ( seed ( out [ out ] ) )      foo.o and, with a second output, the optional foo.dwo
        ->  ( obs obs' )   the observation (as for strace, result hit | error) for either order of the two outputs
   leg accept : ( seed ( out ... ) ( result canonical finals leftovers ( raw event ... ) ) )
        the third component is what the harness OBSERVED (strace of the real extract_objects);
        ->  ( accept trace_is_a_model_trace no_forbidden_call sizes_complete result_agrees final_state_agrees
                     finals_whole no_temp_left )
        the object descriptions (temp names, chunk sizes, modes) are read back from the observed calls and
        the check is [trace (prog objs) = observed calls]: the observed run IS a run of the model. *)
From Coq Require Import List NArith Bool.
From Coq Require String.
Import String.StringSyntax.
From Sccache Require Import Base.Sx Model.FsModel Model.Extract.
Import ListNotations.
Local Open Scope N_scope.
Local Open Scope string_scope.

(* ---------- paths ---------- *)

Fixpoint take_name (r : bytes) : bytes :=          (* on the reversed path *)
  match r with
  | [] => []
  | c :: r' => if c =? 47 then [] else c :: take_name r'
  end.
Fixpoint drop_name (r : bytes) : bytes :=
  match r with
  | [] => []
  | c :: r' => if c =? 47 then r' else drop_name r'
  end.
Definition split_path (b : bytes) : path :=
  let r := rev b in (rev (drop_name r), rev (take_name r)).
Definition pjoin (p : path) : bytes :=
  match fst p with [] => snd p | d => d ++ [47] ++ snd p end.

(* ---------- cases ---------- *)

Inductive oldk := OldNone | OldFile (size mode : N) | OldDir | OldSpecial.
Definition special_mode : N := 438.    (* 0o666: the harness makes a private copy of the null device with this mode *)
Inductive faultk := KNone | KMissing | KHead | KMid | KTail | KNoDir.

Record spec := mkSpec {
  s_path : path; s_size : N; s_mode : N; s_optional : bool; s_old : oldk; s_fault : faultk;
  s_alias : bool;      (* the previous file has another name, links/<i>: a second hard link, or the target of the
                          symbolic link that sits at the output path (for what the model observes both are a second
                          name of the old inode: rename replaces the NAME at the output path) *)
}.

Definition dec_spec (x : sx) : spec :=
  match x with
  | SL (d :: n :: sz :: m :: opt :: old :: flt :: _) =>
      mkSpec (get_B d, get_B n) (get_N sz) (get_N m) (get_bool opt)
        (match old with
         | SL [a; b] => OldFile (get_N a) (get_N b)
         | SL [a; b; _] => OldFile (get_N a) (get_N b)
         | SL _ => OldNone
         | _ => if is_sym "dir" old then OldDir else if is_sym "special" old then OldSpecial else OldNone
         end)
        (if is_sym "missing" flt then KMissing else if is_sym "corrupt_head" flt then KHead
         else if is_sym "corrupt_mid" flt then KMid else if is_sym "corrupt_tail" flt then KTail
         else if is_sym "no_dir" flt then KNoDir else KNone)
        (match old with
         | SL [_; _; sh] => is_sym "hardlink" sh || is_sym "symlink" sh
         | _ => false
         end)
  | _ => mkSpec ([], []) 0 0 false OldNone KNone false
  end.

Fixpoint number {A} (n : N) (l : list A) : list (N * A) :=
  match l with [] => [] | x :: r => (n, x) :: number (n + 1) r end.

Definition old_token (i : N) : bytes := [79; i].
Definition new_chunk (i j : N) : bytes := [78; i; j].

Fixpoint count_up (n : nat) (j : N) : list N :=
  match n with O => [] | S n' => j :: count_up n' (j + 1) end.

Definition links_dir : bytes := bs "links".
Definition alias_path (i : N) : path := (links_dir, [48 + i]).

Definition add_link (alias p : path) (f : fs) : fs :=
  match lookup p f with
  | Some i => mkFs ((alias, i) :: dir f) (inodes f) (next_ino f)
  | None => f
  end.

Definition plain_fs0_of (specs : list spec) : fs :=
  mk_fs_from
    (flat_map (fun e => let '(i, s) := e in
                 match s_old s with
                 | OldNone => []
                 | OldFile _ m => [(s_path s, (old_token i, m))]
                 | OldDir => [(s_path s, (old_token i, 0))]
                 | OldSpecial => [(s_path s, ([], special_mode))]      (* a device: nothing to read, a sink *)
                 end) (number 0 specs)) 0.

Definition fs0_of (specs : list spec) : fs :=
  fold_left (fun f e => if s_alias (snd e) then add_link (alias_path (fst e)) (s_path (snd e)) f else f)
            (number 0 specs) (plain_fs0_of specs).

(* ( other names of a previous file that no longer hold its complete bytes,
     outputs whose new content sits in the inode the path named before ) *)
Definition aliases (f0 f : fs) (objs : list obj) (specs : list spec) : sx :=
  let bad := filter (fun e => s_alias (snd e) &&
                       negb (opt_bytes_eqb (content f (alias_path (fst e))) (Some (old_token (fst e)))))
                    (number 0 specs) in
  let inplace := filter (fun s => match lookup (s_path s) f0, lookup (s_path s) f with
                                  | Some i, Some j => (i =? j) && match content f (s_path s) with
                                                                  | Some c => is_newb objs (s_path s) c
                                                                  | None => false
                                                                  end
                                  | _, _ => false
                                  end) specs in
  SL [snat (length bad); snat (length inplace)].

(* the object description of output [i]; [nchunks] writes when it decodes *)
Definition obj_of (nchunks : nat) (e : N * spec) : obj :=
  let '(i, s) := e in
  let good := map (new_chunk i) (count_up nchunks 0) in
  let '(chunks, d) :=
    match s_fault s with
    | KNone | KNoDir => (good, DecOk (Some (s_mode s)))
    | KMissing => ([], DecAbsent)
    | KHead => ([], DecCorrupt)
    | KMid => (firstn (Nat.div2 nchunks) good, DecCorrupt)
    | KTail => (good, DecCorrupt)
    end in
  mkObj (s_path s) [i] chunks d (s_optional s)
    (match s_fault s, s_old s with
     | KNoDir, _ => FCreate
     | _, OldDir => FPersist
     | _, _ => FNone
     end)
    (match s_old s with OldSpecial => true | _ => false end).

Definition enc_result (r : result) : sx :=
  match r with ROk => sym "ok" | RDecompressionFailure => sym "decompression_failure" | ROtherError => sym "other_error" end.

(* ---------- canonical events: temp files numbered in creation order, writes dropped ---------- *)

Fixpoint canon (evs : list event) (n : N) : list sx :=
  match evs with
  | [] => []
  | ECreate t :: r => SL [sym "create_tmp"; SN n; SB (fst t)] :: canon r (n + 1)
  | EWrite _ _ :: r => canon r n
  | ERename _ p :: r => SL [sym "rename"; SN (n - 1); SB (pjoin p)] :: canon r n
  | EChmod p m :: r => SL [sym "chmod"; SB (pjoin p); SN m] :: canon r n
  | EUnlink _ :: r => SL [sym "unlink_tmp"; SN (n - 1)] :: canon r n
  | EOpenW p :: r => SL [sym "open_special"; SB (pjoin p)] :: canon r n
  end.

(* ---------- final state ---------- *)

Definition class_of (f0 f : fs) (objs : list obj) (p : path) : sx :=
  match content f p with
  | None => sym "absent"
  | Some c =>
      if is_newb objs p c then sym "new"
      else if opt_bytes_eqb (content f0 p) (Some c) then sym "old"
      else sym "other"
  end.

Definition class_spec (f0 f : fs) (objs : list obj) (s : spec) : sx :=
  match s_old s with
  | OldSpecial =>
      (* still the same device node? *)
      match lookup (s_path s) f0, lookup (s_path s) f with
      | Some i, Some j => if i =? j then sym "special" else sym "other"
      | _, _ => sym "other"
      end
  | _ => class_of f0 f objs (s_path s)
  end.

Definition finals (f0 f : fs) (objs : list obj) (specs : list spec) : sx :=
  SL (map (fun s => SL [SB (pjoin (s_path s)); class_spec f0 f objs s;
                        SN (match mode_at f (s_path s) with Some m => m | None => 0 end)]) specs).

Definition leftovers (f : fs) (specs : list spec) : N :=
  N.of_nat (length (filter (fun e => negb (existsb (fun s => path_eqb (s_path s) (fst e)) specs)
                                     && negb (bytes_eqb (fst (fst e)) links_dir)) (dir f))).

(* ---------- leg strace ---------- *)

Definition run_strace (x : sx) : sx :=
  match x with
  | SL [_; SL outs] =>
      let specs := map dec_spec outs in
      let f0 := fs0_of specs in
      let objs := map (obj_of 1) (number 0 specs) in
      let s := seq_run (prog objs) (f0, init_local) in
      SL [ enc_result (result_of objs (snd s));
           SL (canon (trace (prog objs) (f0, init_local)) 0);
           finals f0 (fst s) objs specs;
           SN (leftovers (fst s) specs);
           aliases f0 (fst s) objs specs ]
  | _ => err "bad case"
  end.

(* ---------- leg request ----------
   Whole requests through get_cached_or_compile.  The hit arm of the caller is: read stdout/stderr from the entry (no
   file-system effect), then extract_objects — NOTHING else touches the output paths, so the sccache process's own
   calls are again [trace (prog objs)].  The compiler of the case fails whenever it is asked to compile, so after a
   DecompressionFailure (hit turned into a miss) the fallback compile changes nothing and the request ends in an
   error.  The order in which the outputs are restored is the iteration order of a HashMap in the real code: the
   model gives the observation for every order. *)

Definition enc_request_result (r : result) : sx :=
  match r with ROk => sym "hit" | _ => sym "error" end.

Definition request_obs (specs : list spec) (f0 : fs) (objs : list obj) : sx :=
  let s := seq_run (prog objs) (f0, init_local) in
  SL [ enc_request_result (result_of objs (snd s));
       SL (canon (trace (prog objs) (f0, init_local)) 0);
       finals f0 (fst s) objs specs;
       SN (leftovers (fst s) specs);
       aliases f0 (fst s) objs specs ].

Definition run_request (x : sx) : sx :=
  match x with
  | SL (_ :: SL outs :: _) =>
      let specs := map dec_spec outs in
      let f0 := fs0_of specs in
      let objs := map (obj_of 1) (number 0 specs) in
      SL [request_obs specs f0 objs; request_obs specs f0 (rev objs)]
  | _ => err "bad case"
  end.

(* ---------- leg live ---------- *)

Definition nth_spec (specs : list spec) (i : N) : option spec := nth_error specs (N.to_nat i).

Definition reader_of (f0 : fs) (specs : list spec) (x : sx) : list (@thread local action) :=
  match x with
  | SL [k; i; n] =>
      match nth_spec specs (get_N i) with
      | None => []
      | Some s =>
          let p := s_path s in
          let reads := repeat ARead (N.to_nat (get_N n)) in
          if is_sym "hold" k then
            match lookup p f0 with
            | Some ino => [(mkLocal (Some ino) p [] false, reads)]
            | None => []
            end
          else [(init_local, AOpen p :: reads ++ [AOpen p; ARead])]
      end
  | _ => []
  end.

Definition is_holder (t : @thread local action) : bool :=
  match snd t with ARead :: _ => true | [] => true | _ => false end.

(* let every thread finish: thread k, as many steps as it has actions *)
Fixpoint completion (k : nat) (ts : list (@thread local action)) : list nat :=
  match ts with
  | [] => []
  | t :: r => repeat k (length (snd t)) ++ completion (S k) r
  end.

Definition run_live (x : sx) : sx :=
  match x with
  | SL [_; SL outs; SL rds; SL sched; nch] =>
      let specs := map dec_spec outs in
      let f0 := fs0_of specs in
      let objs := map (obj_of (N.to_nat (get_N nch))) (number 0 specs) in
      let readers := flat_map (reader_of f0 specs) rds in
      let st0 := sys f0 objs readers in
      let sch := map (fun t => N.to_nat (get_N t)) sched in
      let st := exec act (sch ++ completion 0%nat (snd st0)) st0 in
      let obs := combine (map is_holder readers) (tl (snd st)) in
      let torn := flat_map (fun e : bool * @thread local action => if fst e then [] else
                     filter (fun r => negb (wholeb f0 objs (fst (fst r)) (snd r))) (l_log (fst (snd e)))) obs in
      let hbad := flat_map (fun e : bool * @thread local action => if fst e then
                     filter (fun r => negb (opt_bytes_eqb (content f0 (fst (fst r))) (Some (snd r)))) (l_log (fst (snd e)))
                     else []) obs in
      let l0 := match snd st with t :: _ => fst t | [] => init_local end in
      SL [ enc_result (result_of objs l0); snat (length torn); snat (length hbad);
           finals f0 (fst st) objs specs; SN (leftovers (fst st) specs); aliases f0 (fst st) objs specs ]
  | _ => err "bad case"
  end.

(* ---------- leg accept ---------- *)

Inductive rawev := RGood (e : event) | RBad.

Definition dec_raw (x : sx) : rawev :=
  match x with
  | SL [k; a] =>
      if is_sym "create" k then RGood (ECreate (split_path (get_B a)))
      else if is_sym "unlink" k then RGood (EUnlink (split_path (get_B a)))
      else RBad
  | SL [k; a; b] =>
      if is_sym "write" k then RGood (EWrite (split_path (get_B a)) (get_N b))
      else if is_sym "rename" k then RGood (ERename (split_path (get_B a)) (split_path (get_B b)))
      else if is_sym "chmod" k then RGood (EChmod (split_path (get_B a)) (get_N b))
      else if is_sym "open_w" k then (if is_sym "O_WRONLY" b then RGood (EOpenW (split_path (get_B a))) else RBad)
      else RBad
  | _ => RBad
  end.

Definition event_eqb (a b : event) : bool :=
  match a, b with
  | ECreate x, ECreate y => path_eqb x y
  | EWrite x n, EWrite y m => path_eqb x y && (n =? m)
  | ERename x1 x2, ERename y1 y2 => path_eqb x1 y1 && path_eqb x2 y2
  | EChmod x n, EChmod y m => path_eqb x y && (n =? m)
  | EUnlink x, EUnlink y => path_eqb x y
  | EOpenW x, EOpenW y => path_eqb x y
  | _, _ => false
  end.

Fixpoint events_eqb (a b : list event) : bool :=
  match a, b with
  | [], [] => true
  | x :: a', y :: b' => event_eqb x y && events_eqb a' b'
  | _, _ => false
  end.

Definition zeros (n : N) : bytes := N.iter n (cons 0) [].

(* the writes at the head of the observed calls *)
Fixpoint take_writes (evs : list event) : list bytes * list event :=
  match evs with
  | EWrite _ n :: r => let '(c, r') := take_writes r in (zeros n :: c, r')
  | _ => ([], evs)
  end.

(* read the object descriptions back from the observed calls, output by output *)
Fixpoint reconstruct (specs : list spec) (evs : list event) : list obj :=
  match specs with
  | [] => []
  | s :: rest =>
      let flt := match s_fault s, s_old s with KNoDir, _ => FCreate | _, OldDir => FPersist | _, _ => FNone end in
      (* whether a failing member is absent from the entry or stored and unreadable is the case's knowledge *)
      let bad := match s_fault s with KMissing => DecAbsent | _ => DecCorrupt end in
      match s_old s with
      | OldSpecial =>
          match evs with
          | EOpenW _ :: r =>
              let '(chunks, r1) := take_writes r in
              mkObj (s_path s) [] chunks (match s_fault s with KNone => DecOk (Some (s_mode s)) | _ => bad end)
                    (s_optional s) FNone true :: reconstruct rest r1
          | _ => [mkObj (s_path s) [] [] bad (s_optional s) FCreate true]
          end
      | _ =>
      match evs with
      | ECreate t :: r =>
          let sfx := skipn (length tmp_prefix) (snd t) in
          let '(chunks, r1) := take_writes r in
          match r1 with
          | ERename _ _ :: EChmod _ m :: r2 =>
              mkObj (s_path s) sfx chunks (DecOk (Some m)) (s_optional s) flt false :: reconstruct rest r2
          | ERename _ _ :: r2 =>
              mkObj (s_path s) sfx chunks (DecOk None) (s_optional s) flt false :: reconstruct rest r2
          | EUnlink _ :: r2 =>
              match flt with
              | FPersist => mkObj (s_path s) sfx chunks (DecOk (Some (s_mode s))) (s_optional s) flt false :: reconstruct rest r2
              | _ => mkObj (s_path s) sfx chunks bad (s_optional s) flt false :: reconstruct rest r2
              end
          | _ => [mkObj (s_path s) sfx chunks bad (s_optional s) flt false]
          end
      | _ => [mkObj (s_path s) [] [] bad (s_optional s) FCreate false]
      end
      end
  end.

Fixpoint all_good (l : list rawev) : option (list event) :=
  match l with
  | [] => Some []
  | RGood e :: r => match all_good r with Some es => Some (e :: es) | None => None end
  | RBad :: _ => None
  end.

Definition good_events (l : list rawev) : list event :=
  flat_map (fun r => match r with RGood e => [e] | RBad => [] end) l.

Definition sx_eqb_sym (a b : sx) : bool :=
  match a, b with SB x, SB y => bytes_eqb x y | SN x, SN y => x =? y | _, _ => false end.

Fixpoint finals_eqb (a b : list sx) : bool :=
  match a, b with
  | [], [] => true
  | SL [p; c; m] :: a', SL [q; d; n] :: b' => sx_eqb_sym p q && sx_eqb_sym c d && sx_eqb_sym m n && finals_eqb a' b'
  | _, _ => false
  end.

Definition run_accept (x : sx) : sx :=
  match x with
  | SL [_; SL outs; SL (res :: _ :: SL fin :: nleft :: SL raws :: _)] =>
      let specs := map dec_spec outs in
      let f0 := fs0_of specs in
      let rl := map dec_raw raws in
      let evs := good_events rl in
      let objs := reconstruct specs evs in
      let s := seq_run (prog objs) (f0, init_local) in
      let model_fin := finals f0 (fst s) objs specs in
      let sizes_ok :=
        forallb (fun e => match o_dec (snd e) with
                          | DecOk _ => N.of_nat (length (o_new (snd e))) =? s_size (fst e)
                          | _ => true
                          end) (combine specs objs) in
      SL [ sym "accept";
           sbool (events_eqb (trace (prog objs) (f0, init_local)) evs);
           sbool (match all_good rl with Some _ => true | None => false end);
           sbool sizes_ok;
           sbool (sx_eqb_sym (enc_result (result_of objs (snd s))) res);
           sbool (finals_eqb (get_L model_fin) fin);
           sbool (forallb (fun e => match e with SL [_; c; _] => negb (is_sym "other" c) | _ => false end) fin);
           sbool ((leftovers (fst s) specs =? 0) && (get_N nleft =? 0)) ]
  | _ => err "bad case"
  end.

Definition dispatch (leg : list N) (x : sx) : sx :=
  if bytes_eqb leg (bs "strace") then run_strace x
  else if bytes_eqb leg (bs "live") then run_live x
  else if bytes_eqb leg (bs "accept") then run_accept x
  else if bytes_eqb leg (bs "request") then run_request x
  else err "unknown leg".
