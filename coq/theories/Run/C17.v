(* Run/C17.v — Sx codec around Model/TcCache.v for the correspondence check.
   case   = ( cap ( (content id) ... ) ( id ... ) ( (path content mtime) ... ) ( op ... ) )
            the table (content id) instantiates the model's abstract digest with the
            REAL ids of the contents in play (computed by `c17 hash`, re-checked by the harness)
   result = ( obs ... )   one observation per op, preceded by one for the initial open
   obs    = ( res ( ret ... ) ( touched ) ( (id present) ... ) size len ( (key size) ... )
              ( (path content mtime digest) ... ) ntmp ) *)
From Coq Require Import List NArith Bool.
From Coq Require String.
Import String.StringSyntax.
From Sccache Require Import Base.Sx.
From Sccache Require Import Model.Lru.
From Sccache Require Import Model.TcCache.
Import ListNotations.
Local Open Scope N_scope.
Local Open Scope string_scope.

Fixpoint table_digest (t : list (bytes * id)) (b : bytes) : id :=
  match t with
  | [] => []
  | (c, i) :: r => if bytes_eqb b c then i else table_digest r b
  end.

Definition dec_pair (x : sx) : bytes * id :=
  match x with
  | SL [c; i] => (get_B c, get_B i)
  | _ => ([], [])
  end.

Definition dec_op (x : sx) : option top :=
  match x with
  | SL [t; a] =>
      if is_sym "get" t then Some (TGet (get_B a))
      else if is_sym "remove" t then Some (TRemove (get_B a))
      else if is_sym "contains" t then Some (TContains (get_B a))
      else if is_sym "reopen" t then Some (TReopen (get_N a))
      else if is_sym "insert_file" t then Some (TInsertFile (get_B a))
      else None
  | SL [t; a; b; c] =>
      if is_sym "insert_with" t then Some (TInsertWith (get_B a) (get_B b) (get_bool c))
      else if is_sym "crash_upload" t then Some (TCrashUpload (get_B a) (get_B b) (get_N c))
      else None
  | SL [t; a; b; c; _] =>
      (* ( insert_with id content fail rewind ): where the writer leaves its cursor is not part of the
         model - what is verified is the file *)
      if is_sym "insert_with" t then Some (TInsertWith (get_B a) (get_B b) (get_bool c)) else None
  | _ => None
  end.

Fixpoint dec_ops (l : list sx) : option (list top) :=
  match l with
  | [] => Some []
  | x :: r => match dec_op x, dec_ops r with
              | Some o, Some os => Some (o :: os)
              | _, _ => None
              end
  end.

Definition dec_file (x : sx) : key * bytes * N :=
  match x with
  | SL [k; c; mt] => (get_B k, get_B c, get_N mt)
  | _ => ([], [], 0)
  end.

Definition enc_tres (r : tres) : sx :=
  match r with
  | TOk => sym "ok" | TTooLarge => sym "too_large" | TNotInCache => sym "not_in_cache"
  | TIoErr => sym "io_err" | TRejected => sym "rejected"
  end.

Section Enc.
Variable digest : bytes -> id.
Variable ids : list id.

Definition enc_obs (x : tout * tst) : sx :=
  let '(o, s) := x in
  let '(r, t, ret) := match o with
                      | TORes r t ret => (enc_tres r, sopt SB t, SL (map SB ret))
                      | TOBool b => (sym (if b then "true" else "false"), SL [], SL [])
                      end in
  SL [ r; ret; t;
       SL (map (fun i => SL [SB i; sbool (tc_contains s i)]) ids);
       SN (size (lru s)); snat (length (index (lru s)));
       SL (map (fun e => SL [SB (fst e); SN (snd e)]) (index (lru s)));
       SL (map (fun e => let c := match alookup (fst e) (cont s) with Some c => c | None => [] end in
                         SL [SB (fst e); SB c; SN (snd (snd e)); SB (digest c)]) (files (lru s)));
       snat (length (handles (lru s))) ].
End Enc.

(* the directory found by the first TcCache::new *)
Definition initial (c : N) (fs : list (key * bytes * N)) : tst :=
  let l0 := {| cap := c; index := []; measure := 0; pending := []; pending_size := 0;
               files := fold_right (fun e acc => ains (fst (fst e)) (blen (snd (fst e)), snd e) acc) [] fs;
               handles := []; next_h := 0; clock := 1000 |} in
  tc_reopen {| lru := l0; cont := map fst fs |} c.

Definition run_c17 (x : sx) : sx :=
  match x with
  | SL [c; SL tab; SL ids; SL fs; SL ops] =>
      match dec_ops ops with
      | Some os =>
          let dg := table_digest (map dec_pair tab) in
          let s0 := initial (get_N c) (map dec_file fs) in
          SL (map (enc_obs dg (map get_B ids)) ((TORes TOk None [], s0) :: ttrace dg s0 os))
      | None => err "bad op"
      end
  | _ => err "bad case"
  end.

(* ---- the client leg:  case = ( cap ( (content id) ... ) ( op ... ) )
        obs = ( res ( ret ... ) ( touched ) ( (path content mtime digest) ... ) ntmp ) ---- *)
Definition dec_cop (x : sx) : option cop :=
  match x with
  | SL [t; a] =>
      if is_sym "get" t then Some (CGet (get_B a))
      else if is_sym "reopen" t then Some (CReopen (get_N a))
      else None
  | SL [t; a; b; c] =>
      if is_sym "put" t then Some (CPut (get_B a) (get_B b) (get_bool c)) else None
  | _ => None
  end.

Fixpoint dec_cops (l : list sx) : option (list cop) :=
  match l with
  | [] => Some []
  | x :: r => match dec_cop x, dec_cops r with
              | Some o, Some os => Some (o :: os)
              | _, _ => None
              end
  end.

Definition enc_cobs (digest : bytes -> id) (x : tout * cst) : sx :=
  let '(o, cs) := x in
  let s := tcs cs in
  let '(r, t, ret) := match o with
                      | TORes r t ret => (enc_tres r, sopt SB t, SL (map SB ret))
                      | TOBool b => (sym (if b then "true" else "false"), SL [], SL [])
                      end in
  SL [ r; ret; t;
       SL (map (fun e => let c := match alookup (fst e) (cont s) with Some c => c | None => [] end in
                         SL [SB (fst e); SB c; SN (snd (snd e)); SB (digest c)]) (files (lru s)));
       snat (length (handles (lru s))) ].

Definition run_client (x : sx) : sx :=
  match x with
  | SL [c; SL tab; SL ops] =>
      match dec_cops ops with
      | Some os =>
          let dg := table_digest (map dec_pair tab) in
          let s0 := {| tcs := initial (get_N c) []; weak := [] |} in
          SL (map (enc_cobs dg) ((TORes TOk None [], s0) :: ctrace dg s0 os))
      | None => err "bad op"
      end
  | _ => err "bad case"
  end.

(* ---- the mount leg: shard directories of the cache that are mount points of their own.
   case = ( cap ( (content id) ... ) ( id ... ) ( (dir/ pages) ... ) ( op ... ) ), a content may be
   written ( rep byte n ).  Which FAULT an op meets is decided here from the mounts and the
   model state, and handed to the model as the op variant:
     insert_with under a mounted shard  -> the final rename fails        (TInsertWithXdev)
     insert_file under a mounted shard  -> rename fails, fall-back copy  (TInsertFileCopy fits),
       fits = the tmpfs (4 KiB pages) has room for the temp copy beside what is already there;
     crash_insert_file content k cap: a child with RLIMIT_FSIZE = k runs insert_file and the cache is
       re-opened: killed in the fall-back copy (tc_crash_insert_file_copy) when the shard is mounted,
       k < length and k bytes fit; otherwise insert_file ran to its end (done / failed) first.
   obs as for tccache with lengths in place of contents. ---- *)
Definition get_content (x : sx) : bytes :=
  match x with
  | SL [t; c; n] => if is_sym "rep" t then repeat (get_N c) (N.to_nat (get_N n)) else []
  | _ => get_B x
  end.

Definition dec_pair_m (x : sx) : bytes * id :=
  match x with
  | SL [c; i] => (get_content c, get_B i)
  | _ => ([], [])
  end.

Definition dec_mount (x : sx) : key * N :=
  match x with
  | SL [p; n] => (get_B p, get_N n)
  | _ => ([], 0)
  end.

Fixpoint mount_of (ms : list (key * N)) (k : key) : option (key * N) :=
  match ms with
  | [] => None
  | (p, n) :: r => if starts_with p k then Some (p, n) else mount_of r k
  end.

Definition pages (n : N) : N := (n + 4095) / 4096.

Definition used_pages (p : key) (fs : list (key * (N * N))) : N :=
  fold_right (fun e acc => if starts_with p (fst e) then pages (fst (snd e)) + acc else acc) 0 fs.

Definition dec_op_m (dg : bytes -> id) (ms : list (key * N)) (s : tst) (x : sx) : option top :=
  match x with
  | SL [t; a] =>
      if is_sym "insert_file" t then
        let c := get_content a in
        let k := key_path (dg c) in
        match mount_of ms k with
        | None => Some (TInsertFile c)
        | Some (p, n) =>
            Some (TInsertFileCopy c (pages (blen c) <=? n - used_pages p (files (lru s))))
        end
      else dec_op x
  | SL [t; a; b; c] =>
      if is_sym "insert_with" t then
        match mount_of ms (key_path (get_B a)) with
        | Some _ => if get_bool c then Some (TInsertWith (get_B a) (get_content b) true)
                    else Some (TInsertWithXdev (get_B a) (get_content b))
        | None => Some (TInsertWith (get_B a) (get_content b) (get_bool c))
        end
      else if is_sym "crash_upload" t then Some (TCrashUpload (get_B a) (get_content b) (get_N c))
      else None
  | _ => None
  end.

Definition crash_file_m (dg : bytes -> id) (ms : list (key * N)) (s : tst) (b : bytes) (k c : N)
    : tout * tst :=
  let kp := key_path (dg b) in
  let finish (o : top) :=
    let '(s1, out) := tstep dg s o in
    match out with
    | TORes r t _ => (TORes TOk t [bs (if match r with TOk => true | _ => false end then "done" else "failed")],
                      tc_reopen s1 c)
    | TOBool _ => (out, s1)
    end in
  match mount_of ms kp with
  | None => finish (TInsertFile b)
  | Some (p, n) =>
      let free := n - used_pages p (files (lru s)) in
      if (blen b <=? cap (lru s)) && (k <? blen b) && (k <=? free * 4096)
      then (TORes TOk None [bs "killed"], tc_crash_insert_file_copy dg s b (N.to_nat k) c)
      else finish (TInsertFileCopy b (pages (blen b) <=? free))
  end.

Fixpoint mtrace (dg : bytes -> id) (ms : list (key * N)) (s : tst) (ops : list sx) : list (tout * tst) :=
  match ops with
  | [] => []
  | x :: r =>
      let plain :=
        match dec_op_m dg ms s x with
        | Some o => let '(s', out) := tstep dg s o in (out, s') :: mtrace dg ms s' r
        | None => []
        end in
      match x with
      | SL [t; a; k; c] =>
          if is_sym "crash_insert_file" t then
            let '(out, s') := crash_file_m dg ms s (get_content a) (get_N k) (get_N c) in
            (out, s') :: mtrace dg ms s' r
          else plain
      | _ => plain
      end
  end.

Definition enc_obs_m (digest : bytes -> id) (ids : list id) (x : tout * tst) : sx :=
  let '(o, s) := x in
  let '(r, t, ret) := match o with
                      | TORes r t ret =>
                          (enc_tres r, sopt SB t,
                           match ret with
                           | [c; d] => SL [SN (blen c); SB d]
                           | _ => SL (map SB ret)
                           end)
                      | TOBool b => (sym (if b then "true" else "false"), SL [], SL [])
                      end in
  SL [ r; ret; t;
       SL (map (fun i => SL [SB i; sbool (tc_contains s i)]) ids);
       SN (size (lru s)); snat (length (index (lru s)));
       SL (map (fun e => SL [SB (fst e); SN (snd e)]) (index (lru s)));
       SL (map (fun e => let c := match alookup (fst e) (cont s) with Some c => c | None => [] end in
                         SL [SB (fst e); SN (blen c); SN (snd (snd e)); SB (digest c)]) (files (lru s)));
       snat (length (handles (lru s))) ].

Definition run_mount (x : sx) : sx :=
  match x with
  | SL [c; SL tab; SL ids; SL ms; SL ops] =>
      let dg := table_digest (map dec_pair_m tab) in
      let s0 := initial (get_N c) [] in
      SL (map (enc_obs_m dg (map get_B ids)) ((TORes TOk None [], s0) :: mtrace dg (map dec_mount ms) s0 ops))
  | _ => err "bad case"
  end.

(* ---- the server leg: the real `Server` of sccache-dist (hook leg `tc`) in front of the cache.
   case = ( cap ( (content id) ... ) ( id ... ) ( op ... ) )
   ops  = (assign id) (submit job content) (stall job content k) (release) (run job)
   obs  = ( res ( answer ... ) ( (id present) ... ) ( (path digest) ... ) ntmp ),
          the presence list is empty while an upload holds the cache ---- *)
Definition dec_sop (x : sx) : option sop :=
  match x with
  | SL [t] => if is_sym "release" t then Some SRelease else None
  | SL [t; a] =>
      if is_sym "assign" t then Some (SAssign (get_B a))
      else if is_sym "run" t then Some (SRun (get_N a))
      else None
  | SL [t; a; b] => if is_sym "submit" t then Some (SSubmit (get_N a) (get_B b)) else None
  | SL [t; a; b; _] => if is_sym "stall" t then Some (SStall (get_N a) (get_B b)) else None
  | _ => None
  end.

Fixpoint dec_sops (l : list sx) : option (list sop) :=
  match l with
  | [] => Some []
  | x :: r => match dec_sop x, dec_sops r with
              | Some o, Some os => Some (o :: os)
              | _, _ => None
              end
  end.

Definition enc_sres (r : sres) : sx :=
  match r with
  | SNeed => sym "need" | SReady => sym "ready" | SErr => sym "err" | SBlocked => sym "blocked"
  | SBusy => sym "busy" | SSuccess => sym "success" | SCannotCache => sym "cannot_cache"
  | SJobNotFound => sym "job_not_found" | SStalled => sym "stalled" | SIdle => sym "idle"
  | SFailed => sym "failed"
  end.

Definition enc_sobs (digest : bytes -> id) (ids : list id) (x : sres * list sres * sst) : sx :=
  let '(r, a, s) := x in
  let v := sv s in
  let busy := match supl s with Some _ => true | None => false end in
  SL [ enc_sres r; SL (map enc_sres a);
       SL (if busy then [] else map (fun i => SL [SB i; sbool (tc_contains v i)]) ids);
       SL (map (fun e => let c := match alookup (fst e) (cont v) with Some c => c | None => [] end in
                         SL [SB (fst e); SB (digest c)]) (files (lru v)));
       SN (if busy then 1 else 0) ].

Definition run_server (x : sx) : sx :=
  match x with
  | SL [c; SL tab; SL ids; SL ops] =>
      match dec_sops ops with
      | Some os =>
          let dg := table_digest (map dec_pair tab) in
          let s0 := {| sv := initial (get_N c) []; sjobs := []; snjob := 0; supl := None; swait := []; sdirs := [] |} in
          SL (map (enc_sobs dg (map get_B ids)) (strace dg s0 os))
      | None => err "bad op"
      end
  | _ => err "bad case"
  end.

Definition dispatch (leg : list N) (x : sx) : sx :=
  if bytes_eqb leg (bs "tccache") then run_c17 x
  else if bytes_eqb leg (bs "client") then run_client x
  else if bytes_eqb leg (bs "mount") then run_mount x
  else if bytes_eqb leg (bs "server") then run_server x
  else err "unknown leg".
