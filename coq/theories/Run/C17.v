(* Run/C17.v — Sx codec around Model/TcCache.v for the correspondence check.
   case   = ( cap ( (content id) ... ) ( id ... ) ( (path content mtime) ... ) ( op ... ) )
            the table (content id) instantiates the model's abstract digest with the
            REAL ids of the contents in play (computed by `c17 hash`, re-checked by the harness)
   result = ( obs ... )   one observation per op, preceded by one for the initial open
   obs    = ( res ( ret ... ) ( touched ) ( (id present) ... ) size len ( (key size) ... )
              ( (path content mtime digest) ... ) ntmp ) *)
From Coq Require Import List NArith Bool.
From Coq Require String.
Import String.StringSyntax.
From Sccache Require Import Base.Sx.
From Sccache Require Import Model.Lru.
From Sccache Require Import Model.TcCache.
Import ListNotations.
Local Open Scope N_scope.
Local Open Scope string_scope.

Fixpoint table_digest (t : list (bytes * id)) (b : bytes) : id :=
  match t with
  | [] => []
  | (c, i) :: r => if bytes_eqb b c then i else table_digest r b
  end.

Definition dec_pair (x : sx) : bytes * id :=
  match x with
  | SL [c; i] => (get_B c, get_B i)
  | _ => ([], [])
  end.

Definition dec_op (x : sx) : option top :=
  match x with
  | SL [t; a] =>
      if is_sym "get" t then Some (TGet (get_B a))
      else if is_sym "remove" t then Some (TRemove (get_B a))
      else if is_sym "contains" t then Some (TContains (get_B a))
      else if is_sym "reopen" t then Some (TReopen (get_N a))
      else if is_sym "insert_file" t then Some (TInsertFile (get_B a))
      else None
  | SL [t; a; b; c] =>
      if is_sym "insert_with" t then Some (TInsertWith (get_B a) (get_B b) (get_bool c))
      else if is_sym "crash_upload" t then Some (TCrashUpload (get_B a) (get_B b) (get_N c))
      else None
  | _ => None
  end.

Fixpoint dec_ops (l : list sx) : option (list top) :=
  match l with
  | [] => Some []
  | x :: r => match dec_op x, dec_ops r with
              | Some o, Some os => Some (o :: os)
              | _, _ => None
              end
  end.

Definition dec_file (x : sx) : key * bytes * N :=
  match x with
  | SL [k; c; mt] => (get_B k, get_B c, get_N mt)
  | _ => ([], [], 0)
  end.

Definition enc_tres (r : tres) : sx :=
  match r with
  | TOk => sym "ok" | TTooLarge => sym "too_large" | TNotInCache => sym "not_in_cache"
  | TIoErr => sym "io_err" | TRejected => sym "rejected"
  end.

Section Enc.
Variable digest : bytes -> id.
Variable ids : list id.

Definition enc_obs (x : tout * tst) : sx :=
  let '(o, s) := x in
  let '(r, t, ret) := match o with
                      | TORes r t ret => (enc_tres r, sopt SB t, SL (map SB ret))
                      | TOBool b => (sym (if b then "true" else "false"), SL [], SL [])
                      end in
  SL [ r; ret; t;
       SL (map (fun i => SL [SB i; sbool (tc_contains s i)]) ids);
       SN (size (lru s)); snat (length (index (lru s)));
       SL (map (fun e => SL [SB (fst e); SN (snd e)]) (index (lru s)));
       SL (map (fun e => let c := match alookup (fst e) (cont s) with Some c => c | None => [] end in
                         SL [SB (fst e); SB c; SN (snd (snd e)); SB (digest c)]) (files (lru s)));
       snat (length (handles (lru s))) ].
End Enc.

(* the directory found by the first TcCache::new *)
Definition initial (c : N) (fs : list (key * bytes * N)) : tst :=
  let l0 := {| cap := c; index := []; measure := 0; pending := []; pending_size := 0;
               files := fold_right (fun e acc => ains (fst (fst e)) (blen (snd (fst e)), snd e) acc) [] fs;
               handles := []; next_h := 0; clock := 1000 |} in
  tc_reopen {| lru := l0; cont := map fst fs |} c.

Definition run_c17 (x : sx) : sx :=
  match x with
  | SL [c; SL tab; SL ids; SL fs; SL ops] =>
      match dec_ops ops with
      | Some os =>
          let dg := table_digest (map dec_pair tab) in
          let s0 := initial (get_N c) (map dec_file fs) in
          SL (map (enc_obs dg (map get_B ids)) ((TORes TOk None [], s0) :: ttrace dg s0 os))
      | None => err "bad op"
      end
  | _ => err "bad case"
  end.

(* ---- the client leg:  case = ( cap ( (content id) ... ) ( op ... ) )
        obs = ( res ( ret ... ) ( touched ) ( (path content mtime digest) ... ) ntmp ) ---- *)
Definition dec_cop (x : sx) : option cop :=
  match x with
  | SL [t; a] =>
      if is_sym "get" t then Some (CGet (get_B a))
      else if is_sym "reopen" t then Some (CReopen (get_N a))
      else None
  | SL [t; a; b; c] =>
      if is_sym "put" t then Some (CPut (get_B a) (get_B b) (get_bool c)) else None
  | _ => None
  end.

Fixpoint dec_cops (l : list sx) : option (list cop) :=
  match l with
  | [] => Some []
  | x :: r => match dec_cop x, dec_cops r with
              | Some o, Some os => Some (o :: os)
              | _, _ => None
              end
  end.

Definition enc_cobs (digest : bytes -> id) (x : tout * cst) : sx :=
  let '(o, cs) := x in
  let s := tcs cs in
  let '(r, t, ret) := match o with
                      | TORes r t ret => (enc_tres r, sopt SB t, SL (map SB ret))
                      | TOBool b => (sym (if b then "true" else "false"), SL [], SL [])
                      end in
  SL [ r; ret; t;
       SL (map (fun e => let c := match alookup (fst e) (cont s) with Some c => c | None => [] end in
                         SL [SB (fst e); SB c; SN (snd (snd e)); SB (digest c)]) (files (lru s)));
       snat (length (handles (lru s))) ].

Definition run_client (x : sx) : sx :=
  match x with
  | SL [c; SL tab; SL ops] =>
      match dec_cops ops with
      | Some os =>
          let dg := table_digest (map dec_pair tab) in
          let s0 := {| tcs := initial (get_N c) []; weak := [] |} in
          SL (map (enc_cobs dg) ((TORes TOk None [], s0) :: ctrace dg s0 os))
      | None => err "bad op"
      end
  | _ => err "bad case"
  end.

Definition dispatch (leg : list N) (x : sx) : sx :=
  if bytes_eqb leg (bs "tccache") then run_c17 x
  else if bytes_eqb leg (bs "client") then run_client x
  else err "unknown leg".
