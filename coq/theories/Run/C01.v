(* Run/C01.v — Sx codec around Model/Args.v instantiated with the generated tables.
   leg "parse":  case   = ( kind plusplus multiarch ( (name content) ... ) ( dir ... ) ( word ... ) ( may_dist rio ( ws ... ) ) )
                 result = ( ( tok ... ) tend ( xtok ... ) xtend res )
                 res    = ( ok <fields> compile_cmd pp_cmd <res-lite of re-parsing compile_cmd> ) | ( cannot_cache why )
                          | ( not_compilation ) | ( panic ) | ( fuel )
   leg "search": case   = ( sel key )       sel = gcc | clang | merged
                 result = ( found flag ctor ) | ( none )                                                           *)
From Coq Require Import List NArith Bool.
From Coq Require String.
Import String.StringSyntax.
From Sccache Require Import Base.Sx Model.ArgTypes Model.Args Gen.C01ArgTables Model.ArgsInst Model.EntryBytes.
Import ListNotations.
Local Open Scope N_scope.
Local Open Scope string_scope.

Definition cwd_marker : bytes := bs "$CWD".

Definition enc_delim (d : option N) : sx := sopt SN d.
Definition enc_disp (d : disp) : sx :=
  match d with
  | Separated => sym "sep"
  | CanBeConcatenated x => SL [sym "cbc"; enc_delim x]
  | CanBeSeparated x => SL [sym "cbs"; enc_delim x]
  | Concatenated x => SL [sym "conc"; enc_delim x]
  end.

Definition enc_arg (a : argument) : sx :=
  match a with
  | ARaw s => SL [sym "raw"; SB s]
  | AUnknown s => SL [sym "unknown"; SB s]
  | AFlag s c => SL [sym "flag"; SB s; SN (argdata_idx c)]
  | AWith s c v d => SL [sym "with"; SB s; SN (argdata_idx c); SB v; enc_disp d]
  end.

Definition enc_tend (e : tok_end) : sx :=
  match e with TEnd => sym "end" | TErrEnd => sym "err_end" | TFuel => sym "fuel" end.

Definition enc_words (l : list bytes) : sx := SL (map SB l).

Definition enc_color (c : color) : sx := SN (match c with ColorOff => 0 | ColorOn => 1 | ColorAuto => 2 end).

Definition enc_artifact (a : artifact) : sx :=
  match a with Artifact n p o => SL [SB n; SB p; sbool o] end.

Definition enc_parsed_fields (p : parsed) : list sx :=
  let l := p_lists p in
  [ SB (p_input p); sbool (p_dd_input p); SN (lang_idx (p_language p)); SB (p_cflag p);
    SL (map enc_artifact (p_outputs p));
    enc_words (l_pre l); enc_words (l_dep l); enc_words (l_unhashed l); enc_words (l_common l); enc_words (l_arch l);
    enc_words (p_extra_hash p); sbool (p_profile_generate p); enc_color (p_color p);
    sbool (p_suppress_rewrite p); sopt SB (p_too_hard_pp p) ].

Definition enc_lite (r : presult_args) : sx :=
  match r with
  | ROk p => SL (sym "ok" :: enc_parsed_fields p)
  | RCannotCache w => SL [sym "cannot_cache"; SB w]
  | RNotCompilation => SL [sym "not_compilation"]
  | RPanic => SL [sym "panic"]
  | RFuel => SL [sym "fuel"]
  end.

Definition enc_full (E : env) (o : ppopts) (r : presult_args) : sx :=
  match r with
  | ROk p =>
      let cmd := compile_command the_tables E p in
      SL (sym "ok" :: enc_parsed_fields p
          ++ [ enc_words cmd; enc_words (preprocess_command the_tables E o p);
               enc_lite (parse_arguments the_tables E cmd) ])
  | _ => enc_lite r
  end.

Definition dec_words (x : sx) : list bytes := map get_B (get_L x).

Definition dec_kind (x : sx) : ckind := if is_sym "clang" x then KClang else KGcc.

Fixpoint xclang_values (l : list argument) : list bytes :=
  match l with
  | [] => []
  | AWith _ XClang v _ :: r => v :: xclang_values r
  | _ :: r => xclang_values r
  end.

Definition run_parse (x : sx) : sx :=
  match x with
  | SL [k; pp; ma; SL files; dirs; argv; SL [md; rio; ws]] =>
      let E := {| e_kind := dec_kind k; e_plusplus := get_bool pp; e_multiarch := get_bool ma; e_cwd := cwd_marker;
                  e_files := map (fun f => match f with SL [n; c] => (get_B n, get_B c) | _ => ([], []) end) files;
                  e_dirs := dec_words dirs |} in
      let o := {| o_may_dist := get_bool md; o_rewrite_includes_only := get_bool rio; o_ws_flags := dec_words ws |} in
      let sel := match e_kind E with KGcc => SelGcc | KClang => SelMerged end in
      let dd := match e_kind E with KGcc => None | KClang => Some false end in
      let '(al, te) := tokens_of the_tables sel dd (e_files E) (dec_words argv) in
      let '(xl, xe) := tokens_of the_tables SelMerged None (e_files E) (xclang_values al) in
      SL [ SL (map enc_arg al); enc_tend te; SL (map enc_arg xl); enc_tend xe;
           enc_full E o (parse_arguments the_tables E (dec_words argv)) ]
  | _ => err "bad case"
  end.

Definition run_search (x : sx) : sx :=
  match x with
  | SL [sel; key] =>
      let r := if is_sym "gcc" sel then search1 gcc_args (get_B key)
               else if is_sym "clang" sel then search1 clang_args (get_B key)
               else search2 gcc_args clang_args (get_B key) in
      match r with
      | Some i => SL [sym "found"; SB (flag_str i); SN (argdata_idx (info_data i))]
      | None => SL [sym "none"]
      end
  | _ => err "bad case"
  end.

(* leg "entry": case = ( mode ( (kind n) ... ) nstdout nstderr ); a hit returns the stored member, stdout and stderr unchanged:
   result = ( ok mode len checksum outlen outsum errlen errsum ) *)
Definition run_entry (x : sx) : sx :=
  match x with
  | SL [mode; SL chunks; nout; nerr] =>
      let cs := map (fun c => match c with SL [k; n] => (get_N k, get_N n) | _ => (1, 0) end) chunks in
      let '(_, _, s, len) := sum_chunks cs (12345, 0, 0, 0) in
      let '(_, _, so, lo) := sum_chunks [(0, get_N nout)] (777, 0, 0, 0) in
      let '(_, _, se, le) := sum_chunks [(0, get_N nerr)] (888, 0, 0, 0) in
      SL [sym "ok"; SN (get_N mode); SN len; SN s; SN lo; SN so; SN le; SN se]
  | _ => err "bad case"
  end.

Definition dispatch (leg : list N) (x : sx) : sx :=
  if bytes_eqb leg (bs "parse") then run_parse x
  else if bytes_eqb leg (bs "search") then run_search x
  else if bytes_eqb leg (bs "entry") then run_entry x
  else err "unknown leg".
