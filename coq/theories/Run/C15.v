(* Run/C15.v — Sx codec around Model/RoCache.v and Model/DiskConfig.v for the correspondence check.

   leg ro:
     case   = ( rw wrap cap ppsz ( (path size mtime cid) ... ) ( item ... ) )
     item   = (get k) | (put k size cid) | (ppget k) | (ppput k) | (restart rw wrap cap)
            | (req k ppk size cid pp_on recache pp_match pp_updated preproc_ok compile_ok)
     result = ( obs ... )      one per item, preceded by one for the initial state
     obs    = ( (res ...) (touched-path ...) main-index pp-index ( (path size mtime cid) ... ) ( dir ... ) )
              index = () while the store is not opened, ( ( (path size) ... ) ) afterwards
   leg config:
     case   = ( file env )
     file   = (nofile) | (nosection) | (disk dir? size? mode? pp?)      x? = () | (x)
              mode = ro | rw ;  pp = ( use? stat? ctime? ignore_time? skip_sys? hash_wd? )
     env    = ( dir? size? direct? mode? )      raw values of the four variables
     result = (error) | (ok dir size mode (six bools) storage-mode storage-pp-use) *)
From Coq Require Import List NArith Bool.
From Coq Require String.
Import String.StringSyntax.
From Sccache Require Import Base.Sx Model.Lru Model.RoCache Model.RoConc Model.DiskConfig.
Import ListNotations.
Local Open Scope N_scope.
Local Open Scope string_scope.

(* ---------- leg ro ---------- *)

Definition dec_item (x : sx) : option item :=
  match x with
  | SL [t; a] =>
      if is_sym "get" t then Some (IOp (RoCache.Get (get_B a)))
      else if is_sym "ppget" t then Some (IOp (PpGet (get_B a)))
      else if is_sym "ppput" t then Some (IOp (PpPut (get_B a)))
      else None
  | SL [t; a; b; c] =>
      if is_sym "put" t then Some (IOp (Put (get_B a) (get_N b) (get_N c)))
      else if is_sym "restart" t then Some (IOp (Restart (get_bool a) (get_bool b) (get_N c)))
      else None
  | SL [t; k; ppk; sz; cid; f1; f2; f3; f4; f5; f6] =>
      if is_sym "req" t then
        Some (IReq {| r_key := get_B k; r_ppkey := get_B ppk; r_size := get_N sz; r_cid := get_N cid;
                      r_pp_on := get_bool f1; r_recache := get_bool f2; r_pp_match := get_bool f3;
                      r_pp_updated := get_bool f4; r_preproc_ok := get_bool f5; r_compile_ok := get_bool f6 |})
      else None
  | _ => None
  end.

Fixpoint dec_items (l : list sx) : option (list item) :=
  match l with
  | [] => Some []
  | x :: r => match dec_item x, dec_items r with
              | Some o, Some os => Some (o :: os)
              | _, _ => None
              end
  end.

Definition enc_out (o : out1) : sx :=
  match o with
  | OHit => sym "hit" | OMiss => sym "miss" | OErr => sym "err" | OFound => sym "found"
  | ONone => sym "none" | OOk => sym "ok" | ORefusedWrapper => sym "refused_wrapper"
  | ORefusedCache => sym "refused_cache" | ORestarted => sym "restarted"
  | OPreprocessFailed => sym "preprocess_failed" | OCompileFailed => sym "compile_failed"
  end.

Definition mtime_of (p : key) (l : fmap) : option N :=
  match alookup p l with Some (_, m) => Some m | None => None end.

Definition opt_N_eqb (a b : option N) : bool :=
  match a, b with Some x, Some y => x =? y | None, None => true | _, _ => false end.

Definition touched (before after : dc) : list sx :=
  map (fun e => SB (fst e))
      (filter (fun e => negb (opt_N_eqb (mtime_of (fst e) (fs before)) (Some (snd (snd e))))) (fs after)).

Definition enc_index (o : option st) : sx :=
  sopt (fun s => SL (map (fun e => SL [SB (fst e); SN (snd e)]) (index s))) o.

Definition enc_obs (x : list out1 * dc * dc) : sx :=
  let '(res, before, d) := x in
  SL [ SL (map enc_out res); SL (touched before d); enc_index (main d); enc_index (pp d);
       SL (map (fun e => SL [SB (fst e); SN (fst (snd e)); SN (snd (snd e)); SN (cont_of d (fst e))]) (fs d));
       SL (map (fun e => SB (fst e)) (dirs d)) ].

Definition dec_file (x : sx) : key * (N * N) * N :=
  match x with
  | SL [k; sz; mt; c] => (get_B k, (get_N sz, get_N mt), get_N c)
  | _ => ([], (0, 0), 0)
  end.

Definition initial (rw' wr' : bool) (c psz : N) (l : list (key * (N * N) * N)) : dc :=
  {| rw := rw'; wrapped := wr'; dcap := c; ppsz := psz; main := None; pp := None;
     fs := fold_right (fun e acc => ains (fst (fst e)) (snd (fst e)) acc) [] l;
     conts := fold_right (fun e acc => ains (fst (fst e)) (snd e) acc) [] l;
     dirs := add_dirs (flat_map (fun e => ancestors (fst (fst e))) l) [];
     clk := 1000 |}.

Definition run_ro (x : sx) : sx :=
  match x with
  | SL [r; w; c; psz; SL files; SL items] =>
      match dec_items items with
      | Some its =>
          let d0 := initial (get_bool r) (get_bool w) (get_N c) (get_N psz) (map dec_file files) in
          SL (SL [ SL [sym "init"]; SL []; enc_index (main d0); enc_index (pp d0);
                   SL (map (fun e => SL [SB (fst e); SN (fst (snd e)); SN (snd (snd e)); SN (cont_of d0 (fst e))]) (fs d0));
                   SL (map (fun e => SB (fst e)) (dirs d0)) ]
              :: map enc_obs (trace_items d0 its))
      | None => err "bad item"
      end
  | _ => err "bad case"
  end.

(* ---------- leg conc: simultaneous lookups right after a read-only cache was started ----------
   case   = ( wrap cap ( (path size mtime cid) ... ) ( (get k) | (ppget k) ... ) ( thread-number ... ) scan ballast )
            (the schedule is completed by 2*scan+2*threads+4 round-robin rounds, enough for every thread to finish; [ballast] only slows the real scan down)
   result = ( (answer per thread) (answers of the same lookups repeated one after the other) listing-unchanged ) *)

Definition dec_lookup (x : sx) : option op :=
  match dec_item x with
  | Some (IOp (RoCache.Get k)) => Some (RoCache.Get k)
  | Some (IOp (PpGet k)) => Some (PpGet k)
  | _ => None
  end.

Fixpoint dec_lookups (l : list sx) : option (list op) :=
  match l with
  | [] => Some []
  | x :: r => match dec_lookup x, dec_lookups r with
              | Some o, Some os => Some (o :: os)
              | _, _ => None
              end
  end.

Fixpoint seq_answers (d : dc) (ops : list op) : list out1 * dc :=
  match ops with
  | [] => ([], d)
  | o :: r => let '(d', x) := step d o in let '(xs, d'') := seq_answers d' r in (x :: xs, d'')
  end.

Fixpoint listing_eqb (a b : fmap) : bool :=
  match a, b with
  | [], [] => true
  | (k, (sz, _)) :: a', (k', (sz', _)) :: b' => bytes_eqb k k' && (sz =? sz') && listing_eqb a' b'
  | _, _ => false
  end.

Definition run_conc (x : sx) : sx :=
  match x with
  | SL [w; c; SL files; SL lookups; SL sched; scan; _] =>
      match dec_lookups lookups with
      | Some ops =>
          let d0 := initial false (get_bool w) (get_N c) 17 (map dec_file files) in
          let n := List.length ops in
          let sc := N.to_nat (get_N scan) in
          let cs := crun ops sc (cstart d0 n) (map (fun t => N.to_nat (get_N t)) sched ++ rounds n (2 * sc + 2 * n + 4)) in
          let burst := map (fun i => match result_of cs i with Some r => enc_out r | None => sym "pending" end) (seq 0 n) in
          let '(again, d2) := seq_answers (cdc cs) ops in
          SL [ SL burst; SL (map enc_out again);
               sbool (listing_eqb (fs d2) (fs d0) && (Nat.eqb (List.length (dirs d2)) (List.length (dirs d0)))) ]
      | None => err "bad lookup"
      end
  | _ => err "bad case"
  end.

(* ---------- leg config ---------- *)

Definition dec_opt {A} (f : sx -> A) (x : sx) : option A :=
  match x with SL [a] => Some (f a) | _ => None end.

Definition dec_mode (x : sx) : mode := if is_sym "ro" x then ReadOnly else ReadWrite.

Definition dec_fpp (x : sx) : fpp :=
  match x with
  | SL [a; b; c; d; e; f] =>
      {| f_use := dec_opt get_bool a; f_stat := dec_opt get_bool b; f_ctime := dec_opt get_bool c;
         f_ignore_time := dec_opt get_bool d; f_skip_sys := dec_opt get_bool e; f_hash_wd := dec_opt get_bool f |}
  | _ => {| f_use := None; f_stat := None; f_ctime := None; f_ignore_time := None; f_skip_sys := None; f_hash_wd := None |}
  end.

Definition dec_filecfg (x : sx) : option fdisk :=
  match x with
  | SL [t; d; s; m; p] =>
      if is_sym "disk" t then
        Some {| f_dir := dec_opt get_B d; f_size := dec_opt get_N s; f_mode := dec_opt dec_mode m;
                f_pp := dec_opt dec_fpp p |}
      else None
  | _ => None
  end.

Definition dec_env (x : sx) : env :=
  match x with
  | SL [d; s; p; m] =>
      {| e_dir := dec_opt get_B d; e_size := dec_opt get_B s; e_direct := dec_opt get_B p; e_mode := dec_opt get_B m |}
  | _ => {| e_dir := None; e_size := None; e_direct := None; e_mode := None |}
  end.

Definition enc_mode (m : mode) : sx := match m with ReadOnly => sym "ro" | ReadWrite => sym "rw" end.

Definition run_config (x : sx) : sx :=
  match x with
  | SL [f; e] =>
      match effective (dec_env e) (dec_filecfg f) with
      | None => SL [sym "error"]
      | Some c =>
          let p := c_pp c in
          SL [ sym "ok"; match c_dir c with Some d => SB d | None => sym "default" end; SN (c_size c);
               enc_mode (c_mode c);
               SL (map sbool [pp_use p; pp_stat p; pp_ctime p; pp_ignore_time p; pp_skip_sys p; pp_hash_wd p]);
               enc_mode (c_mode c); sbool (pp_use p) ]
      end
  | _ => err "bad case"
  end.

Definition dispatch (leg : list N) (x : sx) : sx :=
  if bytes_eqb leg (bs "ro") then run_ro x
  else if bytes_eqb leg (bs "config") then run_config x
  else if bytes_eqb leg (bs "conc") then run_conc x
  else err "unknown leg".
