(* Run/C09.v — Sx codec around Model/ReqSM.v + Model/Stats.v for the correspondence legs of C09 and C14.

   case   = ( ppmode ( orc orc orc orc ) ( step ... ) )
     ppmode = bit 0: preprocessor cache mode of the DiskCache; bit 1: a small cache (2000 bytes: four result
              entries; only used by histories over ONE unit, eviction is not modelled)
     orc    = ( pp_status upd c_status c_out )      the fake compiler's behaviour for translation unit 0..3;
                                                    status 99 = the server's own code panics before spawning it;
                                                    status 98 = the process is killed by signal 9 (no exit code:
                                                    reported as status 256 + 9)
   step   = ( req tu class cc outdir_ok ( ppget ppupd ppput get put ) )
          | ( par req req ... )          concurrent requests (distinct translation units, no transient faults)
          | ( twin tu )                 two concurrent forced-recache requests of one unit; one store fails while writing
          | ( midzero req )            ZeroStats issued while the request is held inside its cache lookup
          | ( disk res|pp garbage|truncate|empty|delete tu )
          | ( disk res flip tu off )     bytes changed in place inside a member's data: member off mod 3 (obj, stdout,
                                         stderr), position (off / 3) mod its stored size
          | ( restart_distfail )         server restart whose dist client cannot be created: get_client() fails for
                                         every executed request until the next restart
          | ( restart_broken )           server restart (rw) while the cache directory cannot be opened (a regular
                                         file in its place): every storage call of every request fails
          | ( heal )                     the directory is usable again (same server: lazily opened stores must retry)
          | ( restart rw|ro )
          | ( zero )
     every fault position also takes `panic` (the storage call panics); get also takes hit_trunc | hit_overwrite |
     hit_unlink: a genuine hit whose entry file is truncated / overwritten in place / unlinked before it is read
     class  = msvc_nc (compiled with MSVC -Zi -Fd<existing pdb>: parsed as cacheable, Cacheable::No at compile time)
     class  = compile | unsupported | vanished | notcompile | cannotcache | cannotcache2
     cc     = default | recache | nocache
   result = ( obs ... ), one per step:
     ( req ( client outs ) pp_runs cc_runs disk stats )          likewise ( midzero ... )
     ( par ( ( client outs ) ... ) ( pp_runs per tu ) ( cc_runs per tu ) disk stats )
     ( disk disk ) | ( restart disk stats ) | ( zero stats ) | ( restart_broken disk stats ) | ( heal disk )
     client = ( finished status stdout stderr ) | ( fatal ) | ( unsupported ) | ( unhandled )
     outs   = ( bytes ... )
     disk   = ( res_good res_bad pp_good pp_bad pp_empty escaped )  entry files by what the real decoders say;
                                                              escaped = files that appeared OUTSIDE the cache dir
     stats  = ( compile_requests unsupported not_compile not_cacheable executed E H M timeouts read_errors
                non_cacheable_compilations forced_recaches write_errors writes compilations compile_fails
                ( not_cached counts, sorted ) 0 )   with E/H/M = ( all ( counts sorted ) ( adv_counts sorted ) ) *)
From Coq Require Import List NArith Bool.
From Coq Require String.
Import String.StringSyntax.
From Sccache Require Import Base.Sx Model.Stats Model.ReqSM Model.ReqSMExt.
Import ListNotations.
Local Open Scope N_scope.
Local Open Scope string_scope.

Definition digit (t : N) : list N := [48 + t].

(* the fake compiler's object file: "objN" followed by 48 bytes that do not compress *)
Fixpoint fill (n : nat) (i t : N) : list N :=
  match n with
  | O => []
  | S n' => ((i * i * 7 + i * 13 + t * 29 + 3) mod 256) :: fill n' (i + 1) t
  end.
Definition tu_obj (t : N) : list N := bs "obj" ++ digit t ++ fill 48 0 t.

Definition tu_key (t : N) : key := [t].

(* the oracle the harness's fake compiler implements for translation unit t *)
Definition mk_oracle (ppmode : bool) (t : N) (x : sx) : oracle :=
  match x with
  | SL [pps; upd; cs; cout] =>
      (* the harness compiles unit 0 as c [gcc], 1 as c++ [gcc], 2 as c [clang], 3 as c++ [clang]: one
         per-language key ("C/C++"), four per-language-and-compiler keys *)
      {| o_lang := {| l_lang := 0; l_adv := t |};
         o_pp_key := if ppmode then Some (tu_key t) else None;
         o_manifest := t;
         (* `lookup_result_digest` leaves `updated` untouched since the fix "preprocessor cache compares the
            contents of includes that mention __DATE__ or __TIMESTAMP__" (C04): the write-back branch of
            generate_hash_key is still in the code (and in the model) but no lookup takes it any more.  The
            case's [upd] flag still makes the harness put __TIMESTAMP__ into the unit's header. *)
         o_upd := false && get_bool upd;
         o_pp_status := if get_N pps =? 99 then 0 else if get_N pps =? 98 then 265 else get_N pps;
         o_pp_stderr := bs "ppe" ++ digit t;
         o_manifest_ok := true;
         o_key := tu_key t;
         o_c_status := if get_N cs =? 99 then 0 else if get_N cs =? 98 then 265 else get_N cs;
         o_c_stdout := bs "out" ++ digit t;
         o_c_stderr := bs "err" ++ digit t;
         o_c_outputs := [(bs "obj", tu_obj t)];
         o_c_writes := get_bool cout;
         o_cacheable := true;
         o_pp_panics := get_N pps =? 99;
         o_c_panics := get_N cs =? 99 |}
  | _ =>
      {| o_lang := {| l_lang := 0; l_adv := 0 |}; o_pp_key := None; o_manifest := 0; o_upd := false;
         o_pp_status := 0; o_pp_stderr := []; o_manifest_ok := true; o_key := tu_key t; o_c_status := 0;
         o_c_stdout := []; o_c_stderr := []; o_c_outputs := []; o_c_writes := true; o_cacheable := true;
         o_pp_panics := false; o_c_panics := false |}
  end.

(* the same unit compiled by the fake MSVC with -Zi -Fd<a program database that already exists>: its own keys and
   per-language-and-compiler entry ("c [msvc]"), and generate_compile_commands answers Cacheable::No *)
Definition as_msvc_nc (t : N) (o : oracle) : oracle :=
  {| o_lang := {| l_lang := 0; l_adv := 4 |};
     o_pp_key := match o_pp_key o with Some _ => Some [t; 9] | None => None end;
     o_manifest := o_manifest o; o_upd := o_upd o;
     o_pp_status := o_pp_status o; o_pp_stderr := o_pp_stderr o; o_manifest_ok := o_manifest_ok o;
     o_key := [t; 9]; o_c_status := o_c_status o; o_c_stdout := o_c_stdout o; o_c_stderr := o_c_stderr o;
     o_c_outputs := o_c_outputs o; o_c_writes := o_c_writes o; o_cacheable := false;
     o_pp_panics := o_pp_panics o; o_c_panics := o_c_panics o |}.

(* with the output directory missing the fake compiler cannot write its object file: exit 1, "nodir" *)
Definition adjust (outdir_ok : bool) (o : oracle) : oracle :=
  if outdir_ok then o
  else if (o_c_status o =? 0) && o_c_writes o then
    {| o_lang := o_lang o; o_pp_key := o_pp_key o; o_manifest := o_manifest o; o_upd := o_upd o;
       o_pp_status := o_pp_status o; o_pp_stderr := o_pp_stderr o; o_manifest_ok := o_manifest_ok o;
       o_key := o_key o; o_c_status := 1; o_c_stdout := []; o_c_stderr := bs "nodir";
       o_c_outputs := o_c_outputs o; o_c_writes := o_c_writes o; o_cacheable := o_cacheable o;
       o_pp_panics := o_pp_panics o; o_c_panics := o_c_panics o |}
  else o.

Definition dec_ppget (x : sx) : ppget_fault :=
  if is_sym "absent" x then PFAbsent else if is_sym "err" x then PFErr
  else if is_sym "garbage" x then PFGarbage else if is_sym "truncated" x then PFTruncated
  else if is_sym "empty" x then PFEmpty else if is_sym "panic" x then PFPanic else PFNone.

Definition dec_put (x : sx) : put_fault :=
  if is_sym "err" x then WErr else if is_sym "toolarge" x then WTooLarge
  else if is_sym "ro" x then WReadOnly else if is_sym "panic" x then WPanic
  else if is_sym "wfail" x then WErr        (* the write to the temporary file fails after the reservation *)
  else WNone.

Definition dec_get (x : sx) : get_fault :=
  if is_sym "miss" x then GMiss else if is_sym "err" x then GErr
  else if is_sym "timeout" x then GTimeout else if is_sym "garbage" x then GGarbage
  else if is_sym "truncated" x then GTruncated else if is_sym "badobj" x then GBadObj
  else if is_sym "noobj" x then GNoObj else if is_sym "panic" x then GPanic else GNone.

Definition dec_faults (outdir_ok : bool) (x : sx) : faults :=
  match x with
  | SL [a; b; c; d; e] =>
      {| f_ppget := dec_ppget a; f_ppupd := dec_put b; f_ppput := dec_put c; f_get := dec_get d;
         f_put := dec_put e; f_outdir_ok := outdir_ok |}
  | _ => no_faults
  end.

(* the cache directory cannot be opened: every storage call fails *)
Definition broken_faults (outdir_ok : bool) : faults :=
  {| f_ppget := PFErr; f_ppupd := WErr; f_ppput := WErr; f_get := GErr; f_put := WErr; f_outdir_ok := outdir_ok |}.

(* ... and an interaction with a transient fault of its own keeps that fault (the harness's fault-injecting
   storage answers it without reaching the directory) *)
Definition broken_over (ro : bool) (f : faults) : faults :=
  (* a read-only store opened over an unusable directory has an empty index: lookups simply miss *)
  {| f_ppget := match f_ppget f with PFNone => if ro then PFAbsent else PFErr | x => x end;
     f_ppupd := match f_ppupd f with WNone => WErr | x => x end;
     f_ppput := match f_ppput f with WNone => WErr | x => x end;
     f_get := match f_get f with GNone => if ro then GMiss else GErr | x => x end;
     f_put := match f_put f with WNone => WErr | x => x end;
     f_outdir_ok := f_outdir_ok f |}.

Definition dec_class (x : sx) : req_class :=
  if is_sym "unsupported" x then QUnsupported else if is_sym "vanished" x then QUnsupported
  else if is_sym "notcompile" x then QNotCompile else if is_sym "noargs" x then QNotCompile   (* empty argument list *)
  else if is_sym "cannotcache" x then QCannotCache 0
  else if is_sym "cannotcache2" x then QCannotCache 1 else QCompile.       (* compile, msvc_nc *)

Definition dec_cc (x : sx) : cache_control :=
  if is_sym "recache" x then CCForceRecache else if is_sym "nocache" x then CCForceNoCache else CCDefault.

Definition dec_damage (x : sx) : damage :=
  if is_sym "garbage" x then DGarbage else if is_sym "truncate" x then DTruncate
  else if is_sym "empty" x then DEmpty else DDelete.

(* ---------- encoding ---------- *)

Fixpoint ins_sorted (x : N) (l : list N) : list N :=
  match l with
  | [] => [x]
  | y :: r => if x <=? y then x :: l else y :: ins_sorted x r
  end.
Definition sort_N (l : list N) : list N := fold_right ins_sorted [] l.

Definition enc_counts (m : cmap) : sx := SL (map SN (sort_N (map snd m))).
Definition enc_plc (p : plc) : sx := SL [SN (plc_all p); enc_counts (counts p); enc_counts (adv_counts p)].

Definition enc_stats (s : stats) : sx :=
  SL [ SN (compile_requests s); SN (requests_unsupported_compiler s); SN (requests_not_compile s);
       SN (requests_not_cacheable s); SN (requests_executed s);
       enc_plc (cache_errors s); enc_plc (cache_hits s); enc_plc (cache_misses s);
       SN (cache_timeouts s); SN (cache_read_errors s); SN (non_cacheable_compilations s);
       SN (forced_recaches s); SN (cache_write_errors s); SN (cache_writes s); SN (compilations s);
       SN (compile_fails s); enc_counts (not_cached s); SN 0 ].

Definition count_if {A} (p : A -> bool) (l : list A) : N := N.of_nat (length (filter p l)).

Definition enc_disk (st : cstate) : sx :=
  SL [ SN (count_if (fun e => match snd e with RGood _ _ _ => true | _ => false end) (cs_res st));
       SN (count_if (fun e => match snd e with RUnparse | RBadObj | RBadOut => true | _ => false end) (cs_res st));
       SN (count_if (fun e => match snd e with PGood _ _ => true | _ => false end) (cs_pp st));
       SN (count_if (fun e => match snd e with PUnparse => true | _ => false end) (cs_pp st));
       SN (count_if (fun e => match snd e with PEmpty => true | _ => false end) (cs_pp st));
       SN 0 ].   (* files created outside the cache directory: never *)

Definition enc_client (c : client_result) : sx :=
  match c with
  | CUnsupported => SL [sym "unsupported"]
  | CUnhandled => SL [sym "unhandled"]
  | CFinished st so se => SL [sym "finished"; SN st; SB so; SB se]
  | CFatal => SL [sym "fatal"]
  end.

Definition enc_result (r : response) : sx :=
  SL [enc_client (r_client r); SL (map (fun e => SB (snd e)) (r_outputs r))].

(* ---------- running a history ---------- *)

(* [m_broken]: the cache directory cannot be opened.  [m_dead]: a READ-ONLY store was first touched while the
   directory was unusable: `LruDiskCache::new_read_only` never touches the directory and succeeds with an empty
   index, which DiskCache keeps until the next restart — every lookup misses even after the directory is back
   (builds stay correct; a writable store reports the error instead and is opened again on the next use). *)
(* [m_distfail]: the server's dist client cannot be created (every attempt fails again) until the next restart. *)
Record mstate := { m_cache : cstate; m_stats : stats; m_broken : bool; m_dead : bool; m_distfail : bool }.

Definition enc_disk_m (m : mstate) : sx :=
  if m_broken m then SL [SN 0; SN 0; SN 0; SN 0; SN 0; SN 0] else enc_disk (m_cache m).

Definition apply_actions (acts : list action) (s : stats) : stats :=
  fold_left (fun s a => apply_action a s) acts s.

(* one request: new cache state, response, its critical sections, its translation unit, and whether it reaches
   its cache lookup (`Storage::get`: executed, CacheControl::Default, hash key obtained) — only then can the harness
   hold it in flight *)
Definition run_req_d (distfail : bool) (ppmode : bool) (orcs : list sx) (faults_on broken : bool) (x : sx) (st : cstate)
  : cstate * response * list action * N * bool :=
  match x with
  | SL [_; t; cl; cc; ok; fs] =>
      let tu := get_N t in
      let o0 := mk_oracle ppmode tu (nth (N.to_nat tu) orcs (SL [])) in
      let o := adjust (get_bool ok) (if is_sym "msvc_nc" cl then as_msvc_nc tu o0 else o0) in
      if distfail then
        let '(st', r, acts) := request_dist_error (dec_class cl) o st in (st', r, acts, tu, false)
      else
      let f0 := if faults_on then dec_faults (get_bool ok) fs else dec_faults (get_bool ok) (SL []) in
      let f := if broken then broken_over (cs_ro st) f0 else f0 in
      let looked := match dec_class cl, dec_cc cc, generate_hash_key f (dec_cc cc) o st with
                    | QCompile, CCDefault, (_, HKKey k, _) => Some k
                    | _, _, _ => None
                    end in
      (* a fault DURING the request: the lookup is a genuine hit (the entry file is opened and its directory parsed),
         then — before anything is read from it — the file is truncated / overwritten in place / unlinked.
         Truncation and overwriting make every later read fail: the request behaves as over an unparsable entry
         (and leaves one behind unless it re-stores).  An unlinked file stays readable through the open descriptor:
         a good entry is served, and is gone afterwards. *)
      let during := match fs with
                    | SL [_; _; _; g; _] => if faults_on && negb broken then g else SL []
                    | _ => SL []
                    end in
      let entry := match looked with Some k => kv_get k (cs_res st) | None => None end in
      let parses := match entry with Some (RGood _ _ _) | Some RBadObj | Some RBadOut => true | _ => false end in
      let good := match entry with Some (RGood _ _ _) => true | _ => false end in
      let kk := match looked with Some k => k | None => [] end in
      let st_pre := if (is_sym "hit_trunc" during || is_sym "hit_overwrite" during) && parses then damage_res DTruncate kk st
                    else if is_sym "hit_unlink" during && parses && negb good then damage_res DDelete kk st
                    else st in
      let '(st1, r, acts) := request f (dec_class cl) (dec_cc cc) o st_pre in
      let st' := if is_sym "hit_unlink" during && good then damage_res DDelete kk st1 else st1 in
      let reached := match looked with Some _ => true | None => false end in
      (st', r, acts, tu, reached)
  | _ => (st, not_executed CFatal, [], 0, false)
  end.

Definition run_req := run_req_d false.

Fixpoint add_at (i : nat) (v : N) (l : list N) : list N :=
  match l, i with
  | [], _ => []
  | x :: r, O => (x + v) :: r
  | x :: r, S j => x :: add_at j v r
  end.

Fixpoint run_par (ppmode : bool) (orcs : list sx) (xs : list sx) (m : mstate) (res : list sx) (pp cc : list N)
  : mstate * list sx * list N * list N :=
  match xs with
  | [] => (m, rev res, pp, cc)
  | x :: r =>
      let '(st', rsp, acts, tu, _) := run_req ppmode orcs false (m_broken m || m_dead m) x (m_cache m) in
      run_par ppmode orcs r {| m_cache := st'; m_stats := apply_actions acts (m_stats m); m_broken := m_broken m; m_dead := m_dead m; m_distfail := m_distfail m |}
              (enc_result rsp :: res)
              (add_at (N.to_nat tu) (r_pp_runs rsp) pp) (add_at (N.to_nat tu) (r_cc_runs rsp) cc)
  end.

Definition run_one (ppmode : bool) (orcs : list sx) (m : mstate) (x : sx) : mstate * sx :=
  let b := m_broken m in
  match x with
  | SL (tag :: args) =>
      if is_sym "req" tag then
        let '(st', rsp, acts, _, _) := run_req_d (m_distfail m) ppmode orcs true (b || m_dead m) x (m_cache m) in
        let m' := {| m_cache := st'; m_stats := apply_actions acts (m_stats m); m_broken := b; m_dead := m_dead m;
                     m_distfail := m_distfail m |} in
        (m', SL [sym "req"; enc_result rsp; SN (r_pp_runs rsp); SN (r_cc_runs rsp);
                 enc_disk_m m'; enc_stats (m_stats m')])
      else if is_sym "midzero" tag then
        (* ZeroStats while the request waits inside its cache lookup: its first two critical sections
           (compile_requests, requests_executed) are wiped, the later ones are not.  A request that never looks
           the cache up completes first and the zeroing comes after it. *)
        match args with
        | [rq] =>
            let '(st', rsp, acts, _, reached) := run_req ppmode orcs true (b || m_dead m) rq (m_cache m) in
            let s' := if reached then apply_actions (skipn 2 acts) zero_stats else zero_stats in
            let m' := {| m_cache := st'; m_stats := s'; m_broken := b; m_dead := m_dead m; m_distfail := m_distfail m |} in
            (m', SL [sym "midzero"; enc_result rsp; SN (r_pp_runs rsp); SN (r_cc_runs rsp);
                     enc_disk_m m'; enc_stats (m_stats m')])
        | _ => (m, err "bad midzero step")
        end
      else if is_sym "twin" tag then
        (* two concurrent forced-recache requests of one unit; the store of one of them fails while it writes, the
           other one commits: the same as the two requests one after the other, in either order *)
        match args with
        | [t] =>
            let none := SL [sym "none"; sym "none"; sym "none"; sym "none"; sym "none"] in
            let failing := SL [sym "none"; sym "none"; sym "none"; sym "none"; sym "wfail"] in
            let mk fs := SL [sym "req"; t; sym "compile"; sym "recache"; SN 1; fs] in
            let '(st1, r1, a1, _, _) := run_req ppmode orcs true (b || m_dead m) (mk failing) (m_cache m) in
            let '(st2, r2, a2, _, _) := run_req ppmode orcs true (b || m_dead m) (mk none) st1 in
            let m' := {| m_cache := st2; m_stats := apply_actions a2 (apply_actions a1 (m_stats m)); m_broken := b;
                         m_dead := m_dead m; m_distfail := m_distfail m |} in
            (m', SL [sym "twin"; SL [enc_result r1; enc_result r2]; SN (r_pp_runs r1 + r_pp_runs r2);
                     SN (r_cc_runs r1 + r_cc_runs r2); enc_disk_m m'; enc_stats (m_stats m')])
        | _ => (m, err "bad twin step")
        end
      else if is_sym "par" tag then
        let '(m', res, pp, cc) := run_par ppmode orcs args m [] [0; 0; 0; 0] [0; 0; 0; 0] in
        (m', SL [sym "par"; SL res; SL (map SN pp); SL (map SN cc); enc_disk_m m'; enc_stats (m_stats m')])
      else if is_sym "disk" tag then
        match args with
        | target :: what :: t :: rest =>
            let tu := get_N t in
            let o := mk_oracle ppmode tu (nth (N.to_nat tu) orcs (SL [])) in
            let d := if is_sym "flip" what
                     then (if (match rest with off :: _ => get_N off | [] => 0 end) mod 3 =? 0 then DFlipObj else DFlipOut)
                     else dec_damage what in
            let st' := if b then m_cache m      (* nothing below the cache directory can be reached *)
                       else if is_sym "res" target then damage_res d (o_key o) (m_cache m)
                       else match o_pp_key o with
                            | Some pk => damage_pp d pk (m_cache m)
                            | None => m_cache m
                            end in
            let m' := {| m_cache := st'; m_stats := m_stats m; m_broken := b; m_dead := m_dead m; m_distfail := m_distfail m |} in
            (m', SL [sym "disk"; enc_disk_m m'])
        | _ => (m, err "bad disk step")
        end
      else if is_sym "restart" tag then
        match args with
        | [mode] =>
            let st' := restart (is_sym "ro" mode) (m_cache m) in
            (* a new server process: fresh statistics *)
            let m' := {| m_cache := st'; m_stats := zero_stats; m_broken := b; m_dead := b && is_sym "ro" mode; m_distfail := false |} in
            (m', SL [sym "restart"; enc_disk_m m'; enc_stats zero_stats])
        | _ => (m, err "bad restart step")
        end
      else if is_sym "restart_distfail" tag then
        let m' := {| m_cache := restart false (m_cache m); m_stats := zero_stats; m_broken := b; m_dead := false;
                     m_distfail := true |} in
        (m', SL [sym "restart_distfail"; enc_disk_m m'; enc_stats zero_stats])
      else if is_sym "restart_broken" tag then
        let m' := {| m_cache := restart false (m_cache m); m_stats := zero_stats; m_broken := true; m_dead := false; m_distfail := false |} in
        (m', SL [sym "restart_broken"; enc_disk_m m'; enc_stats zero_stats])
      else if is_sym "heal" tag then
        let m' := {| m_cache := m_cache m; m_stats := m_stats m; m_broken := false; m_dead := m_dead m; m_distfail := m_distfail m |} in
        (m', SL [sym "heal"; enc_disk_m m'])
      else if is_sym "zero" tag then
        ({| m_cache := m_cache m; m_stats := zero_stats; m_broken := b; m_dead := m_dead m; m_distfail := m_distfail m |}, SL [sym "zero"; enc_stats zero_stats])
      else (m, err "bad step")
  | _ => (m, err "bad step")
  end.

Fixpoint run_all (ppmode : bool) (orcs : list sx) (m : mstate) (steps : list sx) : list sx :=
  match steps with
  | [] => []
  | x :: r => let '(m', o) := run_one ppmode orcs m x in o :: run_all ppmode orcs m' r
  end.

Definition run_reqsm (x : sx) : sx :=
  match x with
  | SL [pm; SL orcs; SL steps] =>
      SL (run_all (N.odd (get_N pm)) orcs {| m_cache := empty_cache; m_stats := zero_stats; m_broken := false; m_dead := false; m_distfail := false |} steps)
  | _ => err "bad case"
  end.

Definition dispatch (leg : list N) (x : sx) : sx :=
  if bytes_eqb leg (bs "reqsm") then run_reqsm x else err "unknown leg".
