(* Proofs/ComposeC15.v — C15 ⟵ C07 (and C06): a READ-ONLY server opened on the directory a read-write store left
   behind serves every entry that store had indexed, and changes nothing.

   C15_hits_served_always NAMES two premises about the directory the read-only cache is started on: its listing is
   canonical (`ksortedb (fs d) = true`) and it fits the configured size (`total_size (fs d) <= dcap d`).  Both follow
   from C07's invariant of the read-write store:
     - [good] (= inv /\ ksorted files /\ disk_ok, Proofs/Lru.v) is kept by every step of the DiskCache::put protocol of
       Model/LruPut.v — prepare_add, write_tmp, commit, abandon are ops of Model/Lru.v's [step], so `step_good` applies;
       put_preprocessor_cache_entry's bare DROP of the entry after a failed write is not an op, but changes only the
       handle table ([good_drop], with C07_put_releases for the accounting) — hence by every `drun` history, with any
       number of failing writes ([good_drun]);
     - under [good] the files are exactly the indexed entries with the indexed sizes (dagree), so the sizes of the
       files sum to at most the sum over the index = measure <= cap ([files_fit]: the "sizes-sum" lemma, by removing one
       key at a time — no permutation argument is needed for <=).
   Then C15_hits_served_always and C15_frozen give the statement for the directory `files s` of ANY such state s. *)
From Coq Require Import List NArith Bool Lia.
From Sccache Require Import Base.Sx Model.Lru Model.LruPut Proofs.Lru Proofs.LruPut.
From Sccache Require Model.RoCache Proofs.RoCache Model.DiskCache Proofs.DiskCache Proofs.ComposeStore.
Import ListNotations.
Local Open Scope N_scope.

Module RC := Sccache.Model.RoCache.
Module RCP := Sccache.Proofs.RoCache.

(* ------------------------------------------------------------------ good is kept by the put protocol *)

Lemma good_prepare_add s k n : good s -> good (fst (prepare_add s k n)).
Proof.
  intro G. pose proof (step_good s (PrepareAdd k n) G I) as H. simpl in H.
  destruct (prepare_add s k n) as [s1 r]. exact H.
Qed.
Lemma good_write_tmp s h m : good s -> good (fst (write_tmp s h m)).
Proof.
  intro G. pose proof (step_good s (WriteTmp h m) G I) as H. simpl in H.
  destruct (write_tmp s h m) as [s1 r]. exact H.
Qed.
Lemma good_abandon s h : good s -> good (fst (abandon s h)).
Proof.
  intro G. pose proof (step_good s (Abandon h) G I) as H. simpl in H.
  destruct (abandon s h) as [s1 r]. exact H.
Qed.
Lemma good_commit s h : good s -> good (fst (fst (commit s h))).
Proof.
  intro G. pose proof (step_good s (Commit h) G I) as H. simpl in H.
  destruct (commit s h) as [[s1 r] t]. exact H.
Qed.
Lemma good_get s k : good s -> good (fst (fst (get s k))).
Proof.
  intro G. pose proof (step_good s (Get k) G I) as H. simpl in H.
  destruct (get s k) as [[s1 r] t]. exact H.
Qed.

(* dropping an uncommitted entry touches the handle table only *)
Lemma good_drop s h : good s -> inv (drop_entry s h) -> good (drop_entry s h).
Proof. intros (_ & Hk & Hd) Hi. split; [exact Hi|]. split; [exact Hk | exact Hd]. Qed.

Lemma good_put s k n wf : good s -> good (fst (put s k n wf)).
Proof.
  intro G. unfold put. pose proof (good_prepare_add s k n G) as G1.
  destruct (prepare_add s k n) as [s1 r]. simpl in G1. destruct r; try exact G1.
  destruct wf as [m|].
  - simpl. apply good_abandon, good_write_tmp, G1.
  - pose proof (good_commit _ (next_h s) (good_write_tmp s1 (next_h s) n G1)) as G3.
    destruct (commit (fst (write_tmp s1 (next_h s) n)) (next_h s)) as [[s3 r3] t3]. exact G3.
Qed.

Lemma good_put_pp s k n wf : good s -> good (fst (put_pp s k n wf)).
Proof.
  intro G. destruct C07_put_releases_proof as [_ Hrel].
  pose proof (Hrel s k n wf (proj1 G)) as Hinv. cbv zeta in Hinv. destruct Hinv as [Hinv _].
  unfold put_pp in *. pose proof (good_prepare_add s k 0 G) as G1.
  destruct (prepare_add s k 0) as [s1 r]. simpl in G1. destruct r; try exact G1.
  destruct wf as [m|].
  - simpl in *. apply good_drop; [apply good_write_tmp, G1 | exact Hinv].
  - pose proof (good_commit _ (next_h s) (good_write_tmp s1 (next_h s) n G1)) as G3.
    destruct (commit (fst (write_tmp s1 (next_h s) n)) (next_h s)) as [[s3 r3] t3]. exact G3.
Qed.

Lemma good_dstep s o : good s -> good (fst (dstep s o)).
Proof.
  intro G. destruct o as [k n wf|k n wf|k]; simpl.
  - pose proof (good_put s k n wf G) as H. destruct (put s k n wf). exact H.
  - pose proof (good_put_pp s k n wf G) as H. destruct (put_pp s k n wf). exact H.
  - pose proof (good_get s k G) as H. destruct (get s k) as [[s1 r] t]. exact H.
Qed.

Lemma good_drun ops : forall s, good s -> good (drun s ops).
Proof.
  unfold drun. induction ops as [|o ops IH]; intros s G; simpl; [exact G|]. apply IH, good_dstep, G.
Qed.

(* ------------------------------------------------------------------ the directory of a good state *)

Lemma ksorted_ksortedb {V} (l : list (key * V)) : ksorted l -> RCP.ksortedb l = true.
Proof.
  induction l as [|[k v] r IH]; simpl; [reflexivity|]. intros [Hlt Hs].
  apply andb_true_iff. split; [|apply IH, Hs].
  apply forallb_forall. intros e He. apply Hlt. apply in_map. exact He.
Qed.

Lemma sumsz_aremove_le k sz l : alookup k l = Some sz -> sz + sumsz (aremove k l) <= sumsz l.
Proof.
  induction l as [|[k2 v] r IH]; simpl; [discriminate|].
  destruct (bytes_eqb k k2) eqn:E.
  - intro H. inversion H; subst. clear IH H.
    assert (Hle : forall l0, sumsz (aremove k l0) <= sumsz l0).
    { induction l0 as [|[k3 v3] r3 IH3]; simpl; [lia|]. destruct (bytes_eqb k k3); simpl; lia. }
    specialize (Hle r). lia.
  - intro H. simpl. specialize (IH H). lia.
Qed.

(* the sizes-sum lemma: files whose sizes are all recorded in the index, under distinct names, weigh at most the index *)
Lemma total_size_le_sumsz (fl : list (key * (N * N))) : forall idx : list (key * N),
  NoDup (keys fl) ->
  (forall k sz mt, alookup k fl = Some (sz, mt) -> alookup k idx = Some sz) ->
  RC.total_size fl <= sumsz idx.
Proof.
  induction fl as [|[k [sz mt]] r IH]; intros idx Hnd Hsub; simpl; [lia|].
  inversion Hnd as [|? ? Hni Hnd']; subst.
  assert (Hk : alookup k idx = Some sz).
  { apply (Hsub k sz mt). simpl. rewrite bytes_eqb_refl. reflexivity. }
  pose proof (sumsz_aremove_le k sz idx Hk) as Hle.
  assert (Hr : RC.total_size r <= sumsz (aremove k idx)).
  { apply IH; [exact Hnd'|]. intros k' sz' mt' Ha.
    assert (Hne : k' <> k).
    { intro E. subst k'. apply Hni. apply (alookup_Some_key _ _ _ Ha). }
    rewrite alookup_aremove_neq by exact Hne. apply (Hsub k' sz' mt'). simpl.
    destruct (bytes_eqb k' k) eqn:E; [apply bytes_eqb_eq in E; contradiction | exact Ha]. }
  lia.
Qed.

Lemma files_fit s : good s -> RC.total_size (files s) <= cap s.
Proof.
  intros (((Hm & Hcap & _ & _) & _) & Hks & (Hag & _)).
  pose proof (total_size_le_sumsz (files s) (index s) (ksorted_NoDup _ Hks)
                                  (fun k sz mt Ha => proj2 (Hag k sz) (ex_intro _ mt Ha))) as H.
  lia.
Qed.

(* ------------------------------------------------------------------ the read-only open of a good state *)

Section RoOpen.
Variable s : st.                       (* the read-write store when it stopped *)
Hypothesis Hgood : good s.
Variable c' psz clk0 : N.              (* the read-only server: configured size, pp entry size, clock *)
Variable cs : list (key * N).
Variable ds : RC.dset.
Hypothesis Hcap : cap s <= c'.
Let d := RC.start false c' psz (files s) cs ds clk0.

Theorem ro_open_serves_good (ops : list RC.op) :
  forallb (RCP.ro_op_fits (RC.total_size (files s))) ops = true ->
  let d' := RC.run d ops in
  (* the discharged premises *)
  RCP.ksortedb (RC.fs d) = true /\ RC.total_size (RC.fs d) <= RC.dcap d /\
  (* the directory is exactly the index: every file is a complete, indexed entry with the indexed size *)
  (forall k sz, alookup k (index s) = Some sz <-> exists mt, alookup k (files s) = Some (sz, mt)) /\
  (* nothing changes: the (path, size) listing is literally the same list, at every point of the history *)
  map RCP.proj (RC.fs d') = map RCP.proj (files s) /\
  (* every entry the read-write store had indexed is served, by both stores, at every point of the history *)
  (forall k sz,
     (alookup (RC.main_path k) (index s) = Some sz -> is_temp (RC.main_path k) = false -> RC.min_entry <= sz ->
      snd (RC.step d' (RC.Get k)) = RC.OHit) /\
     (alookup (RC.pp_path k) (index s) = Some sz -> is_temp (RC.pp_path k) = false ->
      snd (RC.step d' (RC.PpGet k)) = RC.OFound)).
Proof.
  intros Hops d'.
  destruct Hgood as (Hi & Hks & (Hag & Hrest)).
  assert (Hso : RCP.ksortedb (RC.fs d) = true) by (apply ksorted_ksortedb; exact Hks).
  assert (Hfit : RC.total_size (RC.fs d) <= RC.dcap d).
  { pose proof (files_fit s Hgood) as H. unfold d. simpl. lia. }
  split; [exact Hso|]. split; [exact Hfit|]. split; [exact Hag|].
  destruct (RCP.hits_served_always d ops eq_refl eq_refl eq_refl Hso Hfit Hops) as [Hpr Hserved].
  split; [exact Hpr|].
  intros k sz. split.
  - intros Hidx Ht Hsz. destruct (proj1 (Hag _ _) Hidx) as [mt Hf].
    exact (proj1 (Hserved k sz mt) Hf Ht Hsz).
  - intros Hidx Ht. destruct (proj1 (Hag _ _) Hidx) as [mt Hf].
    exact (proj2 (Hserved k sz mt) Hf Ht).
Qed.

(* C15_frozen for the same start: no history of read-only calls, requests and read-only restarts changes an entry *)
Theorem ro_open_frozen (l : list RC.item) :
  forallb RC.ro_item l = true ->
  (forall p, RC.entry (RC.run_items d l) p = RC.entry d p) /\ RC.dirs (RC.run_items d l) = RC.dirs d.
Proof. intro Hl. apply RCP.frozen_items; [reflexivity | exact Hl]. Qed.
End RoOpen.

(* ------------------------------------------------------------------ the two sources of good states *)

(* A. after ANY history of stores and lookups through DiskCache (Model/LruPut.v), failing writes included, from the
      open of any acceptable directory *)
Theorem ro_open_serves_rw_history
        (s0 : st) (c : N) (hist : list dop) (c' psz clk0 : N) (cs : list (key * N)) (ds : RC.dset)
        (ops : list RC.op) (l : list RC.item) :
  dir_ok s0 -> c <= c' ->
  let s := drun (reopen s0 c) hist in
  let d := RC.start false c' psz (files s) cs ds clk0 in
  forallb (RCP.ro_op_fits (RC.total_size (files s))) ops = true -> forallb RC.ro_item l = true ->
  let d' := RC.run d ops in
  handles s = [] /\
  RCP.ksortedb (RC.fs d) = true /\ RC.total_size (RC.fs d) <= RC.dcap d /\
  (forall k sz, alookup k (index s) = Some sz <-> exists mt, alookup k (files s) = Some (sz, mt)) /\
  map RCP.proj (RC.fs d') = map RCP.proj (files s) /\
  (forall k sz,
     (alookup (RC.main_path k) (index s) = Some sz -> is_temp (RC.main_path k) = false -> RC.min_entry <= sz ->
      snd (RC.step d' (RC.Get k)) = RC.OHit) /\
     (alookup (RC.pp_path k) (index s) = Some sz -> is_temp (RC.pp_path k) = false ->
      snd (RC.step d' (RC.PpGet k)) = RC.OFound)) /\
  (forall p, RC.entry (RC.run_items d l) p = RC.entry d p) /\ RC.dirs (RC.run_items d l) = RC.dirs d.
Proof.
  intros Hdir Hc s d Hops Hl d'.
  assert (G : good s) by (apply good_drun, reopen_good, Hdir).
  destruct (C07_put_never_wedges_proof s0 c hist) as (_ & Hh & _ & Hcap & _). fold s in Hh, Hcap.
  assert (Hcap' : cap s <= c') by (rewrite Hcap; exact Hc).
  split; [exact Hh|].
  destruct (ro_open_serves_good s G c' psz clk0 cs ds Hcap' ops Hops) as (A & B & C & D & E).
  split; [exact A|]. split; [exact B|]. split; [exact C|]. split; [exact D|]. split; [exact E|].
  exact (ro_open_frozen s c' psz clk0 cs ds l Hl).
Qed.

(* B. the Lru component of every reachable state of the concurrent store of Model/DiskCache.v (C06), once its lazy
      init has run: its entry-file listing.  (Temp files of calls in flight live in a name space of their own in that
      model; see Compose_C15_ro_open_serves_concurrent_store_partial for what is not covered.) *)
Theorem ro_open_serves_concurrent_store
        (c : N) (dk : Model.DiskCache.disk) (ths : list Model.DiskCache.thread) (sched : list nat)
        (c' psz clk0 : N) (cs : list (key * N)) (ds : RC.dset) (ops : list RC.op) :
  Proofs.DiskCache.disk_ok dk -> forallb Model.DiskCache.is_call ths = true ->
  let w := Model.DiskCache.ws (Model.DiskCache.exec (Model.DiskCache.start c dk ths) sched) in
  let s := Model.DiskCache.lru w in
  Model.DiskCache.inited w = true -> cap s <= c' ->
  let d := RC.start false c' psz (files s) cs ds clk0 in
  forallb (RCP.ro_op_fits (RC.total_size (files s))) ops = true ->
  let d' := RC.run d ops in
  RCP.ksortedb (RC.fs d) = true /\ RC.total_size (RC.fs d) <= RC.dcap d /\
  map RCP.proj (RC.fs d') = map RCP.proj (files s) /\
  (forall k sz,
     (alookup (RC.main_path k) (index s) = Some sz -> is_temp (RC.main_path k) = false -> RC.min_entry <= sz ->
      snd (RC.step d' (RC.Get k)) = RC.OHit) /\
     (alookup (RC.pp_path k) (index s) = Some sz -> is_temp (RC.pp_path k) = false ->
      snd (RC.step d' (RC.PpGet k)) = RC.OFound)).
Proof.
  intros Hdk Hcalls w s Hin Hcap d Hops d'.
  destruct (Proofs.ComposeStore.store_invariants c dk ths sched Hdk Hcalls) as (HG & _).
  fold w in HG. rewrite Hin in HG. fold s in HG.
  destruct (ro_open_serves_good s HG c' psz clk0 cs ds Hcap ops Hops) as (A & B & _ & D & E).
  split; [exact A|]. split; [exact B|]. split; [exact D | exact E].
Qed.
