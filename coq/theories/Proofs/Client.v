(* Proofs about Model/Client.v (property C11). *)
From Coq Require Import List NArith Bool Lia ZifyN ZifyBool.
From Sccache Require Import Model.Client.
Import ListNotations.
Local Open Scope N_scope.

Arguments N.add : simpl never.
Arguments N.sub : simpl never.
Arguments N.mul : simpl never.
Arguments N.ltb : simpl never.
Arguments N.leb : simpl never.
Arguments N.eqb : simpl never.
Arguments N.pred : simpl never.
Arguments N.of_nat : simpl never.
Arguments be32 : simpl never.

(* ---------- splitN ---------- *)

Lemma blen_nil : blen (@nil N) = 0.
Proof. reflexivity. Qed.

Lemma blen_cons x (l : list N) : blen (x :: l) = blen l + 1.
Proof. unfold blen. simpl length. lia. Qed.

Lemma blen_app (a b : list N) : blen (a ++ b) = blen a + blen b.
Proof. unfold blen. rewrite app_length. lia. Qed.

Lemma splitN_some l : forall n a b, splitN l n = Some (a, b) -> l = a ++ b /\ blen a = n.
Proof.
  induction l as [|x l IH]; intros n a b H; simpl in H.
  - destruct (n =? 0) eqn:E.
    + inversion H; subst. split; [reflexivity|]. rewrite blen_nil. lia.
    + discriminate.
  - destruct (n =? 0) eqn:E.
    + inversion H; subst. split; [reflexivity|]. rewrite blen_nil. lia.
    + destruct (splitN l (N.pred n)) as [[a' b']|] eqn:S; [|discriminate].
      inversion H; subst. apply IH in S as [-> Hl]. split; [reflexivity|].
      rewrite blen_cons. lia.
Qed.

Lemma splitN_none l : forall n, splitN l n = None -> blen l < n.
Proof.
  induction l as [|x l IH]; intros n H; simpl in H.
  - destruct (n =? 0) eqn:E; [discriminate|]. rewrite blen_nil. lia.
  - destruct (n =? 0) eqn:E; [discriminate|].
    destruct (splitN l (N.pred n)) as [[a' b']|] eqn:S; [discriminate|].
    apply IH in S. rewrite blen_cons. lia.
Qed.

Lemma splitN_app a : forall b, splitN (a ++ b) (blen a) = Some (a, b).
Proof.
  induction a as [|x a IH]; intros b.
  - rewrite blen_nil. simpl. destruct b; reflexivity.
  - simpl app. simpl splitN. rewrite blen_cons.
    replace (blen a + 1 =? 0) with false by lia.
    replace (N.pred (blen a + 1)) with (blen a) by lia.
    rewrite IH. reflexivity.
Qed.

Lemma splitN_short l n : blen l < n -> splitN l n = None.
Proof.
  intros H. destruct (splitN l n) as [[a b]|] eqn:S; [|reflexivity].
  apply splitN_some in S as [-> Hn]. rewrite blen_app in H. lia.
Qed.

(* ---------- read_one ---------- *)

Lemma read_one_framed opq l p rest e :
  framed l p rest ->
  read_one opq l e = match decode_response opq p with
                     | Some r => (ROk r, rest)
                     | None => (RDecodeErr, rest)
                     end.
Proof.
  intros (b0 & b1 & b2 & b3 & -> & Hlen). unfold read_one.
  rewrite Hlen, splitN_app. reflexivity.
Qed.

Lemma read_one_cut_short opq l e :
  cut_short l = true ->
  exists r, fst (read_one opq l e) = r /\ (r = RHeaderErr e \/ r = RBodyErr e).
Proof.
  intros H. unfold read_one.
  destruct l as [|b0 [|b1 [|b2 [|b3 r]]]]; try (eexists; split; [reflexivity|left; reflexivity]).
  simpl in H. rewrite splitN_short by lia. eexists; split; [reflexivity|right; reflexivity].
Qed.

Lemma read_one_ok_framed opq l e r rest :
  read_one opq l e = (ROk r, rest) ->
  exists p, framed l p rest /\ decode_response opq p = Some r.
Proof.
  unfold read_one. intros H.
  destruct l as [|b0 [|b1 [|b2 [|b3 t]]]]; try discriminate.
  destruct (splitN t (be32 b0 b1 b2 b3)) as [[p rs]|] eqn:S; [|discriminate].
  destruct (decode_response opq p) as [resp|] eqn:D; [|discriminate].
  inversion H; subst. apply splitN_some in S as [-> Hn].
  exists p. split; [|assumption]. exists b0, b1, b2, b3. split; [reflexivity|]. lia.
Qed.

(* ---------- the client's decision table ---------- *)

(* every exit status 0 is either a fully received CompileFinished or a local compile that returned 0 *)
Lemma never_false_success opq ig bytes e local :
  exit_code (client opq ig bytes e) local = 0 ->
  (exists p1 r1 p2 r2 f,
      framed bytes p1 r1 /\ decode_response opq p1 = Some (RCompile CompileStarted) /\
      framed r1 p2 r2 /\ decode_response opq p2 = Some (RFinished f) /\
      client opq ig bytes e = ReturnFinished f /\ finished_exit f = 0)
  \/ (exists w, client opq ig bytes e = RunLocally w /\ local = 0).
Proof.
  unfold client.
  destruct (read_one opq bytes e) as [r1 rest1] eqn:R1.
  destruct r1 as [resp1| | |]; simpl; try (intros; discriminate).
  destruct resp1 as [c| | |]; simpl; try (intros; discriminate).
  destruct c as [| |m]; simpl; try (intros; discriminate).
  - (* CompileStarted *)
    destruct (read_one opq rest1 e) as [r2 rest2] eqn:R2.
    destruct r2 as [resp2|e2|e2|].
    + destruct resp2 as [c2| | |f]; simpl; try (intros; discriminate).
      intros Hx. left.
      apply read_one_ok_framed in R1 as (p1 & F1 & D1).
      apply read_one_ok_framed in R2 as (p2 & F2 & D2).
      exists p1, rest1, p2, rest2, f. repeat split; assumption.
    + destruct (is_unexpected_eof (RHeaderErr e2)); simpl;
        [|destruct ig; simpl; [|intros; discriminate]]; intros Hx; right; eexists; split; eauto.
    + destruct (is_unexpected_eof (RBodyErr e2)); simpl;
        [|destruct ig; simpl; [|intros; discriminate]]; intros Hx; right; eexists; split; eauto.
    + simpl. destruct ig; simpl; [|intros; discriminate]. intros Hx; right; eexists; split; eauto.
  - (* UnhandledCompile *)
    intros Hx. right. eexists; split; eauto.
Qed.

(* server lost (clean EOF) after the acknowledgement: compile locally, whatever the switch *)
Lemma eof_after_ack opq ig bytes p1 rest local :
  framed bytes p1 rest ->
  decode_response opq p1 = Some (RCompile CompileStarted) ->
  cut_short rest = true ->
  client opq ig bytes Eof = RunLocally LEofAfterAck /\
  exit_code (client opq ig bytes Eof) local = local.
Proof.
  intros F D C. unfold client.
  rewrite (read_one_framed opq bytes p1 rest Eof F), D.
  destruct (read_one_cut_short opq rest Eof C) as (r & Hr & [-> | ->]);
    destruct (read_one opq rest Eof) as [r2 x]; simpl in Hr; subst r2; simpl; split; reflexivity.
Qed.

(* any other way of losing the server after the acknowledgement (reset, other I/O error, or a second frame
   that does not decode): local compile iff the switch is on, else a non-zero sccache error *)
Lemma io_error_after_ack opq ig bytes p1 rest e :
  framed bytes p1 rest ->
  decode_response opq p1 = Some (RCompile CompileStarted) ->
  (cut_short rest = true /\ e <> Eof) \/
  (exists p2 r2, framed rest p2 r2 /\ decode_response opq p2 = None) ->
  client opq ig bytes e = (if ig then RunLocally LIgnoredError else SccacheError EAfterAck).
Proof.
  intros F D H. unfold client.
  rewrite (read_one_framed opq bytes p1 rest e F), D.
  destruct H as [[C Ne] | (p2 & r2 & F2 & D2)].
  - destruct (read_one_cut_short opq rest e C) as (r & Hr & [-> | ->]);
      destruct (read_one opq rest e) as [rr x]; simpl in Hr; subst rr;
      destruct e; try congruence; simpl; destruct ig; reflexivity.
  - rewrite (read_one_framed opq rest p2 r2 e F2), D2. simpl. destruct ig; reflexivity.
Qed.

(* server lost before the acknowledgement: always a non-zero sccache error; no fallback, switch or not *)
Lemma lost_before_ack opq ig bytes e local :
  cut_short bytes = true ->
  client opq ig bytes e = SccacheError EBeforeAck /\
  exit_code (client opq ig bytes e) local = 2.
Proof.
  intros C. unfold client.
  destruct (read_one_cut_short opq bytes e C) as (r & Hr & [-> | ->]);
    destruct (read_one opq bytes e) as [rr x]; simpl in Hr; subst rr; simpl; split; reflexivity.
Qed.

(* both frames arrived: the result is delivered no matter how the stream ends afterwards *)
Lemma complete_exchange opq ig bytes p1 r1 p2 r2 f e :
  framed bytes p1 r1 -> decode_response opq p1 = Some (RCompile CompileStarted) ->
  framed r1 p2 r2 -> decode_response opq p2 = Some (RFinished f) ->
  client opq ig bytes e = ReturnFinished f.
Proof.
  intros F1 D1 F2 D2. unfold client.
  rewrite (read_one_framed opq bytes p1 r1 e F1), D1.
  rewrite (read_one_framed opq r1 p2 r2 e F2), D2. reflexivity.
Qed.

(* ---------- the server's streaming decoder ---------- *)

Lemma feed_app cap c a b : feed cap (feed cap c a) b = feed cap c (a ++ b).
Proof. unfold feed. rewrite fold_left_app. reflexivity. Qed.

Lemma feed_chunks cap chunks : forall c,
  fold_left (feed cap) chunks c = feed cap c (concat chunks).
Proof.
  induction chunks as [|x xs IH]; intros c; simpl.
  - reflexivity.
  - rewrite IH, feed_app. reflexivity.
Qed.

(* how the bytes were cut into reads does not matter *)
Lemma chunking_irrelevant cap c chunks1 chunks2 :
  concat chunks1 = concat chunks2 ->
  fold_left (feed cap) chunks1 c = fold_left (feed cap) chunks2 c.
Proof. intros H. rewrite !feed_chunks, H. reflexivity. Qed.

(* ---------- connections are independent ---------- *)

Lemma srv_get_set_same s id c : srv_get (srv_set s id c) id = c.
Proof.
  induction s as [|[i c'] s IH]; simpl.
  - rewrite N.eqb_refl. reflexivity.
  - destruct (i =? id) eqn:E; simpl; rewrite E; [reflexivity|assumption].
Qed.

Lemma srv_get_set_other s id id' c : id <> id' -> srv_get (srv_set s id c) id' = srv_get s id'.
Proof.
  intros Hne. induction s as [|[i c'] s IH]; simpl.
  - replace (id =? id') with false by lia. reflexivity.
  - destruct (i =? id) eqn:E; simpl.
    + destruct (i =? id') eqn:E'; [lia|reflexivity].
    + destruct (i =? id'); [reflexivity|assumption].
Qed.

Lemma conn_bytes_snoc evs ev id :
  conn_bytes (evs ++ [ev]) id = conn_bytes evs id ++ (if fst ev =? id then snd ev else []).
Proof.
  unfold conn_bytes. rewrite filter_app, map_app, concat_app. simpl.
  destruct (fst ev =? id); simpl; rewrite ?app_nil_r; reflexivity.
Qed.

(* the state of a connection is a function of that connection's own bytes *)
Lemma connection_isolation cap evs id :
  srv_get (srv_run cap evs) id = feed cap conn_init (conn_bytes evs id).
Proof.
  induction evs as [|ev evs IH] using rev_ind.
  - reflexivity.
  - unfold srv_run in *. rewrite fold_left_app. simpl. unfold srv_step at 1.
    rewrite conn_bytes_snoc. destruct (fst ev =? id) eqn:E.
    + assert (fst ev = id) as -> by lia. rewrite srv_get_set_same, IH, feed_app. reflexivity.
    + rewrite srv_get_set_other by lia. rewrite app_nil_r. exact IH.
Qed.

Lemma connection_isolation_2 cap evs1 evs2 id :
  conn_bytes evs1 id = conn_bytes evs2 id ->
  srv_get (srv_run cap evs1) id = srv_get (srv_run cap evs2) id.
Proof. intros H. rewrite !connection_isolation, H. reflexivity. Qed.

(* ---------- the decoder against the declarative framing ---------- *)

Definition all_decoded (fs : list wframe) (c : conn) : Prop :=
  map (fun f => decode_request (snd f)) fs = map Some (rev (c_reqs c)).

Inductive Inv (cap : N) (bytes : list N) (c : conn) : Prop :=
| InvHead fs rest :
    bytes = flat fs ++ rest -> Forall (wf_wframe cap) fs -> all_decoded fs c ->
    c_state c = Head rest -> (length rest < 4)%nat -> Inv cap bytes c
| InvData fs b0 b1 b2 b3 got need :
    bytes = flat fs ++ [b0; b1; b2; b3] ++ rev got -> Forall (wf_wframe cap) fs -> all_decoded fs c ->
    c_state c = Data need got -> 0 < need -> be32 b0 b1 b2 b3 = blen got + need ->
    be32 b0 b1 b2 b3 <= cap -> Inv cap bytes c
| InvBad fs bad rest :
    bytes = flat fs ++ wire bad ++ rest -> Forall (wf_wframe cap) fs -> all_decoded fs c ->
    wf_wframe cap bad -> decode_request (snd bad) = None ->
    c_state c = Closed BadMessage -> Inv cap bytes c
| InvBig fs rest :
    bytes = flat fs ++ rest -> Forall (wf_wframe cap) fs -> all_decoded fs c ->
    oversized cap rest = true -> c_state c = Closed FrameTooBig -> Inv cap bytes c.

Lemma flat_snoc fs f : flat (fs ++ [f]) = flat fs ++ wire f.
Proof. unfold flat. rewrite map_app, concat_app. simpl. rewrite app_nil_r. reflexivity. Qed.

Lemma inv_init cap : Inv cap [] conn_init.
Proof. apply (InvHead cap [] conn_init [] []); simpl; auto. reflexivity. Qed.

(* a complete frame within the cap has just been assembled *)
Lemma inv_on_frame cap c fs f :
  Forall (wf_wframe cap) fs -> all_decoded fs c -> wf_wframe cap f ->
  Inv cap (flat fs ++ wire f) (on_frame c (snd f)).
Proof.
  intros Hwf Hdec Hf. unfold on_frame.
  destruct (decode_request (snd f)) as [rq|] eqn:D.
  - apply (InvHead cap _ _ (fs ++ [f]) []).
    + rewrite flat_snoc, app_nil_r. reflexivity.
    + apply Forall_app. split; [assumption|]. constructor; [assumption|constructor].
    + unfold all_decoded, wframe in *. cbn [c_reqs].
      change (rev (rq :: c_reqs c)) with (rev (c_reqs c) ++ [rq]).
      rewrite !map_app, Hdec. cbn [map]. rewrite D. reflexivity.
    + reflexivity.
    + simpl. lia.
  - apply (InvBad cap _ _ fs f []).
    + rewrite app_nil_r. reflexivity.
    + assumption.
    + exact Hdec.
    + assumption.
    + assumption.
    + reflexivity.
Qed.

Lemma oversized_snoc cap rest b : oversized cap rest = true -> oversized cap (rest ++ [b]) = true.
Proof.
  destruct rest as [|b0 [|b1 [|b2 [|b3 r]]]]; simpl; try discriminate. auto.
Qed.

Lemma inv_step cap bytes c b : Inv cap bytes c -> Inv cap (bytes ++ [b]) (step_byte cap c b).
Proof.
  intros H. destruct H as [fs rest Hb Hwf Hdec Hst Hlen
                          | fs b0 b1 b2 b3 got need Hb Hwf Hdec Hst Hneed Hn Hcap
                          | fs bad rest Hb Hwf Hdec Hbad Hnone Hst
                          | fs rest Hb Hwf Hdec Hbig Hst].
  - (* Head *)
    unfold step_byte. rewrite Hst.
    destruct rest as [|x0 [|x1 [|x2 [|x3 r]]]]; try (simpl in Hlen; lia).
    + apply (InvHead cap _ _ fs [b]); simpl; auto. rewrite Hb, <- app_assoc. reflexivity.
    + apply (InvHead cap _ _ fs [x0; b]); simpl; auto. rewrite Hb, <- app_assoc. reflexivity.
    + apply (InvHead cap _ _ fs [x0; x1; b]); simpl; auto. rewrite Hb, <- app_assoc. reflexivity.
    + (* the header is complete *)
      assert (Hbytes : bytes ++ [b] = flat fs ++ [x0; x1; x2; b]).
      { rewrite Hb, <- app_assoc. reflexivity. }
      rewrite Hbytes. cbv zeta.
      destruct (cap <? be32 x0 x1 x2 b) eqn:Ecap.
      * apply (InvBig cap _ _ fs [x0; x1; x2; b]); simpl; auto.
      * destruct (be32 x0 x1 x2 b =? 0) eqn:Ez.
        -- change ([x0; x1; x2; b]) with (wire ([x0; x1; x2; b], [])).
           apply (inv_on_frame cap c fs ([x0; x1; x2; b], [])); auto.
           exists x0, x1, x2, b. cbn [fst snd]. rewrite blen_nil. repeat split; lia.
        -- apply (InvData cap _ _ fs x0 x1 x2 b [] (be32 x0 x1 x2 b)); simpl; auto.
           ++ lia.
           ++ lia.
  - (* Data *)
    unfold step_byte. rewrite Hst.
    assert (Hbytes : bytes ++ [b] = flat fs ++ [b0; b1; b2; b3] ++ rev (b :: got)).
    { rewrite Hb. simpl rev. rewrite <- !app_assoc. reflexivity. }
    destruct (need =? 1) eqn:E1.
    + rewrite Hbytes.
      change ([b0; b1; b2; b3] ++ rev (b :: got)) with (wire ([b0; b1; b2; b3], rev (b :: got))).
      apply (inv_on_frame cap c fs ([b0; b1; b2; b3], rev (b :: got))); auto.
      exists b0, b1, b2, b3. cbn [fst snd].
      assert (blen (rev (b :: got)) = blen got + 1).
      { unfold blen. rewrite rev_length. simpl length. lia. }
      repeat split; lia.
    + apply (InvData cap _ _ fs b0 b1 b2 b3 (b :: got) (N.pred need)); simpl c_state; simpl c_reqs; auto.
      * lia.
      * rewrite blen_cons. lia.
  - (* Closed BadMessage *)
    unfold step_byte. rewrite Hst.
    apply (InvBad cap _ _ fs bad (rest ++ [b])); auto.
    rewrite Hb, <- !app_assoc. reflexivity.
  - (* Closed FrameTooBig *)
    unfold step_byte. rewrite Hst.
    apply (InvBig cap _ _ fs (rest ++ [b])); auto.
    + rewrite Hb, <- app_assoc. reflexivity.
    + apply oversized_snoc. assumption.
Qed.

Lemma inv_feed cap bytes : Inv cap bytes (feed cap conn_init bytes).
Proof.
  induction bytes as [|b bytes IH] using rev_ind.
  - apply inv_init.
  - unfold feed in *. rewrite fold_left_app. simpl. apply inv_step. exact IH.
Qed.

(* Every byte string is a sequence of complete frames within the cap, all but possibly the last of which
   decode, followed by: a proper prefix of a frame (the connection stays open and waits), or an undecodable
   frame (closed), or an oversized length prefix (closed).  The requests handed to the service are exactly the
   decoded frames, in order. *)
Lemma frame_decoder_total cap bytes :
  exists fs rest,
    bytes = flat fs ++ rest /\ Forall (wf_wframe cap) fs /\
    map (fun f => decode_request (snd f)) fs = map Some (rev (c_reqs (feed cap conn_init bytes))) /\
    ( (conn_closed (feed cap conn_init bytes) = false /\ incomplete cap rest = true)
      \/ (c_state (feed cap conn_init bytes) = Closed FrameTooBig /\ oversized cap rest = true)
      \/ (c_state (feed cap conn_init bytes) = Closed BadMessage /\
          exists bad tail, rest = wire bad ++ tail /\ wf_wframe cap bad /\ decode_request (snd bad) = None) ).
Proof.
  destruct (inv_feed cap bytes) as [fs rest Hb Hwf Hdec Hst Hlen
                          | fs b0 b1 b2 b3 got need Hb Hwf Hdec Hst Hneed Hn Hcap
                          | fs bad rest Hb Hwf Hdec Hbad Hnone Hst
                          | fs rest Hb Hwf Hdec Hbig Hst].
  - exists fs, rest. repeat split; auto. left. unfold conn_closed. rewrite Hst. split; [reflexivity|].
    destruct rest as [|x0 [|x1 [|x2 [|x3 r]]]]; try reflexivity. simpl in Hlen. lia.
  - exists fs, ([b0; b1; b2; b3] ++ rev got). repeat split; auto. left.
    unfold conn_closed. rewrite Hst. split; [reflexivity|].
    simpl. assert (blen (rev got) = blen got) by (unfold blen; rewrite rev_length; reflexivity). lia.
  - exists fs, (wire bad ++ rest). repeat split; auto. right. right. split; [assumption|].
    exists bad, rest. auto.
  - exists fs, rest. repeat split; auto.
Qed.

(* ---------- only a well-formed Shutdown stops the server ---------- *)

Lemma srv_set_keys s id c : In id (map fst s) -> map fst (srv_set s id c) = map fst s.
Proof.
  induction s as [|[i c'] s IH]; simpl; intros H; [tauto|].
  destruct (i =? id) eqn:E; simpl; [reflexivity|].
  f_equal. apply IH. destruct H; [lia|assumption].
Qed.

Lemma srv_set_keys_new s id c : ~ In id (map fst s) -> map fst (srv_set s id c) = map fst s ++ [id].
Proof.
  induction s as [|[i c'] s IH]; simpl; intros H; [reflexivity|].
  destruct (i =? id) eqn:E; simpl.
  - exfalso. apply H. left. lia.
  - f_equal. apply IH. tauto.
Qed.

Lemma nodup_snoc (l : list N) x : NoDup l -> ~ In x l -> NoDup (l ++ [x]).
Proof.
  induction l as [|y l IH]; simpl; intros Hnd Hnin.
  - constructor; [tauto|constructor].
  - inversion Hnd; subst. constructor.
    + rewrite in_app_iff. simpl. intros [H|[H|[]]]; [tauto|]. apply Hnin. left. congruence.
    + apply IH; tauto.
Qed.

Lemma srv_set_nodup s id c : NoDup (map fst s) -> NoDup (map fst (srv_set s id c)).
Proof.
  intros H. destruct (in_dec N.eq_dec id (map fst s)) as [Hin|Hnin].
  - rewrite srv_set_keys; assumption.
  - rewrite srv_set_keys_new by assumption.
    apply nodup_snoc; assumption.
Qed.

Lemma srv_step_nodup cap s ev : NoDup (map fst s) -> NoDup (map fst (srv_step cap s ev)).
Proof. intros H. unfold srv_step. apply srv_set_nodup. exact H. Qed.

Lemma srv_run_nodup cap evs : NoDup (map fst (srv_run cap evs)).
Proof.
  unfold srv_run. induction evs as [|ev evs IH] using rev_ind.
  - constructor.
  - rewrite fold_left_app. simpl. apply srv_step_nodup. exact IH.
Qed.

Lemma srv_get_in s : NoDup (map fst s) -> forall i c, In (i, c) s -> srv_get s i = c.
Proof.
  induction s as [|[j c'] s IH]; simpl; intros Hnd i c Hin; [tauto|].
  inversion Hnd; subst. destruct Hin as [Heq|Hin].
  - inversion Heq; subst. rewrite N.eqb_refl. reflexivity.
  - destruct (j =? i) eqn:E.
    + exfalso. assert (j = i) as -> by lia. apply H1. apply (in_map fst) in Hin. exact Hin.
    + apply IH; assumption.
Qed.

(* the accept loop can only be ended by a complete, well-formed, in-cap frame that decodes as Shutdown on
   some connection (whose earlier frames all decoded) *)
Lemma only_shutdown_stops_the_server cap evs :
  srv_shutdown (srv_run cap evs) = true ->
  exists id fs f post,
    conn_bytes evs id = flat fs ++ wire f ++ post /\
    Forall (wf_wframe cap) fs /\ wf_wframe cap f /\
    decode_request (snd f) = Some ReqShutdown.
Proof.
  unfold srv_shutdown. rewrite existsb_exists. intros ([i c] & Hin & Hex).
  rewrite existsb_exists in Hex. destruct Hex as (rq & Hrq & Hs).
  destruct rq; try discriminate. cbn [snd] in Hrq.
  pose proof (srv_get_in _ (srv_run_nodup cap evs) i c Hin) as Hget.
  rewrite connection_isolation in Hget.
  destruct (frame_decoder_total cap (conn_bytes evs i)) as (fs & rest & Hb & Hwf & Hdec & _).
  rewrite Hget in Hdec.
  assert (Hin2 : In (Some ReqShutdown) (map (fun f : wframe => decode_request (snd f)) fs)).
  { unfold wframe in *. rewrite Hdec. apply in_map. rewrite <- in_rev. exact Hrq. }
  apply in_map_iff in Hin2 as (f & Hf & Hinf).
  apply in_split in Hinf as (fs1 & fs2 & ->).
  exists i, fs1, f, (flat fs2 ++ rest). repeat split.
  - rewrite Hb. unfold flat. rewrite map_app, concat_app. simpl. rewrite <- !app_assoc. reflexivity.
  - apply Forall_app in Hwf as [H1 _]. exact H1.
  - apply Forall_app in Hwf as [_ H2]. inversion H2; assumption.
  - exact Hf.
Qed.

(* contrapositive, for reading: malformed input alone never stops the server *)
Lemma garbage_does_not_stop_the_server cap evs :
  (forall id fs f post, conn_bytes evs id = flat fs ++ wire f ++ post ->
                        wf_wframe cap f -> decode_request (snd f) <> Some ReqShutdown) ->
  srv_shutdown (srv_run cap evs) = false.
Proof.
  intros H. destruct (srv_shutdown (srv_run cap evs)) eqn:E; [|reflexivity].
  apply only_shutdown_stops_the_server in E as (id & fs & f & post & Hb & _ & Hf & Hd).
  exfalso. exact (H id fs f post Hb Hf Hd).
Qed.

(* ---------- what the server writes is what the client reads (round trips) ---------- *)

Lemma be32_enc n : n < 4294967296 ->
  be32 ((n / 16777216) mod 256) ((n / 65536) mod 256) ((n / 256) mod 256) (n mod 256) = n.
Proof.
  intros H. unfold be32.
  pose proof (N.div_mod n 256 ltac:(lia)) as H0.
  pose proof (N.div_mod (n / 256) 256 ltac:(lia)) as H1.
  pose proof (N.div_mod (n / 256 / 256) 256 ltac:(lia)) as H2.
  rewrite N.div_div in H1, H2 by lia. rewrite N.div_div in H2 by lia.
  change (256 * 256) with 65536 in *. change (65536 * 256) with 16777216 in *.
  assert (n / 16777216 < 256) by (apply N.div_lt_upper_bound; lia).
  rewrite (N.mod_small (n / 16777216) 256) by assumption.
  lia.
Qed.

Lemma le32_enc n r : n < 4294967296 -> rd_u32 (enc_le32 n ++ r) = Some (n, r).
Proof.
  intros H. unfold enc_le32, rd_u32, le32. simpl app. cbv iota. rewrite be32_enc by assumption. reflexivity.
Qed.

Lemma framed_frame p rest : blen p < 4294967296 -> framed (frame p ++ rest) p rest.
Proof.
  intros H. unfold frame, enc_be32. simpl app.
  eexists _, _, _, _. split; [reflexivity|]. apply be32_enc. assumption.
Qed.

Lemma le64_enc n r : n < 18446744073709551616 -> rd_u64 (enc_le64 n ++ r) = Some (n, r).
Proof.
  intros H. unfold enc_le64, rd_u64. rewrite <- app_assoc.
  rewrite le32_enc by (apply N.mod_lt; lia).
  rewrite le32_enc by (apply N.div_lt_upper_bound; lia).
  f_equal. f_equal. pose proof (N.div_mod n 4294967296 ltac:(lia)). lia.
Qed.

Lemma rd_bytes_enc b r : blen b < 18446744073709551616 -> rd_bytes (enc_bytes b ++ r) = Some (b, r).
Proof.
  intros H. unfold rd_bytes, enc_bytes. rewrite <- app_assoc, le64_enc by assumption.
  apply splitN_app.
Qed.

Definition opt_lt32 (o : option N) : Prop := match o with Some v => v < 4294967296 | None => True end.

Lemma rd_opt32_enc o r : opt_lt32 o -> rd_opt32 (enc_opt32 o ++ r) = Some (o, r).
Proof.
  destruct o as [v|]; intros H.
  - unfold rd_opt32, enc_opt32. cbn [app rd_u8].
    change (1 =? 0) with false. change (1 =? 1) with true. cbv iota.
    rewrite le32_enc by exact H. reflexivity.
  - reflexivity.
Qed.

Definition wf_finished (f : finished) : Prop :=
  opt_lt32 (f_retcode f) /\ opt_lt32 (f_signal f) /\
  blen (f_stdout f) < 18446744073709551616 /\ blen (f_stderr f) < 18446744073709551616 /\ f_color f < 3.

Lemma decode_encode_finished opq f : wf_finished f -> decode_response opq (encode_finished f) = Some (RFinished f).
Proof.
  intros (H1 & H2 & H3 & H4 & H5). unfold decode_response, encode_finished.
  rewrite le32_enc by lia.
  replace (5 =? 0) with false by reflexivity. replace (5 =? 1) with false by reflexivity.
  replace (5 =? 5) with true by reflexivity.
  unfold decode_finished.
  rewrite rd_opt32_enc by assumption. rewrite rd_opt32_enc by assumption.
  rewrite rd_bytes_enc by assumption. rewrite rd_bytes_enc by assumption.
  rewrite <- (app_nil_r (enc_le32 (f_color f))). rewrite le32_enc by lia.
  replace (f_color f <? 3) with true by lia. destruct f; reflexivity.
Qed.

Lemma decode_encode_started opq : decode_response opq (encode_compile_response CompileStarted) = Some (RCompile CompileStarted).
Proof. reflexivity. Qed.

(* the statement in terms of what a real server puts on the wire *)
Lemma exchange_on_the_wire opq ig f tail e :
  wf_finished f -> blen (encode_finished f) < 4294967296 ->
  client opq ig (frame (encode_compile_response CompileStarted) ++ frame (encode_finished f) ++ tail) e
  = ReturnFinished f.
Proof.
  intros Hwf Hlen.
  apply (complete_exchange opq ig _ (encode_compile_response CompileStarted)
           (frame (encode_finished f) ++ tail) (encode_finished f) tail f e).
  - apply framed_frame. reflexivity.
  - apply decode_encode_started.
  - apply framed_frame. assumption.
  - apply decode_encode_finished. assumption.
Qed.

(* a server that dies while writing: every proper prefix of what it meant to send after the acknowledgement
   is cut short, so (EOF) the client compiles locally *)
Lemma prefix_cut_short p k :
  blen p < 4294967296 -> (k < length (frame p))%nat -> cut_short (firstn k (frame p)) = true.
Proof.
  intros Hlen Hk. unfold frame, enc_be32 in *. simpl app in *.
  destruct k as [|[|[|[|k]]]]; try reflexivity.
  simpl firstn. unfold cut_short. rewrite be32_enc by assumption.
  simpl length in Hk.
  assert (length (firstn k p) < length p)%nat.
  { rewrite firstn_length. lia. }
  unfold blen. lia.
Qed.

Lemma killed_while_answering opq ig f k local :
  blen (encode_finished f) < 4294967296 ->
  (k < length (frame (encode_finished f)))%nat ->
  client opq ig (frame (encode_compile_response CompileStarted) ++ firstn k (frame (encode_finished f))) Eof
  = RunLocally LEofAfterAck /\
  exit_code (client opq ig (frame (encode_compile_response CompileStarted) ++ firstn k (frame (encode_finished f))) Eof) local = local.
Proof.
  intros Hlen Hk.
  apply (eof_after_ack opq ig _ (encode_compile_response CompileStarted)
           (firstn k (frame (encode_finished f))) local).
  - apply framed_frame. reflexivity.
  - apply decode_encode_started.
  - apply prefix_cut_short; assumption.
Qed.

(* ---------- before a connection exists: cold start ---------- *)

(* AddrInUse is not an error: the client goes on to connect exactly as if its own server had started *)
Lemma addr_in_use_proceeds later :
  connect_or_start ARefused SAddrInUse later = connect_or_start ARefused (SOk true) later /\
  (connect_with_retry later = true -> connect_or_start ARefused SAddrInUse later = None).
Proof.
  split; [reflexivity|]. intros H. unfold connect_or_start. rewrite H. reflexivity.
Qed.

Lemma nth_in_firstn {A} (x : A) : forall l n k, (n < k)%nat -> nth_error l n = Some x -> In x (firstn k l).
Proof.
  induction l as [|y l IH]; intros n k Hk Hn.
  - destruct n; discriminate.
  - destruct k as [|k]; [lia|]. destruct n as [|n]; simpl in *.
    + left. congruence.
    + right. apply IH with n; [lia|assumption].
Qed.

(* a server answers one of the (at most 11) connect attempts *)
Lemma retry_finds_listener later n :
  (n < retry_budget)%nat -> nth_error later n = Some AOk -> connect_with_retry later = true.
Proof.
  intros Hn Hnth. unfold connect_with_retry. apply existsb_exists. exists AOk. split; [|reflexivity].
  apply nth_in_firstn with n; assumption.
Qed.

(* every way of not getting a connection is an sccache error (exit 2), every other start-up outcome proceeds *)
Lemma connect_or_start_table first rep later :
  connect_or_start first rep later = None <->
  first = AOk \/
  (first = ARefused /\ (rep = SOk true \/ rep = SAddrInUse) /\ connect_with_retry later = true).
Proof.
  unfold connect_or_start. split.
  - destruct first; [auto| |discriminate].
    destruct rep as [[|]| | | |]; try discriminate;
      destruct (connect_with_retry later) eqn:E; try discriminate; intros _; right; auto.
  - intros [->|(-> & [->| ->] & ->)]; reflexivity.
Qed.

(* no server running, k clients at once: whoever's server wins the port, a client whose spawned server reports
   Ok or AddrInUse and who then reaches the listener gets its result exactly as with a running server *)
Lemma cold_start_delivers opq ig rep later f tail e :
  rep = SOk true \/ rep = SAddrInUse ->
  connect_with_retry later = true ->
  wf_finished f -> blen (encode_finished f) < 4294967296 ->
  compile_process opq ig ARefused rep later
    (frame (encode_compile_response CompileStarted) ++ frame (encode_finished f) ++ tail) e
  = PCompile (ReturnFinished f).
Proof.
  intros Hrep Hretry Hwf Hlen. unfold compile_process.
  replace (connect_or_start ARefused rep later) with (@None start_error).
  - f_equal. apply exchange_on_the_wire; assumption.
  - symmetry. apply connect_or_start_table. right. auto.
Qed.

Lemma process_never_false_success opq ig first rep later bytes e local :
  process_exit (compile_process opq ig first rep later bytes e) local = 0 ->
  connect_or_start first rep later = None /\
  ((exists p1 r1 p2 r2 f,
      framed bytes p1 r1 /\ decode_response opq p1 = Some (RCompile CompileStarted) /\
      framed r1 p2 r2 /\ decode_response opq p2 = Some (RFinished f) /\
      client opq ig bytes e = ReturnFinished f /\ finished_exit f = 0)
   \/ (exists w, client opq ig bytes e = RunLocally w /\ local = 0)).
Proof.
  unfold compile_process. destruct (connect_or_start first rep later); simpl; [discriminate|].
  intros H. split; [reflexivity|]. exact (never_false_success opq ig bytes e local H).
Qed.

(* ---------- the shared compiler map ---------- *)

(* whatever other requests (from any connection) came before — in particular requests whose probe failed and
   left `None` entries — a request whose own probe succeeds is served *)
Lemma failed_probe_does_not_poison m q :
  q_probe_ok q = true -> fst (compiler_info m q) = true.
Proof.
  intros H. unfold compiler_info. rewrite H.
  destruct (cm_get m (q_path q)) as [[mt|]|]; simpl; try reflexivity.
  destruct (mt =? q_mtime q); reflexivity.
Qed.

Lemma serve_all_app m qs1 qs2 :
  fst (serve_all m (qs1 ++ qs2)) = fst (serve_all m qs1) ++ fst (serve_all (snd (serve_all m qs1)) qs2).
Proof.
  revert m. induction qs1 as [|q qs1 IH]; intros m; simpl.
  - destruct (serve_all m qs2); reflexivity.
  - destruct (compiler_info m q) as [a m1]. specialize (IH m1).
    destruct (serve_all m1 (qs1 ++ qs2)) as [x y]. destruct (serve_all m1 qs1) as [x1 y1].
    simpl in *. rewrite IH. reflexivity.
Qed.

Lemma served_after_any_history before q after :
  q_probe_ok q = true ->
  nth_error (fst (serve_all [] (before ++ q :: after))) (length before) = Some true.
Proof.
  intros H. rewrite serve_all_app.
  rewrite nth_error_app2 by (clear; revert before; generalize (@nil (list N * option N));
    intros m before; revert m; induction before as [|b bs IH]; intros m; simpl; [lia|];
    destruct (compiler_info m b) as [a m1]; specialize (IH m1);
    destruct (serve_all m1 bs); simpl in *; lia).
  assert (Hlen : forall m, length (fst (serve_all m before)) = length before).
  { induction before as [|b bs IH]; intros m; simpl; [reflexivity|].
    destruct (compiler_info m b) as [a m1]. specialize (IH m1).
    destruct (serve_all m1 bs); simpl in *. lia. }
  rewrite Hlen, PeanoNat.Nat.sub_diag. simpl.
  pose proof (failed_probe_does_not_poison (snd (serve_all [] before)) q H) as Hq.
  destruct (compiler_info (snd (serve_all [] before)) q) as [a m1]. simpl in Hq. subst a.
  destruct (serve_all m1 after). reflexivity.
Qed.

(* ---------- the address the spawned server reports ---------- *)

Lemma path_eqb_refl p : path_eqb p p = true.
Proof. induction p as [|x p IH]; simpl; [reflexivity|]. rewrite N.eqb_refl. exact IH. Qed.

(* however the requested address is spelled, the server that was started for it reports that very address *)
Lemma server_reports_requested_address a : report_of_started_server a = SOk true.
Proof. unfold report_of_started_server, server_binds. rewrite path_eqb_refl. reflexivity. Qed.

Lemma cold_start_any_address a later :
  connect_with_retry later = true ->
  connect_or_start ARefused (report_of_started_server a) later = None.
Proof.
  intros H. rewrite server_reports_requested_address. apply connect_or_start_table. right. auto.
Qed.

(* ---------- the client's environment at a cold start ---------- *)

Lemma cold_start_environment e rep :
  e_tmpdir e <> Some DirUnusable -> spawn_report e rep = rep.
Proof.
  intros H. unfold spawn_report, rendezvous_ok.
  destruct (e_tmpdir e) as [[|]|]; try reflexivity. congruence.
Qed.

Lemma cold_start_stale_environment tmp xdg home a later :
  tmp <> Some DirUnusable ->
  connect_with_retry later = true ->
  connect_or_start ARefused
    (spawn_report {| e_tmpdir := tmp; e_xdg_runtime := xdg; e_home := home |} (report_of_started_server a)) later
  = None.
Proof.
  intros Ht Hr. rewrite cold_start_environment by exact Ht. apply cold_start_any_address. exact Hr.
Qed.

Lemma unusable_tmpdir_is_an_error xdg home rep later :
  connect_or_start ARefused
    (spawn_report {| e_tmpdir := Some DirUnusable; e_xdg_runtime := xdg; e_home := home |} rep) later
  = Some ESpawnFailed.
Proof. reflexivity. Qed.

(* ---------- results larger than a frame ---------- *)

Lemma oversized_result_falls_back opq ig cap f local :
  cap < blen (encode_finished f) ->
  client opq ig (server_reply cap f) Eof = RunLocally LEofAfterAck /\
  exit_code (client opq ig (server_reply cap f) Eof) local = local.
Proof.
  intros H. unfold server_reply.
  replace (blen (encode_finished f) <=? cap) with false by lia.
  apply (eof_after_ack opq ig _ (encode_compile_response CompileStarted) [] local).
  - apply framed_frame. reflexivity.
  - apply decode_encode_started.
  - reflexivity.
Qed.

Lemma fitting_result_relayed opq ig cap f :
  wf_finished f -> blen (encode_finished f) < 4294967296 ->
  blen (encode_finished f) <= cap ->
  client opq ig (server_reply cap f) Eof = ReturnFinished f.
Proof.
  intros Hwf Hlen Hfit. unfold server_reply.
  replace (blen (encode_finished f) <=? cap) with true by lia.
  rewrite <- (app_nil_r (frame (encode_finished f))).
  apply exchange_on_the_wire; assumption.
Qed.

(* whole or not at all: whatever CompileFinished the client acts on is the one the compile produced *)
Lemma result_whole_or_not_at_all opq ig cap f f' :
  wf_finished f -> blen (encode_finished f) < 4294967296 ->
  client opq ig (server_reply cap f) Eof = ReturnFinished f' -> f' = f.
Proof.
  intros Hwf Hlen H.
  destruct (blen (encode_finished f) <=? cap) eqn:E.
  - rewrite fitting_result_relayed in H by (try assumption; lia). congruence.
  - destruct (oversized_result_falls_back opq ig cap f 0) as [H1 _]; [lia|]. congruence.
Qed.

(* ---------- the local fallback is the original command; socket ownership ---------- *)

Lemma fallback_is_the_original_command cenv sent :
  lr_env (fallback_run cenv sent) = cenv /\ lr_stdio_inherited (fallback_run cenv sent) = true.
Proof. split; reflexivity. Qed.

Lemma sock_owner_gen evs : forall acc, fold_left sock_step evs acc = last_bind evs acc.
Proof.
  induction evs as [|[s|s] evs IH]; intros acc; simpl; [reflexivity| |]; apply IH.
Qed.

Lemma socket_belongs_to_last_binder evs : sock_owner evs = last_bind evs None.
Proof. apply sock_owner_gen. Qed.

Lemma exit_keeps_the_socket evs s : sock_owner (evs ++ [SExit s]) = sock_owner evs.
Proof. unfold sock_owner. rewrite fold_left_app. reflexivity. Qed.
