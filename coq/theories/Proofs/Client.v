(* Proofs about Model/Client.v (property C11). *)
From Coq Require Import List NArith Bool Lia ZifyN ZifyBool.
From Sccache Require Import Model.Client.
Import ListNotations.
Local Open Scope N_scope.

Arguments N.add : simpl never.
Arguments N.sub : simpl never.
Arguments N.mul : simpl never.
Arguments N.ltb : simpl never.
Arguments N.leb : simpl never.
Arguments N.eqb : simpl never.
Arguments N.pred : simpl never.
Arguments N.of_nat : simpl never.
Arguments be32 : simpl never.

(* ---------- splitN ---------- *)

Lemma blen_nil : blen (@nil N) = 0.
Proof. reflexivity. Qed.

Lemma blen_cons x (l : list N) : blen (x :: l) = blen l + 1.
Proof. unfold blen. simpl length. lia. Qed.

Lemma blen_app (a b : list N) : blen (a ++ b) = blen a + blen b.
Proof. unfold blen. rewrite app_length. lia. Qed.

Lemma splitN_some l : forall n a b, splitN l n = Some (a, b) -> l = a ++ b /\ blen a = n.
Proof.
  induction l as [|x l IH]; intros n a b H; simpl in H.
  - destruct (n =? 0) eqn:E.
    + inversion H; subst. split; [reflexivity|]. rewrite blen_nil. lia.
    + discriminate.
  - destruct (n =? 0) eqn:E.
    + inversion H; subst. split; [reflexivity|]. rewrite blen_nil. lia.
    + destruct (splitN l (N.pred n)) as [[a' b']|] eqn:S; [|discriminate].
      inversion H; subst. apply IH in S as [-> Hl]. split; [reflexivity|].
      rewrite blen_cons. lia.
Qed.

Lemma splitN_none l : forall n, splitN l n = None -> blen l < n.
Proof.
  induction l as [|x l IH]; intros n H; simpl in H.
  - destruct (n =? 0) eqn:E; [discriminate|]. rewrite blen_nil. lia.
  - destruct (n =? 0) eqn:E; [discriminate|].
    destruct (splitN l (N.pred n)) as [[a' b']|] eqn:S; [discriminate|].
    apply IH in S. rewrite blen_cons. lia.
Qed.

Lemma splitN_app a : forall b, splitN (a ++ b) (blen a) = Some (a, b).
Proof.
  induction a as [|x a IH]; intros b.
  - rewrite blen_nil. simpl. destruct b; reflexivity.
  - simpl app. simpl splitN. rewrite blen_cons.
    replace (blen a + 1 =? 0) with false by lia.
    replace (N.pred (blen a + 1)) with (blen a) by lia.
    rewrite IH. reflexivity.
Qed.

Lemma splitN_short l n : blen l < n -> splitN l n = None.
Proof.
  intros H. destruct (splitN l n) as [[a b]|] eqn:S; [|reflexivity].
  apply splitN_some in S as [-> Hn]. rewrite blen_app in H. lia.
Qed.

(* ---------- read_one ---------- *)

Lemma read_one_framed opq l p rest e :
  framed l p rest ->
  read_one opq l e = match decode_response opq p with
                     | Some r => (ROk r, rest)
                     | None => (RDecodeErr, rest)
                     end.
Proof.
  intros (b0 & b1 & b2 & b3 & -> & Hlen). unfold read_one.
  rewrite Hlen, splitN_app. reflexivity.
Qed.

Lemma read_one_cut_short opq l e :
  cut_short l = true ->
  exists r, fst (read_one opq l e) = r /\ (r = RHeaderErr e \/ r = RBodyErr e).
Proof.
  intros H. unfold read_one.
  destruct l as [|b0 [|b1 [|b2 [|b3 r]]]]; try (eexists; split; [reflexivity|left; reflexivity]).
  simpl in H. rewrite splitN_short by lia. eexists; split; [reflexivity|right; reflexivity].
Qed.

Lemma read_one_ok_framed opq l e r rest :
  read_one opq l e = (ROk r, rest) ->
  exists p, framed l p rest /\ decode_response opq p = Some r.
Proof.
  unfold read_one. intros H.
  destruct l as [|b0 [|b1 [|b2 [|b3 t]]]]; try discriminate.
  destruct (splitN t (be32 b0 b1 b2 b3)) as [[p rs]|] eqn:S; [|discriminate].
  destruct (decode_response opq p) as [resp|] eqn:D; [|discriminate].
  inversion H; subst. apply splitN_some in S as [-> Hn].
  exists p. split; [|assumption]. exists b0, b1, b2, b3. split; [reflexivity|]. lia.
Qed.

(* ---------- the client's decision table ---------- *)

(* every exit status 0 is either a fully received CompileFinished or a local compile that returned 0 *)
Lemma never_false_success opq ig bytes e local :
  exit_code (client opq ig bytes e) local = 0 ->
  (exists p1 r1 p2 r2 f,
      framed bytes p1 r1 /\ decode_response opq p1 = Some (RCompile CompileStarted) /\
      framed r1 p2 r2 /\ decode_response opq p2 = Some (RFinished f) /\
      client opq ig bytes e = ReturnFinished f /\ finished_exit f = 0)
  \/ (exists w, client opq ig bytes e = RunLocally w /\ local = 0).
Proof.
  unfold client.
  destruct (read_one opq bytes e) as [r1 rest1] eqn:R1.
  destruct r1 as [resp1| | |]; simpl; try (intros; discriminate).
  destruct resp1 as [c| | |]; simpl; try (intros; discriminate).
  destruct c as [| |m]; simpl; try (intros; discriminate).
  - (* CompileStarted *)
    destruct (read_one opq rest1 e) as [r2 rest2] eqn:R2.
    destruct r2 as [resp2|e2|e2|].
    + destruct resp2 as [c2| | |f]; simpl; try (intros; discriminate).
      intros Hx. left.
      apply read_one_ok_framed in R1 as (p1 & F1 & D1).
      apply read_one_ok_framed in R2 as (p2 & F2 & D2).
      exists p1, rest1, p2, rest2, f. repeat split; assumption.
    + destruct (is_unexpected_eof (RHeaderErr e2)); simpl;
        [|destruct ig; simpl; [|intros; discriminate]]; intros Hx; right; eexists; split; eauto.
    + destruct (is_unexpected_eof (RBodyErr e2)); simpl;
        [|destruct ig; simpl; [|intros; discriminate]]; intros Hx; right; eexists; split; eauto.
    + simpl. destruct ig; simpl; [|intros; discriminate]. intros Hx; right; eexists; split; eauto.
  - (* UnhandledCompile *)
    intros Hx. right. eexists; split; eauto.
Qed.

(* server lost (clean EOF) after the acknowledgement: compile locally, whatever the switch *)
Lemma eof_after_ack opq ig bytes p1 rest local :
  framed bytes p1 rest ->
  decode_response opq p1 = Some (RCompile CompileStarted) ->
  cut_short rest = true ->
  client opq ig bytes Eof = RunLocally LEofAfterAck /\
  exit_code (client opq ig bytes Eof) local = local.
Proof.
  intros F D C. unfold client.
  rewrite (read_one_framed opq bytes p1 rest Eof F), D.
  destruct (read_one_cut_short opq rest Eof C) as (r & Hr & [-> | ->]);
    destruct (read_one opq rest Eof) as [r2 x]; simpl in Hr; subst r2; simpl; split; reflexivity.
Qed.

(* any other way of losing the server after the acknowledgement (reset, other I/O error, or a second frame
   that does not decode): local compile iff the switch is on, else a non-zero sccache error *)
Lemma io_error_after_ack opq ig bytes p1 rest e :
  framed bytes p1 rest ->
  decode_response opq p1 = Some (RCompile CompileStarted) ->
  (cut_short rest = true /\ e <> Eof) \/
  (exists p2 r2, framed rest p2 r2 /\ decode_response opq p2 = None) ->
  client opq ig bytes e = (if ig then RunLocally LIgnoredError else SccacheError EAfterAck).
Proof.
  intros F D H. unfold client.
  rewrite (read_one_framed opq bytes p1 rest e F), D.
  destruct H as [[C Ne] | (p2 & r2 & F2 & D2)].
  - destruct (read_one_cut_short opq rest e C) as (r & Hr & [-> | ->]);
      destruct (read_one opq rest e) as [rr x]; simpl in Hr; subst rr;
      destruct e; try congruence; simpl; destruct ig; reflexivity.
  - rewrite (read_one_framed opq rest p2 r2 e F2), D2. simpl. destruct ig; reflexivity.
Qed.

(* server lost before the acknowledgement: always a non-zero sccache error; no fallback, switch or not *)
Lemma lost_before_ack opq ig bytes e local :
  cut_short bytes = true ->
  client opq ig bytes e = SccacheError EBeforeAck /\
  exit_code (client opq ig bytes e) local = 2.
Proof.
  intros C. unfold client.
  destruct (read_one_cut_short opq bytes e C) as (r & Hr & [-> | ->]);
    destruct (read_one opq bytes e) as [rr x]; simpl in Hr; subst rr; simpl; split; reflexivity.
Qed.

(* both frames arrived: the result is delivered no matter how the stream ends afterwards *)
Lemma complete_exchange opq ig bytes p1 r1 p2 r2 f e :
  framed bytes p1 r1 -> decode_response opq p1 = Some (RCompile CompileStarted) ->
  framed r1 p2 r2 -> decode_response opq p2 = Some (RFinished f) ->
  client opq ig bytes e = ReturnFinished f.
Proof.
  intros F1 D1 F2 D2. unfold client.
  rewrite (read_one_framed opq bytes p1 r1 e F1), D1.
  rewrite (read_one_framed opq r1 p2 r2 e F2), D2. reflexivity.
Qed.

(* ---------- the server's streaming decoder ---------- *)

Lemma feed_app cap c a b : feed cap (feed cap c a) b = feed cap c (a ++ b).
Proof. unfold feed. rewrite fold_left_app. reflexivity. Qed.

Lemma feed_chunks cap chunks : forall c,
  fold_left (feed cap) chunks c = feed cap c (concat chunks).
Proof.
  induction chunks as [|x xs IH]; intros c; simpl.
  - reflexivity.
  - rewrite IH, feed_app. reflexivity.
Qed.

(* how the bytes were cut into reads does not matter *)
Lemma chunking_irrelevant cap c chunks1 chunks2 :
  concat chunks1 = concat chunks2 ->
  fold_left (feed cap) chunks1 c = fold_left (feed cap) chunks2 c.
Proof. intros H. rewrite !feed_chunks, H. reflexivity. Qed.

(* ---------- connections are independent ---------- *)

Lemma srv_get_set_same s id c : srv_get (srv_set s id c) id = c.
Proof.
  induction s as [|[i c'] s IH]; simpl.
  - rewrite N.eqb_refl. reflexivity.
  - destruct (i =? id) eqn:E; simpl; rewrite E; [reflexivity|assumption].
Qed.

Lemma srv_get_set_other s id id' c : id <> id' -> srv_get (srv_set s id c) id' = srv_get s id'.
Proof.
  intros Hne. induction s as [|[i c'] s IH]; simpl.
  - replace (id =? id') with false by lia. reflexivity.
  - destruct (i =? id) eqn:E; simpl.
    + destruct (i =? id') eqn:E'; [lia|reflexivity].
    + destruct (i =? id'); [reflexivity|assumption].
Qed.

Lemma conn_bytes_snoc evs ev id :
  conn_bytes (evs ++ [ev]) id = conn_bytes evs id ++ (if fst ev =? id then snd ev else []).
Proof.
  unfold conn_bytes. rewrite filter_app, map_app, concat_app. simpl.
  destruct (fst ev =? id); simpl; rewrite ?app_nil_r; reflexivity.
Qed.

(* the state of a connection is a function of that connection's own bytes *)
Lemma connection_isolation cap evs id :
  srv_get (srv_run cap evs) id = feed cap conn_init (conn_bytes evs id).
Proof.
  induction evs as [|ev evs IH] using rev_ind.
  - reflexivity.
  - unfold srv_run in *. rewrite fold_left_app. simpl. unfold srv_step at 1.
    rewrite conn_bytes_snoc. destruct (fst ev =? id) eqn:E.
    + assert (fst ev = id) as -> by lia. rewrite srv_get_set_same, IH, feed_app. reflexivity.
    + rewrite srv_get_set_other by lia. rewrite app_nil_r. exact IH.
Qed.

Lemma connection_isolation_2 cap evs1 evs2 id :
  conn_bytes evs1 id = conn_bytes evs2 id ->
  srv_get (srv_run cap evs1) id = srv_get (srv_run cap evs2) id.
Proof. intros H. rewrite !connection_isolation, H. reflexivity. Qed.
