(* Proofs/ComposeC04.v — C04 ⟵ C02: the manifest key of the preprocessor-cache mode (abstract `pp_key` with the named
   hypothesis `pp_key_injective` in Properties/C04.v `C04_mode_equivalence`) instantiated with C02's preprocessor-level
   key  KeyEnc.pp_key = H ∘ encode_pp  over the translated spec, the main key with  KeyEnc.key = H ∘ encode_c,  the
   digest type with byte strings, the content digest with the SAME H and the time digest with  H ∘ time_enc.
   The injectivity hypothesis is derived from Properties/C02.v `C02_pp_encode_injective_canon`; `env_main_subset_env_pp`
   from Gen/C02HashSpec_ok.v `the_spec_env_covers` (S16).  Global injectivity of the digests (impossible for a
   64-hex-valued H) is replaced by collision-freeness of H on an explicit finite list of pre-images in play
   (Proofs/ComposePpLocal.v).

   The mapping between the two models, all by DEFINITION:
     C04 `Req`                     hreq: compiler digest, plusplus, language TAG, arguments, extra hashes, input path
                                   (exactly the request-level components C02's canon_p names)
     C04 environment               the whole environment; filter_env (C04) = fenv (C02)            [filter_env_fenv]
     C04 `date : bytes`            date_enc today sde = year, month, day (4 LE bytes each) ++ SOURCE_DATE_EPOCH: what
                                   C02's time_pre feeds after the "date" delimiter
     C04 `n_mtime : N`             nanoseconds; C02's Timestamp{seconds, nanoseconds} = mt_of m = (m / 10^9, m mod 10^9)
     C04 `HT od om`                H (time_enc od om), and  time_pre r = time_enc (date if __DATE__) (mtime if __TIMESTAMP__)
     C04 `idigest`                 Plain x ↦ x,  Salted x t ↦ x "-" t   (render) = C02's input-digest component (idig)
     C04 scan flags                fl_date (scan_file b) = contains date_pat b, ... (C04_scan_exact)      [fl_*_contains]
   so that  in_manifest (C04)  ⟺  KeyEnc.pp_key H the_spec r = Some mk  for the C02 request r = mk_creq ... [in_manifest_C02]. *)
From Coq Require Import List NArith Bool Arith Lia.
From Sccache Require Import Base.Sx Gen.C04Consts Model.PpPaths Model.TimeMacro Model.PpCache
     Proofs.TimeMacro Proofs.PpCache Proofs.ComposePpLocal.
From Sccache Require Import Model.KeyEnc Proofs.KeyEnc Proofs.KeyEncSpec Gen.C02HashSpec Gen.C02HashSpec_ok
     Properties.C02.
Import ListNotations.
Local Open Scope N_scope.
Arguments scan_file : simpl never.
Arguments N.div : simpl never.
Arguments N.modulo : simpl never.
Arguments le_bytes : simpl never.

(* ------------------------------------------------------------------ the two translators agree *)

(* C04's translator reads the allow-list and the three patterns from the sources; C02's reads the allow-list too and
   its model spells the patterns out.  They must be the same data. *)
Lemma allowlists_agree : pp_cached_env_vars = allow_pp the_spec.
Proof. vm_compute. reflexivity. Qed.

Lemma patterns_agree : pat WDate = date_pat /\ pat WTime = time_pat /\ pat WTimestamp = stamp_pat.
Proof. vm_compute. repeat split; reflexivity. Qed.

(* ------------------------------------------------------------------ small facts *)

Lemma bytes_eqb_sym a b : bytes_eqb a b = bytes_eqb b a.
Proof.
  destruct (bytes_eqb a b) eqn:E1, (bytes_eqb b a) eqn:E2; try reflexivity.
  - apply bytes_eqb_eq in E1. subst. rewrite bytes_eqb_refl in E2. discriminate.
  - apply bytes_eqb_eq in E2. subst. rewrite bytes_eqb_refl in E1. discriminate.
Qed.

Lemma name_in_allowed al n : name_in al n = allowed al n.
Proof.
  unfold name_in, allowed. induction al as [|a al IH]; simpl; [reflexivity|].
  rewrite IH, bytes_eqb_sym. reflexivity.
Qed.

(* C04's filter_env is C02's fenv *)
Lemma filter_env_fenv al e : filter_env al e = filter (fun kv => allowed al (fst kv)) e.
Proof.
  unfold filter_env. induction e as [|kv e IH]; simpl; [reflexivity|].
  rewrite name_in_allowed, IH. reflexivity.
Qed.

Lemma filter_idem {A} (f : A -> bool) l : filter f (filter f l) = filter f l.
Proof. apply filter_filter_sub. tauto. Qed.

Lemma prefixb_same p s : TimeMacro.prefixb p s = KeyEnc.prefixb p s.
Proof.
  revert s; induction p as [|x p IH]; intros [|y s]; simpl; rewrite ?IH; reflexivity.
Qed.

Lemma contains_same p s : containsb p s = contains p s.
Proof.
  induction s as [|y s IH]; simpl.
  - rewrite prefixb_same. reflexivity.
  - rewrite prefixb_same, IH. reflexivity.
Qed.

Lemma bool_eq_iff (a b : bool) : (a = true <-> b = true) -> a = b.
Proof. destruct a, b; intros [H1 H2]; try reflexivity; [symmetry; apply H1; reflexivity | apply H2; reflexivity]. Qed.

Lemma fl_date_contains b : fl_date (scan_file b) = contains date_pat b.
Proof.
  apply bool_eq_iff. rewrite <- contains_same, containsb_spec.
  destruct patterns_agree as [<- _]. apply (proj1 (scan_file_exact b)).
Qed.
Lemma fl_time_contains b : fl_time (scan_file b) = contains time_pat b.
Proof.
  apply bool_eq_iff. rewrite <- contains_same, containsb_spec.
  destruct patterns_agree as [_ [<- _]]. apply (proj1 (proj2 (scan_file_exact b))).
Qed.
Lemma fl_timestamp_contains b : fl_timestamp (scan_file b) = contains stamp_pat b.
Proof.
  apply bool_eq_iff. rewrite <- contains_same, containsb_spec.
  destruct patterns_agree as [_ [_ <-]]. apply (proj2 (proj2 (scan_file_exact b))).
Qed.

(* ------------------------------------------------------------------ the mapping *)

Definition ns : N := 1000000000.
Definition mt_of (m : N) : N * N := (m / ns, m mod ns).

Definition date_enc (d : N * N * N) (s : option bytes) : bytes :=
  le_bytes 4 (fst (fst d)) ++ le_bytes 4 (snd (fst d)) ++ le_bytes 4 (snd d)
  ++ match s with Some x => x | None => [] end.

Definition date_tag : bytes := [100; 97; 116; 101].
Definition stamp_tag : bytes := [116; 105; 109; 101; 115; 116; 97; 109; 112].

Definition time_enc (od : option bytes) (om : option N) : bytes :=
  (match od with Some d => delimiter date_tag ++ d | None => [] end)
  ++ (match om with
      | Some m => delimiter stamp_tag ++ le_bytes 8 (fst (mt_of m)) ++ le_bytes 4 (snd (mt_of m))
      | None => []
      end).

(* the request-level components of C02's canon_p *)
Record hreq := {
  hq_digest : bytes;
  hq_plusplus : bool;
  hq_tag : bytes;                (* Language::as_str *)
  hq_args : list bytes;
  hq_extra : list bytes;
  hq_path : bytes;
}.

(* a language with this tag (the first of the table) *)
Definition lang_of_tag (sp : spec) (t : bytes) : bytes :=
  match find (fun e => bytes_eqb (snd e) t) (tags sp) with Some e => fst e | None => [] end.

(* the C02 request: hashed request [q], whole environment [e], preprocessor output [out], contents [b] of the input
   file, ignore_time_macros, today's date, SOURCE_DATE_EPOCH, mtime (ns) of the input file *)
Definition mk_creq (q : hreq) (e : list (bytes * bytes)) (out b : bytes) (itm : bool)
           (today : N * N * N) (s : option bytes) (mt : N) : creq :=
  {| digest := hq_digest q; plusplus := hq_plusplus q; lang := lang_of_tag the_spec (hq_tag q);
     args := hq_args q; extra := hq_extra q; env := e; pp := out; path := hq_path q; input := b;
     ignore_time := itm; date := today; sde := s; mtime := mt_of mt |}.

Definition req_of (r : creq) : hreq :=
  {| hq_digest := digest r; hq_plusplus := plusplus r; hq_tag := tag_of the_spec (lang r);
     hq_args := args r; hq_extra := extra r; hq_path := path r |}.

Definition render (d : idigest bytes) : bytes :=
  match d with Plain x => x | Salted x t => x ++ [45] ++ t end.

(* the digest component as C04's two-constructor value *)
Definition idg (H : bytes -> bytes) (r : creq) : idigest bytes :=
  if salted r then Salted (H (input r)) (H (time_pre r)) else Plain (H (input r)).

(* a recording, with the date at C02's level *)
Record cop := {
  co_fresh : bool;
  co_fs : fsnap;
  co_start : N;
  co_today : N * N * N;
  co_sde : option bytes;
  co_key : bytes;
  co_incs : list (PpCache.path * bool);
}.

Definition rec_of (ip : bytes) (c : cop) : rec_op :=
  {| ro_fresh := co_fresh c; ro_fs := co_fs c; ro_start := co_start c; ro_date := date_enc (co_today c) (co_sde c);
     ro_input := ip; ro_key := co_key c; ro_incs := co_incs c |}.

(* the C02 request(s) a request is in a snapshot: one if the input file is a regular file there *)
Definition creq_in (q : hreq) (e : list (bytes * bytes)) (fs : fsnap) (itm : bool) (today : N * N * N)
           (s : option bytes) : list creq :=
  match fs_get fs (hq_path q) with
  | Some nd => match n_kind nd with
               | KFile => [mk_creq q e [] (n_bytes nd) itm today s (n_mtime nd)]
               | _ => []
               end
  | None => []
  end.

Definition reqs_in_play (cfg : config) (q0 : hreq) (e0 : list (bytes * bytes)) (q1 : hreq) (e1 : list (bytes * bytes))
           (cops : list cop) (fs1 : fsnap) (today1 : N * N * N) (sde1 : option bytes) : list creq :=
  creq_in q1 e1 fs1 (ignore_time_macros cfg) today1 sde1
  ++ flat_map (fun c => creq_in q0 e0 (co_fs c) (ignore_time_macros cfg) (co_today c) (co_sde c)) cops.

Definition snaps_in_play (cops : list cop) (fs1 : fsnap) (today1 : N * N * N) (sde1 : option bytes)
  : list (fsnap * bytes) :=
  (fs1, date_enc today1 sde1) :: map (fun c => (co_fs c, date_enc (co_today c) (co_sde c))) cops.

Definition snap_contents (s : fsnap * bytes) : list bytes := map (fun pn => n_bytes (snd pn)) (fst s).

Definition snap_times (s : fsnap * bytes) : list bytes :=
  flat_map (fun pn => [time_enc None None; time_enc None (Some (n_mtime (snd pn)));
                       time_enc (Some (snd s)) None; time_enc (Some (snd s)) (Some (n_mtime (snd pn)))]) (fst s).

(* every n_mtime is a representable Timestamp (seconds fit 64 bits) *)
Definition fs_time_ok (fs : fsnap) : bool := forallb (fun pn => n_mtime (snd pn) / ns <? 18446744073709551616) fs.

Definition cf_on (H : bytes -> bytes) (l : list bytes) : Prop :=
  forall a b, In a l -> In b l -> H a = H b -> a = b.

(* a decidable sufficient condition, for the examples *)
Definition cf_onb (H : bytes -> bytes) (l : list bytes) : bool :=
  let hl := map (fun a => (a, H a)) l in
  forallb (fun x => forallb (fun y => negb (bytes_eqb (snd x) (snd y)) || bytes_eqb (fst x) (fst y)) hl) hl.

Lemma cf_onb_sound H l : cf_onb H l = true -> cf_on H l.
Proof.
  unfold cf_onb, cf_on. cbv zeta. intros Hc a b Ha Hb He.
  rewrite forallb_forall in Hc. specialize (Hc (a, H a) (in_map (fun a => (a, H a)) l a Ha)).
  rewrite forallb_forall in Hc. specialize (Hc (b, H b) (in_map (fun a => (a, H a)) l b Hb)).
  cbn [fst snd] in Hc. rewrite He, bytes_eqb_refl in Hc. simpl in Hc. apply bytes_eqb_eq. exact Hc.
Qed.

(* ------------------------------------------------------------------ language tags *)

Lemma tags_functional : forallb (fun e => bytes_eqb (tag_of the_spec (fst e)) (snd e)) (tags the_spec) = true.
Proof. vm_compute. reflexivity. Qed.

Lemma lang_nil_unknown : lang_known the_spec [] = false.
Proof. vm_compute. reflexivity. Qed.

Lemma tag_of_entry e : In e (tags the_spec) -> tag_of the_spec (fst e) = snd e.
Proof.
  intro Hin. pose proof tags_functional as Hf. rewrite forallb_forall in Hf.
  apply bytes_eqb_eq. apply Hf. exact Hin.
Qed.

(* a request-level tag that passes C02's lang_known is a tag of the table, and lang_of_tag inverts tag_of on it *)
Lemma tag_roundtrip t : lang_known the_spec (lang_of_tag the_spec t) = true -> tag_of the_spec (lang_of_tag the_spec t) = t.
Proof.
  unfold lang_of_tag. destruct (find (fun e => bytes_eqb (snd e) t) (tags the_spec)) as [e|] eqn:F.
  - intros _. apply find_some in F. destruct F as [Hin He]. apply bytes_eqb_eq in He.
    transitivity (snd e); [apply tag_of_entry; exact Hin | exact He].
  - rewrite lang_nil_unknown. discriminate.
Qed.

Lemma tag_roundtrip_lang l : lang_known the_spec l = true -> tag_of the_spec (lang_of_tag the_spec (tag_of the_spec l)) = tag_of the_spec l.
Proof.
  intro K. destruct (tag_entry_some the_spec l K) as [e [Hin He]].
  unfold lang_of_tag. destruct (find (fun e0 => bytes_eqb (snd e0) (tag_of the_spec l)) (tags the_spec)) as [e'|] eqn:F.
  - apply find_some in F. destruct F as [Hin' He']. apply bytes_eqb_eq in He'.
    transitivity (snd e'); [apply tag_of_entry; exact Hin' | exact He'].
  - exfalso. pose proof (find_none _ _ F e Hin) as Hn. cbv beta in Hn. rewrite He, bytes_eqb_refl in Hn. discriminate.
Qed.

(* ------------------------------------------------------------------ time encodings *)

Lemma mt_of_inj m m' : mt_of m = mt_of m' -> m = m'.
Proof.
  unfold mt_of. intro E. inversion E as [[E1 E2]].
  rewrite (N.div_mod m ns), (N.div_mod m' ns) by (unfold ns; lia). rewrite E1, E2. reflexivity.
Qed.

Lemma mt_of_nsec m : snd (mt_of m) < 256 ^ N.of_nat 4.
Proof.
  unfold mt_of. cbn [snd]. change (256 ^ N.of_nat 4) with 4294967296.
  pose proof (N.mod_lt m ns) as Hlt. unfold ns in *. lia.
Qed.

Definition mt_ok (m : N) : Prop := m / ns < 18446744073709551616.

Lemma delimiter_length t : length (delimiter t) = (10 + length t)%nat.
Proof. unfold delimiter. rewrite !app_length. simpl. lia. Qed.

Lemma stamp_enc_inj m m' :
  mt_ok m -> mt_ok m' ->
  delimiter stamp_tag ++ le_bytes 8 (fst (mt_of m)) ++ le_bytes 4 (snd (mt_of m))
  = delimiter stamp_tag ++ le_bytes 8 (fst (mt_of m')) ++ le_bytes 4 (snd (mt_of m')) -> m = m'.
Proof.
  intros B B' E. apply app_inv_head in E. apply mt_of_inj.
  apply stamp_part_inj; try apply mt_of_nsec; try assumption;
    unfold mt_of; cbn [fst]; change (256 ^ N.of_nat 8) with 18446744073709551616; assumption.
Qed.

Lemma time_enc_inj od om od' om' :
  (forall m, om = Some m -> mt_ok m) -> (forall m, om' = Some m -> mt_ok m) ->
  same_shape od om od' om' -> time_enc od om = time_enc od' om' -> od = od' /\ om = om'.
Proof.
  intros B B' [Sd Sm] E. unfold time_enc in E.
  destruct od as [d|], od' as [d'|]; try (exfalso; destruct Sd as [S1 S2]; (discriminate (S1 eq_refl) || discriminate (S2 eq_refl)));
  destruct om as [m|], om' as [m'|]; try (exfalso; destruct Sm as [S1 S2]; (discriminate (S1 eq_refl) || discriminate (S2 eq_refl))).
  - apply app_same_length_r in E.
    + destruct E as [E1 E2]. apply app_inv_head in E1. apply stamp_enc_inj in E2; [|apply B; reflexivity|apply B'; reflexivity].
      subst. split; reflexivity.
    + rewrite !app_length, !le_bytes_length. reflexivity.
  - rewrite !app_nil_r in E. apply app_inv_head in E. subst. split; reflexivity.
  - cbn [app] in E. apply stamp_enc_inj in E; [|apply B; reflexivity|apply B'; reflexivity]. subst. split; reflexivity.
  - split; reflexivity.
Qed.

(* C02's inner time pre-image is C04's time digest pre-image *)
Lemma time_pre_enc q e out b itm today s mt :
  time_pre (mk_creq q e out b itm today s mt)
  = time_enc (if contains date_pat b then Some (date_enc today s) else None)
             (if contains stamp_pat b then Some mt else None).
Proof.
  unfold time_pre, time_enc, has_date, has_stamp, date_enc, sde_bytes. cbn [input date sde mtime mk_creq].
  destruct (contains date_pat b), (contains stamp_pat b); reflexivity.
Qed.

(* ------------------------------------------------------------------ the two keys over the mapping *)

Lemma shape_p_split : shape_p the_spec = removelast (shape_p the_spec) ++ [CInputDigestT].
Proof. vm_compute. reflexivity. Qed.

Lemma shape_p_front :
  removelast (shape_p the_spec) = [CDigest; CPlusplus; CFmtVersion; CLang; CArgs LP; CExtra; CEnv expected_env; CPath].
Proof. vm_compute. reflexivity. Qed.

Section WithH.
Variable H : bytes -> bytes.
Hypothesis H_hex : forall x, is_hex64 (H x) = true.

(* C04's time digest *)
Definition HTc (od : option bytes) (om : option N) : bytes := H (time_enc od om).

Lemma flatten_app a b : flatten H (a ++ b) = flatten H a ++ flatten H b.
Proof. unfold flatten. rewrite map_app, concat_app. reflexivity. Qed.

(* everything of the preprocessor-level pre-image but the digest component *)
Definition pp_front (r : creq) : bytes :=
  flatten H (flat_map (comp_pieces the_spec (allow_pp the_spec) r) (removelast (shape_p the_spec))).

Lemma encode_pp_split r : encode_pp H the_spec r = pp_front r ++ idig H r.
Proof.
  unfold encode_pp, pieces_p, pp_front. rewrite shape_p_split at 1. rewrite flat_map_app, flatten_app.
  f_equal. cbn [flat_map comp_pieces app]. unfold input_digest_pieces, idig, flatten.
  destruct (salted r); cbn [map concat app]; rewrite ?app_nil_r; reflexivity.
Qed.

Lemma render_idg r : render (idg H r) = idig H r.
Proof. unfold idg, idig. destruct (salted r); reflexivity. Qed.

(* C04's abstract manifest key, instantiated: H over the front of a C02 request and the rendered digest *)
Definition ppk (q : hreq) (e : env_t) (d : idigest bytes) : bytes :=
  H (pp_front (mk_creq q e [] [] false (0, 0, 0) None 0) ++ render d).

(* C04's abstract main key, instantiated: C02's result key *)
Definition mkey (q : hreq) (e : env_t) (out : bytes) : PpCache.key :=
  KeyEnc.key H the_spec (mk_creq q e out [] false (0, 0, 0) None 0).

Lemma pp_front_filtered q e out b itm today s mt :
  pp_front (mk_creq q (filter_env (allow_pp the_spec) e) [] [] false (0, 0, 0) None 0)
  = pp_front (mk_creq q e out b itm today s mt).
Proof.
  unfold pp_front. rewrite shape_p_front. cbn [flat_map comp_pieces app]. unfold fenv.
  cbn [digest plusplus lang args extra env path mk_creq].
  rewrite filter_env_fenv, filter_idem. reflexivity.
Qed.

Lemma ppk_encode q e out b itm today s mt :
  ppk q (filter_env (allow_pp the_spec) e) (idg H (mk_creq q e out b itm today s mt))
  = H (encode_pp H the_spec (mk_creq q e out b itm today s mt)).
Proof.
  unfold ppk. rewrite (pp_front_filtered q e out b itm today s mt), render_idg, <- encode_pp_split. reflexivity.
Qed.

(* the key does not care whether the environment was filtered before *)
Lemma mkey_filtered q e out b itm today s mt :
  mkey q (filter_env (allow_main the_spec) e) out = KeyEnc.key H the_spec (mk_creq q e out b itm today s mt).
Proof.
  unfold mkey, KeyEnc.key. f_equal. apply (canon_c_encode H the_spec _ _ the_spec_shape_c).
  unfold canon_c, fenv. cbn [digest plusplus lang args extra env pp mk_creq].
  rewrite filter_env_fenv, filter_idem. reflexivity.
Qed.

(* the input file's part: C04's input_file_digest is C02's gate and digest component *)
Lemma input_digest_bridge cfg q e out b today s mt :
  input_file_digest bytes H HTc cfg b (date_enc today s) mt
  = if gated the_spec (mk_creq q e out b (ignore_time_macros cfg) today s mt) then None
    else Some (idg H (mk_creq q e out b (ignore_time_macros cfg) today s mt)).
Proof.
  unfold input_file_digest, gated, idg, salted. rewrite the_spec_time_gate, time_pre_enc.
  unfold has_date, has_stamp. cbn [input ignore_time mk_creq].
  destruct (ignore_time_macros cfg); [reflexivity|]. cbn [negb andb].
  rewrite fl_time_contains. destruct (contains time_pat b); [reflexivity|].
  unfold include_file_digest. rewrite fl_date_contains, fl_timestamp_contains.
  destruct (contains date_pat b), (contains stamp_pat b); reflexivity.
Qed.

(* C04's `in_manifest` is "C02's preprocessor-level key of the request in this snapshot is mk" *)
Theorem in_manifest_C02 cfg q e fs today s mk :
  in_manifest bytes H HTc hreq (allow_pp the_spec) bytes ppk (hq_path q) cfg q e fs (date_enc today s) mk
  <-> exists r, In r (creq_in q e fs (ignore_time_macros cfg) today s) /\ KeyEnc.pp_key H the_spec r = Some mk.
Proof.
  unfold in_manifest, input_digest_in, creq_in.
  destruct (fs_get fs (hq_path q)) as [nd|]; [|split; [intros [d [Hd _]]; discriminate | intros [r [[] _]]]].
  destruct (n_kind nd); try (split; [intros [d [Hd _]]; discriminate | intros [r [[] _]]]).
  rewrite (input_digest_bridge cfg q e [] (n_bytes nd) today s (n_mtime nd)).
  unfold KeyEnc.pp_key. split.
  - intros [d [Hd Hk]]. eexists. split; [left; reflexivity|].
    destruct (gated the_spec _); [discriminate|]. inversion Hd; subst d. rewrite ppk_encode in Hk. rewrite Hk. reflexivity.
  - intros [r [[<- | []] Hk]]. destruct (gated the_spec _); [discriminate|].
    eexists. split; [reflexivity|]. rewrite ppk_encode. inversion Hk. reflexivity.
Qed.

(* ------------------------------------------------------------------ the discharged hypothesis *)

(* `pp_key_injective` of C04_mode_equivalence at two requests, from C02_pp_encode_injective_canon *)
Lemma ppk_injective_at cfg q0 e0 q1 e1 b0 b1 today0 s0 today1 s1 mt0 mt1 d0 d1 :
  let r0 := mk_creq q0 e0 [] b0 (ignore_time_macros cfg) today0 s0 mt0 in
  let r1 := mk_creq q1 e1 [] b1 (ignore_time_macros cfg) today1 s1 mt1 in
  wf_p the_spec r0 = true -> wf_p the_spec r1 = true ->
  (H (encode_pp H the_spec r0) = H (encode_pp H the_spec r1) -> encode_pp H the_spec r0 = encode_pp H the_spec r1) ->
  (H (input r0) = H (input r1) -> input r0 = input r1) ->
  (H (time_pre r0) = H (time_pre r1) -> time_pre r0 = time_pre r1) ->
  input_file_digest bytes H HTc cfg b0 (date_enc today0 s0) mt0 = Some d0 ->
  input_file_digest bytes H HTc cfg b1 (date_enc today1 s1) mt1 = Some d1 ->
  ppk q0 (filter_env (allow_pp the_spec) e0) d0 = ppk q1 (filter_env (allow_pp the_spec) e1) d1 ->
  q0 = q1 /\ filter_env (allow_pp the_spec) e0 = filter_env (allow_pp the_spec) e1 /\ d0 = d1.
Proof.
  intros r0 r1 W0 W1 Hout Hin Htp Hd0 Hd1 Hk.
  rewrite (input_digest_bridge cfg q0 e0 [] b0 today0 s0 mt0) in Hd0.
  rewrite (input_digest_bridge cfg q1 e1 [] b1 today1 s1 mt1) in Hd1.
  fold r0 in Hd0. fold r1 in Hd1.
  destruct (gated the_spec r0); [discriminate|]. destruct (gated the_spec r1); [discriminate|].
  inversion Hd0; subst d0. inversion Hd1; subst d1. clear Hd0 Hd1.
  unfold r0, r1 in Hk. rewrite !ppk_encode in Hk. fold r0 r1 in Hk.
  apply Hout in Hk.
  pose proof (C02_pp_encode_injective_canon H H_hex r0 r1 W0 W1 Hin Htp Hk) as Hc.
  unfold canon_p in Hc. inversion Hc as [[Edg Epl Etag Earg Eex Eenv Epath Einp Esalt]]. clear Hc.
  unfold r0, r1 in Edg, Epl, Etag, Earg, Eex, Epath. cbn [digest plusplus lang args extra path mk_creq] in *.
  assert (K0 : lang_known the_spec (lang_of_tag the_spec (hq_tag q0)) = true).
  { destruct (wf_p_unpack _ _ W0) as (C & _). destruct (common_ok_unpack _ _ C) as (_ & K & _). exact K. }
  assert (K1 : lang_known the_spec (lang_of_tag the_spec (hq_tag q1)) = true).
  { destruct (wf_p_unpack _ _ W1) as (C & _). destruct (common_ok_unpack _ _ C) as (_ & K & _). exact K. }
  rewrite (tag_roundtrip _ K0), (tag_roundtrip _ K1) in Etag.
  split; [|split].
  - destruct q0, q1; cbn in *; congruence.
  - unfold fenv, r0, r1 in Eenv. cbn [env mk_creq] in Eenv. rewrite !filter_env_fenv. exact Eenv.
  - pose proof (salt_view_pieces r0 r1 Einp Esalt) as Hp. unfold input_digest_pieces in Hp. unfold idg.
    destruct (salted r0), (salted r1); inversion Hp; congruence.
Qed.
End WithH.

(* ------------------------------------------------------------------ the hashed view loses nothing *)

(* every Timestamp{seconds, nanoseconds < 10^9} is mt_of of its nanosecond count *)
Lemma mt_of_surj sec nsec : nsec < ns -> mt_of (sec * ns + nsec) = (sec, nsec).
Proof.
  intro Hn. unfold mt_of. f_equal.
  - rewrite N.div_add_l by (unfold ns; lia). rewrite N.div_small by exact Hn. apply N.add_0_r.
  - rewrite N.add_comm, N.mod_add by (unfold ns; lia). apply N.mod_small. exact Hn.
Qed.

(* For every C02 request r (known language, mtime = mt_of mt): the request rebuilt from its hashed view req_of r has
   the same two pre-images and the same gate — hreq is exactly what C02 hashes of the request. *)
Lemma hreq_view_faithful (H : bytes -> bytes) (r : creq) (mt : N) :
  lang_known the_spec (lang r) = true -> mtime r = mt_of mt ->
  let r' := mk_creq (req_of r) (env r) (pp r) (input r) (ignore_time r) (date r) (sde r) mt in
  encode_c H the_spec r' = encode_c H the_spec r /\ encode_pp H the_spec r' = encode_pp H the_spec r /\
  gated the_spec r' = gated the_spec r /\ KeyEnc.key H the_spec r' = KeyEnc.key H the_spec r /\
  KeyEnc.pp_key H the_spec r' = KeyEnc.pp_key H the_spec r.
Proof.
  intros K Hm r'.
  assert (Et : tag_of the_spec (lang r') = tag_of the_spec (lang r)).
  { unfold r', mk_creq, req_of. cbn [lang hq_tag]. apply tag_roundtrip_lang. exact K. }
  assert (Ec : encode_c H the_spec r' = encode_c H the_spec r).
  { apply (canon_c_encode H the_spec _ _ the_spec_shape_c). unfold canon_c. rewrite Et. reflexivity. }
  assert (Ep : encode_pp H the_spec r' = encode_pp H the_spec r).
  { rewrite !(encode_pp_eq H the_spec _ the_spec_shape_p). rewrite Et.
    unfold toks, fenv, idig, salted, has_date, has_stamp, time_pre, sde_bytes, r', mk_creq, req_of.
    cbn [digest plusplus args extra env path input ignore_time date sde mtime
         hq_digest hq_plusplus hq_args hq_extra hq_path]. rewrite <- Hm. reflexivity. }
  assert (Eg : gated the_spec r' = gated the_spec r) by reflexivity.
  split; [exact Ec|]. split; [exact Ep|]. split; [exact Eg|].
  split; [unfold KeyEnc.key; rewrite Ec; reflexivity|].
  unfold KeyEnc.pp_key. rewrite Eg, Ep. reflexivity.
Qed.

(* ------------------------------------------------------------------ the pre-images in play *)

Definition in_play (H : bytes -> bytes) (cfg : config) (q0 : hreq) (e0 : list (bytes * bytes)) (q1 : hreq)
           (e1 : list (bytes * bytes)) (cops : list cop) (fs1 : fsnap) (today1 : N * N * N) (sde1 : option bytes)
  : list bytes :=
  flat_map snap_contents (snaps_in_play cops fs1 today1 sde1)              (* file contents *)
  ++ flat_map snap_times (snaps_in_play cops fs1 today1 sde1)              (* date / mtime pre-images *)
  ++ map (encode_pp H the_spec) (reqs_in_play cfg q0 e0 q1 e1 cops fs1 today1 sde1).   (* the manifest-key pre-images *)

Lemma fs_find_in fs p nd : fs_find fs p = Some nd -> exists p', In (p', nd) fs.
Proof.
  induction fs as [|[q n] fs IH]; simpl; [discriminate|].
  destruct (bytes_eqb q p).
  - intro E. inversion E; subst. exists q. left. reflexivity.
  - intro E. destruct (IH E) as [p' Hin]. exists p'. right. exact Hin.
Qed.

Lemma fs_get_in fs p nd : fs_get fs p = Some nd -> exists p', In (p', nd) fs.
Proof. unfold fs_get. apply fs_find_in. Qed.

Section Closed.
Variable H : bytes -> bytes.
Hypothesis H_hex : forall x, is_hex64 (H x) = true.

(* the preprocessor: output, files read, paths probed and missed *)
Variable ppo : hreq -> env_t -> fsnap -> bytes -> bytes.
Variable reads probes : hreq -> env_t -> fsnap -> bytes -> list PpCache.path.
Hypothesis pp_frame : forall req env fs0 d0 fs1 d1,
    same_inputs hreq reads probes req env fs0 d0 fs1 d1 -> ppo req env fs1 d1 = ppo req env fs0 d0.

Variable cfg : config.
Variables q0 q1 : hreq.
Variables e0 e1 : env_t.
Variable cops : list cop.
Variable fs1 : fsnap.
Variable today1 : N * N * N.
Variable sde1 : option bytes.

Let PI := in_play H cfg q0 e0 q1 e1 cops fs1 today1 sde1.
Let snaps := snaps_in_play cops fs1 today1 sde1.
Let reqs := reqs_in_play cfg q0 e0 q1 e1 cops fs1 today1 sde1.
Let okB (a : bytes) : Prop := In a PI.
Let okT (od : option bytes) (om : option N) : Prop := In (time_enc od om) PI /\ (forall m, om = Some m -> mt_ok m).

Hypothesis wf_reqs : forallb (wf_p the_spec) reqs = true.
Hypothesis mtimes_ok : forallb fs_time_ok (map fst snaps) = true.
Hypothesis H_cf : cf_on H PI.

Lemma in_contents s p nd : In s snaps -> fs_get (fst s) p = Some nd -> In (n_bytes nd) PI.
Proof.
  intros Hs Hg. destruct (fs_get_in _ _ _ Hg) as [p' Hin].
  unfold PI, in_play. apply in_or_app. left. apply in_flat_map. exists s. split; [exact Hs|].
  unfold snap_contents. apply in_map_iff. exists (p', nd). split; [reflexivity | exact Hin].
Qed.

Lemma in_times s p nd od om :
  In s snaps -> fs_get (fst s) p = Some nd -> In od [None; Some (snd s)] -> In om [None; Some (n_mtime nd)] ->
  In (time_enc od om) PI.
Proof.
  intros Hs Hg Hod Hom. destruct (fs_get_in _ _ _ Hg) as [p' Hin].
  unfold PI, in_play. apply in_or_app. right. apply in_or_app. left. apply in_flat_map. exists s. split; [exact Hs|].
  unfold snap_times. apply in_flat_map. exists (p', nd). split; [exact Hin|]. cbn [snd].
  destruct Hod as [<- | [<- | []]]; destruct Hom as [<- | [<- | []]]; simpl; tauto.
Qed.

Lemma in_encs r : In r reqs -> In (encode_pp H the_spec r) PI.
Proof.
  intro Hr. unfold PI, in_play. apply in_or_app. right. apply in_or_app. right. apply in_map. exact Hr.
Qed.

Lemma node_mt_ok s p nd : In s snaps -> fs_get (fst s) p = Some nd -> mt_ok (n_mtime nd).
Proof.
  intros Hs Hg. destruct (fs_get_in _ _ _ Hg) as [p' Hin].
  pose proof mtimes_ok as Hm. rewrite forallb_forall in Hm.
  specialize (Hm (fst s) (in_map fst _ _ Hs)). unfold fs_time_ok in Hm. rewrite forallb_forall in Hm.
  specialize (Hm _ Hin). cbn [snd] in Hm. apply N.ltb_lt in Hm. exact Hm.
Qed.

Lemma snap_ok_in_play s : In s snaps -> snap_ok okB okT (fst s) (snd s).
Proof.
  intro Hs. split.
  - intros p nd Hg. exact (in_contents s p nd Hs Hg).
  - intros p nd Hg od om Hod Hom. split.
    + exact (in_times s p nd od om Hs Hg Hod Hom).
    + intros m Em. subst om. destruct Hom as [E | [E | []]]; [discriminate|]. inversion E; subst.
      exact (node_mt_ok s p nd Hs Hg).
Qed.

Lemma okB_inj : forall a b, okB a -> okB b -> H a = H b -> a = b.
Proof. intros a b Ha Hb. apply H_cf; assumption. Qed.

Lemma okT_inj : forall od om od' om',
    okT od om -> okT od' om' -> same_shape od om od' om' -> HTc H od om = HTc H od' om' -> od = od' /\ om = om'.
Proof.
  intros od om od' om' [Ha Ba] [Hb Bb] Hs He. unfold HTc in He.
  apply (time_enc_inj od om od' om' Ba Bb Hs). apply H_cf; assumption.
Qed.

Lemma snap_fs1 : In (fs1, date_enc today1 sde1) snaps.
Proof. left. reflexivity. Qed.

Lemma snap_cop c : In c cops -> In (co_fs c, date_enc (co_today c) (co_sde c)) snaps.
Proof. intro Hc. right. apply in_map_iff. exists c. split; [reflexivity | exact Hc]. Qed.

Lemma allow_main_sub : forall n, In n (allow_main the_spec) -> In n (allow_pp the_spec).
Proof.
  intros n Hn. pose proof the_spec_env_covers as Hc. unfold env_covers in Hc. rewrite forallb_forall in Hc.
  apply allowed_in. apply Hc. exact Hn.
Qed.

(* membership of the C02 request of a snapshot *)
Lemma creq_in_spec q e fs itm today s nd :
  fs_get fs (hq_path q) = Some nd -> n_kind nd = KFile ->
  In (mk_creq q e [] (n_bytes nd) itm today s (n_mtime nd)) (creq_in q e fs itm today s).
Proof. intros Hg Hk. unfold creq_in. rewrite Hg, Hk. left. reflexivity. Qed.

Lemma time_pre_in_play s q e itm today sd p nd :
  In s snaps -> fs_get (fst s) p = Some nd -> snd s = date_enc today sd ->
  In (time_pre (mk_creq q e [] (n_bytes nd) itm today sd (n_mtime nd))) PI.
Proof.
  intros Hs Hg Hd. rewrite time_pre_enc. apply (in_times s p nd _ _ Hs Hg).
  - rewrite Hd. destruct (contains date_pat (n_bytes nd)); simpl; tauto.
  - destruct (contains stamp_pat (n_bytes nd)); simpl; tauto.
Qed.

Theorem mode_equivalence_C02 (mk : bytes) (k : bytes) :
  let ops := map (rec_of (hq_path q0)) cops in
  let date1 := date_enc today1 sde1 in
  ignore_time_macros cfg = false ->
  (file_stat_matches cfg = true -> use_ctime_for_stat cfg = true ->
   forall op, In op ops -> stat_trust (ro_fs op) fs1) ->
  (forall op, In op ops ->
              faithful bytes H (HTc H) hreq (allow_pp the_spec) (allow_main the_spec) ppo reads (mkey H) bytes (ppk H)
                       (hq_path q0) cfg q0 e0 mk op) ->
  in_manifest bytes H (HTc H) hreq (allow_pp the_spec) bytes (ppk H) (hq_path q1) cfg q1 e1 fs1 date1 mk ->
  forall (no_new_shadowing_file :
            forall op p, In op ops ->
                         In p (probes q0 (filter_env (allow_pp the_spec) e0) (ro_fs op) (ro_date op)) ->
                         fs_get fs1 p = None),
  lookup_result_digest bytes bytes_eqb H (HTc H) cfg fs1 date1 (run_recs bytes H (HTc H) cfg ops) = Some k ->
  k = KeyEnc.key H the_spec
        (mk_creq q1 e1 (ppo q1 (filter_env (allow_pp the_spec) e1) fs1 date1) [] false (0, 0, 0) None 0).
Proof.
  intros ops date1 Hitm Htrust Hfaith Hman Hshadow Hl.
  assert (Hops : forall op, In op ops -> exists c, In c cops /\ op = rec_of (hq_path q0) c).
  { intros op Hop. apply in_map_iff in Hop. destruct Hop as [c [E Hc]]. exists c. split; [exact Hc | symmetry; exact E]. }
  rewrite <- (mkey_filtered H q1 e1 _ [] false (0, 0, 0) None 0).
  apply (mode_equivalence_on bytes bytes_eqb H (HTc H) (fun a b => proj1 (bytes_eqb_eq a b)) okB okT okB_inj okT_inj
                             hreq (allow_pp the_spec) (allow_main the_spec) ppo reads probes (mkey H) pp_frame
                             bytes (ppk H) hq_path cfg q0 q1 e0 e1 mk ops fs1 date1 k); try assumption.
  - exact allow_main_sub.
  - intros op Hop. destruct (Hops op Hop) as [c [Hc ->]]. exact (snap_ok_in_play _ (snap_cop c Hc)).
  - exact (snap_ok_in_play _ snap_fs1).
  - (* the manifest key separates the two requests: C02 *)
    intros op d0 d1 Hop Hd0 Hd1 Hk. destruct (Hops op Hop) as [c [Hc ->]].
    unfold input_digest_in in Hd0, Hd1. cbn [ro_fs ro_date rec_of] in Hd0.
    destruct (fs_get (co_fs c) (hq_path q0)) as [nd0|] eqn:Hg0; [|discriminate].
    destruct (n_kind nd0) eqn:Hk0; try discriminate.
    destruct (fs_get fs1 (hq_path q1)) as [nd1|] eqn:Hg1; [|discriminate].
    destruct (n_kind nd1) eqn:Hk1; try discriminate.
    set (r0 := mk_creq q0 e0 [] (n_bytes nd0) (ignore_time_macros cfg) (co_today c) (co_sde c) (n_mtime nd0)).
    set (r1 := mk_creq q1 e1 [] (n_bytes nd1) (ignore_time_macros cfg) today1 sde1 (n_mtime nd1)).
    assert (R0 : In r0 reqs).
    { unfold reqs, reqs_in_play. apply in_or_app. right. apply in_flat_map. exists c. split; [exact Hc|].
      apply creq_in_spec; assumption. }
    assert (R1 : In r1 reqs).
    { unfold reqs, reqs_in_play. apply in_or_app. left. apply creq_in_spec; assumption. }
    pose proof wf_reqs as Hwf. rewrite forallb_forall in Hwf.
    apply (ppk_injective_at H H_hex cfg q0 e0 q1 e1 (n_bytes nd0) (n_bytes nd1) (co_today c) (co_sde c) today1 sde1
                            (n_mtime nd0) (n_mtime nd1) d0 d1); try assumption.
    + exact (Hwf r0 R0).
    + exact (Hwf r1 R1).
    + apply H_cf; apply in_encs; assumption.
    + cbn [input mk_creq]. apply H_cf.
      * exact (in_contents _ _ _ (snap_cop c Hc) Hg0).
      * exact (in_contents _ _ _ snap_fs1 Hg1).
    + apply H_cf.
      * exact (time_pre_in_play _ q0 e0 _ _ _ _ _ (snap_cop c Hc) Hg0 eq_refl).
      * exact (time_pre_in_play _ q1 e1 _ _ _ _ _ snap_fs1 Hg1 eq_refl).
Qed.
End Closed.
