(* Proofs/DistArgs.v — C13: shape of the remote command line. *)
From Coq Require Import List NArith Bool.
From Coq Require String.
Import String.StringSyntax.
From Sccache Require Import Base.Sx Model.DistArgs.
Import ListNotations.
Local Open Scope N_scope.
Local Open Scope string_scope.

Lemma dist_args_shape e p out c :
  dist_command true e p out = Some c ->
  exists dl, dist_lang true e (p_lang p) = Some dl
    /\ d_args c = xlang dl ++ [p_cflag p; p_input p; bs "-o"; out] ++ pp_flags e p ++ hashed_args p
    /\ d_exe c = e_exe e /\ d_cwd c = e_cwd e /\ d_env c = e_vars e
    /\ has_verbose (local_args e p out) = false
    /\ language_eqb (p_lang p) LCuda = false
    /\ is_abs (e_cwd e) = true
    /\ all_utf8 (d_args c) = true.
Proof.
  unfold dist_command.
  destruct (has_verbose (local_args e p out)) eqn:V; [discriminate|].
  destruct (language_eqb (p_lang p) LCuda) eqn:L; [discriminate|]. simpl orb. cbv iota.
  destruct (dist_lang true e (p_lang p)) as [dl|] eqn:DL; [|discriminate].
  match goal with |- (if ?b then _ else _) = _ -> _ => destruct b eqn:U end; [|discriminate].
  intros H. inversion H; subst c; clear H. cbn [d_args d_exe d_cwd d_env].
  apply andb_true_iff in U as [U U9]. apply andb_true_iff in U as [U U8].
  apply andb_true_iff in U as [U U7]. apply andb_true_iff in U as [U U6].
  apply andb_true_iff in U as [U U5]. apply andb_true_iff in U as [U U4].
  apply andb_true_iff in U as [U U3]. apply andb_true_iff in U as [U1 U2].
  cbn [negb orb] in U5.
  exists dl.
  split; [reflexivity|]. split; [reflexivity|]. split; [reflexivity|]. split; [reflexivity|].
  split; [reflexivity|]. split; [reflexivity|]. split; [reflexivity|]. split; [exact U8|].
  unfold all_utf8 in *. rewrite !forallb_app. cbn [forallb].
  assert (X : forallb utf8_valid (xlang dl) = true).
  { (* the language names are ASCII *)
    revert DL. unfold dist_lang.
    destruct (e_rio e), (e_gcc e), (p_lang p); intros DL; inversion DL; subst dl; vm_compute; reflexivity. }
  assert (Y : forallb utf8_valid (pp_flags e p) = true).
  { unfold pp_flags. destruct (e_gcc e), (e_rio e && negb (p_suppress_rio p)); vm_compute; reflexivity. }
  rewrite !forallb_app. rewrite X, Y, U1, U2, U3, U4, U5.
  reflexivity.
Qed.

(* the remote arguments do not depend on the preprocessor-only, dependency and unhashed arguments *)
Definition with_pp (p : parsed) (pre dep unh : list bytes) : parsed :=
  {| p_input := p_input p; p_dd := p_dd p; p_lang := p_lang p; p_cflag := p_cflag p; p_out := p_out p;
     p_pre := pre; p_dep := dep; p_unhashed := unh; p_common := p_common p; p_arch := p_arch p;
     p_suppress_rio := p_suppress_rio p |}.

Lemma dist_args_ignore_pp_dep e p out pre dep unh c c' :
  dist_command true e p out = Some c ->
  dist_command true e (with_pp p pre dep unh) out = Some c' ->
  d_args c = d_args c'.
Proof.
  intros H H'.
  apply dist_args_shape in H as (dl & L & A & _).
  apply dist_args_shape in H' as (dl' & L' & A' & _).
  cbn [with_pp p_lang] in L'. rewrite L in L'. inversion L'; subst dl'.
  rewrite A, A'. reflexivity.
Qed.

Definition known_x (x : bytes) : bool := existsb (bytes_eqb x) known_x_langs.

Lemma known_x_In x : known_x x = true -> In x known_x_langs.
Proof.
  unfold known_x. intros H. apply existsb_exists in H as (y & I & E).
  apply bytes_eqb_eq in E. subst. exact I.
Qed.

Lemma dist_lang_known e l x :
  language_eqb l LCuda = false ->   (* CUDA is never distributed (dist_command) *)
  dist_lang true e l = Some (Some x) -> In x known_x_langs.
Proof.
  intros C H. apply known_x_In. revert H. unfold dist_lang.
  destruct (e_rio e), (e_gcc e), l; try discriminate C; intros H; inversion H; subst x; vm_compute; reflexivity.
Qed.

(* preprocessed input is announced as such (or is a header, whose -x name has no -cpp-output form) *)
Definition header_lang (l : language) : bool :=
  match l with LGenericHeader | LCHeader | LCxxHeader | LObjCxxHeader => true | _ => false end.

Fixpoint ends_with (suffix l : bytes) : bool :=
  bytes_eqb l suffix || match l with [] => false | _ :: r => ends_with suffix r end.

Lemma dist_lang_cpp_output e l x :
  e_rio e = false -> header_lang l = false ->
  dist_lang true e l = Some (Some x) -> ends_with (bs "cpp-output") x = true.
Proof.
  intros R Hd. unfold dist_lang. rewrite R.
  destruct (e_gcc e), l; try discriminate Hd; intros H; inversion H; subst x; vm_compute; reflexivity.
Qed.

Lemma dist_lang_known_full e l x :
  language_eqb l LCuda = false ->
  dist_lang true e l = Some (Some x) ->
  In x known_x_langs
  /\ (e_rio e = false -> header_lang l = false -> ends_with (bs "cpp-output") x = true).
Proof.
  intros C H. split.
  - exact (dist_lang_known e l x C H).
  - intros R Hd. exact (dist_lang_cpp_output e l x R Hd H).
Qed.

(* ---- the pinned commit: refuted ---- *)
Definition objcxx_header_env : env :=
  {| e_gcc := false; e_rio := false; e_exe := bs "/usr/bin/cc"; e_cwd := bs "/work/dir"; e_vars := [] |}.

Lemma dist_lang_refuted_orig :
  dist_lang false objcxx_header_env LObjCxxHeader = Some (Some (bs "objective-c++-header-cpp-output"))
  /\ known_x (bs "objective-c++-header-cpp-output") = false.
Proof. vm_compute. auto. Qed.

Definition arch_parsed : parsed :=
  {| p_input := bs "foo.m"; p_dd := false; p_lang := LObjC; p_cflag := bs "-c"; p_out := Some (bs "foo.o");
     p_pre := []; p_dep := []; p_unhashed := []; p_common := [bs "-O2"]; p_arch := [bs "-arch"; bs "arm64"];
     p_suppress_rio := false |}.

Lemma dist_args_refuted_orig :
  exists c, dist_command false objcxx_header_env arch_parsed (bs "foo.o") = Some c
    /\ existsb (bytes_eqb (bs "arm64")) (hashed_args arch_parsed) = true
    /\ existsb (bytes_eqb (bs "arm64")) (local_args objcxx_header_env arch_parsed (bs "foo.o")) = true
    /\ existsb (bytes_eqb (bs "arm64")) (d_args c) = false.
Proof. eexists. vm_compute. auto. Qed.
