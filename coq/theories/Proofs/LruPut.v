(* Proofs/LruPut.v — DiskCache::put / put_preprocessor_cache_entry over the Lru model:
   no reservation outlives a call, whatever the write does; hence the store never wedges. *)
From Coq Require Import List NArith Bool Lia ZifyBool.
From Sccache Require Import Base.Sx Model.Lru Model.LruPut Proofs.Lru.
Import ListNotations.
Local Open Scope N_scope.

#[local] Arguments N.add : simpl never.
#[local] Arguments N.sub : simpl never.
#[local] Arguments N.leb : simpl never.
#[local] Arguments N.eqb : simpl never.

Lemma hlookup_app_fresh {V} h (v : V) l : ~ In h (map fst l) -> hlookup h (l ++ [(h, v)]) = Some v.
Proof.
  induction l as [|[h2 v2] r IH]; simpl; intros H.
  - rewrite N.eqb_refl; auto.
  - destruct (h =? h2) eqn:E; [apply N.eqb_eq in E; subst; tauto|]. apply IH; tauto.
Qed.

Lemma hset_app_fresh {V} h (v v' : V) l : ~ In h (map fst l) -> hset h v' (l ++ [(h, v)]) = l ++ [(h, v')].
Proof.
  induction l as [|[h2 v2] r IH]; simpl; intros H.
  - rewrite N.eqb_refl; auto.
  - destruct (h =? h2) eqn:E; [apply N.eqb_eq in E; subst; tauto|]. rewrite IH; tauto.
Qed.

Lemma hremove_app_fresh {V} h (v : V) l : ~ In h (map fst l) -> hremove h (l ++ [(h, v)]) = l.
Proof.
  induction l as [|[h2 v2] r IH]; simpl; intros H.
  - rewrite N.eqb_refl; auto.
  - destruct (h =? h2) eqn:E; [apply N.eqb_eq in E; subst; tauto|]. rewrite IH; tauto.
Qed.

Lemma psize_lru_insert s k v : pending_size (lru_insert s k v) = pending_size s /\ cap (lru_insert s k v) = cap s.
Proof. unfold lru_insert. destruct (lru_trim _ _ _); auto. Qed.

Lemma prepare_add_facts s k n s1 r : prepare_add s k n = (s1, r) ->
  cap s1 = cap s /\
  ((r = ROk /\ handles s1 = handles s ++ [(next_h s, {| h_key := k; h_reserved := n; h_written := 0 |})] /\
    pending_size s1 = pending_size s + n) \/
   (r = RTooLarge /\ handles s1 = handles s /\ pending_size s1 = pending_size s)).
Proof.
  unfold prepare_add. destruct (make_space s n) as [ok s0] eqn:MS.
  apply make_space_spec in MS as (pre & idx' & m' & -> & _).
  destruct ok; intros H; inversion H; subst; simpl; auto.
Qed.

Lemma fresh_h s : inv s -> ~ In (next_h s) (map fst (handles s)).
Proof. intros [_ [_ H]] Hin. apply H in Hin. lia. Qed.

Lemma cap_init_add s e : cap (init_add s e) = cap s.
Proof.
  destruct e as [k [sz mt]]. unfold init_add. destruct (is_temp k); auto. destruct (negb (sz <=? cap s)); auto.
  destruct (make_space s sz) as [ok s1] eqn:MS. apply make_space_spec in MS as (pre & idx' & m' & -> & _).
  destruct ok; auto. rewrite (proj2 (psize_lru_insert _ _ _)). reflexivity.
Qed.

Lemma cap_reopen s c : cap (reopen s c) = c.
Proof.
  unfold reopen.
  assert (G : forall l s0, cap (fold_left init_add l s0) = cap s0).
  { induction l; simpl; auto. intros s0. rewrite IHl. apply cap_init_add. }
  rewrite G. reflexivity.
Qed.

(* put and put_pp share everything but the reserved size and what happens to the entry when the write fails *)

Lemma commit_facts s h s' r t : commit s h = (s', r, t) ->
  cap s' = cap s /\
  match hlookup h (handles s) with
  | Some hd => handles s' = hremove h (handles s) /\ pending_size s' = pending_size s - h_reserved hd
  | None => s' = s
  end.
Proof.
  unfold commit. destruct (hlookup h (handles s)) as [hd|] eqn:E.
  - cbv zeta. destruct (make_space _ _) as [ok s2] eqn:MS.
    apply make_space_spec in MS as (pre & idx' & m' & -> & _).
    destruct ok; intros H; inversion H; subst; simpl; auto.
    destruct (psize_lru_insert
      (tick (set_files (set_files (set_lru (release (set_handles s (hremove h (handles s)) (next_h s)) hd) idx' m')
         (rmkeys (keys pre) (files s)))
         (ains (h_key hd) (h_written hd, clock s + 1) (rmkeys (keys pre) (files s))))) (h_key hd) (h_written hd)) as [E1 E2].
    rewrite handles_lru_insert. simpl in *. rewrite E1, E2. auto.
  - intros H; inversion H; subst; auto.
Qed.

Lemma store_spec s k res0 n fault (pp : bool) s' r :
  inv s ->
  (let h := next_h s in
   let '(s1, r1) := prepare_add s k res0 in
   match r1 with
   | ROk =>
       match fault with
       | Some m => let s2 := fst (write_tmp s1 h m) in
                   ((if pp then drop_entry s2 h else fst (abandon s2 h)), PWriteErr)
       | None =>
           let s2 := fst (write_tmp s1 h n) in
           let '(s3, r3, _) := commit s2 h in
           (s3, match r3 with ROk => POk | _ => PCommitErr r3 end)
       end
   | _ => (s1, PRefused r1)
   end) = (s', r) ->
  (pp = true -> res0 = 0) ->
  inv s' /\ handles s' = handles s /\ pending_size s' = pending_size s /\ cap s' = cap s.
Proof.
  intros Hi. cbv zeta. destruct (prepare_add s k res0) as [s1 r1] eqn:PA.
  pose proof (inv_prepare_add _ _ _ _ _ Hi PA) as Hi1. pose proof (fresh_h s Hi) as Hf.
  destruct (prepare_add_facts _ _ _ _ _ PA) as [Hc [(-> & Hh & Hp)|(-> & Hh & Hp)]].
  2:{ intros H _; inversion H; subst. auto. }
  assert (W : forall m, exists s2, write_tmp s1 (next_h s) m = (s2, ROk) /\ cap s2 = cap s /\
            pending_size s2 = pending_size s + res0 /\
            handles s2 = handles s ++ [(next_h s, {| h_key := k; h_reserved := res0; h_written := 0 + m |})]).
  { intros m. unfold write_tmp. rewrite Hh, hlookup_app_fresh by auto. simpl. eexists. split; [reflexivity|].
    simpl. rewrite hset_app_fresh by auto. auto. }
  destruct fault as [m|].
  - destruct (W m) as (s2 & W1 & W2 & W3 & W4). rewrite W1. simpl.
    pose proof (inv_write_tmp _ _ _ _ _ Hi1 W1) as Hi2.
    intros H Hpp; inversion H; subst; clear H. destruct pp.
    + (* dropped, not abandoned: harmless only because nothing was reserved *)
      rewrite (Hpp eq_refl) in *. unfold drop_entry.
      destruct Hi2 as [(A1 & A2 & A3 & A4) [B1 B2]].
      rewrite W4, hremove_app_fresh by auto. split; [|simpl; repeat split; auto; lia].
      rewrite W4, sumres_app in A4. simpl in A4.
      rewrite W4, map_app in B1, B2. simpl in B1.
      split; [unfold acct|unfold hwf]; simpl.
      * repeat split; auto. lia.
      * split; [eapply NoDup_app_l; eauto|]. intros h Hin. apply B2. rewrite in_app_iff; auto.
    + destruct (abandon s2 (next_h s)) as [s3 r3] eqn:A. pose proof (inv_abandon _ _ _ _ Hi2 A) as Hi3.
      unfold abandon in A. rewrite W4, hlookup_app_fresh in A by auto. inversion A; subst; clear A.
      rewrite hremove_app_fresh in * by auto. split; [exact Hi3|]. simpl. repeat split; auto; lia.
  - destruct (W n) as (s2 & W1 & W2 & W3 & W4). rewrite W1. simpl.
    pose proof (inv_write_tmp _ _ _ _ _ Hi1 W1) as Hi2.
    destruct (commit s2 (next_h s)) as [[s3 r3] t3] eqn:C.
    pose proof (inv_commit _ _ _ _ _ Hi2 C) as Hi3.
    apply commit_facts in C as [C1 C2]. rewrite W4, hlookup_app_fresh, hremove_app_fresh in C2 by auto.
    destruct C2 as [C2 C3]. simpl in C3.
    intros H _; inversion H; subst. split; [exact Hi3|]. split; [auto|]. split; [lia|congruence].
Qed.

Lemma put_spec s k n fault s' r : inv s -> put s k n fault = (s', r) ->
  inv s' /\ handles s' = handles s /\ pending_size s' = pending_size s /\ cap s' = cap s.
Proof.
  intros Hi H. apply (store_spec s k n n fault false s' r Hi); [exact H | discriminate].
Qed.

Lemma put_pp_spec s k n fault s' r : inv s -> put_pp s k n fault = (s', r) ->
  inv s' /\ handles s' = handles s /\ pending_size s' = pending_size s /\ cap s' = cap s.
Proof.
  intros Hi H. apply (store_spec s k 0 n fault true s' r Hi); [exact H | auto].
Qed.

Lemma get_facts s k s' r t : get s k = (s', r, t) ->
  handles s' = handles s /\ pending_size s' = pending_size s /\ cap s' = cap s.
Proof.
  unfold get, lru_get. destruct (alookup k (index s)); simpl.
  - destruct (alookup k (files s)) as [[a b]|]; intros H; inversion H; subst; auto.
  - intros H; inversion H; subst; auto.
Qed.

Lemma dstep_spec s o : inv s ->
  inv (fst (dstep s o)) /\ handles (fst (dstep s o)) = handles s /\
  pending_size (fst (dstep s o)) = pending_size s /\ cap (fst (dstep s o)) = cap s.
Proof.
  intros Hi. destruct o; simpl.
  - destruct (put s k n fault) as [s' r] eqn:E. simpl. eapply put_spec; eauto.
  - destruct (put_pp s k n fault) as [s' r] eqn:E. simpl. eapply put_pp_spec; eauto.
  - destruct (get s k) as [[s' r] t] eqn:E. simpl. split; [eapply inv_get; eauto | eapply get_facts; eauto].
Qed.

Lemma drun_spec ops : forall s, inv s ->
  inv (drun s ops) /\ handles (drun s ops) = handles s /\
  pending_size (drun s ops) = pending_size s /\ cap (drun s ops) = cap s.
Proof.
  unfold drun. induction ops as [|o ops IH]; simpl; auto. intros s Hi.
  destruct (dstep_spec s o Hi) as (H1 & H2 & H3 & H4). destruct (IH _ H1) as (G1 & G2 & G3 & G4).
  split; [exact G1|]. repeat split; congruence.
Qed.

(* a store that fits is accepted whenever no store is in flight *)
Lemma put_ok s k n : inv s -> handles s = [] -> n <= cap s ->
  snd (put s k n None) = POk /\ alookup k (index (fst (put s k n None))) = Some n.
Proof.
  intros Hi Hh Hn. pose proof (no_handles_no_pending s Hi Hh) as Hp0.
  unfold put. destruct (prepare_add s k n) as [s1 r1] eqn:PA.
  pose proof (inv_prepare_add _ _ _ _ _ Hi PA) as Hi1.
  assert (r1 = ROk) as ->.
  { pose proof (never_wedges_prepare s k n Hi) as H. simpl in H. rewrite PA in H. simpl in H.
    assert (E : ORes r1 None = ORes ROk None) by (apply H; lia). inversion E; auto. }
  destruct (prepare_add_facts _ _ _ _ _ PA) as [Hc [(_ & Hh1 & Hp1)|(E & _)]]; [|discriminate].
  rewrite Hh in Hh1. simpl in Hh1.
  unfold write_tmp. rewrite Hh1. simpl. rewrite ?N.eqb_refl. simpl. rewrite ?N.eqb_refl.
  set (hd := {| h_key := k; h_reserved := n; h_written := 0 + n |}).
  set (s2 := set_handles s1 [(next_h s, hd)] (next_h s1)).
  assert (Hi2 : inv s2).
  { destruct (write_tmp s1 (next_h s) n) as [x rx] eqn:W. pose proof (inv_write_tmp _ _ _ _ _ Hi1 W) as Hx.
    unfold write_tmp in W. rewrite Hh1 in W. simpl in W. rewrite ?N.eqb_refl in W. simpl in W.
    rewrite ?N.eqb_refl in W. inversion W; subst. exact Hx. }
  unfold commit. change (handles s2) with [(next_h s, hd)]. simpl. rewrite ?N.eqb_refl. simpl. rewrite ?N.eqb_refl.
  assert (Hi3 : inv (release (set_handles s2 [] (next_h s2)) hd)).
  { pose proof (inv_release s2 (next_h s) hd Hi2) as H. simpl in H. rewrite ?N.eqb_refl in H. simpl in H.
    rewrite ?N.eqb_refl in H. apply H; auto. }
  destruct (make_space _ _) as [ok s4] eqn:MS.
  pose proof MS as MS2. apply inv_make_space in MS2 as [Hi4 Hb]; [|exact Hi3].
  apply make_space_spec in MS as (pre & idx' & m' & -> & _ & _ & _ & Hok & _).
  assert (ok = true) as ->.
  { apply Hok; [apply Hi3|]. simpl. lia. }
  simpl. split; auto.
  rewrite lru_insert_inv_eq; [| apply inv_tick, inv_set_files; exact Hi4 | simpl; apply Hb; auto].
  simpl. rewrite alookup_app, alookup_aremove_eq. simpl. rewrite bytes_eqb_refl.
  reflexivity.
Qed.

(* ---------- pinned ---------- *)

Lemma C07_put_releases_proof :
  (forall s k n fault, inv s ->
     let s' := fst (put s k n fault) in
     inv s' /\ handles s' = handles s /\ pending_size s' = pending_size s /\ cap s' = cap s) /\
  (forall s k n fault, inv s ->
     let s' := fst (put_pp s k n fault) in
     inv s' /\ handles s' = handles s /\ pending_size s' = pending_size s /\ cap s' = cap s).
Proof.
  split; intros s k n fault Hi s'; subst s'.
  - destruct (put s k n fault) as [s' r] eqn:E. simpl. eapply put_spec; eauto.
  - destruct (put_pp s k n fault) as [s' r] eqn:E. simpl. eapply put_pp_spec; eauto.
Qed.

Lemma C07_put_never_wedges_proof :
  forall s0 c ops, let s := drun (reopen s0 c) ops in
    inv s /\ handles s = [] /\ pending_size s = 0 /\ cap s = c /\
    forall k n, n <= cap s ->
      snd (put s k n None) = POk /\ alookup k (index (fst (put s k n None))) = Some n.
Proof.
  intros s0 c ops s. destruct (drun_spec ops (reopen s0 c) (inv_reopen s0 c)) as (H1 & H2 & H3 & H4).
  fold s in H1, H2, H3, H4. rewrite handles_reopen in H2.
  pose proof (cap_reopen s0 c) as E1.
  pose proof (no_handles_no_pending _ (inv_reopen s0 c) (handles_reopen s0 c)) as E2.
  split; [exact H1|]. split; [exact H2|]. split; [congruence|]. split; [congruence|].
  intros k n Hn. apply put_ok; auto.
Qed.
