(* Proofs/ComposeC20.v — C20 ⟵ C11, beyond the cut connection: a client that ARRIVES while the server is shutting
   down (or after it terminated) still gets its compile result.
     C20_late_client_cold_starts / C20_not_serving_refuses (Model/ServerExit.v over Model/ServerLife.v): the arrival is
        REFUSED — `arrival s2 = ARefused` — i.e. exactly the `first` connection attempt C11's process model starts from;
     C11_server_reports_requested_address: the fresh server reports the requested address, `SOk true`;
     C11_cold_start_delivers: from (ARefused, SOk true | SAddrInUse) and a listener reached within the retries, the
        whole client process returns the CompileFinished frame it was sent.
   C20's statement stopped at "the client proceeds to connect" (connect_or_start .. = None); chained with C11 the
   statement is about what the user sees: the compile result. *)
From Coq Require Import List NArith Bool.
From Sccache Require Import Model.Client Proofs.Client Model.ServerLife Proofs.ServerLife Model.ServerExit
     Proofs.ServerExit.
Import ListNotations.
Local Open Scope N_scope.

(* stop requested on connection c while serving; anything afterwards; a client arrives *)
Theorem late_client_gets_result
        (t cap : N) (evs : list levent) (c : N) (evs' : list levent) (a : saddr) (later : list conn_attempt)
        (opq : N -> list N -> bool) (ignore_io : bool) (f : finished) (tail : list N) (e : ending) :
  let s := lexec (linit t cap) evs in
  lphase s = Serving -> has_conn c (lconns s) = true ->
  let s2 := lexec (lstep (lstep s (LRequest c true)) LPoll) evs' in
  connect_with_retry later = true ->
  wf_finished f -> blen (encode_finished f) < 4294967296 ->
  compile_process opq ignore_io (arrival s2) (report_of_started_server a) later
    (frame (encode_compile_response CompileStarted) ++ frame (encode_finished f) ++ tail) e
  = PCompile (ReturnFinished f).
Proof.
  intros s Hph Hc s2 Hretry Hwf Hlen.
  destruct (late_client_cold_starts t cap evs c evs' a later Hph Hc) as [Harr _].
  fold s in Harr. fold s2 in Harr. rewrite Harr, server_reports_requested_address.
  apply cold_start_delivers; try assumption. left. reflexivity.
Qed.

(* the same for ANY way the serving phase ended (idle expiry included) *)
Theorem not_serving_client_gets_result
        (s : lst) (evs : list levent) (a : saddr) (later : list conn_attempt)
        (opq : N -> list N -> bool) (ignore_io : bool) (f : finished) (tail : list N) (e : ending) :
  connect_ok s = false ->
  connect_with_retry later = true ->
  wf_finished f -> blen (encode_finished f) < 4294967296 ->
  compile_process opq ignore_io (arrival (lexec s evs)) (report_of_started_server a) later
    (frame (encode_compile_response CompileStarted) ++ frame (encode_finished f) ++ tail) e
  = PCompile (ReturnFinished f).
Proof.
  intros Hns Hretry Hwf Hlen.
  destruct (not_serving_refuses s evs a later Hns) as [Harr _].
  rewrite Harr, server_reports_requested_address.
  apply cold_start_delivers; try assumption. left. reflexivity.
Qed.
