(* Proofs/LruLazy.v — a failed lazy open leaves the configured root in place; the next open uses it and the
   cache works. *)
From Coq Require Import List NArith Bool Lia.
From Sccache Require Import Base.Sx Model.Lru Model.LruPut Model.LruLazy Proofs.Lru Proofs.LruPut.
Import ListNotations.
Local Open Scope N_scope.

(* the lazy state belongs to the configured (root, capacity, directory) *)
Definition lazy_ok (root : list N) (c : N) (dir : st) (l : lazy) : Prop :=
  match l with
  | LUninit r c' d => r = root /\ c' = c /\ d = dir
  | LInit r s => r = root /\ inv s /\ handles s = [] /\ pending_size s = 0 /\ cap s = c
  end.

Lemma lstep_ok root c dir l o : lazy_ok root c dir l -> lazy_ok root c dir (fst (lstep l o)).
Proof.
  intros H. unfold lstep. destruct (lop_dop o) as [d f]. destruct l as [r c' d0|r s]; simpl in *.
  - destruct H as (-> & -> & ->). destruct f; simpl; auto.
    destruct (dstep (reopen dir c) d) as [s' x] eqn:E. simpl.
    destruct (dstep_spec (reopen dir c) d (inv_reopen dir c)) as (H1 & H2 & H3 & H4). rewrite E in *. simpl in *.
    rewrite handles_reopen in H2. rewrite cap_reopen in H4.
    rewrite (no_handles_no_pending _ (inv_reopen dir c) (handles_reopen dir c)) in H3.
    split; [auto|]. split; [exact H1|]. repeat split; auto.
  - destruct H as (-> & Hi & Hh & Hp & Hc). destruct (dstep s d) as [s' x] eqn:E. simpl.
    destruct (dstep_spec s d Hi) as (H1 & H2 & H3 & H4). rewrite E in *. simpl in *.
    split; [auto|]. split; [exact H1|]. repeat split; congruence.
Qed.

Lemma lrun_ok root c dir ops : forall l, lazy_ok root c dir l -> lazy_ok root c dir (lrun l ops).
Proof.
  unfold lrun. induction ops as [|o r IH]; simpl; auto. intros l H. apply IH, lstep_ok, H.
Qed.

Lemma lazy_ok_root root c dir l : lazy_ok root c dir l -> lazy_root l = root.
Proof. destruct l; simpl; tauto. Qed.

(* a request whose open attempt (if any) does not fail, storing an entry that fits, is served *)
Lemma lazy_put_ok root c dir l k n : lazy_ok root c dir l -> n <= c ->
  exists s', lstep l (LPut k n None false) = (LInit root s', LD (DP POk)) /\ alookup k (index s') = Some n.
Proof.
  intros H Hn. unfold lstep. simpl. destruct l as [r c' d0|r s]; simpl in *.
  - destruct H as (-> & -> & ->).
    pose proof (put_ok (reopen dir c) k n (inv_reopen dir c) (handles_reopen dir c)) as P.
    rewrite cap_reopen in P. destruct (P Hn) as [P1 P2].
    destruct (put (reopen dir c) k n None) as [s' x]. simpl in *. subst x. eauto.
  - destruct H as (-> & Hi & Hh & Hp & Hc). subst c.
    destruct (put_ok s k n Hi Hh Hn) as [P1 P2].
    destruct (put s k n None) as [s' x]. simpl in *. subst x. eauto.
Qed.

Lemma C07_lazy_open_recovers_proof :
  forall root c dir ops, let l := lrun (LUninit root c dir) ops in
    lazy_root l = root /\ lazy_ok root c dir l /\
    forall k n, n <= c ->
      exists s', lstep l (LPut k n None false) = (LInit root s', LD (DP POk)) /\
                 alookup k (index s') = Some n.
Proof.
  intros root c dir ops l.
  assert (H : lazy_ok root c dir l) by (apply lrun_ok; simpl; auto).
  split; [eapply lazy_ok_root; eauto|]. split; auto. intros k n Hn. eapply lazy_put_ok; eauto.
Qed.
