(* Proofs/DistStatus.v — C13: the remote exit code survives the trip back to the client. *)
From Coq Require Import List ZArith Bool Lia.
From Sccache Require Import Model.DistStatus.
Import ListNotations.
Local Open Scope Z_scope.

(* ---- bit operations as arithmetic ---- *)
Lemma land_127 z : Z.land z 127 = z mod 128.
Proof. change 127 with (Z.ones 7). rewrite Z.land_ones by lia. reflexivity. Qed.

Lemma land_255 z : Z.land z 255 = z mod 256.
Proof. change 255 with (Z.ones 8). rewrite Z.land_ones by lia. reflexivity. Qed.

Lemma shiftr_8 z : Z.shiftr z 8 = z / 256.
Proof. rewrite Z.shiftr_div_pow2 by lia. reflexivity. Qed.

Lemma shiftl_8 z : Z.shiftl z 8 = z * 256.
Proof. rewrite Z.shiftl_mul_pow2 by lia. reflexivity. Qed.

Lemma wrap32_cong z : exists k, wrap32 z = z + k * 4294967296.
Proof.
  unfold wrap32.
  pose proof (Z.div_mod z 4294967296 ltac:(lia)) as E.
  destruct (z mod 4294967296 <? 2147483648).
  - exists (- (z / 4294967296)). lia.
  - exists (- (z / 4294967296) - 1). lia.
Qed.

Lemma wrap32_small z : -2147483648 <= z < 2147483648 -> wrap32 z = z.
Proof.
  intros H. unfold wrap32.
  destruct (Z_lt_le_dec z 0) as [Hn | Hp].
  - assert (E : z mod 4294967296 = z + 4294967296).
    { symmetry. apply Z.mod_unique with (q := -1); lia. }
    rewrite E. destruct (z + 4294967296 <? 2147483648) eqn:L.
    + apply Z.ltb_lt in L. lia.
    + lia.
  - rewrite Z.mod_small by lia.
    destruct (z <? 2147483648) eqn:L; [reflexivity | apply Z.ltb_ge in L; lia].
Qed.

(* ---- the fixed conversion, for every i32 ---- *)
Lemma to_local_exited c : exited (to_local c) = true.
Proof.
  unfold exited, to_local. rewrite shiftl_8, land_127.
  destruct (wrap32_cong (c * 256)) as [k ->].
  replace (c * 256 + k * 4294967296) with ((c * 2 + k * 33554432) * 128) by lia.
  rewrite Z.mod_mul by lia. reflexivity.
Qed.

Lemma to_local_code c : code (to_local c) = Some (c mod 256).
Proof.
  unfold code. rewrite to_local_exited. f_equal.
  unfold to_local. rewrite shiftl_8, shiftr_8, land_255.
  destruct (wrap32_cong (c * 256)) as [k ->].
  replace (c * 256 + k * 4294967296) with ((c + k * 16777216) * 256) by lia.
  rewrite Z.div_mul by lia.
  replace (c + k * 16777216) with (c + (k * 65536) * 256) by lia.
  apply Z.mod_add. lia.
Qed.

Lemma to_local_signal c : signal (to_local c) = None.
Proof.
  unfold signal, signaled.
  pose proof (to_local_exited c) as E. unfold exited in E. apply Z.eqb_eq in E. rewrite E. reflexivity.
Qed.

Lemma exit_status_mod256 c : code (to_local c) = Some (c mod 256) /\ signal (to_local c) = None.
Proof. split; [apply to_local_code | apply to_local_signal]. Qed.

Lemma to_local_small c : 0 <= c < 256 -> to_local c = c * 256.
Proof. intros H. unfold to_local. rewrite shiftl_8. apply wrap32_small. lia. Qed.

Lemma exit_status_preserved c :
  0 <= c < 256 ->
  code (to_local c) = Some c /\ signal (to_local c) = None /\ success (to_local c) = (c =? 0)
  /\ client_view (to_local c) = CsExit c.
Proof.
  intros H. rewrite to_local_code, to_local_signal. rewrite Z.mod_small by lia.
  repeat split.
  - rewrite to_local_small by lia. unfold success.
    destruct (c =? 0) eqn:E.
    + apply Z.eqb_eq in E. subst. reflexivity.
    + apply Z.eqb_neq in E. apply Z.eqb_neq. lia.
  - unfold client_view. rewrite to_local_code. rewrite Z.mod_small by lia. reflexivity.
Qed.

(* ---- server side ---- *)
Lemma code_range raw c : code raw = Some c -> 0 <= c < 256.
Proof.
  unfold code. destruct (exited raw); [|discriminate]. intros E. inversion E; subst.
  rewrite land_255. apply Z.mod_pos_bound. lia.
Qed.

Lemma try_from_output_code raw c : try_from_output raw = Some c <-> code raw = Some c.
Proof. unfold try_from_output. destruct (code raw); split; congruence. Qed.

Lemma status_roundtrip raw c :
  try_from_output raw = Some c ->
  0 <= c < 256 /\ code raw = Some c /\ code (to_local c) = Some c /\ signal (to_local c) = None
  /\ success (to_local c) = (c =? 0).
Proof.
  intros H. apply try_from_output_code in H. pose proof (code_range _ _ H) as R.
  destruct (exit_status_preserved c R) as (A & B & C & _). auto.
Qed.

(* a genuine "exited" wait status (c << 8) is reproduced bit for bit *)
Lemma status_roundtrip_exact c :
  0 <= c < 256 -> try_from_output (c * 256) = Some c /\ to_local c = c * 256.
Proof.
  intros H. split; [|apply to_local_small; exact H].
  apply try_from_output_code. unfold code, exited.
  rewrite land_127. replace (c * 256) with ((c * 2) * 128) at 1 by lia. rewrite Z.mod_mul by lia.
  simpl. f_equal. rewrite shiftr_8, Z.div_mul by lia. rewrite land_255. apply Z.mod_small. lia.
Qed.

Lemma signaled_not_exited raw : signaled raw = true -> exited raw = false.
Proof.
  unfold signaled, exited. intros H. apply andb_true_iff in H as [H1 _].
  apply Z.leb_le in H1. apply Z.eqb_neq. lia.
Qed.

Lemma signal_not_forwarded raw :
  code raw = None -> try_from_output raw = None.
Proof. unfold try_from_output. intros ->. reflexivity. Qed.

Lemma signal_refused raw s : signal raw = Some s -> try_from_output raw = None.
Proof.
  unfold signal. destruct (signaled raw) eqn:E; [|discriminate]. intros _.
  apply signal_not_forwarded. unfold code. rewrite (signaled_not_exited _ E). reflexivity.
Qed.

(* ---- the pinned commit: refuted ---- *)
Lemma orig_refuted :
  (code (to_local_orig 1) = None /\ signal (to_local_orig 1) = Some 1)
  /\ (code (to_local_orig 128) = Some 0 /\ client_view (to_local_orig 128) = CsExit 0).
Proof. vm_compute. auto. Qed.
