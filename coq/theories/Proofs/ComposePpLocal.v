(* Proofs/ComposePpLocal.v — C04's soundness theorems (Proofs/PpCache.v) re-proved with collision-freeness of the
   digests RELATIVE to the pre-images in play, instead of global injectivity.

   Why: Proofs/PpCache.v assumes `forall a b, H a = H b -> a = b` for the content digest.  As soon as H is the digest
   of property C02 (a function into 64 hex characters, `forall x, is_hex64 (H x) = true`) that hypothesis cannot be
   met by any H, so the two developments cannot be composed through it.  Here the hypotheses are
       H  is collision-free on a set  okB  of byte strings,
       HT is collision-free on a set  okT  of (date, mtime) pairs, for pairs of the same shape,
   and the theorems ask that the contents / dates / mtimes of the snapshots involved lie in these sets.  The lemmas of
   Proofs/PpCache.v that never used injectivity (run_recs_inv, first_match_some, ifd_content, ifd_plain, ...) are used
   as they are; the four that did (ifd_time, input_digest_sound, include_sound, lookup_sound) and mode_equivalence are
   re-proved.  [mode_equivalence_on] also lets each request carry its own input path and asks injectivity of the
   manifest key only AT the two requests compared.  The original statements follow (end of file). *)
From Coq Require Import List NArith Bool Arith Lia.
From Sccache Require Import Base.Sx Gen.C04Consts Model.PpPaths Model.TimeMacro Model.PpCache
     Proofs.TimeMacro Proofs.PpCache.
Import ListNotations.
Local Open Scope N_scope.
Arguments scan_file : simpl never.

Section Local.
Variable D : Type.
Variable Deqb : D -> D -> bool.
Variable H : bytes -> D.
Variable HT : option bytes -> option N -> D.
Hypothesis Deqb_true : forall a b, Deqb a b = true -> a = b.

(* the pre-images in play *)
Variable okB : bytes -> Prop.
Variable okT : option bytes -> option N -> Prop.

Definition same_shape (od : option bytes) (om : option N) (od' : option bytes) (om' : option N) : Prop :=
  (od = None <-> od' = None) /\ (om = None <-> om' = None).

Hypothesis H_inj_on : forall a b, okB a -> okB b -> H a = H b -> a = b.
Hypothesis HT_inj_on : forall od om od' om',
    okT od om -> okT od' om' -> same_shape od om od' om' -> HT od om = HT od' om' -> od = od' /\ om = om'.

Local Notation ifd := (include_file_digest D HT).

(* every (date, mtime) pair the digest of a file with this date / mtime may be made of *)
Definition times_ok (date : bytes) (o : option N) : Prop :=
  forall od om, In od [None; Some date] -> In om [None; o] -> okT od om.

(* the contents of every file of the snapshot, and every (date, mtime) pair of it, are in play *)
Definition snap_ok (fs : fsnap) (date : bytes) : Prop :=
  (forall p nd, fs_get fs p = Some nd -> okB (n_bytes nd)) /\
  (forall p nd, fs_get fs p = Some nd -> times_ok date (Some (n_mtime nd))).

Lemma times_ok_none date o : times_ok date o -> times_ok date None.
Proof.
  intros Ht od om Hod [<- | [<- | []]]; apply Ht; try exact Hod; left; reflexivity.
Qed.

Lemma ifd_time_on c f d1 o1 d0 o0 x :
  times_ok d1 o1 -> times_ok d0 o0 ->
  ifd c f d1 o1 = Some x -> ifd c f d0 o0 = Some x ->
  (fl_date f = true -> d1 = d0) /\ (fl_timestamp f = true -> o1 = o0).
Proof.
  unfold include_file_digest. intros T1 T0 H1 H0.
  destruct (fl_date f), (fl_timestamp f); simpl in *.
  - destruct o1 as [m1|], o0 as [m0|]; try discriminate. inversion H1; subst. inversion H0 as [He].
    apply HT_inj_on in He.
    + destruct He as [Hd Ho]. inversion Hd; inversion Ho; subst. split; reflexivity.
    + apply T0; [right; left; reflexivity | right; left; reflexivity].
    + apply T1; [right; left; reflexivity | right; left; reflexivity].
    + split; split; discriminate.
  - inversion H1; subst. inversion H0 as [He]. apply HT_inj_on in He.
    + destruct He as [Hd _]. inversion Hd; subst. split; [reflexivity | discriminate].
    + apply T0; [right; left; reflexivity | left; reflexivity].
    + apply T1; [right; left; reflexivity | left; reflexivity].
    + split; split; try discriminate; reflexivity.
  - destruct o1 as [m1|], o0 as [m0|]; try discriminate. inversion H1; subst. inversion H0 as [He].
    apply HT_inj_on in He.
    + destruct He as [_ Ho]. inversion Ho; subst. split; [discriminate | reflexivity].
    + apply T0; [left; reflexivity | right; left; reflexivity].
    + apply T1; [left; reflexivity | right; left; reflexivity].
    + split; split; try discriminate; reflexivity.
  - split; discriminate.
Qed.

Theorem input_digest_sound_on cfg b0 d0 m0 b1 d1 m1 x :
  okB b0 -> okB b1 -> times_ok d0 (Some m0) -> times_ok d1 (Some m1) ->
  input_file_digest D H HT cfg b0 d0 m0 = Some x ->
  input_file_digest D H HT cfg b1 d1 m1 = Some x ->
  b1 = b0 /\
  (ignore_time_macros cfg = false -> mentions WDate b0 -> d1 = d0) /\
  (ignore_time_macros cfg = false -> mentions WTimestamp b0 -> m1 = m0) /\
  (ignore_time_macros cfg = false -> ~ mentions WTime b0).
Proof.
  intros B0 B1 T0 T1.
  unfold input_file_digest. destruct (ignore_time_macros cfg) eqn:Hitm.
  - intros H0 H1. rewrite <- H0 in H1. inversion H1 as [He]. apply H_inj_on in He; try assumption.
    split; [exact He|]. split; [|split]; intros Hc; discriminate Hc.
  - destruct (fl_time (scan_file b0)) eqn:Ht0; [discriminate|].
    destruct (fl_time (scan_file b1)) eqn:Ht1; [discriminate|].
    intros H0 H1. pose proof (ifd_content _ _ _ _ _ _ _ _ _ _ _ H1 H0) as Hc.
    apply H_inj_on in Hc; try assumption. subst b1.
    destruct (ifd_time_on _ _ _ _ _ _ _ T1 T0 H1 H0) as [Hdate Hts].
    split; [reflexivity|]. split; [|split]; intros _ Hmen.
    + apply Hdate. apply (proj1 (scan_file_exact b0)). exact Hmen.
    + assert (Hf : fl_timestamp (scan_file b0) = true) by (apply (proj2 (proj2 (scan_file_exact b0))); exact Hmen).
      specialize (Hts Hf). inversion Hts. reflexivity.
    + apply (proj1 (proj2 (scan_file_exact b0))) in Hmen. congruence.
Qed.

(* the heart of C04, one accepted include: as Proofs/PpCache.include_sound *)
Lemma include_sound_on cfg fs0 date0 fs1 date1 ie :
  recorded_ie D H HT cfg fs0 date0 ie ->
  snap_ok fs0 date0 -> snap_ok fs1 date1 ->
  (file_stat_matches cfg = true -> use_ctime_for_stat cfg = true -> stat_trust fs0 fs1) ->
  include_matches D Deqb H HT cfg fs1 date1 ie = true ->
  unchanged cfg fs0 date0 fs1 date1 (ie_path D ie).
Proof.
  intros [nd0 [[Hg0 Hk0] [Hsz0 [Htimes [Hnt Hdig]]]]] [SB0 ST0] [SB1 ST1] Htrust Hm.
  unfold include_matches in Hm.
  destruct (fs_get fs1 (ie_path D ie)) as [nd1|] eqn:Hg1; [|discriminate].
  destruct (N.eqb (n_size nd1) (ie_size D ie)) eqn:Hsz; cbn [negb] in Hm; [|discriminate].
  apply N.eqb_eq in Hsz.
  pose proof (SB0 _ _ Hg0) as B0. pose proof (SB1 _ _ Hg1) as B1.
  pose proof (ST0 _ _ Hg0) as T0. pose proof (ST1 _ _ Hg1) as T1.
  destruct (stat_shortcut D cfg ie nd1) eqn:Hss.
  - unfold stat_shortcut in Hss.
    destruct (file_stat_matches cfg) eqn:Hfsm; simpl in Hss; [|discriminate].
    destruct (is_salted D (ie_digest D ie)) eqn:Hsalt; simpl in Hss; [discriminate|].
    destruct Htimes as [[Hmt Hct] | [Hmt Hct]]; [rewrite Hmt, Hct in Hss | rewrite Hmt in Hss; discriminate].
    destruct (use_ctime_for_stat cfg) eqn:Huc; [|discriminate].
    apply andb_true_iff in Hss as [Hm1 Hc1]. apply N.eqb_eq in Hm1. apply N.eqb_eq in Hc1.
    destruct (Htrust eq_refl eq_refl (ie_path D ie) nd0 nd1 Hg0 Hg1 Hk0) as [Hk1 Hb]; try congruence.
    exists nd0, nd1. split; [split; assumption|]. split; [split; assumption|]. split; [exact Hb|].
    destruct (ifd_plain _ _ _ _ _ _ _ Hdig Hsalt) as [Hfd Hft].
    split; [|split]; intros Hitm Hmen; exfalso; unfold rec_flags in Hfd, Hft, Hnt; rewrite Hitm in Hfd, Hft, Hnt.
    + rewrite (mentions_flag_date _ Hmen) in Hfd. discriminate.
    + rewrite (mentions_flag_timestamp _ Hmen) in Hft. discriminate.
    + apply flag_time_mentions in Hmen. congruence.
  - unfold fs_read in Hm. rewrite Hg1 in Hm.
    destruct (n_kind nd1) eqn:Hk1; try discriminate.
    destruct (ignore_time_macros cfg) eqn:Hitm.
    + apply (idigest_eqb_true D Deqb Deqb_true) in Hm.
      unfold rec_flags in Hdig. rewrite Hitm in Hdig. cbn in Hdig. rewrite Hm in Hdig.
      inversion Hdig as [He]. apply H_inj_on in He; try assumption.
      exists nd0, nd1. split; [split; assumption|]. split; [split; assumption|]. split; [symmetry; exact He|].
      split; [|split]; intros Hc; congruence.
    + destruct (fl_time (scan_file (n_bytes nd1))) eqn:Hft1; [discriminate|].
      destruct (ifd (H (n_bytes nd1)) (scan_file (n_bytes nd1)) date1
                    (if fl_timestamp (scan_file (n_bytes nd1)) then Some (n_mtime nd1) else None)) as [d1|] eqn:Hd1;
        [|discriminate].
      apply (idigest_eqb_true D Deqb Deqb_true) in Hm. subst d1.
      unfold rec_flags in Hdig, Hnt. rewrite Hitm in Hdig, Hnt.
      pose proof (ifd_content _ _ _ _ _ _ _ _ _ _ _ Hd1 Hdig) as Hc. apply H_inj_on in Hc; try assumption.
      rewrite Hc in Hd1.
      assert (T1' : times_ok date1 (if fl_timestamp (scan_file (n_bytes nd0)) then Some (n_mtime nd1) else None)).
      { destruct (fl_timestamp (scan_file (n_bytes nd0))); [exact T1 | exact (times_ok_none _ _ T1)]. }
      destruct (ifd_time_on _ _ _ _ _ _ _ T1' T0 Hd1 Hdig) as [Hdate Hts].
      exists nd0, nd1. split; [split; assumption|]. split; [split; assumption|]. split; [exact Hc|].
      split; [|split]; intros _ Hmen.
      * apply Hdate. apply mentions_flag_date. exact Hmen.
      * pose proof (mentions_flag_timestamp _ Hmen) as Hf. specialize (Hts Hf). rewrite Hf in Hts.
        inversion Hts. reflexivity.
      * apply flag_time_mentions in Hmen. congruence.
Qed.

Theorem lookup_sound_on cfg (ops : list rec_op) fs1 date1 k :
  (forall op, In op ops -> snap_ok (ro_fs op) (ro_date op)) -> snap_ok fs1 date1 ->
  (file_stat_matches cfg = true -> use_ctime_for_stat cfg = true ->
   forall op, In op ops -> stat_trust (ro_fs op) fs1) ->
  lookup_result_digest D Deqb H HT cfg fs1 date1 (run_recs D H HT cfg ops) = Some k ->
  exists op, In op ops /\ ro_key op = k /\
    forall p, must_record cfg op p -> unchanged cfg (ro_fs op) (ro_date op) fs1 date1 p.
Proof.
  intros Hs0 Hs1 Htrust Hl. unfold lookup_result_digest in Hl.
  apply first_match_some in Hl. destruct Hl as [incs [Hin Hrm]].
  apply in_rev in Hin.
  destruct (run_recs_inv D H HT cfg ops k incs Hin) as [op [Hop [Hk [Hrec Hcompl]]]].
  exists op. split; [exact Hop|]. split; [exact Hk|].
  intros p Hmust. destruct (Hcompl p Hmust) as [ie [Hie Hp]]. subst p.
  unfold result_matches in Hrm. rewrite forallb_forall in Hrm.
  rewrite Forall_forall in Hrec.
  apply (include_sound_on cfg _ _ _ _ ie (Hrec ie Hie) (Hs0 op Hop) Hs1).
  - intros Hf Hu. apply (Htrust Hf Hu op Hop).
  - apply Hrm. exact Hie.
Qed.

(* ---------------- mode equivalence ---------------- *)
Section ModeOn.
  Variable Req : Type.
  Variable env_pp env_main : list bytes.
  Variable pp : Req -> env_t -> fsnap -> bytes -> bytes.
  Variable reads probes : Req -> env_t -> fsnap -> bytes -> list path.
  Variable main_key : Req -> env_t -> bytes -> key.
  Hypothesis pp_frame : forall req env fs0 d0 fs1 d1,
    same_inputs Req reads probes req env fs0 d0 fs1 d1 -> pp req env fs1 d1 = pp req env fs0 d0.
  Variable K : Type.
  Variable pp_key : Req -> env_t -> idigest D -> K.
  (* the input path is part of the request *)
  Variable ipath : Req -> path.

  Theorem mode_equivalence_on cfg (req0 req1 : Req) (env0 env1 : env_t) (mk : K) (ops : list rec_op) fs1 date1 k :
    (forall n, In n env_main -> In n env_pp) ->
    ignore_time_macros cfg = false ->
    (file_stat_matches cfg = true -> use_ctime_for_stat cfg = true ->
     forall op, In op ops -> stat_trust (ro_fs op) fs1) ->
    (forall op, In op ops -> snap_ok (ro_fs op) (ro_date op)) -> snap_ok fs1 date1 ->
    (forall op, In op ops ->
                faithful D H HT Req env_pp env_main pp reads main_key K pp_key (ipath req0) cfg req0 env0 mk op) ->
    in_manifest D H HT Req env_pp K pp_key (ipath req1) cfg req1 env1 fs1 date1 mk ->
    (* the manifest key separates THESE two requests *)
    forall (pp_key_injective_at :
              forall op d0 d1, In op ops ->
                input_digest_in D H HT (ipath req0) cfg (ro_fs op) (ro_date op) = Some d0 ->
                input_digest_in D H HT (ipath req1) cfg fs1 date1 = Some d1 ->
                pp_key req0 (filter_env env_pp env0) d0 = pp_key req1 (filter_env env_pp env1) d1 ->
                req0 = req1 /\ filter_env env_pp env0 = filter_env env_pp env1 /\ d0 = d1),
    forall (no_new_shadowing_file :
              forall op p, In op ops -> In p (probes req0 (filter_env env_pp env0) (ro_fs op) (ro_date op)) ->
                           fs_get fs1 p = None),
    lookup_result_digest D Deqb H HT cfg fs1 date1 (run_recs D H HT cfg ops) = Some k ->
    k = main_key req1 (filter_env env_main env1) (pp req1 (filter_env env_pp env1) fs1 date1).
  Proof.
    intros Hsub Hitm Htrust Hs0 Hs1 Hfaith [d1 [Hd1 Hk1]] Hinj Hshadow Hl.
    destruct (lookup_sound_on cfg ops fs1 date1 k Hs0 Hs1 Htrust Hl) as [op [Hop [Hk Hunch]]].
    destruct (Hfaith op Hop) as [[d0 [Hd0 Hk0]] [Hkey Hreads]].
    rewrite <- Hk0 in Hk1. symmetry in Hk1.
    destruct (Hinj op d0 d1 Hop Hd0 Hd1 Hk1) as [Hreq [Henv Hd]]. subst req1 d1.
    rewrite <- Hk, Hkey.
    rewrite <- (filter_env_subset env_pp env_main env0 Hsub), <- (filter_env_subset env_pp env_main env1 Hsub), <- Henv.
    f_equal. symmetry. apply pp_frame. split.
    - intros p Hp. destruct (Hreads p Hp) as [-> | Hmust].
      + unfold input_digest_in in Hd0, Hd1.
        destruct (fs_get (ro_fs op) (ipath req0)) as [nd0|] eqn:Hg0; [|discriminate].
        destruct (n_kind nd0) eqn:Hk0'; try discriminate.
        destruct (fs_get fs1 (ipath req0)) as [nd1|] eqn:Hg1; [|discriminate].
        destruct (n_kind nd1) eqn:Hk1'; try discriminate.
        destruct (Hs0 op Hop) as [SB0 ST0]. destruct Hs1 as [SB1 ST1].
        destruct (input_digest_sound_on cfg _ _ _ _ _ _ _ (SB0 _ _ Hg0) (SB1 _ _ Hg1) (ST0 _ _ Hg0) (ST1 _ _ Hg1)
                                        Hd0 Hd1) as [Hb [Hdt [Hts Hnt]]].
        exists nd0, nd1. split; [split; assumption|]. split; [split; assumption|]. split; [exact Hb|].
        split; [apply Hdt; exact Hitm|]. split; [apply Hts; exact Hitm | apply Hnt; exact Hitm].
      + destruct (Hunch p Hmust) as [nd0 [nd1 [Hf0 [Hf1 [Hb [Hd [Ht Hnt]]]]]]].
        exists nd0, nd1. split; [exact Hf0|]. split; [exact Hf1|]. split; [exact Hb|].
        split; [apply Hd; exact Hitm|]. split; [apply Ht; exact Hitm | apply Hnt; exact Hitm].
    - intros p Hp. apply (Hshadow op p Hop Hp).
  Qed.
End ModeOn.

End Local.

(* ---------------- the statements of Proofs/PpCache.v are the instance "everything is in play" ---------------- *)
Section Global.
Variable D : Type.
Variable Deqb : D -> D -> bool.
Variable H : bytes -> D.
Variable HT : option bytes -> option N -> D.
Hypothesis Deqb_true : forall a b, Deqb a b = true -> a = b.
Hypothesis H_inj : forall a b, H a = H b -> a = b.
Hypothesis HT_inj : forall od om od' om', HT od om = HT od' om' -> od = od' /\ om = om'.

Let allB (_ : bytes) : Prop := True.
Let allT (_ : option bytes) (_ : option N) : Prop := True.

Lemma snap_ok_all fs date : snap_ok allB allT fs date.
Proof. split; [intros; exact I | intros p nd _ od om _ _; exact I]. Qed.

Theorem lookup_sound_from_local cfg (ops : list rec_op) fs1 date1 k :
  (file_stat_matches cfg = true -> use_ctime_for_stat cfg = true ->
   forall op, In op ops -> stat_trust (ro_fs op) fs1) ->
  lookup_result_digest D Deqb H HT cfg fs1 date1 (run_recs D H HT cfg ops) = Some k ->
  exists op, In op ops /\ ro_key op = k /\
    forall p, must_record cfg op p -> unchanged cfg (ro_fs op) (ro_date op) fs1 date1 p.
Proof.
  intros Htrust Hl.
  apply (lookup_sound_on D Deqb H HT Deqb_true allB allT); try assumption.
  - intros a b _ _. apply H_inj.
  - intros od om od' om' _ _ _. apply HT_inj.
  - intros op _. apply snap_ok_all.
  - apply snap_ok_all.
Qed.

Theorem mode_equivalence_from_local
        (Req : Type) (env_pp env_main : list bytes) (pp : Req -> env_t -> fsnap -> bytes -> bytes)
        (reads probes : Req -> env_t -> fsnap -> bytes -> list path) (main_key : Req -> env_t -> bytes -> key)
        (pp_frame : forall req env fs0 d0 fs1 d1,
            same_inputs Req reads probes req env fs0 d0 fs1 d1 -> pp req env fs1 d1 = pp req env fs0 d0)
        (K : Type) (pp_key : Req -> env_t -> idigest D -> K)
        (pp_key_injective : forall r e d r' e' d', pp_key r e d = pp_key r' e' d' -> r = r' /\ e = e' /\ d = d')
        (input_path : path) cfg (req0 req1 : Req) (env0 env1 : env_t) (mk : K) (ops : list rec_op) fs1 date1 k :
  (forall n, In n env_main -> In n env_pp) ->
  ignore_time_macros cfg = false ->
  (file_stat_matches cfg = true -> use_ctime_for_stat cfg = true ->
   forall op, In op ops -> stat_trust (ro_fs op) fs1) ->
  (forall op, In op ops ->
              faithful D H HT Req env_pp env_main pp reads main_key K pp_key input_path cfg req0 env0 mk op) ->
  in_manifest D H HT Req env_pp K pp_key input_path cfg req1 env1 fs1 date1 mk ->
  (forall op p, In op ops -> In p (probes req0 (filter_env env_pp env0) (ro_fs op) (ro_date op)) ->
                fs_get fs1 p = None) ->
  lookup_result_digest D Deqb H HT cfg fs1 date1 (run_recs D H HT cfg ops) = Some k ->
  k = main_key req1 (filter_env env_main env1) (pp req1 (filter_env env_pp env1) fs1 date1).
Proof.
  intros Hsub Hitm Htrust Hfaith Hman Hshadow Hl.
  assert (HB : forall a b, allB a -> allB b -> H a = H b -> a = b) by (intros a b _ _; apply H_inj).
  assert (HTT : forall od om od' om', allT od om -> allT od' om' -> same_shape od om od' om' ->
                                      HT od om = HT od' om' -> od = od' /\ om = om')
    by (intros od om od' om' _ _ _; apply HT_inj).
  apply (mode_equivalence_on D Deqb H HT Deqb_true allB allT HB HTT Req env_pp env_main pp reads probes main_key
                             pp_frame K pp_key (fun _ => input_path) cfg req0 req1 env0 env1 mk ops fs1 date1 k);
    try assumption.
  - intros op _. apply snap_ok_all.
  - apply snap_ok_all.
  - intros op d0 d1 _ _ _ He. apply pp_key_injective. exact He.
Qed.
End Global.
