(* Proofs/CompilerCache.v — C12: the memoised compiler detection never hands out a stale
   identity under the property's premise, hence no result crosses between binaries. *)
From Coq Require Import List NArith Bool Lia.
From Sccache Require Import Model.CompilerCache.
Import ListNotations.
Local Open Scope N_scope.

(* ---------- equality tests ---------- *)

Lemma path_eqb_eq (a b : path) : path_eqb a b = true <-> a = b.
Proof.
  destruct a as [a1 a2], b as [b1 b2]; unfold path_eqb; simpl.
  rewrite andb_true_iff, !N.eqb_eq. split.
  - intros [-> ->]; reflexivity.
  - intros E; inversion E; auto.
Qed.

Lemma path_eqb_refl a : path_eqb a a = true.
Proof. apply path_eqb_eq; reflexivity. Qed.

Lemma path_eqb_neq (a b : path) : path_eqb a b = false <-> a <> b.
Proof.
  split.
  - intros E1 E2. apply path_eqb_eq in E2. congruence.
  - intros NE. destruct (path_eqb a b) eqn:E; [apply path_eqb_eq in E; contradiction | reflexivity].
Qed.

Lemma ckey_eqb_eq (a b : ckeyt) : ckey_eqb a b = true <-> a = b.
Proof.
  destruct a as [a1 a2], b as [b1 b2]; unfold ckey_eqb; simpl.
  rewrite andb_true_iff, !path_eqb_eq. split.
  - intros [-> ->]; reflexivity.
  - intros E; inversion E; auto.
Qed.

Lemma ckey_eqb_refl a : ckey_eqb a a = true.
Proof. apply ckey_eqb_eq; reflexivity. Qed.

(* ---------- the file system ---------- *)

Lemma flookup_fremove p q f :
  flookup p (fremove q f) = if path_eqb p q then None else flookup p f.
Proof.
  induction f as [|[r n] f IH]; simpl.
  - destruct (path_eqb p q); reflexivity.
  - destruct (path_eqb q r) eqn:Eqr.
    + apply path_eqb_eq in Eqr; subst r. rewrite IH.
      destruct (path_eqb p q); reflexivity.
    + simpl. rewrite IH. destruct (path_eqb p r) eqn:Epr; [|reflexivity].
      apply path_eqb_eq in Epr; subst r.
      destruct (path_eqb p q) eqn:Epq; [|reflexivity].
      apply path_eqb_eq in Epq; subst q. rewrite path_eqb_refl in Eqr; discriminate.
Qed.

Lemma flookup_fset p q n f :
  flookup p (fset q n f) = if path_eqb p q then Some n else flookup p f.
Proof.
  unfold fset; simpl. destruct (path_eqb p q) eqn:E; [reflexivity|].
  rewrite flookup_fremove, E; reflexivity.
Qed.

Lemma resolve_file n f p t b m :
  resolve n f p = Some (t, (b, m)) -> flookup t f = Some (File b m).
Proof.
  revert p; induction n as [|n IH]; simpl; intros p E; [discriminate|].
  destruct (flookup p f) as [[b' m'|tg]|] eqn:L; try discriminate.
  - inversion E; subst; assumption.
  - eapply IH; eassumption.
Qed.

(* ---------- the compilers map and the result cache ---------- *)

Lemma clookup_cremove k k' c :
  clookup k (cremove k' c) = if ckey_eqb k k' then None else clookup k c.
Proof.
  induction c as [|[r v] c IH]; simpl.
  - destruct (ckey_eqb k k'); reflexivity.
  - destruct (ckey_eqb k' r) eqn:E1.
    + apply ckey_eqb_eq in E1; subst r. rewrite IH. destruct (ckey_eqb k k'); reflexivity.
    + simpl. rewrite IH. destruct (ckey_eqb k r) eqn:E2; [|reflexivity].
      apply ckey_eqb_eq in E2; subst r.
      destruct (ckey_eqb k k') eqn:E3; [|reflexivity].
      apply ckey_eqb_eq in E3; subst k'. rewrite ckey_eqb_refl in E1; discriminate.
Qed.

Lemma clookup_cset k k' v c :
  clookup k (cset k' v c) = if ckey_eqb k k' then Some v else clookup k c.
Proof.
  unfold cset; simpl. destruct (ckey_eqb k k') eqn:E; [reflexivity|].
  rewrite clookup_cremove, E; reflexivity.
Qed.

(* ---------- the premise as a usable fact ---------- *)

Lemma tracks_agree evs :
  mtime_tracks_content evs = true -> forall a b, In a evs -> In b evs -> agree a b = true.
Proof.
  unfold mtime_tracks_content; intros Hall a b Ia Ib.
  rewrite forallb_forall in Hall. specialize (Hall a Ia).
  rewrite forallb_forall in Hall. exact (Hall b Ib).
Qed.

Lemma agree_same_bytes a b p b1 b2 m :
  agree a b = true -> e_path a = p -> e_path b = p ->
  e_cur a = Some (b1, m) -> e_cur b = Some (b2, m) -> b1 = b2.
Proof.
  unfold agree; intros A Pa Pb Ca Cb. rewrite Ca, Cb, Pa, Pb, path_eqb_refl, N.eqb_refl in A.
  simpl in A. apply N.eqb_eq in A; exact A.
Qed.

(* ---------- exec / final over concatenation ---------- *)

Section Run.
  Variable detect : N -> option N.
  Variable H : N -> N -> N.
  Variable legacy : bool.

  Lemma final_app s h1 h2 :
    final detect H legacy s (h1 ++ h2) = final detect H legacy (final detect H legacy s h1) h2.
  Proof. revert s; induction h1 as [|o h1 IH]; simpl; intros s; [reflexivity | apply IH]. Qed.

  Lemma exec_app s h1 h2 :
    exec detect H legacy s (h1 ++ h2) =
    exec detect H legacy s h1 ++ exec detect H legacy (final detect H legacy s h1) h2.
  Proof.
    revert s; induction h1 as [|o h1 IH]; simpl; intros s; [reflexivity|].
    destruct (snd (step detect H legacy s o)); simpl; rewrite IH; reflexivity.
  Qed.
End Run.

(* ---------- the code after the fix (legacy = false) ---------- *)

Section Fixed.
  Variable detect : N -> option N.
  Variable H : N -> N -> N.
  (* the binaries and sources "in play" in a history *)
  Variable inB : N -> Prop.
  Variable inS : N -> Prop.
  (* CF = "the digests are collision-free on what is in play".  It is a parameter so that
     the statements that do not need it (the identity is current) are proved without it
     (CF := False) by the same induction. *)
  Variable CF : Prop.
  Hypothesis detect_collision_free :
    CF -> forall b1 b2 i, inB b1 -> inB b2 -> detect b1 = Some i -> detect b2 = Some i -> b1 = b2.
  Hypothesis H_collision_free :
    CF -> forall b1 b2 i1 i2 s1 s2, inB b1 -> inB b2 -> inS s1 -> inS s2 ->
      detect b1 = Some i1 -> detect b2 = Some i2 -> H i1 s1 = H i2 s2 -> i1 = i2 /\ s1 = s2.

  Definition fs_ok (f : fs) : Prop := forall p b m, flookup p f = Some (File b m) -> inB b.

  Definition comps_ok (past : list event) (c : cmap) : Prop :=
    forall k e, clookup k c = Some (Some e) ->
      ce_exe e = fst k /\
      exists ev b, In ev past /\ e_path ev = fst k /\ e_cur ev = Some (b, ce_mtime e) /\
                   detect b = Some (ce_id e).

  Definition results_ok (r : list (N * N)) : Prop :=
    CF -> forall k prod, rlookup k r = Some prod ->
      inB prod /\ exists id src, inS src /\ detect prod = Some id /\ k = H id src.

  Definition Inv (past : list event) (s : state) : Prop :=
    fs_ok (fsys s) /\ comps_ok past (comps s) /\ results_ok (results s).

  Definition op_in_play (o : op) : Prop :=
    match o with Swap _ b _ => inB b | Compile _ s => inS s | _ => True end.

  Definition good (e : event) : Prop :=
    identity_current detect e = true /\ (CF -> producer_current e = true) /\
    (forall k, e_key e = Some k -> exists id, e_id e = Some id /\ k = H id (e_src e)) /\
    (forall b m, e_cur e = Some (b, m) -> inB b) /\
    inS (e_src e) /\
    (e_exe e = None \/ e_exe e = Some (e_path e)) /\
    (* a working compiler at the path is always served, keyed on its own identity *)
    (forall b m id, e_cur e = Some (b, m) -> detect b = Some id ->
                    served e <> None /\ e_key e = Some (H id (e_src e))).

  Lemma resolve_inB n f p t b m : fs_ok f -> resolve n f p = Some (t, (b, m)) -> inB b.
  Proof. intros F R. apply resolve_file in R. eapply F; eassumption. Qed.

  Lemma fs_ok_fset_file f p b m : fs_ok f -> inB b -> fs_ok (fset p (File b m) f).
  Proof.
    intros F B q b' m' L. rewrite flookup_fset in L.
    destruct (path_eqb q p); [inversion L; subst; assumption | eapply F; eassumption].
  Qed.

  Lemma fs_ok_fset_link f p t : fs_ok f -> fs_ok (fset p (Link t) f).
  Proof.
    intros F q b' m' L. rewrite flookup_fset in L.
    destruct (path_eqb q p); [discriminate | eapply F; eassumption].
  Qed.

  Lemma fs_ok_fremove f p : fs_ok f -> fs_ok (fremove p f).
  Proof.
    intros F q b' m' L. rewrite flookup_fremove in L.
    destruct (path_eqb q p); [discriminate | eapply F; eassumption].
  Qed.

  Lemma fs_ok_touch f p m : fs_ok f -> fs_ok (touch f p m).
  Proof.
    intros F. unfold touch. destruct (resolve FUEL f p) as [[t [b m0]]|] eqn:R; [|assumption].
    apply fs_ok_fset_file; [assumption | eapply resolve_inB; eassumption].
  Qed.

  Lemma comps_ok_more past ev c : comps_ok past c -> comps_ok (past ++ [ev]) c.
  Proof.
    intros C k e L. destruct (C k e L) as [E [ev0 [b [I R]]]]. split; [assumption|].
    exists ev0, b. split; [apply in_or_app; left; assumption | assumption].
  Qed.

  Lemma compiler_info_fixed c f p c' i :
    compiler_info detect false c f p = (c', i) ->
    match resolve FUEL f p with
    | None => c' = c /\ i = INoStat
    | Some (t, (b, m)) =>
        let k := (p, if snd t =? snd p then t else p) in
        (exists e, clookup k c = Some (Some e) /\ ce_mtime e = m /\ c' = c /\
                   i = IOk (ce_exe e) (ce_id e) false)
        \/ (detect b = None /\ c' = cset k None c /\ i = IErr)
        \/ (exists id, detect b = Some id /\
                       c' = cset k (Some {| ce_exe := p; ce_id := id; ce_mtime := m |}) c /\
                       i = IOk p id true)
    end.
  Proof.
    unfold compiler_info. destruct (resolve FUEL f p) as [[t [b m]]|]; [|intros E; inversion E; auto].
    unfold ckey, ckey_neg. cbv zeta.
    set (k := (p, if snd t =? snd p then t else p)).
    assert (Redetect :
      (match detect b with
       | Some id => (cset k (Some {| ce_exe := p; ce_id := id; ce_mtime := m |}) c, IOk p id true)
       | None => (cset k None c, IErr)
       end) = (c', i) ->
      (detect b = None /\ c' = cset k None c /\ i = IErr)
      \/ (exists id, detect b = Some id /\
                     c' = cset k (Some {| ce_exe := p; ce_id := id; ce_mtime := m |}) c /\
                     i = IOk p id true)).
    { destruct (detect b) as [id|]; intros E; inversion E; [right; exists id; auto | left; auto]. }
    destruct (clookup k c) as [[e|]|] eqn:L.
    - destruct (ce_mtime e =? m) eqn:M.
      + intros E; inversion E; subst. left. exists e. apply N.eqb_eq in M. auto.
      + intros E. right. apply Redetect; assumption.
    - intros E. right. apply Redetect; assumption.
    - intros E. right. apply Redetect; assumption.
  Qed.

  Lemma compile_shape l s p src s' ev :
    compile detect H l s p src = (s', ev) ->
    e_path ev = p /\ e_src ev = src /\ e_cur ev = stat (fsys s) p /\ fsys s' = fsys s.
  Proof.
    unfold compile. destruct (compiler_info detect l (comps s) (fsys s) p) as [c' i].
    destruct i as [| |exe id det].
    - intros E; inversion E; subst; simpl; auto.
    - intros E; inversion E; subst; simpl; auto.
    - destruct (stat (fsys s) exe) as [[b0 m0]|].
      + destruct (detect b0).
        * destruct (rlookup (H id src) (results s)); intros E; inversion E; subst; simpl; auto.
        * intros E; inversion E; subst; simpl; auto.
      + intros E; inversion E; subst; simpl; auto.
  Qed.

  Lemma results_ok_add r k b id src :
    results_ok r -> inB b -> inS src -> detect b = Some id -> k = H id src ->
    results_ok ((k, b) :: r).
  Proof.
    intros R B S D K cf k' prod L. simpl in L. destruct (k' =? k) eqn:E.
    - apply N.eqb_eq in E; subst k'. inversion L; subst prod. split; [assumption|].
      exists id, src; auto.
    - eapply (R cf); eassumption.
  Qed.

  Lemma compile_step past s p src s' ev :
    Inv past s -> inS src ->
    compile detect H false s p src = (s', ev) ->
    (forall a, In a past -> agree a ev = true) ->
    good ev /\ Inv (past ++ [ev]) s'.
  Proof.
    intros [F [C R]] S Hc Hag.
    destruct (compile_shape _ _ _ _ _ _ Hc) as [Sp [Ss [Sc Sf]]].
    revert Hc. unfold compile.
    destruct (compiler_info detect false (comps s) (fsys s) p) as [c' i] eqn:CI.
    apply compiler_info_fixed in CI.
    unfold stat in Sc. 
    destruct (resolve FUEL (fsys s) p) as [[t [b m]]|] eqn:Rs.
    2:{ destruct CI as [-> ->]. intros E; inversion E; subst s' ev; clear E.
        split.
        - unfold good, identity_current, producer_current, served; simpl.
          split; [reflexivity|]. split; [reflexivity|]. split; [discriminate|].
          assert (NoCur : forall b1 m1, stat (fsys s) p = Some (b1, m1) -> False).
          { intros b1 m1 E1. unfold stat in E1. rewrite Rs in E1. discriminate. }
          split; [intros b1 m1 E1; destruct (NoCur _ _ E1)|].
          split; [assumption|]. split; [left; reflexivity|].
          intros b1 m1 id1 E1; destruct (NoCur _ _ E1).
        - split; [exact F|]. split; [apply comps_ok_more; exact C | exact R]. }
    assert (Bb : inB b) by (eapply resolve_inB; eassumption).
    assert (Stp : stat (fsys s) p = Some (b, m)) by (unfold stat; rewrite Rs; reflexivity).
    set (k := (p, if snd t =? snd p then t else p)) in CI.
    (* in every IOk case: exe = p and the identity is that of the current bytes *)
    assert (Serve : forall id det,
      detect b = Some id ->
      comps_ok (past ++ [ev]) c' ->
      (let k0 := H id src in
       let s1 := {| fsys := fsys s; comps := c'; results := results s |} in
       let mk ran out := {| e_path := p; e_src := src; e_cur := stat (fsys s) p; e_id := Some id;
                            e_key := Some k0; e_detected := det; e_exe := Some p; e_ran := ran;
                            e_out := out |} in
       match stat (fsys s) p with
       | None => (s1, mk None OFail)
       | Some (b0, _) =>
           match detect b0 with
           | None => (s1, mk (Some b0) OFail)
           | Some _ =>
               match rlookup k0 (results s) with
               | Some prod => (s1, mk (Some b0) (OHit prod))
               | None => ({| fsys := fsys s; comps := c'; results := (k0, b0) :: results s |},
                          mk (Some b0) (OMiss b0))
               end
           end
       end) = (s', ev) ->
      good ev /\ Inv (past ++ [ev]) s').
    { intros id det D C'. cbv zeta. rewrite Stp, D.
      assert (Common : forall ran out,
        (exists q, out = OHit q \/ out = OMiss q) ->
        (CF -> match out with OHit q | OMiss q => q = b | _ => True end) ->
        good {| e_path := p; e_src := src; e_cur := Some (b, m); e_id := Some id;
                e_key := Some (H id src); e_detected := det; e_exe := Some p; e_ran := ran;
                e_out := out |}).
      { intros ran out Sv Pr. unfold good, identity_current, producer_current, served; simpl.
        rewrite D, N.eqb_refl.
        split; [reflexivity|]. split.
        { intros cf. specialize (Pr cf). destruct out; auto; subst; apply N.eqb_refl. }
        split. { intros k1 E1; inversion E1; subst. exists id; auto. }
        split. { intros b1 m1 E1; inversion E1; subst; assumption. }
        split; [assumption|]. split; [right; reflexivity|].
        intros b1 m1 id1 E1 D1. inversion E1; subst b1 m1. rewrite D in D1; inversion D1; subst id1.
        split; [|reflexivity]. destruct Sv as [q [-> | ->]]; discriminate. }
      destruct (rlookup (H id src) (results s)) as [prod|] eqn:L.
      - intros E; inversion E; subst s' ev; clear E.
        split.
        + apply Common; [exists prod; left; reflexivity|]. intros cf.
          destruct (R cf _ _ L) as [Bp [id' [src' [S' [D' K']]]]].
          destruct (H_collision_free cf b prod id id' src src' Bb Bp S S' D D' K') as [-> ->].
          eapply (detect_collision_free cf); eassumption.
        + split; [exact F|]. split; [exact C' | exact R].
      - intros E; inversion E; subst s' ev; clear E.
        split.
        + apply Common; [exists b; right; reflexivity|]. intros _; reflexivity.
        + split; [exact F|]. split; [exact C'|].
          simpl. eapply results_ok_add; eauto. }
    destruct CI as [[e [L [M [-> ->]]]] | [[D [-> ->]] | [id [D [-> ->]]]]].
    - (* memoised entry reused *)
      destruct (C _ _ L) as [Ex [ev0 [b0 [I0 [P0 [C0 D0]]]]]]. simpl in Ex, P0.
      assert (b0 = b).
      { apply (agree_same_bytes ev0 ev p b0 b m);
          [apply Hag; exact I0 | exact P0 | exact Sp | rewrite <- M; exact C0 | exact Sc]. }
      subst b0. rewrite Ex. intros E. eapply Serve; eauto.
      apply comps_ok_more; exact C.
    - (* detection failed *)
      intros E; inversion E; subst s' ev; clear E. split.
      + unfold good, identity_current, producer_current, served; simpl.
        split; [reflexivity|]. split; [reflexivity|]. split; [discriminate|].
        split; [intros b1 m1 E1; rewrite Stp in E1; inversion E1; subst; assumption|].
        split; [assumption|]. split; [left; reflexivity|].
        intros b1 m1 id1 E1 D1. rewrite Stp in E1. inversion E1; subst b1 m1.
        rewrite D in D1; discriminate.
      + split; [exact F|]. split; [|exact R].
        simpl. intros k1 e1 L1. rewrite clookup_cset in L1.
        destruct (ckey_eqb k1 k); [discriminate|].
        exact (comps_ok_more _ _ _ C _ _ L1).
    - (* detected afresh *)
      intros E. eapply Serve; eauto.
      intros k1 e1 L1. rewrite clookup_cset in L1.
      destruct (ckey_eqb k1 k) eqn:K1.
      + apply ckey_eqb_eq in K1; subst k1. inversion L1; subst e1; simpl. split; [reflexivity|].
        exists ev, b. split; [apply in_or_app; right; left; reflexivity|]. auto.
      + exact (comps_ok_more _ _ _ C _ _ L1).
  Qed.
End Fixed.

Section FixedRun.
  Variable detect : N -> option N.
  Variable H : N -> N -> N.
  Variable inB : N -> Prop.
  Variable inS : N -> Prop.
  (* CF = "the digests are collision-free on what is in play".  It is a parameter so that
     the statements that do not need it (the identity is current) are proved without it
     (CF := False) by the same induction. *)
  Variable CF : Prop.
  Hypothesis detect_collision_free :
    CF -> forall b1 b2 i, inB b1 -> inB b2 -> detect b1 = Some i -> detect b2 = Some i -> b1 = b2.
  Hypothesis H_collision_free :
    CF -> forall b1 b2 i1 i2 s1 s2, inB b1 -> inB b2 -> inS s1 -> inS s2 ->
      detect b1 = Some i1 -> detect b2 = Some i2 -> H i1 s1 = H i2 s2 -> i1 = i2 /\ s1 = s2.

  Notation Inv := (Inv detect H inB inS CF).
  Notation good := (good detect H inB inS CF).
  Notation op_in_play := (op_in_play inB inS).

  Lemma step_inv past s o :
    Inv past s -> op_in_play o ->
    (forall ev, snd (step detect H false s o) = Some ev -> forall a, In a past -> agree a ev = true) ->
    match snd (step detect H false s o) with
    | Some ev => good ev /\ Inv (past ++ [ev]) (fst (step detect H false s o))
    | None => Inv past (fst (step detect H false s o))
    end.
  Proof.
    intros I P A. destruct o as [p b m|l t|p|p m|p src]; simpl in *.
    - destruct I as [F [C R]]. split; [|split]; simpl; auto. apply fs_ok_fset_file; assumption.
    - destruct I as [F [C R]]. split; [|split]; simpl; auto. apply fs_ok_fset_link; assumption.
    - destruct I as [F [C R]]. split; [|split]; simpl; auto. apply fs_ok_fremove; assumption.
    - destruct I as [F [C R]]. split; [|split]; simpl; auto. apply fs_ok_touch; assumption.
    - destruct (compile detect H false s p src) as [s' ev] eqn:Hc. simpl in *.
      eapply compile_step; eauto.
  Qed.

  Lemma run_inv ops : forall s past,
    Forall op_in_play ops -> Inv past s ->
    (forall a b, In a (past ++ exec detect H false s ops) ->
                 In b (past ++ exec detect H false s ops) -> agree a b = true) ->
    Forall good (exec detect H false s ops) /\
    Inv (past ++ exec detect H false s ops) (final detect H false s ops).
  Proof.
    induction ops as [|o r IH]; intros s past P I A; simpl.
    - split; [constructor | rewrite app_nil_r; exact I].
    - inversion P as [|o' r' Po Pr]; subst.
      simpl in A.
      pose proof (step_inv past s o I Po) as St.
      destruct (snd (step detect H false s o)) as [ev|] eqn:Sn.
      + destruct St as [G I'].
        { intros ev' E a Ia. inversion E; subst ev'. apply A.
          - apply in_or_app; left; exact Ia.
          - apply in_or_app; right; left; reflexivity. }
        destruct (IH (fst (step detect H false s o)) (past ++ [ev]) Pr I') as [Gr Ir].
        { intros a b Ia Ib. rewrite <- app_assoc in Ia, Ib. simpl in Ia, Ib. apply A; assumption. }
        split; [constructor; assumption|].
        rewrite <- app_assoc in Ir. exact Ir.
      + assert (I' : Inv past (fst (step detect H false s o))).
        { apply St. intros ev' E; discriminate. }
        apply IH; assumption.
  Qed.
End FixedRun.

(* ---------- the result cache only grows; a served request leaves its key in it ---------- *)

Section Results.
  Variable detect : N -> option N.
  Variable H : N -> N -> N.
  Variable legacy : bool.

  Lemma compile_results s p src s' ev :
    compile detect H legacy s p src = (s', ev) ->
    (results s' = results s /\ (forall q, e_out ev <> OMiss q)) \/
    (exists k b, e_key ev = Some k /\ e_out ev = OMiss b /\ rlookup k (results s) = None /\
                 results s' = (k, b) :: results s).
  Proof.
    unfold compile. destruct (compiler_info detect legacy (comps s) (fsys s) p) as [c' i].
    destruct i as [| |exe id det].
    - intros E; inversion E; subst; simpl; left; split; [reflexivity | discriminate].
    - intros E; inversion E; subst; simpl; left; split; [reflexivity | discriminate].
    - destruct (stat (fsys s) exe) as [[b0 m0]|].
      + destruct (detect b0).
        * destruct (rlookup (H id src) (results s)) eqn:L; intros E; inversion E; subst; simpl.
          -- left; split; [reflexivity | discriminate].
          -- right. exists (H id src), b0. auto.
        * intros E; inversion E; subst; simpl; left; split; [reflexivity | discriminate].
      + intros E; inversion E; subst; simpl; left; split; [reflexivity | discriminate].
  Qed.

  Lemma compile_hit s p src s' ev k v :
    compile detect H legacy s p src = (s', ev) ->
    e_key ev = Some k -> rlookup k (results s) = Some v -> served ev <> None -> e_out ev = OHit v.
  Proof.
    unfold compile. destruct (compiler_info detect legacy (comps s) (fsys s) p) as [c' i].
    destruct i as [| |exe id det].
    - intros E; inversion E; subst; simpl; discriminate.
    - intros E; inversion E; subst; simpl; discriminate.
    - destruct (stat (fsys s) exe) as [[b0 m0]|].
      + destruct (detect b0).
        * destruct (rlookup (H id src) (results s)) eqn:L; intros E; inversion E; subst; simpl;
            intros K; inversion K; subst k; intros L'; rewrite L in L'; inversion L'; subst; auto.
        * intros E; inversion E; subst; unfold served; simpl. intros _ _ C; contradiction C; reflexivity.
      + intros E; inversion E; subst; unfold served; simpl. intros _ _ C; contradiction C; reflexivity.
  Qed.

  Lemma compile_stores s p src s' ev k :
    compile detect H legacy s p src = (s', ev) ->
    e_key ev = Some k -> served ev <> None -> exists v, rlookup k (results s') = Some v.
  Proof.
    unfold compile. destruct (compiler_info detect legacy (comps s) (fsys s) p) as [c' i].
    destruct i as [| |exe id det].
    - intros E; inversion E; subst; simpl; discriminate.
    - intros E; inversion E; subst; simpl; discriminate.
    - destruct (stat (fsys s) exe) as [[b0 m0]|].
      + destruct (detect b0).
        * destruct (rlookup (H id src) (results s)) eqn:L; intros E; inversion E; subst; simpl;
            intros K; inversion K; subst k; intros _.
          -- eexists; exact L.
          -- rewrite N.eqb_refl. eexists; reflexivity.
        * intros E; inversion E; subst; unfold served; simpl. intros _ C; contradiction C; reflexivity.
      + intros E; inversion E; subst; unfold served; simpl. intros _ C; contradiction C; reflexivity.
  Qed.

  Lemma results_mono_step s o k v :
    rlookup k (results s) = Some v -> rlookup k (results (fst (step detect H legacy s o))) = Some v.
  Proof.
    intros L. destruct o as [p b m|l t|p|p m|p src]; simpl; try exact L.
    destruct (compile detect H legacy s p src) as [s' ev] eqn:Hc. simpl.
    destruct (compile_results _ _ _ _ _ Hc) as [[-> _] | [k0 [b0 [_ [_ [N0 ->]]]]]]; [exact L|].
    simpl. destruct (k =? k0) eqn:E; [|exact L].
    apply N.eqb_eq in E; subst k0. rewrite L in N0; discriminate.
  Qed.

  Lemma results_mono s ops k v :
    rlookup k (results s) = Some v -> rlookup k (results (final detect H legacy s ops)) = Some v.
  Proof.
    revert s; induction ops as [|o r IH]; simpl; intros s L; [exact L|].
    apply IH. apply results_mono_step; exact L.
  Qed.
End Results.

(* ---------- closing: from the boolean premises to the theorems ---------- *)

Lemma flookup_fs_bytes p f b m : flookup p f = Some (File b m) -> In b (fs_bytes f).
Proof.
  induction f as [|[q n] f IH]; simpl; [discriminate|].
  destruct (path_eqb p q).
  - intros E; inversion E; subst n. simpl. left; reflexivity.
  - intros E. apply in_or_app; right. apply IH; exact E.
Qed.

Section Closed.
  Variable detect : N -> option N.
  Variable H : N -> N -> N.
  Variable f0 : fs.
  Variable ops : list op.

  Let inB (b : N) : Prop := In b (bytes_in_play f0 ops).
  Let inS (s : N) : Prop := In s (srcs_in_play ops).
  Let CFb : Prop := collision_free_in_play detect H f0 ops = true.

  Lemma cf_pair b1 b2 i1 i2 :
    CFb -> inB b1 -> inB b2 -> detect b1 = Some i1 -> detect b2 = Some i2 ->
    (i1 = i2 -> b1 = b2) /\
    (forall s1 s2, inS s1 -> inS s2 -> H i1 s1 = H i2 s2 -> i1 = i2 /\ s1 = s2).
  Proof.
    unfold CFb, collision_free_in_play, inB, inS. intros C B1 B2 D1 D2.
    rewrite forallb_forall in C. specialize (C b1 B1).
    rewrite forallb_forall in C. specialize (C b2 B2).
    rewrite D1, D2 in C. apply andb_true_iff in C as [C1 C2]. split.
    - intros ->. rewrite N.eqb_refl in C1. simpl in C1. apply N.eqb_eq; exact C1.
    - intros s1 s2 S1 S2 E.
      rewrite forallb_forall in C2. specialize (C2 s1 S1).
      rewrite forallb_forall in C2. specialize (C2 s2 S2).
      rewrite E, N.eqb_refl in C2. simpl in C2.
      apply andb_true_iff in C2 as [A B]. apply N.eqb_eq in A, B. auto.
  Qed.

  Lemma cf_detect :
    CFb -> forall b1 b2 i, inB b1 -> inB b2 -> detect b1 = Some i -> detect b2 = Some i -> b1 = b2.
  Proof. intros C b1 b2 i B1 B2 D1 D2. destruct (cf_pair b1 b2 i i C B1 B2 D1 D2) as [A _]. auto. Qed.

  Lemma cf_H :
    CFb -> forall b1 b2 i1 i2 s1 s2, inB b1 -> inB b2 -> inS s1 -> inS s2 ->
      detect b1 = Some i1 -> detect b2 = Some i2 -> H i1 s1 = H i2 s2 -> i1 = i2 /\ s1 = s2.
  Proof.
    intros C b1 b2 i1 i2 s1 s2 B1 B2 S1 S2 D1 D2 E.
    destruct (cf_pair b1 b2 i1 i2 C B1 B2 D1 D2) as [_ A]. auto.
  Qed.

  Lemma ops_all_in_play : Forall (op_in_play inB inS) ops.
  Proof.
    apply Forall_forall. intros o Io. destruct o as [p b m|l t|p|p m|p src]; simpl; auto.
    - unfold inB, bytes_in_play. apply in_or_app; right. apply in_flat_map.
      exists (Swap p b m). split; [exact Io | simpl; auto].
    - unfold inS, srcs_in_play. apply in_flat_map.
      exists (Compile p src). split; [exact Io | simpl; auto].
  Qed.

  Lemma start_inv : Inv detect H inB inS CFb [] (start f0).
  Proof.
    split; [|split]; simpl.
    - intros p b m L. unfold inB, bytes_in_play. apply in_or_app; left.
      eapply flookup_fs_bytes; exact L.
    - intros k e L; discriminate.
    - intros _ k prod L; discriminate.
  Qed.

  Hypothesis WF : wf_history detect H false f0 ops = true.

  Lemma whole_run :
    Forall (good detect H inB inS CFb) (exec detect H false (start f0) ops) /\
    Inv detect H inB inS CFb (exec detect H false (start f0) ops) (final detect H false (start f0) ops).
  Proof.
    apply (run_inv detect H inB inS CFb cf_detect cf_H ops (start f0) [] ops_all_in_play start_inv).
    simpl. intros a b Ia Ib. apply (tracks_agree _ WF); assumption.
  Qed.

  Lemma event_good e : In e (exec detect H false (start f0) ops) -> good detect H inB inS CFb e.
  Proof. intros I. destruct whole_run as [G _]. rewrite Forall_forall in G. auto. Qed.

  (* C12_identity_is_current *)
  Lemma identity_is_current e :
    In e (exec detect H false (start f0) ops) -> identity_current detect e = true.
  Proof. intros I. apply (event_good e I). Qed.

  (* C12_identity_is_current, spelled out *)
  Lemma identity_spelled e id :
    In e (exec detect H false (start f0) ops) -> e_id e = Some id ->
    exists b m, e_cur e = Some (b, m) /\ detect b = Some id.
  Proof.
    intros I E. pose proof (identity_is_current e I) as C. unfold identity_current in C.
    rewrite E in C. destruct (e_cur e) as [[b m]|]; [|discriminate].
    destruct (detect b) as [id'|] eqn:D; [|discriminate].
    apply N.eqb_eq in C; subst id'. exists b, m; auto.
  Qed.

  Lemma served_working e :
    In e (exec detect H false (start f0) ops) ->
    forall b m id, e_cur e = Some (b, m) -> detect b = Some id ->
    served e <> None /\ e_key e = Some (H id (e_src e)).
  Proof. intros I. apply (event_good e I). Qed.

  (* C12_identity_is_current, all three readings *)
  Lemma identity_full e :
    In e (exec detect H false (start f0) ops) ->
    identity_current detect e = true /\
    (forall id, e_id e = Some id -> exists b m, e_cur e = Some (b, m) /\ detect b = Some id) /\
    (forall b m id, e_cur e = Some (b, m) -> detect b = Some id ->
                    served e <> None /\ e_key e = Some (H id (e_src e))).
  Proof.
    intros I. split; [exact (identity_is_current e I)|]. split.
    - intros id. exact (identity_spelled e id I).
    - exact (served_working e I).
  Qed.

  (* C12_no_cross_binary_results *)
  Lemma no_cross e prod :
    CFb -> In e (exec detect H false (start f0) ops) -> served e = Some prod ->
    exists m, e_cur e = Some (prod, m).
  Proof.
    intros cf I Sv. destruct (event_good e I) as [_ [P _]]. specialize (P cf).
    unfold producer_current in P. rewrite Sv in P.
    destruct (e_cur e) as [[b m]|]; [|discriminate].
    apply N.eqb_eq in P; subst. exists m; reflexivity.
  Qed.

  (* C12_distinct_binaries_never_share *)
  Lemma distinct_never_share e1 e2 b1 m1 b2 m2 k1 k2 :
    CFb ->
    In e1 (exec detect H false (start f0) ops) -> In e2 (exec detect H false (start f0) ops) ->
    e_cur e1 = Some (b1, m1) -> e_cur e2 = Some (b2, m2) -> b1 <> b2 ->
    e_key e1 = Some k1 -> e_key e2 = Some k2 -> k1 <> k2.
  Proof.
    intros cf I1 I2 C1 C2 NE K1 K2 EK.
    destruct (event_good e1 I1) as [_ [_ [Ky1 [B1 [S1 _]]]]].
    destruct (event_good e2 I2) as [_ [_ [Ky2 [B2 [S2 _]]]]].
    destruct (Ky1 _ K1) as [i1 [Ei1 ->]]. destruct (Ky2 _ K2) as [i2 [Ei2 ->]].
    destruct (identity_spelled e1 i1 I1 Ei1) as [b1' [m1' [C1' D1]]].
    destruct (identity_spelled e2 i2 I2 Ei2) as [b2' [m2' [C2' D2]]].
    rewrite C1 in C1'; inversion C1'; subst b1' m1'.
    rewrite C2 in C2'; inversion C2'; subst b2' m2'.
    destruct (cf_H cf b1 b2 i1 i2 (e_src e1) (e_src e2) (B1 _ _ C1) (B2 _ _ C2) S1 S2 D1 D2 EK) as [-> _].
    apply NE. eapply (cf_detect cf); eauto.
  Qed.

  (* C12_swap_back *)
  Lemma swap_back h1 p src h2 p' e1 e2 A id m1 m2 :
    CFb ->
    ops = h1 ++ Compile p src :: h2 ++ [Compile p' src] ->
    snd (step detect H false (final detect H false (start f0) h1) (Compile p src)) = Some e1 ->
    snd (step detect H false (final detect H false (start f0) (h1 ++ Compile p src :: h2))
              (Compile p' src)) = Some e2 ->
    detect A = Some id -> e_cur e1 = Some (A, m1) -> e_cur e2 = Some (A, m2) ->
    e_out e1 <> OFail /\ e_out e2 = OHit A.
  Proof.
    intros cf Eo S1 S2 D C1 C2.
    set (sa := final detect H false (start f0) h1) in *.
    set (s2 := final detect H false (start f0) (h1 ++ Compile p src :: h2)) in *.
    simpl in S1, S2.
    destruct (compile detect H false sa p src) as [s1 e1'] eqn:Hc1. simpl in S1. inversion S1; subst e1'.
    destruct (compile detect H false s2 p' src) as [s3 e2'] eqn:Hc2. simpl in S2. inversion S2; subst e2'.
    assert (Ev : exec detect H false (start f0) ops =
                 exec detect H false (start f0) h1 ++ e1 :: exec detect H false s1 h2 ++ [e2]).
    { rewrite Eo. rewrite exec_app. fold sa. f_equal. simpl. rewrite Hc1. simpl. f_equal.
      rewrite exec_app. f_equal.
      assert (Es2 : final detect H false s1 h2 = s2).
      { unfold s2. rewrite final_app. fold sa. simpl. rewrite Hc1. reflexivity. }
      rewrite Es2. simpl. rewrite Hc2. reflexivity. }
    assert (I1 : In e1 (exec detect H false (start f0) ops)).
    { rewrite Ev. apply in_or_app; right; left; reflexivity. }
    assert (I2 : In e2 (exec detect H false (start f0) ops)).
    { rewrite Ev. apply in_or_app; right; right. apply in_or_app; right; left; reflexivity. }
    destruct (compile_shape _ _ _ _ _ _ _ _ Hc1) as [_ [Sr1 _]].
    destruct (compile_shape _ _ _ _ _ _ _ _ Hc2) as [_ [Sr2 _]].
    destruct (served_working e1 I1 A m1 id C1 D) as [Sv1 K1]. rewrite Sr1 in K1.
    destruct (served_working e2 I2 A m2 id C2 D) as [Sv2 K2]. rewrite Sr2 in K2.
    destruct (compile_stores _ _ _ _ _ _ _ _ _ Hc1 K1 Sv1) as [v L1].
    assert (L2 : rlookup (H id src) (results s2) = Some v).
    { unfold s2. rewrite final_app. fold sa. simpl. rewrite Hc1. simpl. apply results_mono; exact L1. }
    pose proof (compile_hit _ _ _ _ _ _ _ _ _ _ Hc2 K2 L2 Sv2) as Out.
    split.
    - intros F. unfold served in Sv1. rewrite F in Sv1. apply Sv1; reflexivity.
    - destruct (no_cross e2 v cf I2) as [m' C2'].
      { unfold served. rewrite Out. reflexivity. }
      rewrite C2 in C2'; inversion C2'; subst. exact Out.
  Qed.
End Closed.

(* ---------- witnesses (concrete digests: bytes ids < 100 are working compilers) ---------- *)

Definition detect_w (b : N) : option N := if b <? 100 then Some (1000 + b) else None.
Definition H_w (id src : N) : N := id * 1000 + src.

(* the documented limit: same mtime, different bytes *)
Definition ops_same_mtime : list op :=
  [Swap (0, 0) 1 5; Compile (0, 0) 0; Swap (0, 0) 2 5; Compile (0, 0) 0].

(* a link named cc retargeted between two differently named binaries with equal mtimes *)
Definition ops_same_mtime_link : list op :=
  [Swap (2, 0) 1 5; Swap (3, 0) 2 5; Retarget (0, 1) (2, 0); Compile (0, 1) 0;
   Retarget (0, 1) (3, 0); Compile (0, 1) 0].

(* the defect in the code as found: two links named gcc to one binary, the first retargeted *)
Definition ops_shared_entry : list op :=
  [Swap (2, 0) 1 5; Swap (3, 0) 2 9; Retarget (0, 0) (2, 0); Retarget (1, 0) (2, 0);
   Compile (0, 0) 0; Retarget (0, 0) (3, 0); Compile (1, 0) 1].

(* a history inside the premise: swap, swap back, links, a non-compiler *)
Definition ops_example : list op :=
  [Swap (0, 0) 1 5; Compile (0, 0) 0; Swap (0, 0) 2 6; Compile (0, 0) 0; Swap (0, 0) 1 5;
   Compile (0, 0) 0; Retarget (1, 0) (0, 0); Compile (1, 0) 0; Swap (0, 0) 100 7; Compile (1, 0) 0;
   Retarget (1, 0) (2, 0); Swap (2, 0) 2 6; Compile (1, 0) 0].

Lemma same_mtime_refuted :
  collision_free_in_play detect_w H_w [] ops_same_mtime = true /\
  wf_history detect_w H_w false [] ops_same_mtime = false /\
  existsb (fun e => negb (identity_current detect_w e) && negb (producer_current e))
          (exec detect_w H_w false (start []) ops_same_mtime) = true.
Proof. vm_compute. auto. Qed.

Lemma same_mtime_link_refuted :
  collision_free_in_play detect_w H_w [] ops_same_mtime_link = true /\
  wf_history detect_w H_w false [] ops_same_mtime_link = false /\
  existsb (fun e => negb (identity_current detect_w e) && negb (producer_current e))
          (exec detect_w H_w false (start []) ops_same_mtime_link) = true.
Proof. vm_compute. auto. Qed.

Lemma shared_entry_refuted :
  collision_free_in_play detect_w H_w [] ops_shared_entry = true /\
  wf_history detect_w H_w true [] ops_shared_entry = true /\
  existsb (fun e => identity_current detect_w e && negb (producer_current e))
          (exec detect_w H_w true (start []) ops_shared_entry) = true /\
  forallb (fun e => identity_current detect_w e && producer_current e)
          (exec detect_w H_w false (start []) ops_shared_entry) = true.
Proof. vm_compute. auto. Qed.

Lemma example_in_premise :
  collision_free_in_play detect_w H_w [] ops_example = true /\
  wf_history detect_w H_w false [] ops_example = true /\
  map e_out (exec detect_w H_w false (start []) ops_example) =
    [OMiss 1; OMiss 2; OHit 1; OHit 1; OUnsupported; OHit 2].
Proof. vm_compute. auto. Qed.
