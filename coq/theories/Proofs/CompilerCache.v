(* Proofs/CompilerCache.v — C12: the memoised compiler detection never hands out a stale
   identity under the property's premise, hence no result crosses between binaries. *)
From Coq Require Import List NArith Bool Lia.
From Sccache Require Import Model.CompilerCache.
Import ListNotations.
Local Open Scope N_scope.

(* ---------- equality tests ---------- *)

Lemma path_eqb_eq (a b : path) : path_eqb a b = true <-> a = b.
Proof.
  destruct a as [a1 a2], b as [b1 b2]; unfold path_eqb; simpl.
  rewrite andb_true_iff, !N.eqb_eq. split.
  - intros [-> ->]; reflexivity.
  - intros E; inversion E; auto.
Qed.

Lemma path_eqb_refl a : path_eqb a a = true.
Proof. apply path_eqb_eq; reflexivity. Qed.

Lemma path_eqb_neq (a b : path) : path_eqb a b = false <-> a <> b.
Proof.
  split.
  - intros E1 E2. apply path_eqb_eq in E2. congruence.
  - intros NE. destruct (path_eqb a b) eqn:E; [apply path_eqb_eq in E; contradiction | reflexivity].
Qed.

Lemma ckey_eqb_eq (a b : ckeyt) : ckey_eqb a b = true <-> a = b.
Proof.
  destruct a as [a1 a2], b as [b1 b2]; unfold ckey_eqb; simpl.
  rewrite andb_true_iff, !path_eqb_eq. split.
  - intros [-> ->]; reflexivity.
  - intros E; inversion E; auto.
Qed.

Lemma ckey_eqb_refl a : ckey_eqb a a = true.
Proof. apply ckey_eqb_eq; reflexivity. Qed.

(* ---------- the file system ---------- *)

Lemma flookup_fremove p q f :
  flookup p (fremove q f) = if path_eqb p q then None else flookup p f.
Proof.
  induction f as [|[r n] f IH]; simpl.
  - destruct (path_eqb p q); reflexivity.
  - destruct (path_eqb q r) eqn:Eqr.
    + apply path_eqb_eq in Eqr; subst r. rewrite IH.
      destruct (path_eqb p q); reflexivity.
    + simpl. rewrite IH. destruct (path_eqb p r) eqn:Epr; [|reflexivity].
      apply path_eqb_eq in Epr; subst r.
      destruct (path_eqb p q) eqn:Epq; [|reflexivity].
      apply path_eqb_eq in Epq; subst q. rewrite path_eqb_refl in Eqr; discriminate.
Qed.

Lemma flookup_fset p q n f :
  flookup p (fset q n f) = if path_eqb p q then Some n else flookup p f.
Proof.
  unfold fset; simpl. destruct (path_eqb p q) eqn:E; [reflexivity|].
  rewrite flookup_fremove, E; reflexivity.
Qed.

Lemma resolve_file n f p t b m :
  resolve n f p = Some (t, (b, m)) -> flookup t f = Some (File b m).
Proof.
  revert p; induction n as [|n IH]; simpl; intros p E; [discriminate|].
  destruct (flookup p f) as [[b' m'|tg]|] eqn:L; try discriminate.
  - inversion E; subst; assumption.
  - eapply IH; eassumption.
Qed.

(* ---------- the compilers map and the result cache ---------- *)

Lemma clookup_cremove k k' c :
  clookup k (cremove k' c) = if ckey_eqb k k' then None else clookup k c.
Proof.
  induction c as [|[r v] c IH]; simpl.
  - destruct (ckey_eqb k k'); reflexivity.
  - destruct (ckey_eqb k' r) eqn:E1.
    + apply ckey_eqb_eq in E1; subst r. rewrite IH. destruct (ckey_eqb k k'); reflexivity.
    + simpl. rewrite IH. destruct (ckey_eqb k r) eqn:E2; [|reflexivity].
      apply ckey_eqb_eq in E2; subst r.
      destruct (ckey_eqb k k') eqn:E3; [|reflexivity].
      apply ckey_eqb_eq in E3; subst k'. rewrite ckey_eqb_refl in E1; discriminate.
Qed.

Lemma clookup_cset k k' v c :
  clookup k (cset k' v c) = if ckey_eqb k k' then Some v else clookup k c.
Proof.
  unfold cset; simpl. destruct (ckey_eqb k k') eqn:E; [reflexivity|].
  rewrite clookup_cremove, E; reflexivity.
Qed.

(* ---------- the premise as a usable fact ---------- *)

Lemma same_key_eq k e : same_key k e = true <-> e_ckey e = Some k.
Proof.
  unfold same_key. destruct (e_ckey e) as [k'|]; split; intros E; try discriminate.
  - apply ckey_eqb_eq in E; subst; reflexivity.
  - inversion E; subst. apply ckey_eqb_refl.
Qed.

Lemma last_same_cons_same k ev rpast : e_ckey ev = Some k -> last_same k (ev :: rpast) = Some ev.
Proof. intros E. unfold last_same; simpl. apply same_key_eq in E. rewrite E. reflexivity. Qed.

Lemma last_same_cons_other k ev rpast :
  e_ckey ev <> Some k -> last_same k (ev :: rpast) = last_same k rpast.
Proof.
  intros NE. unfold last_same; simpl. destruct (same_key k ev) eqn:E; [|reflexivity].
  apply same_key_eq in E. contradiction.
Qed.

Lemma agree_same_bytes prev ev b1 b2 m :
  agree prev ev = true -> e_cur prev = Some (b1, m) -> e_cur0 ev = Some (b2, m) -> b1 = b2.
Proof.
  unfold agree; intros A Ca Cb. rewrite Ca, Cb, N.eqb_refl in A.
  simpl in A. apply N.eqb_eq in A; exact A.
Qed.

Lemma link_ok_use rpast ev k e0 :
  link_ok rpast ev = true -> e_ckey ev = Some k -> last_same k rpast = Some e0 -> agree e0 ev = true.
Proof. unfold link_ok; intros L K S. rewrite K, S in L. exact L. Qed.

(* ---------- exec / final over concatenation ---------- *)

Section Run.
  Variable detect : N -> option N.
  Variable H : N -> N -> N.
  Variable v : variant.

  Lemma final_app s h1 h2 :
    final detect H v s (h1 ++ h2) = final detect H v (final detect H v s h1) h2.
  Proof. revert s; induction h1 as [|o h1 IH]; simpl; intros s; [reflexivity | apply IH]. Qed.

  Lemma exec_app s h1 h2 :
    exec detect H v s (h1 ++ h2) =
    exec detect H v s h1 ++ exec detect H v (final detect H v s h1) h2.
  Proof.
    revert s; induction h1 as [|o h1 IH]; simpl; intros s; [reflexivity|].
    destruct (snd (step detect H v s o)); simpl; rewrite IH; reflexivity.
  Qed.

  Lemma tracks_app rpast a b :
    tracks rpast (a ++ b) = tracks rpast a && tracks (rev a ++ rpast) b.
  Proof.
    revert rpast; induction a as [|e a IH]; intros rpast; simpl; [reflexivity|].
    rewrite IH, <- app_assoc. simpl. rewrite andb_assoc. reflexivity.
  Qed.

  (* ----- what `serve` and `compile` do to the result cache ----- *)

  Lemma serve_shape rs c' f' fsv p src cur0 ck exe id det s' ev :
    serve detect H rs c' f' fsv p src cur0 ck exe id det = (s', ev) ->
    e_path ev = p /\ e_src ev = src /\ e_cur0 ev = cur0 /\ e_ckey ev = ck /\ e_cur ev = stat fsv p /\
    e_id ev = Some id /\ e_key ev = Some (H id src) /\ e_exe ev = Some exe /\
    fsys s' = f' /\ comps s' = c'.
  Proof.
    unfold serve. destruct (stat fsv exe) as [[b0 m0]|].
    - destruct (detect b0).
      + destruct (rlookup (H id src) rs); intros E; inversion E; subst; simpl; repeat split; reflexivity.
      + intros E; inversion E; subst; simpl; repeat split; reflexivity.
    - intros E; inversion E; subst; simpl; repeat split; reflexivity.
  Qed.

  Lemma serve_results rs c' f' fsv p src cur0 ck exe id det s' ev :
    serve detect H rs c' f' fsv p src cur0 ck exe id det = (s', ev) ->
    (results s' = rs /\ (forall q, e_out ev <> OMiss q) /\
     (forall q, e_out ev = OHit q -> rlookup (H id src) rs = Some q) /\
     (served ev <> None -> exists q, e_out ev = OHit q)) \/
    (exists b, e_out ev = OMiss b /\ rlookup (H id src) rs = None /\ results s' = (H id src, b) :: rs).
  Proof.
    unfold serve. destruct (stat fsv exe) as [[b0 m0]|].
    - destruct (detect b0).
      + destruct (rlookup (H id src) rs) eqn:L; intros E; inversion E; subst; simpl.
        * left. split; [reflexivity|]. split; [discriminate|]. split.
          -- intros q Q; inversion Q; subst; reflexivity.
          -- intros _. eexists; reflexivity.
        * right. exists b0. auto.
      + intros E; inversion E; subst; simpl. left. split; [reflexivity|]. split; [discriminate|].
        split; [discriminate|]. unfold served; simpl. intros C; contradiction C; reflexivity.
    - intros E; inversion E; subst; simpl. left. split; [reflexivity|]. split; [discriminate|].
      split; [discriminate|]. unfold served; simpl. intros C; contradiction C; reflexivity.
  Qed.

  Lemma compile_cases s p src env s' ev :
    compile detect H v s p src env = (s', ev) ->
    (results s' = results s /\ e_key ev = None /\ served ev = None) \/
    (exists c' f' fsv cur0 ck exe id det,
       serve detect H (results s) c' f' fsv p src cur0 ck exe id det = (s', ev)).
  Proof.
    unfold compile. destruct (compiler_info detect v (comps s) (fsys s) p env) as [[c' fsv] i].
    destruct i as [| |exe id det].
    - intros E; inversion E; subst; simpl. left; auto.
    - intros E; inversion E; subst; simpl. left; auto.
    - intros E. right. repeat eexists. exact E.
  Qed.

  Lemma compile_shape s p src env s' ev :
    compile detect H v s p src env = (s', ev) ->
    e_path ev = p /\ e_src ev = src /\ e_cur0 ev = stat (fsys s) p /\
    e_ckey ev = req_key v (fsys s) p /\ fsys s' = env_run (fsys s) env.
  Proof.
    unfold compile. destruct (compiler_info detect v (comps s) (fsys s) p env) as [[c' fsv] i].
    destruct i as [| |exe id det].
    - intros E; inversion E; subst; simpl; auto.
    - intros E; inversion E; subst; simpl; auto.
    - intros E. apply serve_shape in E. intuition.
  Qed.

  Lemma compile_hit s p src env s' ev k q :
    compile detect H v s p src env = (s', ev) ->
    e_key ev = Some k -> rlookup k (results s) = Some q -> served ev <> None -> e_out ev = OHit q.
  Proof.
    intros Hc K L Sv. destruct (compile_cases _ _ _ _ _ _ Hc) as [[_ [K0 _]] | Sr].
    - rewrite K0 in K; discriminate.
    - destruct Sr as [c' [f' [fsv [cur0 [ck [exe [id [det E]]]]]]]].
      pose proof (serve_shape _ _ _ _ _ _ _ _ _ _ _ _ _ E) as Sh.
      destruct Sh as [_ [_ [_ [_ [_ [_ [K1 _]]]]]]]. rewrite K1 in K; inversion K; subst k.
      destruct (serve_results _ _ _ _ _ _ _ _ _ _ _ _ _ E) as [[_ [_ [Hq Sv']]] | [b [_ [N0 _]]]].
      + destruct (Sv' Sv) as [q' Q]. rewrite (Hq _ Q) in L. inversion L; subst. exact Q.
      + rewrite N0 in L; discriminate.
  Qed.

  Lemma compile_stores s p src env s' ev k :
    compile detect H v s p src env = (s', ev) ->
    e_key ev = Some k -> served ev <> None -> exists q, rlookup k (results s') = Some q.
  Proof.
    intros Hc K Sv. destruct (compile_cases _ _ _ _ _ _ Hc) as [[_ [K0 _]] | Sr].
    - rewrite K0 in K; discriminate.
    - destruct Sr as [c' [f' [fsv [cur0 [ck [exe [id [det E]]]]]]]].
      pose proof (serve_shape _ _ _ _ _ _ _ _ _ _ _ _ _ E) as Sh.
      destruct Sh as [_ [_ [_ [_ [_ [_ [K1 _]]]]]]]. rewrite K1 in K; inversion K; subst k.
      destruct (serve_results _ _ _ _ _ _ _ _ _ _ _ _ _ E) as [[R [_ [Hq Sv']]] | [b [_ [_ R]]]].
      + destruct (Sv' Sv) as [q' Q]. rewrite R. exists q'. exact (Hq _ Q).
      + rewrite R. simpl. rewrite N.eqb_refl. eexists; reflexivity.
  Qed.

  Lemma compile_mono s p src env s' ev k q :
    compile detect H v s p src env = (s', ev) ->
    rlookup k (results s) = Some q -> rlookup k (results s') = Some q.
  Proof.
    intros Hc L. destruct (compile_cases _ _ _ _ _ _ Hc) as [[R _] | Sr].
    - rewrite R; exact L.
    - destruct Sr as [c' [f' [fsv [cur0 [ck [exe [id [det E]]]]]]]].
      destruct (serve_results _ _ _ _ _ _ _ _ _ _ _ _ _ E) as [[R _] | [b [_ [N0 R]]]].
      + rewrite R; exact L.
      + rewrite R. simpl. destruct (k =? H id src) eqn:E1; [|exact L].
        apply N.eqb_eq in E1; subst k. rewrite L in N0; discriminate.
  Qed.

  Lemma results_mono_step s o k q :
    rlookup k (results s) = Some q -> rlookup k (results (fst (step detect H v s o))) = Some q.
  Proof.
    intros L. destruct o as [p b m|l t|p|p m|p src|p src env]; simpl; try exact L.
    - destruct (compile detect H v s p src []) as [s' ev] eqn:Hc. simpl.
      eapply compile_mono; eassumption.
    - destruct (compile detect H v s p src env) as [s' ev] eqn:Hc. simpl.
      eapply compile_mono; eassumption.
  Qed.

  Lemma results_mono s ops k q :
    rlookup k (results s) = Some q -> rlookup k (results (final detect H v s ops)) = Some q.
  Proof.
    revert s; induction ops as [|o r IH]; simpl; intros s L; [exact L|].
    apply IH. apply results_mono_step; exact L.
  Qed.
End Run.

(* ---------- the code with all fixes (VFixed) ---------- *)

Section Fixed.
  Variable detect : N -> option N.
  Variable H : N -> N -> N.
  (* the binaries and sources "in play" in a history *)
  Variable inB : N -> Prop.
  Variable inS : N -> Prop.
  (* CF = "the digests are collision-free on what is in play".  It is a parameter so that
     the statements that do not need it (the identity is current) are proved without it
     (CF := False) by the same induction. *)
  Variable CF : Prop.
  Hypothesis detect_collision_free :
    CF -> forall b1 b2 i, inB b1 -> inB b2 -> detect b1 = Some i -> detect b2 = Some i -> b1 = b2.
  Hypothesis H_collision_free :
    CF -> forall b1 b2 i1 i2 s1 s2, inB b1 -> inB b2 -> inS s1 -> inS s2 ->
      detect b1 = Some i1 -> detect b2 = Some i2 -> H i1 s1 = H i2 s2 -> i1 = i2 /\ s1 = s2.

  Definition fs_ok (f : fs) : Prop := forall p b m, flookup p f = Some (File b m) -> inB b.

  (* every memoised entry describes what the LAST request with its key was served under *)
  Definition comps_ok (rpast : list event) (c : cmap) : Prop :=
    forall k e, clookup k c = Some (Some e) ->
      ce_exe e = fst k /\
      exists ev b, last_same k rpast = Some ev /\ e_cur ev = Some (b, ce_mtime e) /\
                   (detect b = Some (ce_id e) \/ detect b = None).

  Definition results_ok (r : list (N * N)) : Prop :=
    CF -> forall k prod, rlookup k r = Some prod ->
      inB prod /\ exists id src, inS src /\ detect prod = Some id /\ k = H id src.

  Definition Inv (rpast : list event) (s : state) : Prop :=
    fs_ok (fsys s) /\ comps_ok rpast (comps s) /\ results_ok (results s).

  Definition eop_in_play (o : eop) : Prop := match o with ESwap _ b _ => inB b | _ => True end.

  Definition op_in_play (o : op) : Prop :=
    match o with
    | Swap _ b _ => inB b
    | Compile _ s => inS s
    | CompileW _ s env => inS s /\ Forall eop_in_play env
    | _ => True
    end.

  Definition good (e : event) : Prop :=
    identity_current detect e = true /\ (CF -> producer_current e = true) /\
    (forall k, e_key e = Some k -> exists id, e_id e = Some id /\ k = H id (e_src e)) /\
    (forall b m, e_cur e = Some (b, m) -> inB b) /\
    inS (e_src e) /\
    (e_exe e = None \/ e_exe e = Some (e_path e)) /\
    (* a working compiler at the path is always served, keyed on its own identity *)
    (forall b m id, e_cur e = Some (b, m) -> detect b = Some id ->
                    served e <> None /\ e_key e = Some (H id (e_src e))) /\
    (* and a file that is no compiler never is *)
    (forall b m, e_cur e = Some (b, m) -> detect b = None -> served e = None).

  Lemma resolve_inB n f p t b m : fs_ok f -> resolve n f p = Some (t, (b, m)) -> inB b.
  Proof. intros F R. apply resolve_file in R. eapply F; eassumption. Qed.

  Lemma stat_inB f p b m : fs_ok f -> stat f p = Some (b, m) -> inB b.
  Proof.
    unfold stat. intros F S. destruct (resolve FUEL f p) as [[t [b' m']]|] eqn:R; [|discriminate].
    inversion S; subst. eapply resolve_inB; eassumption.
  Qed.

  Lemma fs_ok_fset_file f p b m : fs_ok f -> inB b -> fs_ok (fset p (File b m) f).
  Proof.
    intros F B q b' m' L. rewrite flookup_fset in L.
    destruct (path_eqb q p); [inversion L; subst; assumption | eapply F; eassumption].
  Qed.

  Lemma fs_ok_fset_link f p t : fs_ok f -> fs_ok (fset p (Link t) f).
  Proof.
    intros F q b' m' L. rewrite flookup_fset in L.
    destruct (path_eqb q p); [discriminate | eapply F; eassumption].
  Qed.

  Lemma fs_ok_fremove f p : fs_ok f -> fs_ok (fremove p f).
  Proof.
    intros F q b' m' L. rewrite flookup_fremove in L.
    destruct (path_eqb q p); [discriminate | eapply F; eassumption].
  Qed.

  Lemma fs_ok_touch f p m : fs_ok f -> fs_ok (touch f p m).
  Proof.
    intros F. unfold touch. destruct (resolve FUEL f p) as [[t [b m0]]|] eqn:R; [|assumption].
    apply fs_ok_fset_file; [assumption | eapply resolve_inB; eassumption].
  Qed.

  Lemma fs_ok_env env : forall f, fs_ok f -> Forall eop_in_play env -> fs_ok (env_run f env).
  Proof.
    induction env as [|o env IH]; intros f F P; simpl; [exact F|].
    inversion P as [|o' env' Po Pe]; subst. apply IH; [|exact Pe].
    destruct o as [p b m|l t|p|p m]; simpl in *.
    - apply fs_ok_fset_file; assumption.
    - apply fs_ok_fset_link; assumption.
    - apply fs_ok_fremove; assumption.
    - apply fs_ok_touch; assumption.
  Qed.

  (* adding an event: entries under other keys are untouched, the entry under the event's own
     key must describe the event *)
  Lemma comps_ok_step rpast c c' ev :
    comps_ok rpast c ->
    (forall k1, e_ckey ev <> Some k1 -> clookup k1 c' = clookup k1 c) ->
    (forall k e, e_ckey ev = Some k -> clookup k c' = Some (Some e) ->
       ce_exe e = fst k /\ exists b, e_cur ev = Some (b, ce_mtime e) /\
                                 (detect b = Some (ce_id e) \/ detect b = None)) ->
    comps_ok (ev :: rpast) c'.
  Proof.
    intros C Other Own k1 e1 L1.
    destruct (e_ckey ev) as [k|] eqn:K.
    - destruct (ckey_eqb k1 k) eqn:E.
      + apply ckey_eqb_eq in E; subst k1. destruct (Own k e1 eq_refl L1) as [X [b [Cb Db]]].
        split; [exact X|]. exists ev, b. split; [apply last_same_cons_same; exact K | auto].
      + assert (NE : Some k <> Some k1).
        { intros E2; inversion E2; subst. rewrite ckey_eqb_refl in E; discriminate. }
        rewrite (Other k1 NE) in L1. destruct (C _ _ L1) as [X [ev0 [b [Ls R]]]].
        split; [exact X|]. exists ev0, b. split; [|exact R].
        rewrite last_same_cons_other; [exact Ls | rewrite K; exact NE].
    - assert (NE : None <> Some k1) by discriminate.
      rewrite (Other k1 NE) in L1. destruct (C _ _ L1) as [X [ev0 [b [Ls R]]]].
      split; [exact X|]. exists ev0, b. split; [|exact R].
      rewrite last_same_cons_other; [exact Ls | rewrite K; exact NE].
  Qed.

  Lemma compiler_info_fixed c f p env c' fsv i :
    compiler_info detect VFixed c f p env = (c', fsv, i) ->
    match resolve FUEL f p with
    | None => c' = c /\ fsv = f /\ i = INoStat
    | Some (t, (b, m)) =>
        let k := (p, if snd t =? snd p then t else p) in
        (exists e, clookup k c = Some (Some e) /\ ce_mtime e = m /\ c' = c /\ fsv = f /\
                   i = IOk (ce_exe e) (ce_id e) false)
        \/ (c' = cset k None c /\ i = IErr /\ (fsv = f \/ fsv = env_run f env) /\
            forall b' m', stat fsv p = Some (b', m') -> detect b' = None)
        \/ (exists id b2 m2, i = IOk p id true /\ fsv = env_run f env /\
              stat fsv p = Some (b2, m2) /\ (detect b2 = Some id \/ detect b2 = None) /\
              (c' = cset k None c \/
               (m2 = m /\ c' = cset k (Some {| ce_exe := p; ce_id := id; ce_mtime := m |}) c)))
    end.
  Proof.
    unfold compiler_info. destruct (resolve FUEL f p) as [[t [b m]]|] eqn:R;
      [|intros E; inversion E; auto].
    unfold ckey, ckey_neg, legacy_key. cbv zeta.
    set (k := (p, if snd t =? snd p then t else p)).
    set (f2 := env_run f env).
    assert (Stf : stat f p = Some (b, m)) by (unfold stat; rewrite R; reflexivity).
    assert (Redetect :
      (match detect b with
       | None => (cset k None c, f, IErr)
       | Some _ =>
           match stat f2 p with
           | None => (cset k None c, f2, IErr)
           | Some (b2, _) =>
               (match (match stat f2 p with Some (_, x) => Some x | None => None end) with
                | Some x => if x =? m
                            then cset k (Some {| ce_exe := p;
                                                 ce_id := match detect b2 with Some i0 => i0 | None => 0 end;
                                                 ce_mtime := m |}) c
                            else cset k None c
                | None => cset k None c
                end, f2, IOk p (match detect b2 with Some i0 => i0 | None => 0 end) true)
           end
       end) = (c', fsv, i) ->
      (c' = cset k None c /\ i = IErr /\ (fsv = f \/ fsv = f2) /\
       forall b' m', stat fsv p = Some (b', m') -> detect b' = None)
      \/ (exists id b2 m2, i = IOk p id true /\ fsv = f2 /\
            stat fsv p = Some (b2, m2) /\ (detect b2 = Some id \/ detect b2 = None) /\
            (c' = cset k None c \/
             (m2 = m /\ c' = cset k (Some {| ce_exe := p; ce_id := id; ce_mtime := m |}) c)))).
    { destruct (detect b) as [idb|] eqn:Db.
      2:{ intros E; inversion E; subst. left. split; [reflexivity|]. split; [reflexivity|].
          split; [left; reflexivity|]. intros b' m' St. rewrite Stf in St. inversion St; subst. exact Db. }
      destruct (stat f2 p) as [[b2 m2]|] eqn:S2.
      2:{ intros E; inversion E; subst. left. split; [reflexivity|]. split; [reflexivity|].
          split; [right; reflexivity|]. intros b' m' St. rewrite S2 in St. discriminate. }
      set (id := match detect b2 with Some i0 => i0 | None => 0 end).
      assert (Did : detect b2 = Some id \/ detect b2 = None).
      { unfold id. destruct (detect b2); [left; reflexivity | right; reflexivity]. }
      destruct (m2 =? m) eqn:M; intros E; inversion E; subst c' fsv i; right; exists id, b2, m2;
        (split; [reflexivity|]); (split; [reflexivity|]); (split; [exact S2|]); (split; [exact Did|]).
      - right. apply N.eqb_eq in M. auto.
      - left. reflexivity. }
    destruct (clookup k c) as [[e|]|] eqn:L.
    - destruct (ce_mtime e =? m) eqn:M.
      + intros E; inversion E; subst. left. exists e. apply N.eqb_eq in M. auto.
      + intros E. right. apply Redetect; assumption.
    - intros E. right. apply Redetect; assumption.
    - intros E. right. apply Redetect; assumption.
  Qed.

  Lemma results_ok_add r k b id src :
    results_ok r -> inB b -> inS src -> detect b = Some id -> k = H id src ->
    results_ok ((k, b) :: r).
  Proof.
    intros R B S D K cf k' prod L. simpl in L. destruct (k' =? k) eqn:E.
    - apply N.eqb_eq in E; subst k'. inversion L; subst prod. split; [assumption|].
      exists id, src; auto.
    - eapply (R cf); eassumption.
  Qed.

  Lemma serve_good rs c' f' fsv p src cur0 ck id det b mm s' ev :
    fs_ok fsv -> results_ok rs -> inS src ->
    stat fsv p = Some (b, mm) -> detect b = Some id ->
    serve detect H rs c' f' fsv p src cur0 ck p id det = (s', ev) ->
    good ev /\ results_ok (results s').
  Proof.
    intros F R S St D. unfold serve. rewrite St, D.
    assert (Bb : inB b) by (eapply stat_inB; eassumption).
    assert (Common : forall ran out,
      (exists q, out = OHit q \/ out = OMiss q) ->
      (CF -> match out with OHit q | OMiss q => q = b | _ => True end) ->
      good (mk_event p src cur0 (Some (b, mm)) ck (Some id) (Some (H id src)) det (Some p) ran out)).
    { intros ran out Sv Pr. unfold good, identity_current, producer_current, served, mk_event; simpl.
      rewrite D, N.eqb_refl.
      split; [reflexivity|]. split.
      { intros cf. specialize (Pr cf). destruct out; auto; subst; apply N.eqb_refl. }
      split. { intros k1 E1; inversion E1; subst. exists id; auto. }
      split. { intros b1 m1 E1; inversion E1; subst; assumption. }
      split; [assumption|]. split; [right; reflexivity|]. split.
      { intros b1 m1 id1 E1 D1. inversion E1; subst b1 m1. rewrite D in D1; inversion D1; subst id1.
        split; [|reflexivity]. destruct Sv as [q [-> | ->]]; discriminate. }
      intros b1 m1 E1 D1. inversion E1; subst b1 m1. rewrite D in D1; discriminate. }
    destruct (rlookup (H id src) rs) as [prod|] eqn:L.
    - intros E; inversion E; subst s' ev; clear E. simpl. split; [|exact R].
      apply Common; [exists prod; left; reflexivity|]. intros cf.
      destruct (R cf _ _ L) as [Bp [id' [src' [S' [D' K']]]]].
      destruct (H_collision_free cf b prod id id' src src' Bb Bp S S' D D' K') as [-> ->].
      eapply (detect_collision_free cf); eassumption.
    - intros E; inversion E; subst s' ev; clear E. simpl. split.
      + apply Common; [exists b; right; reflexivity|]. intros _; reflexivity.
      + eapply results_ok_add; eauto.
  Qed.

  (* what is at the path is no compiler: the preprocessor run fails, nothing is looked up or stored *)
  Lemma serve_fail rs c' f' fsv p src cur0 ck id det b mm s' ev :
    fs_ok fsv -> inS src ->
    stat fsv p = Some (b, mm) -> detect b = None ->
    serve detect H rs c' f' fsv p src cur0 ck p id det = (s', ev) ->
    good ev /\ results s' = rs.
  Proof.
    intros F S St D. unfold serve. rewrite St, D.
    intros E; inversion E; subst s' ev; clear E. simpl. split; [|reflexivity].
    unfold good, identity_current, producer_current, served, mk_event; simpl. rewrite D.
    split; [reflexivity|]. split; [reflexivity|].
    split. { intros k1 E1; inversion E1; subst. exists id; auto. }
    split. { intros b1 m1 E1; inversion E1; subst. eapply stat_inB; eassumption. }
    split; [assumption|]. split; [right; reflexivity|]. split.
    - intros b1 m1 id1 E1 D1. inversion E1; subst b1 m1. rewrite D in D1; discriminate.
    - reflexivity.
  Qed.

  Lemma compile_step rpast s p src env s' ev :
    Inv rpast s -> inS src -> Forall eop_in_play env ->
    compile detect H VFixed s p src env = (s', ev) ->
    link_ok rpast ev = true ->
    good ev /\ Inv (ev :: rpast) s'.
  Proof.
    intros [F [C R]] S Pe Hc Lk.
    destruct (compile_shape _ _ _ _ _ _ _ _ _ Hc) as [Sp [Ss [Sc0 [Sk Sf]]]].
    assert (F' : fs_ok (env_run (fsys s) env)) by (apply fs_ok_env; assumption).
    revert Hc. unfold compile.
    destruct (compiler_info detect VFixed (comps s) (fsys s) p env) as [[c' fsv] i] eqn:CI.
    apply compiler_info_fixed in CI. unfold req_key in Sk.
    destruct (resolve FUEL (fsys s) p) as [[t [b m]]|] eqn:Rs.
    2:{ destruct CI as [-> [-> ->]]. intros E; inversion E; subst s' ev; clear E. split.
        - unfold good, identity_current, producer_current, served, mk_event; simpl.
          split; [reflexivity|]. split; [reflexivity|]. split; [discriminate|].
          split; [discriminate|]. split; [assumption|]. split; [left; reflexivity|].
          split; [discriminate | reflexivity].
        - split; [exact F'|]. split; [|exact R]. simpl.
          eapply comps_ok_step; [exact C | reflexivity |].
          intros k1 e1 K1. unfold mk_event in K1; simpl in K1. unfold req_key in K1. rewrite Rs in K1. discriminate. }
    simpl in Sk, CI.
    set (k := (p, if snd t =? snd p then t else p)) in *.
    assert (Stp : stat (fsys s) p = Some (b, m)) by (unfold stat; rewrite Rs; reflexivity).
    rewrite Stp in Sc0.
    assert (Rk : req_key VFixed (fsys s) p = Some k) by (unfold req_key; rewrite Rs; reflexivity).
    destruct CI as [[e [L [M [-> [-> ->]]]]] | [[-> [-> [Fsv Nd]]] | [id [b2 [m2 [-> [-> [S2 [D2 Cm]]]]]]]]].
    - (* memoised entry reused *)
      destruct (C _ _ L) as [Ex [ev0 [b0 [Ls [C0 D0]]]]]. simpl in Ex.
      assert (b0 = b).
      { apply (agree_same_bytes ev0 ev b0 b m);
          [eapply link_ok_use; eassumption | rewrite <- M; exact C0 | exact Sc0]. }
      subst b0. rewrite Ex. intros E.
      destruct (serve_shape _ _ _ _ _ _ _ _ _ _ _ _ _ _ _ E) as [_ [_ [_ [_ [Cu [_ [_ [_ [Fs Cs]]]]]]]]].
      assert (G : good ev /\ results_ok (results s')).
      { destruct D0 as [D0 | D0].
        - exact (serve_good _ _ _ _ _ _ _ _ _ _ _ _ _ _ F R S Stp D0 E).
        - destruct (serve_fail _ _ _ _ _ _ _ _ _ _ _ _ _ _ F S Stp D0 E) as [G ->]. auto. }
      destruct G as [G R'].
      split; [exact G|]. split; [rewrite Fs; exact F'|]. split; [|exact R']. rewrite Cs.
      eapply comps_ok_step; [exact C | reflexivity |].
      intros k1 e1 K1 L1. rewrite Sk in K1; inversion K1; subst k1. rewrite L in L1; inversion L1; subst e1.
      split; [exact Ex|]. exists b. rewrite Cu, Stp, M. auto.
    - (* detection failed *)
      assert (Fv : fs_ok fsv) by (destruct Fsv as [-> | ->]; assumption).
      intros E; inversion E; subst s' ev; clear E. split.
      + unfold good, identity_current, producer_current, served, mk_event; simpl.
        split; [reflexivity|]. split; [reflexivity|]. split; [discriminate|].
        split; [intros b1 m1 E1; eapply stat_inB; eassumption|].
        split; [assumption|]. split; [left; reflexivity|]. split.
        * intros b1 m1 id1 E1 D1. rewrite (Nd _ _ E1) in D1. discriminate.
        * reflexivity.
      + split; [exact F'|]. split; [|exact R]. cbn [comps].
        eapply comps_ok_step; [exact C | |].
        * unfold mk_event; cbn [e_ckey e_cur]. rewrite Rk. intros k1 NE. rewrite clookup_cset.
          destruct (ckey_eqb k1 k) eqn:E1; [|reflexivity].
          apply ckey_eqb_eq in E1; subst k1. contradiction NE; reflexivity.
        * unfold mk_event; cbn [e_ckey e_cur]. rewrite Rk. intros k1 e1 K1 L1. inversion K1; subst k1.
          rewrite clookup_cset, ckey_eqb_refl in L1. discriminate.
    - (* detected afresh, in the file system the window left behind *)
      intros E.
      destruct (serve_shape _ _ _ _ _ _ _ _ _ _ _ _ _ _ _ E) as [_ [_ [_ [_ [Cu [_ [_ [_ [Fs Cs]]]]]]]]].
      assert (G : good ev /\ results_ok (results s')).
      { destruct D2 as [D2 | D2].
        - exact (serve_good _ _ _ _ _ _ _ _ _ _ _ _ _ _ F' R S S2 D2 E).
        - destruct (serve_fail _ _ _ _ _ _ _ _ _ _ _ _ _ _ F' S S2 D2 E) as [G ->]. auto. }
      destruct G as [G R'].
      split; [exact G|]. split; [rewrite Fs; exact F'|]. split; [|exact R']. rewrite Cs.
      eapply comps_ok_step; [exact C | |].
      + intros k1 NE. rewrite Sk in NE.
        assert (E1 : ckey_eqb k1 k = false).
        { destruct (ckey_eqb k1 k) eqn:E1; [|reflexivity].
          apply ckey_eqb_eq in E1; subst k1. contradiction NE; reflexivity. }
        destruct Cm as [-> | [_ ->]]; rewrite clookup_cset, E1; reflexivity.
      + intros k1 e1 K1 L1. rewrite Sk in K1; inversion K1; subst k1.
        destruct Cm as [-> | [Mm ->]]; rewrite clookup_cset, ckey_eqb_refl in L1; [discriminate|].
        inversion L1; subst e1; simpl. split; [reflexivity|].
        exists b2. rewrite Cu, S2, Mm. auto.
  Qed.

  Lemma step_inv rpast s o :
    Inv rpast s -> op_in_play o ->
    (forall ev, snd (step detect H VFixed s o) = Some ev -> link_ok rpast ev = true) ->
    match snd (step detect H VFixed s o) with
    | Some ev => good ev /\ Inv (ev :: rpast) (fst (step detect H VFixed s o))
    | None => Inv rpast (fst (step detect H VFixed s o))
    end.
  Proof.
    intros I P A. destruct o as [p b m|l t|p|p m|p src|p src env]; simpl in *.
    - destruct I as [F [C R]]. split; [|split]; simpl; auto. apply fs_ok_fset_file; assumption.
    - destruct I as [F [C R]]. split; [|split]; simpl; auto. apply fs_ok_fset_link; assumption.
    - destruct I as [F [C R]]. split; [|split]; simpl; auto. apply fs_ok_fremove; assumption.
    - destruct I as [F [C R]]. split; [|split]; simpl; auto. apply fs_ok_touch; assumption.
    - destruct (compile detect H VFixed s p src []) as [s' ev] eqn:Hc. simpl in *.
      eapply compile_step; eauto.
    - destruct (compile detect H VFixed s p src env) as [s' ev] eqn:Hc. simpl in *.
      destruct P as [Ps Pe]. eapply compile_step; eauto.
  Qed.

  Lemma run_inv ops : forall s rpast,
    Forall op_in_play ops -> Inv rpast s ->
    tracks rpast (exec detect H VFixed s ops) = true ->
    Forall good (exec detect H VFixed s ops).
  Proof.
    induction ops as [|o r IH]; intros s rpast P I T; simpl; [constructor|].
    inversion P as [|o' r' Po Pr]; subst. simpl in T.
    pose proof (step_inv rpast s o I Po) as St.
    destruct (snd (step detect H VFixed s o)) as [ev|] eqn:Sn.
    - simpl in T. apply andb_true_iff in T as [T1 T2].
      destruct St as [G I']; [intros ev' E; inversion E; subst; exact T1|].
      constructor; [exact G|]. eapply IH; eassumption.
    - eapply IH; [exact Pr | | exact T]. apply St. intros ev' E; discriminate.
  Qed.
End Fixed.

(* ---------- closing: from the boolean premises to the theorems ---------- *)

Lemma flookup_fs_bytes p f b m : flookup p f = Some (File b m) -> In b (fs_bytes f).
Proof.
  induction f as [|[q n] f IH]; simpl; [discriminate|].
  destruct (path_eqb p q).
  - intros E; inversion E; subst n. simpl. left; reflexivity.
  - intros E. apply in_or_app; right. apply IH; exact E.
Qed.

Section Closed.
  Variable detect : N -> option N.
  Variable H : N -> N -> N.
  Variable f0 : fs.
  Variable ops : list op.

  Let inB (b : N) : Prop := In b (bytes_in_play f0 ops).
  Let inS (s : N) : Prop := In s (srcs_in_play ops).
  Let CFb : Prop := collision_free_in_play detect H f0 ops = true.

  Lemma cf_pair b1 b2 i1 i2 :
    CFb -> inB b1 -> inB b2 -> detect b1 = Some i1 -> detect b2 = Some i2 ->
    (i1 = i2 -> b1 = b2) /\
    (forall s1 s2, inS s1 -> inS s2 -> H i1 s1 = H i2 s2 -> i1 = i2 /\ s1 = s2).
  Proof.
    unfold CFb, collision_free_in_play, inB, inS. intros C B1 B2 D1 D2.
    rewrite forallb_forall in C. specialize (C b1 B1).
    rewrite forallb_forall in C. specialize (C b2 B2).
    rewrite D1, D2 in C. apply andb_true_iff in C as [C1 C2]. split.
    - intros ->. rewrite N.eqb_refl in C1. simpl in C1. apply N.eqb_eq; exact C1.
    - intros s1 s2 S1 S2 E.
      rewrite forallb_forall in C2. specialize (C2 s1 S1).
      rewrite forallb_forall in C2. specialize (C2 s2 S2).
      rewrite E, N.eqb_refl in C2. simpl in C2.
      apply andb_true_iff in C2 as [A B]. apply N.eqb_eq in A, B. auto.
  Qed.

  Lemma cf_detect :
    CFb -> forall b1 b2 i, inB b1 -> inB b2 -> detect b1 = Some i -> detect b2 = Some i -> b1 = b2.
  Proof. intros C b1 b2 i B1 B2 D1 D2. destruct (cf_pair b1 b2 i i C B1 B2 D1 D2) as [A _]. auto. Qed.

  Lemma cf_H :
    CFb -> forall b1 b2 i1 i2 s1 s2, inB b1 -> inB b2 -> inS s1 -> inS s2 ->
      detect b1 = Some i1 -> detect b2 = Some i2 -> H i1 s1 = H i2 s2 -> i1 = i2 /\ s1 = s2.
  Proof.
    intros C b1 b2 i1 i2 s1 s2 B1 B2 S1 S2 D1 D2 E.
    destruct (cf_pair b1 b2 i1 i2 C B1 B2 D1 D2) as [_ A]. auto.
  Qed.

  Lemma ops_all_in_play : Forall (op_in_play inB inS) ops.
  Proof.
    apply Forall_forall. intros o Io. destruct o as [p b m|l t|p|p m|p src|p src env]; simpl; auto.
    - unfold inB, bytes_in_play. apply in_or_app; right. apply in_flat_map.
      exists (Swap p b m). split; [exact Io | simpl; auto].
    - unfold inS, srcs_in_play. apply in_flat_map.
      exists (Compile p src). split; [exact Io | simpl; auto].
    - split.
      + unfold inS, srcs_in_play. apply in_flat_map.
        exists (CompileW p src env). split; [exact Io | simpl; auto].
      + apply Forall_forall. intros eo Ie. destruct eo as [q b m|l t|q|q m]; simpl; auto.
        unfold inB, bytes_in_play. apply in_or_app; right. apply in_flat_map.
        exists (CompileW p src env). split; [exact Io|]. simpl. apply in_flat_map.
        exists (ESwap q b m). split; [exact Ie | simpl; auto].
  Qed.

  Lemma start_inv : Inv detect H inB inS CFb [] (start f0).
  Proof.
    split; [|split]; simpl.
    - intros p b m L. unfold inB, bytes_in_play. apply in_or_app; left.
      eapply flookup_fs_bytes; exact L.
    - intros k e L; discriminate.
    - intros _ k prod L; discriminate.
  Qed.

  Hypothesis WF : wf_history detect H VFixed f0 ops = true.

  Lemma whole_run : Forall (good detect H inB inS CFb) (exec detect H VFixed (start f0) ops).
  Proof.
    exact (run_inv detect H inB inS CFb cf_detect cf_H ops (start f0) [] ops_all_in_play start_inv WF).
  Qed.

  Lemma event_good e : In e (exec detect H VFixed (start f0) ops) -> good detect H inB inS CFb e.
  Proof. intros I. pose proof whole_run as G. rewrite Forall_forall in G. auto. Qed.

  Lemma identity_is_current e :
    In e (exec detect H VFixed (start f0) ops) -> identity_current detect e = true.
  Proof. intros I. apply (event_good e I). Qed.

  Lemma not_served_without_compiler e :
    In e (exec detect H VFixed (start f0) ops) ->
    forall b m, e_cur e = Some (b, m) -> detect b = None -> served e = None.
  Proof. intros I. apply (event_good e I). Qed.

  Lemma identity_spelled e id :
    In e (exec detect H VFixed (start f0) ops) -> e_id e = Some id -> served e <> None ->
    exists b m, e_cur e = Some (b, m) /\ detect b = Some id.
  Proof.
    intros I E Sv. pose proof (identity_is_current e I) as C. unfold identity_current in C.
    rewrite E in C. destruct (e_cur e) as [[b m]|] eqn:Cu; [|discriminate].
    destruct (detect b) as [id'|] eqn:D.
    - apply N.eqb_eq in C; subst id'. exists b, m; auto.
    - contradiction Sv. eapply not_served_without_compiler; eassumption.
  Qed.

  Lemma served_working e :
    In e (exec detect H VFixed (start f0) ops) ->
    forall b m id, e_cur e = Some (b, m) -> detect b = Some id ->
    served e <> None /\ e_key e = Some (H id (e_src e)).
  Proof. intros I. apply (event_good e I). Qed.

  (* C12_identity_is_current, all readings *)
  Lemma identity_full e :
    In e (exec detect H VFixed (start f0) ops) ->
    identity_current detect e = true /\
    (forall id, e_id e = Some id -> served e <> None ->
                exists b m, e_cur e = Some (b, m) /\ detect b = Some id) /\
    (forall b m id, e_cur e = Some (b, m) -> detect b = Some id ->
                    served e <> None /\ e_key e = Some (H id (e_src e))) /\
    (forall b m, e_cur e = Some (b, m) -> detect b = None -> served e = None).
  Proof.
    intros I. split; [exact (identity_is_current e I)|]. split; [|split].
    - intros id. exact (identity_spelled e id I).
    - exact (served_working e I).
    - exact (not_served_without_compiler e I).
  Qed.

  (* C12_no_cross_binary_results *)
  Lemma no_cross e prod :
    CFb -> In e (exec detect H VFixed (start f0) ops) -> served e = Some prod ->
    exists m, e_cur e = Some (prod, m).
  Proof.
    intros cf I Sv. destruct (event_good e I) as [_ [P _]]. specialize (P cf).
    unfold producer_current in P. rewrite Sv in P.
    destruct (e_cur e) as [[b m]|]; [|discriminate].
    apply N.eqb_eq in P; subst. exists m; reflexivity.
  Qed.

  (* C12_distinct_binaries_never_share *)
  Lemma distinct_never_share e1 e2 b1 m1 b2 m2 i1 i2 :
    CFb ->
    In e1 (exec detect H VFixed (start f0) ops) -> In e2 (exec detect H VFixed (start f0) ops) ->
    e_cur e1 = Some (b1, m1) -> e_cur e2 = Some (b2, m2) ->
    detect b1 = Some i1 -> detect b2 = Some i2 -> b1 <> b2 ->
    exists k1 k2, e_key e1 = Some k1 /\ e_key e2 = Some k2 /\ k1 <> k2.
  Proof.
    intros cf I1 I2 C1 C2 D1 D2 NE.
    destruct (event_good e1 I1) as [_ [_ [_ [B1 [S1 _]]]]].
    destruct (event_good e2 I2) as [_ [_ [_ [B2 [S2 _]]]]].
    destruct (served_working e1 I1 b1 m1 i1 C1 D1) as [_ K1].
    destruct (served_working e2 I2 b2 m2 i2 C2 D2) as [_ K2].
    exists (H i1 (e_src e1)), (H i2 (e_src e2)). split; [exact K1|]. split; [exact K2|].
    intros EK.
    destruct (cf_H cf b1 b2 i1 i2 (e_src e1) (e_src e2) (B1 _ _ C1) (B2 _ _ C2) S1 S2 D1 D2 EK) as [-> _].
    apply NE. eapply (cf_detect cf); eauto.
  Qed.

  (* C12_swap_back *)
  Lemma swap_back h1 p src h2 p' e1 e2 A id m1 m2 :
    CFb ->
    ops = h1 ++ Compile p src :: h2 ++ [Compile p' src] ->
    snd (step detect H VFixed (final detect H VFixed (start f0) h1) (Compile p src)) = Some e1 ->
    snd (step detect H VFixed (final detect H VFixed (start f0) (h1 ++ Compile p src :: h2))
              (Compile p' src)) = Some e2 ->
    detect A = Some id -> e_cur e1 = Some (A, m1) -> e_cur e2 = Some (A, m2) ->
    e_out e1 <> OFail /\ e_out e2 = OHit A.
  Proof.
    intros cf Eo S1 S2 D C1 C2.
    set (sa := final detect H VFixed (start f0) h1) in *.
    set (s2 := final detect H VFixed (start f0) (h1 ++ Compile p src :: h2)) in *.
    simpl in S1, S2.
    destruct (compile detect H VFixed sa p src []) as [s1 e1'] eqn:Hc1. simpl in S1. inversion S1; subst e1'.
    destruct (compile detect H VFixed s2 p' src []) as [s3 e2'] eqn:Hc2. simpl in S2. inversion S2; subst e2'.
    assert (Ev : exec detect H VFixed (start f0) ops =
                 exec detect H VFixed (start f0) h1 ++ e1 :: exec detect H VFixed s1 h2 ++ [e2]).
    { rewrite Eo. rewrite exec_app. fold sa. f_equal. simpl. rewrite Hc1. simpl. f_equal.
      rewrite exec_app. f_equal.
      assert (Es2 : final detect H VFixed s1 h2 = s2).
      { unfold s2. rewrite final_app. fold sa. simpl. rewrite Hc1. reflexivity. }
      rewrite Es2. simpl. rewrite Hc2. reflexivity. }
    assert (I1 : In e1 (exec detect H VFixed (start f0) ops)).
    { rewrite Ev. apply in_or_app; right; left; reflexivity. }
    assert (I2 : In e2 (exec detect H VFixed (start f0) ops)).
    { rewrite Ev. apply in_or_app; right; right. apply in_or_app; right; left; reflexivity. }
    destruct (compile_shape _ _ _ _ _ _ _ _ _ Hc1) as [_ [Sr1 _]].
    destruct (compile_shape _ _ _ _ _ _ _ _ _ Hc2) as [_ [Sr2 _]].
    destruct (served_working e1 I1 A m1 id C1 D) as [Sv1 K1]. rewrite Sr1 in K1.
    destruct (served_working e2 I2 A m2 id C2 D) as [Sv2 K2]. rewrite Sr2 in K2.
    destruct (compile_stores _ _ _ _ _ _ _ _ _ _ Hc1 K1 Sv1) as [q L1].
    assert (L2 : rlookup (H id src) (results s2) = Some q).
    { unfold s2. rewrite final_app. fold sa. simpl. rewrite Hc1. simpl. apply results_mono; exact L1. }
    pose proof (compile_hit _ _ _ _ _ _ _ _ _ _ _ Hc2 K2 L2 Sv2) as Out.
    split.
    - intros F. unfold served in Sv1. rewrite F in Sv1. apply Sv1; reflexivity.
    - destruct (no_cross e2 q cf I2) as [m' C2'].
      { unfold served. rewrite Out. reflexivity. }
      rewrite C2 in C2'; inversion C2'; subst. exact Out.
  Qed.
End Closed.

(* ---------- without a window the re-stat changes nothing: as found = fixed ---------- *)

Section Windowless.
  Variable detect : N -> option N.
  Variable H : N -> N -> N.

  Lemma compiler_info_no_window c f p :
    compiler_info detect VAsFound c f p [] = compiler_info detect VFixed c f p [].
  Proof.
    unfold compiler_info. simpl env_run.
    destruct (resolve FUEL f p) as [[t [b m]]|] eqn:R; [|reflexivity].
    assert (St : stat f p = Some (b, m)) by (unfold stat; rewrite R; reflexivity).
    simpl legacy_key. cbv zeta. rewrite St.
    destruct (detect b) as [id|] eqn:D; [|reflexivity].
    rewrite N.eqb_refl. reflexivity.
  Qed.

  Lemma compile_no_window s p src :
    compile detect H VAsFound s p src [] = compile detect H VFixed s p src [].
  Proof. unfold compile. rewrite compiler_info_no_window. reflexivity. Qed.

  Lemma step_no_window s o :
    (match o with CompileW _ _ (_ :: _) => false | _ => true end) = true ->
    step detect H VAsFound s o = step detect H VFixed s o.
  Proof.
    destruct o as [p b m|l t|p|p m|p src|p src env]; simpl; intros W; try reflexivity.
    - rewrite compile_no_window; reflexivity.
    - destruct env; [|discriminate]. rewrite compile_no_window; reflexivity.
  Qed.

  Lemma windowless_same ops : forall s,
    windowless ops = true ->
    exec detect H VAsFound s ops = exec detect H VFixed s ops /\
    final detect H VAsFound s ops = final detect H VFixed s ops.
  Proof.
    induction ops as [|o r IH]; intros s W; simpl; [auto|].
    unfold windowless in W. simpl in W. apply andb_true_iff in W as [Wo Wr].
    rewrite (step_no_window s o Wo).
    destruct (IH (fst (step detect H VFixed s o)) Wr) as [E F]. rewrite E, F. auto.
  Qed.
End Windowless.

(* ---------- witnesses (concrete digests: bytes ids < 100 are working compilers) ---------- *)

Definition detect_w (b : N) : option N := if b <? 100 then Some (1000 + b) else None.
Definition H_w (id src : N) : N := id * 1000 + src.

(* the documented limit: same mtime, different bytes *)
Definition ops_same_mtime : list op :=
  [Swap (0, 0) 1 5; Compile (0, 0) 0; Swap (0, 0) 2 5; Compile (0, 0) 0].

(* a link named cc retargeted between two differently named binaries with equal mtimes *)
Definition ops_same_mtime_link : list op :=
  [Swap (2, 0) 1 5; Swap (3, 0) 2 5; Retarget (0, 1) (2, 0); Compile (0, 1) 0;
   Retarget (0, 1) (3, 0); Compile (0, 1) 0].

(* the first defect in the code as found: two links named gcc to one binary, the first retargeted *)
Definition ops_shared_entry : list op :=
  [Swap (2, 0) 1 5; Swap (3, 0) 2 9; Retarget (0, 0) (2, 0); Retarget (1, 0) (2, 0);
   Compile (0, 0) 0; Retarget (0, 0) (3, 0); Compile (1, 0) 1].

(* a swap while a detection is in flight, the new binary stays: harmless unless the mtime
   recorded is the one read AFTER the detection (VEarlyLate) *)
Definition ops_window_swap : list op :=
  [Swap (0, 0) 1 5; CompileW (0, 0) 0 [ESwap (0, 0) 2 6]; Compile (0, 0) 1; Compile (0, 0) 0].

(* a swap while a detection is in flight, then the OLD file put back with its original mtime
   before any other request: breaks the code that memoises unconditionally (VAsFound) *)
Definition ops_window_restore : list op :=
  [Swap (0, 0) 1 5; CompileW (0, 0) 0 [ESwap (0, 0) 2 6]; Swap (0, 0) 1 5; Compile (0, 0) 1;
   Compile (0, 0) 0].

(* three binaries, the third re-using the first one's mtime, each seen in between *)
Definition ops_recycled_mtime : list op :=
  [Swap (0, 0) 1 5; Compile (0, 0) 0; Swap (0, 0) 2 7; Compile (0, 0) 0; Swap (0, 0) 3 5;
   Compile (0, 0) 0; Compile (0, 0) 1; Swap (0, 0) 2 7; Compile (0, 0) 1; Swap (0, 0) 1 5;
   Compile (0, 0) 1; Compile (0, 0) 0].

(* a history inside the premise: swap, swap back, links, a non-compiler, windows *)
Definition ops_example : list op :=
  [Swap (0, 0) 1 5; Compile (0, 0) 0; Swap (0, 0) 2 6; Compile (0, 0) 0; Swap (0, 0) 1 5;
   Compile (0, 0) 0; Retarget (1, 0) (0, 0); Compile (1, 0) 0; Swap (0, 0) 100 7; Compile (1, 0) 0;
   Retarget (1, 0) (2, 0); Swap (2, 0) 2 6; Compile (1, 0) 0; Swap (2, 0) 2 9;
   CompileW (1, 0) 1 [ESwap (2, 0) 3 8]; Swap (2, 0) 2 6; Compile (1, 0) 1; Compile (1, 0) 0].

Definition all_right (v : variant) (ops : list op) : bool :=
  forallb (fun e => identity_current detect_w e && producer_current e)
          (exec detect_w H_w v (start []) ops).

Definition some_stale (v : variant) (ops : list op) : bool :=
  existsb (fun e => negb (identity_current detect_w e))
          (exec detect_w H_w v (start []) ops).

Lemma same_mtime_refuted :
  collision_free_in_play detect_w H_w [] ops_same_mtime = true /\
  wf_history detect_w H_w VFixed [] ops_same_mtime = false /\
  existsb (fun e => negb (identity_current detect_w e) && negb (producer_current e))
          (exec detect_w H_w VFixed (start []) ops_same_mtime) = true.
Proof. vm_compute. auto. Qed.

Lemma same_mtime_link_refuted :
  collision_free_in_play detect_w H_w [] ops_same_mtime_link = true /\
  wf_history detect_w H_w VFixed [] ops_same_mtime_link = false /\
  existsb (fun e => negb (identity_current detect_w e) && negb (producer_current e))
          (exec detect_w H_w VFixed (start []) ops_same_mtime_link) = true.
Proof. vm_compute. auto. Qed.

Lemma shared_entry_refuted :
  collision_free_in_play detect_w H_w [] ops_shared_entry = true /\
  wf_history detect_w H_w VLegacy [] ops_shared_entry = true /\
  existsb (fun e => identity_current detect_w e && negb (producer_current e))
          (exec detect_w H_w VLegacy (start []) ops_shared_entry) = true /\
  all_right VFixed ops_shared_entry = true.
Proof. vm_compute. auto. Qed.

Lemma window_refuted :
  (* mtime recorded after, digest taken before: a swap in the window is permanent *)
  (collision_free_in_play detect_w H_w [] ops_window_swap = true /\
   wf_history detect_w H_w VEarlyLate [] ops_window_swap = true /\
   some_stale VEarlyLate ops_window_swap = true /\
   all_right VAsFound ops_window_swap = true /\ all_right VFixed ops_window_swap = true) /\
  (* memoising unconditionally: the old file put back with its old mtime is keyed on the new one *)
  (collision_free_in_play detect_w H_w [] ops_window_restore = true /\
   wf_history detect_w H_w VAsFound [] ops_window_restore = true /\
   some_stale VAsFound ops_window_restore = true /\
   wf_history detect_w H_w VFixed [] ops_window_restore = true /\
   all_right VFixed ops_window_restore = true).
Proof. vm_compute. auto 10. Qed.

Lemma example_in_premise :
  collision_free_in_play detect_w H_w [] ops_example = true /\
  wf_history detect_w H_w VFixed [] ops_example = true /\
  map e_out (exec detect_w H_w VFixed (start []) ops_example) =
    [OMiss 1; OMiss 2; OHit 1; OHit 1; OUnsupported; OHit 2; OMiss 3; OMiss 2; OHit 2] /\
  (* A -> B -> C with A and C sharing an mtime, each seen in between, is inside the premise *)
  wf_history detect_w H_w VFixed [] ops_recycled_mtime = true /\
  map e_out (exec detect_w H_w VFixed (start []) ops_recycled_mtime) =
    [OMiss 1; OMiss 2; OMiss 3; OMiss 3; OMiss 2; OMiss 1; OHit 1].
Proof. vm_compute. auto 10. Qed.
