(* Proofs/CompilerCache.v — C12: the memoised compiler detection never hands out a stale
   identity under the property's premise, hence no result crosses between binaries. *)
From Coq Require Import List NArith Bool Lia.
From Sccache Require Import Model.CompilerCache.
Import ListNotations.
Local Open Scope N_scope.

(* ---------- equality tests ---------- *)

Lemma path_eqb_eq (a b : path) : path_eqb a b = true <-> a = b.
Proof.
  destruct a as [a1 a2], b as [b1 b2]; unfold path_eqb; simpl.
  rewrite andb_true_iff, !N.eqb_eq. split.
  - intros [-> ->]; reflexivity.
  - intros E; inversion E; auto.
Qed.

Lemma path_eqb_refl a : path_eqb a a = true.
Proof. apply path_eqb_eq; reflexivity. Qed.

Lemma path_eqb_neq (a b : path) : path_eqb a b = false <-> a <> b.
Proof.
  split.
  - intros E1 E2. apply path_eqb_eq in E2. congruence.
  - intros NE. destruct (path_eqb a b) eqn:E; [apply path_eqb_eq in E; contradiction | reflexivity].
Qed.

Lemma ckey_eqb_eq (a b : ckeyt) : ckey_eqb a b = true <-> a = b.
Proof.
  destruct a as [a1 a2], b as [b1 b2]; unfold ckey_eqb; simpl.
  rewrite andb_true_iff, !path_eqb_eq. split.
  - intros [-> ->]; reflexivity.
  - intros E; inversion E; auto.
Qed.

Lemma ckey_eqb_refl a : ckey_eqb a a = true.
Proof. apply ckey_eqb_eq; reflexivity. Qed.

(* ---------- the file system ---------- *)

Lemma flookup_fremove p q f :
  flookup p (fremove q f) = if path_eqb p q then None else flookup p f.
Proof.
  induction f as [|[r n] f IH]; simpl.
  - destruct (path_eqb p q); reflexivity.
  - destruct (path_eqb q r) eqn:Eqr.
    + apply path_eqb_eq in Eqr; subst r. rewrite IH.
      destruct (path_eqb p q); reflexivity.
    + simpl. rewrite IH. destruct (path_eqb p r) eqn:Epr; [|reflexivity].
      apply path_eqb_eq in Epr; subst r.
      destruct (path_eqb p q) eqn:Epq; [|reflexivity].
      apply path_eqb_eq in Epq; subst q. rewrite path_eqb_refl in Eqr; discriminate.
Qed.

Lemma flookup_fset p q n f :
  flookup p (fset q n f) = if path_eqb p q then Some n else flookup p f.
Proof.
  unfold fset; simpl. destruct (path_eqb p q) eqn:E; [reflexivity|].
  rewrite flookup_fremove, E; reflexivity.
Qed.

Lemma resolve_file n f p t b m :
  resolve n f p = Some (t, (b, m)) -> flookup t f = Some (File b m).
Proof.
  revert p; induction n as [|n IH]; simpl; intros p E; [discriminate|].
  destruct (flookup p f) as [[b' m'|tg]|] eqn:L; try discriminate.
  - inversion E; subst; assumption.
  - eapply IH; eassumption.
Qed.

(* ---------- the compilers map and the result cache ---------- *)

Lemma clookup_cremove k k' c :
  clookup k (cremove k' c) = if ckey_eqb k k' then None else clookup k c.
Proof.
  induction c as [|[r v] c IH]; simpl.
  - destruct (ckey_eqb k k'); reflexivity.
  - destruct (ckey_eqb k' r) eqn:E1.
    + apply ckey_eqb_eq in E1; subst r. rewrite IH. destruct (ckey_eqb k k'); reflexivity.
    + simpl. rewrite IH. destruct (ckey_eqb k r) eqn:E2; [|reflexivity].
      apply ckey_eqb_eq in E2; subst r.
      destruct (ckey_eqb k k') eqn:E3; [|reflexivity].
      apply ckey_eqb_eq in E3; subst k'. rewrite ckey_eqb_refl in E1; discriminate.
Qed.

Lemma clookup_cset k k' v c :
  clookup k (cset k' v c) = if ckey_eqb k k' then Some v else clookup k c.
Proof.
  unfold cset; simpl. destruct (ckey_eqb k k') eqn:E; [reflexivity|].
  rewrite clookup_cremove, E; reflexivity.
Qed.

(* ---------- the premise as a usable fact ---------- *)

Lemma tracks_agree evs :
  mtime_tracks_content evs = true -> forall a b, In a evs -> In b evs -> agree a b = true.
Proof.
  unfold mtime_tracks_content; intros Hall a b Ia Ib.
  rewrite forallb_forall in Hall. specialize (Hall a Ia).
  rewrite forallb_forall in Hall. exact (Hall b Ib).
Qed.

Lemma agree_same_bytes a b p b1 b2 m :
  agree a b = true -> e_path a = p -> e_path b = p ->
  e_cur a = Some (b1, m) -> e_cur b = Some (b2, m) -> b1 = b2.
Proof.
  unfold agree; intros A Pa Pb Ca Cb. rewrite Ca, Cb, Pa, Pb, path_eqb_refl, N.eqb_refl in A.
  simpl in A. apply N.eqb_eq in A; exact A.
Qed.

(* ---------- exec / final over concatenation ---------- *)

Section Run.
  Variable detect : N -> option N.
  Variable H : N -> N -> N.
  Variable legacy : bool.

  Lemma final_app s h1 h2 :
    final detect H legacy s (h1 ++ h2) = final detect H legacy (final detect H legacy s h1) h2.
  Proof. revert s; induction h1 as [|o h1 IH]; simpl; intros s; [reflexivity | apply IH]. Qed.

  Lemma exec_app s h1 h2 :
    exec detect H legacy s (h1 ++ h2) =
    exec detect H legacy s h1 ++ exec detect H legacy (final detect H legacy s h1) h2.
  Proof.
    revert s; induction h1 as [|o h1 IH]; simpl; intros s; [reflexivity|].
    destruct (snd (step detect H legacy s o)); simpl; rewrite IH; reflexivity.
  Qed.
End Run.
