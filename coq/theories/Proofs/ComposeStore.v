(* Proofs/ComposeStore.v — C06 ⟵ C07: the concurrent store of Model/DiskCache.v (DiskCache::put / get at lock
   granularity, any number of calls, any schedule) inherits the invariants property C07 proves for the Lru layer.

   Proofs/DiskCache.v does not re-prove any Lru fact: its extended invariant [Ext] carries C07's [good] for the Lru
   component ([X_lru], preserved with Proofs/Lru.v `step_good` / `reopen_good`) and [reach] establishes it for every
   reachable world.  The summary below projects that out in C07's own vocabulary (Properties/C07.v), together with
   C06's own [disk_ok] of the directory a crash would leave. *)
From Coq Require Import List NArith Bool.
From Sccache Require Import Base.Sx Model.Lru Model.DiskCache Proofs.DiskCache.
From Sccache Require Proofs.Lru.
Import ListNotations.
Local Open Scope N_scope.

Module PL := Sccache.Proofs.Lru.

Theorem store_invariants (c : N) (d : disk) (ths : list thread) (sched : list nat) :
  disk_ok d -> forallb is_call ths = true ->
  let s := ws (exec (start c d ths) sched) in
  (* C07: the invariant, listing order and disk agreement of the Lru layer — once the lazy init has run;
     before it, the directory is still one that init accepts *)
  (if inited s then PL.inv (lru s) /\ PL.ksorted (files (lru s)) /\ PL.disk_ok (lru s) else PL.dir_ok (lru s)) /\
  (inited s = true ->
     measure (lru s) = PL.sumsz (index (lru s)) /\
     measure (lru s) + pending_size (lru s) <= cap (lru s) /\
     NoDup (PL.keys (index (lru s))) /\
     pending_size (lru s) = PL.sumres (handles (lru s)) /\
     forall k sz, alookup k (index (lru s)) = Some sz <-> exists mt, alookup k (files (lru s)) = Some (sz, mt)) /\
  (* C06: every listed file has an inode of the listed size, the directory lists exactly the files, and what a
     crash would leave on disk is again an acceptable cache directory *)
  (forall k sz mt, alookup k (files (lru s)) = Some (sz, mt) ->
     exists i v, alookup k (dir s) = Some i /\ hlookup i (inodes s) = Some v /\ blen v = sz) /\
  (forall k i, In (k, i) (dir s) -> amem k (files (lru s)) = true) /\
  disk_ok (persist s).
Proof.
  intros Hd Hc s.
  pose proof (reach c d ths sched Hd Hc) as HR. fold s in HR.
  pose proof (persist_ok d ths _ HR) as HP.
  destruct HR as (_ & _ & [X1 X2 X3 _]). fold s in X1, X2, X3.
  split; [|split; [|split; [exact X2 | split; [exact X3 | exact HP]]]].
  - destruct (inited s); exact X1.
  - intro Hin. rewrite Hin in X1. destruct X1 as (((A1 & A2 & A3 & A4) & _) & _ & (Hag & _)).
    repeat split; try assumption; apply Hag.
Qed.
