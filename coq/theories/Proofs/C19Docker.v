(* Proofs/C19Docker.v — clean_container only lets a container back into the pool when its first diff consists of
   additions (and lines about /tmp) only. *)
From Coq Require Import List NArith Bool.
From Sccache Require Import Base.Sx Model.Paths Model.C19Docker.
Import ListNotations.
Local Open Scope N_scope.

Definition line_ok (l : bytes) : Prop :=
  exists t p, split_first_space l = (t, Some p) /\ (p = s_tmp \/ t = s_A).

Lemma scan_lines_ok lines : forall last rms r, scan lines last rms = (r, true) -> Forall line_ok lines.
Proof.
  induction lines as [|l rest IH]; intros last rms r H; [constructor|].
  simpl in H. destruct (split_first_space l) as [t [p|]] eqn:E; [|discriminate].
  destruct (bytes_eqb p s_tmp) eqn:Et.
  - constructor; [|eapply IH; eauto]. exists t, p. split; [exact E|]. left. apply bytes_eqb_eq. exact Et.
  - destruct (bytes_eqb t s_A) eqn:Ea; simpl in H; [|discriminate].
    assert (line_ok l) as Hl.
    { exists t, p. split; [exact E|]. right. apply bytes_eqb_eq. exact Ea. }
    destruct (match last with Some lp => path_starts_with p lp | None => false end);
      (constructor; [exact Hl | eapply IH; eauto]).
Qed.

(* every removed path is the path of an `A` line of the diff *)
Lemma scan_rms_added lines : forall last rms r ok, scan lines last rms = (r, ok) ->
  forall p, In p r -> In p rms \/ exists l, In l lines /\ split_first_space l = (s_A, Some p).
Proof.
  induction lines as [|l rest IH]; intros last rms r ok H p Hp.
  - simpl in H. inversion H; subst. left. apply in_rev. exact Hp.
  - simpl in H. destruct (split_first_space l) as [t [q|]] eqn:E;
      [|inversion H; subst; left; apply in_rev; exact Hp].
    destruct (bytes_eqb q s_tmp).
    + destruct (IH _ _ _ _ H p Hp) as [Hi|(l' & Hl' & El')]; [left; exact Hi | right; exists l'; split; [right|]; assumption].
    + destruct (bytes_eqb t s_A) eqn:Ea; simpl in H; [|inversion H; subst; left; apply in_rev; exact Hp].
      apply bytes_eqb_eq in Ea. subst t.
      destruct (match last with Some lp => path_starts_with q lp | None => false end).
      * destruct (IH _ _ _ _ H p Hp) as [Hi|(l' & Hl' & El')]; [left; exact Hi | right; exists l'; split; [right|]; assumption].
      * destruct (IH _ _ _ _ H p Hp) as [[<-|Hi]|(l' & Hl' & El')].
        -- right. exists l. split; [left; reflexivity | exact E].
        -- left. exact Hi.
        -- right. exists l'. split; [right|]; assumption.
Qed.

Lemma clean_container_sound diff docker rms :
  clean_container diff docker = (rms, true) ->
  Forall line_ok (match diff with [] => [] | _ => split_by NL diff end)
  /\ (forall p, In p rms -> exists l, In l (split_by NL diff) /\ split_first_space l = (s_A, Some p))
  /\ (diff = [] \/ docker rms = [] \/ docker rms = s_C_tmp).
Proof.
  unfold clean_container. destruct diff as [|c d]; [intro H; inversion H; subst; repeat split; auto; intros p []|].
  destruct (scan (split_by NL (c :: d)) None []) as [r [|]] eqn:E; [|discriminate].
  intro H. inversion H; subst. clear H. split; [eapply scan_lines_ok; eauto|]. split.
  - intros p Hp. destruct (scan_rms_added _ _ _ _ _ E p Hp) as [[]|Hx]. exact Hx.
  - right. destruct (docker rms) as [|x y] eqn:Ed; [left; reflexivity|]. right. apply bytes_eqb_eq. exact H2.
Qed.

(* whatever the outcome, only paths of `A` lines are ever removed from the container *)
Lemma clean_container_removes_added_only diff docker rms ok :
  clean_container diff docker = (rms, ok) ->
  forall p, In p rms -> exists l, In l (split_by NL diff) /\ split_first_space l = (s_A, Some p).
Proof.
  unfold clean_container. destruct diff as [|c d]; [intro H; inversion H; subst; intros p []|].
  destruct (scan (split_by NL (c :: d)) None []) as [r b] eqn:E.
  intros H p Hp. assert (rms = r) as -> by (destruct b; inversion H; reflexivity).
  destruct (scan_rms_added _ _ _ _ _ E p Hp) as [[]|Hx]. exact Hx.
Qed.
