(* Proofs/PpTimeline.v — the start instant is taken before the preprocessor starts, hence a header written at any
   moment from then on is never recorded with a digest other than that of the bytes the preprocessor saw. *)
From Coq Require Import List NArith Bool Arith Lia.
From Sccache Require Import Base.Sx Gen.C04Consts Model.PpPaths Model.TimeMacro Model.PpCache Model.PpTimeline
     Proofs.TimeMacro Proofs.PpCache.
Import ListNotations.
Local Open Scope N_scope.

(* THE side condition on the source order transcribed by the translator: take the instant, then preprocess, then
   record.  If generate_hash_key takes `start_of_compilation` later, this lemma no longer checks. *)
Lemma prelude_order_ok : prelude_order = [0; 1; 2].
Proof. reflexivity. Qed.

(* ... and on the condition under which generate_hash_key adds the working directory to the arguments of the
   preprocessor-cache key: hash_working_directory alone (not, e.g., "and the input path is absolute") *)
Lemma prelude_cwd_guard_ok : prelude_cwd_guard = [1].
Proof. reflexivity. Qed.

(* with hash_working_directory, requests from different working directories never have the same argument list,
   whatever their other arguments (and whatever the spelling of the input path, which is not part of it) *)
Theorem pp_args_cwd cfg pre1 arch1 common1 prof1 cwd1 pre2 arch2 common2 prof2 cwd2 :
  hash_working_directory cfg = true ->
  prelude_pp_args cfg pre1 arch1 common1 prof1 cwd1 = prelude_pp_args cfg pre2 arch2 common2 prof2 cwd2 ->
  cwd1 = cwd2.
Proof.
  unfold prelude_pp_args. intros Hh He. rewrite Hh in He. rewrite !app_assoc in He.
  apply app_inj_tail in He. destruct He as [_ He]. exact He.
Qed.

Lemma code_actions_ok reads : code_actions prelude_order reads = CTake :: map CRead reads ++ [CRecord].
Proof. rewrite prelude_order_ok. unfold code_actions. cbn [flat_map N.eqb Pos.eqb app]. rewrite ?app_nil_r. reflexivity. Qed.

(* ---------------- file-system updates ---------------- *)
Lemma fs_get_put fs p nd q :
  fs_get (fs_put fs p nd) q = if bytes_eqb (canon_path p) (canon_path q) then Some nd else fs_get fs q.
Proof. reflexivity. Qed.

Lemma fs_find_del fs p x :
  fs_find (fs_del fs p) x = if bytes_eqb (canon_path p) x then None else fs_find fs x.
Proof.
  unfold fs_del. induction fs as [|[k nd] fs IH]; simpl.
  - destruct (bytes_eqb (canon_path p) x); reflexivity.
  - destruct (bytes_eqb k (canon_path p)) eqn:Hk; simpl.
    + apply bytes_eqb_eq in Hk. subst k. rewrite IH. destruct (bytes_eqb (canon_path p) x); reflexivity.
    + rewrite IH. destruct (bytes_eqb k x) eqn:Hkx; [|reflexivity].
      apply bytes_eqb_eq in Hkx. subst k.
      destruct (bytes_eqb (canon_path p) x) eqn:Hpx; [|reflexivity].
      apply bytes_eqb_eq in Hpx. subst x. rewrite bytes_eqb_refl in Hk. discriminate.
Qed.

Lemma fs_get_del fs p q :
  fs_get (fs_del fs p) q = if bytes_eqb (canon_path p) (canon_path q) then None else fs_get fs q.
Proof. unfold fs_get. apply fs_find_del. Qed.

Lemma fs_read_get fs fs' q : fs_get fs q = fs_get fs' q -> fs_read fs q = fs_read fs' q.
Proof. unfold fs_read. intros ->. reflexivity. Qed.

Lemma fs_get_canon fs p q : canon_path p = canon_path q -> fs_get fs p = fs_get fs q.
Proof. unfold fs_get. intros ->. reflexivity. Qed.

(* ---------------- traces ---------------- *)
Definition all_ge (ts : N) (tr : trace) : Prop := forall t e, In (t, e) tr -> ts <= t.

Lemma sorted_all_ge tr : forall t0, times_sorted t0 tr = true -> all_ge t0 tr.
Proof.
  induction tr as [|[t e] tr IH]; intros t0 Hs t' e' Hin; [destruct Hin|].
  simpl in Hs. apply andb_true_iff in Hs as [Hle Hs]. apply N.leb_le in Hle.
  destruct Hin as [Heq | Hin].
  - inversion Heq; subst. exact Hle.
  - specialize (IH t Hs t' e' Hin). lia.
Qed.

Lemma sorted_after a : forall t0 t e b, times_sorted t0 (a ++ (t, e) :: b) = true -> all_ge t b.
Proof.
  induction a as [|[t1 e1] a IH]; intros t0 t e b Hs.
  - simpl in Hs. apply andb_true_iff in Hs as [_ Hs]. apply sorted_all_ge. exact Hs.
  - simpl in Hs. apply andb_true_iff in Hs as [_ Hs]. apply (IH t1 t e b Hs).
Qed.

Lemma code_of_app a b : code_of (a ++ b) = code_of a ++ code_of b.
Proof.
  induction a as [|[t [w|c]] a IH]; simpl; [reflexivity | exact IH | rewrite IH; reflexivity].
Qed.

Lemma code_of_cons tr : forall c cs,
  code_of tr = c :: cs -> exists w0 t rest, tr = w0 ++ (t, ECode c) :: rest /\ code_of w0 = [] /\ code_of rest = cs.
Proof.
  induction tr as [|[t [w|c']] tr IH]; intros c cs Hc; simpl in Hc; [discriminate| |].
  - destruct (IH c cs Hc) as [w0 [t' [rest [Htr [Hw Hr]]]]].
    exists ((t, EEnv w) :: w0), t', rest. rewrite Htr. split; [reflexivity|]. split; assumption.
  - inversion Hc; subst. exists [], t, tr. split; [reflexivity|]. split; reflexivity.
Qed.

Lemma code_of_snoc tr : forall cs c,
  code_of tr = cs ++ [c] ->
  exists mid t tail, tr = mid ++ (t, ECode c) :: tail /\ code_of mid = cs /\ code_of tail = [].
Proof.
  induction tr as [|[t [w|c']] tr IH]; intros cs c Hc; simpl in Hc.
  - destruct cs; discriminate.
  - destruct (IH cs c Hc) as [mid [t' [tail [Htr [Hm Ht]]]]].
    exists ((t, EEnv w) :: mid), t', tail. rewrite Htr. split; [reflexivity|]. split; assumption.
  - destruct cs as [|c0 cs].
    + simpl in Hc. injection Hc as Hcc Htr. subst c'. exists [], t, tr.
      split; [reflexivity|]. split; [reflexivity | exact Htr].
    + simpl in Hc. injection Hc as Hcc Htr. subst c'. destruct (IH cs c Htr) as [mid [t' [tail [Htr' [Hm Ht]]]]].
      exists ((t, ECode c0) :: mid), t', tail. rewrite Htr'.
      split; [reflexivity|]. split; [simpl; rewrite Hm; reflexivity | exact Ht].
Qed.

Section Timeline.
Variable D : Type.
Variable H : bytes -> D.
Variable HT : option bytes -> option N -> D.
Variable cfg : config.
Variable date : bytes.
Variable input : path.
Variable incs : list (path * bool).

Local Notation tstate := (tstate D).
Local Notation tstep := (tstep D H HT cfg date input incs).
Local Notation trun := (trun D H HT cfg date input incs).

(* environment actions do not touch what the program knows *)
Lemma env_only tr : forall st,
  code_of tr = [] ->
  t_start D (fold_left tstep tr st) = t_start D st /\
  t_seen D (fold_left tstep tr st) = t_seen D st /\
  t_out D (fold_left tstep tr st) = t_out D st.
Proof.
  induction tr as [|[t [w|c]] tr IH]; intros st Hc; simpl in Hc; [repeat split | | discriminate].
  cbn [fold_left]. destruct (IH (tstep st (t, EEnv w)) Hc) as [H1 [H2 H3]].
  rewrite H1, H2, H3. destruct w; split; [reflexivity | split; reflexivity | reflexivity | split; reflexivity].
Qed.

(* ---- the phase between taking the instant and recording ---- *)
Section Mid.
Variable ts : N.          (* the start instant *)
Variable fs_s : fsnap.    (* the file system at that moment *)

(* W = the (canonical) paths written or deleted since then *)
Definition inv_fs (W : list bytes) (fs : fsnap) : Prop :=
  (forall q, In (canon_path q) W -> fs_get fs q = None \/ exists nd, fs_get fs q = Some nd /\ ts <= n_ctime nd) /\
  (forall q, ~ In (canon_path q) W -> fs_get fs q = fs_get fs_s q).

Definition inv_seen (W : list bytes) (seen : list (path * option bytes)) : Prop :=
  forall q ob, In (q, ob) seen -> In (canon_path q) W \/ ob = fs_read fs_s q.

Definition inv (W : list bytes) (st : tstate) : Prop :=
  t_start D st = ts /\ t_out D st = None /\ inv_fs W (t_fs D st) /\ inv_seen W (t_seen D st).

Definition is_read (c : code) : Prop := match c with CRead _ => True | _ => False end.

Lemma bytes_in_dec (x : bytes) (W : list bytes) : {In x W} + {~ In x W}.
Proof. apply in_dec. apply list_eq_dec. apply N.eq_dec. Qed.

Lemma inv_fs_touch W fs p fs' :
  inv_fs W fs ->
  (forall q, canon_path q = canon_path p ->
             fs_get fs' q = None \/ exists nd, fs_get fs' q = Some nd /\ ts <= n_ctime nd) ->
  (forall q, canon_path q <> canon_path p -> fs_get fs' q = fs_get fs q) ->
  inv_fs (canon_path p :: W) fs'.
Proof.
  intros [Hw Hn] Hsame Hother. split.
  - intros q Hin. destruct (list_eq_dec N.eq_dec (canon_path q) (canon_path p)) as [He | Hne].
    + apply Hsame. exact He.
    + rewrite (Hother q Hne). apply Hw. destruct Hin as [Hh | Ht]; [congruence | exact Ht].
  - intros q Hnin. assert (Hne : canon_path q <> canon_path p) by (intros He; apply Hnin; left; symmetry; exact He).
    rewrite (Hother q Hne). apply Hn. intros Hin. apply Hnin. right. exact Hin.
Qed.

Lemma mid_inv mid : forall st W,
  all_ge ts mid -> Forall is_read (code_of mid) -> inv W st ->
  exists W', inv W' (fold_left tstep mid st).
Proof.
  induction mid as [|[t e] mid IH]; intros st W Hge Hrd Hinv; [exists W; exact Hinv|].
  assert (Ht : ts <= t) by (apply (Hge t e); left; reflexivity).
  assert (Hge' : all_ge ts mid) by (intros t' e' Hin; apply (Hge t' e'); right; exact Hin).
  destruct Hinv as [Hst [Hout [Hfs Hseen]]].
  destruct e as [w | c]; simpl in Hrd.
  - (* the environment writes *)
    cbn [fold_left].
    assert (Hseen' : forall p, inv_seen (canon_path p :: W) (t_seen D st)).
    { intros p q ob Hin. destruct (Hseen q ob Hin) as [Hw | Hob]; [left; right; exact Hw | right; exact Hob]. }
    destruct w as [p b m | p].
    + apply (IH _ (canon_path p :: W) Hge' Hrd). split; [exact Hst|]. split; [exact Hout|]. split; [|apply Hseen'].
      cbn [tstep t_fs]. eapply inv_fs_touch; [exact Hfs | |].
      * intros q He. right. rewrite fs_get_put, <- He, bytes_eqb_refl. eexists. split; [reflexivity | exact Ht].
      * intros q Hne. rewrite fs_get_put. destruct (bytes_eqb (canon_path p) (canon_path q)) eqn:Hb; [|reflexivity].
        apply bytes_eqb_eq in Hb. exfalso. apply Hne. symmetry. exact Hb.
    + apply (IH _ (canon_path p :: W) Hge' Hrd). split; [exact Hst|]. split; [exact Hout|]. split; [|apply Hseen'].
      cbn [tstep t_fs]. eapply inv_fs_touch; [exact Hfs | |].
      * intros q He. left. rewrite fs_get_del, <- He, bytes_eqb_refl. reflexivity.
      * intros q Hne. rewrite fs_get_del. destruct (bytes_eqb (canon_path p) (canon_path q)) eqn:Hb; [|reflexivity].
        apply bytes_eqb_eq in Hb. exfalso. apply Hne. symmetry. exact Hb.
  - (* the preprocessor reads a file *)
    inversion Hrd as [|c0 cs Hc Hrest]; subst. destruct c as [| p |]; try contradiction.
    cbn [fold_left]. apply (IH _ W Hge' Hrest). split; [exact Hst|]. split; [exact Hout|]. split; [exact Hfs|].
    intros q ob Hin. cbn [tstep t_seen] in Hin. destruct Hin as [Heq | Hin]; [|apply (Hseen q ob Hin)].
    inversion Heq; subst. destruct (bytes_in_dec (canon_path q) W) as [Hw | Hnw]; [left; exact Hw|].
    right. apply fs_read_get. apply (proj2 Hfs q Hnw).
Qed.

End Mid.

(* ---------------- C04_record_instant_sound ---------------- *)
Theorem record_instant_sound (reads : list path) (fs0 : fsnap) (tr : trace) :
  times_sorted 0 tr = true ->
  code_of tr = code_actions prelude_order reads ->
  forall included, t_out D (trun fs0 tr) = Some (Some included) ->
  forall p d, In (p, d) included ->
  exists nd,
    n_kind nd = KFile /\
    include_file_digest D HT (H (n_bytes nd)) (rec_flags cfg (n_bytes nd)) date (Some (n_mtime nd)) = Some d /\
    forall q ob, In (q, ob) (t_seen D (trun fs0 tr)) -> canon_path q = canon_path p -> ob = Some (n_bytes nd).
Proof.
  intros Hsorted Hcode included Hout p d Hin.
  rewrite code_actions_ok in Hcode.
  destruct (code_of_cons tr _ _ Hcode) as [w0 [ts [rest [Htr [Hw0 Hrest]]]]].
  destruct (code_of_snoc rest _ _ Hrest) as [mid [tr_ [tail [Hrest' [Hmid Htail]]]]].
  assert (Hge : all_ge ts mid).
  { rewrite Htr in Hsorted. pose proof (sorted_after _ _ _ _ _ Hsorted) as Hall.
    intros t e Hte. apply (Hall t e). rewrite Hrest'. apply in_or_app. left. exact Hte. }
  unfold PpTimeline.trun in *. rewrite Htr, Hrest' in *.
  rewrite fold_left_app in *. cbn [fold_left] in *. rewrite fold_left_app in *. cbn [fold_left] in *.
  set (s0 := fold_left tstep w0 (t_init D fs0)) in *.
  destruct (env_only w0 (t_init D fs0) Hw0) as [_ [Hseen0 Hout0]]. fold s0 in Hseen0, Hout0.
  set (s1 := tstep s0 (ts, ECode CTake)) in *.
  assert (Hinv1 : inv ts (t_fs D s0) [] s1).
  { unfold s1. split; [reflexivity|]. split; [exact Hout0|]. split.
    - split; [intros q []|]. intros q _. reflexivity.
    - cbn [PpTimeline.tstep t_seen]. rewrite Hseen0. intros q ob []. }
  assert (Hreads : Forall (is_read) (code_of mid)).
  { rewrite Hmid. apply Forall_forall. intros c Hc. apply in_map_iff in Hc as [x [<- _]]. exact I. }
  destruct (mid_inv ts (t_fs D s0) mid s1 [] Hge Hreads Hinv1) as [W [Hst [Hnone [Hfs Hseen]]]].
  set (s2 := fold_left tstep mid s1) in *.
  destruct (env_only tail (tstep s2 (tr_, ECode CRecord)) Htail) as [_ [Hseen3 Hout3]].
  rewrite Hout3 in Hout. rewrite Hseen3. cbn [PpTimeline.tstep t_out t_seen] in *.
  inversion Hout as [Hrem]. rewrite Hst in Hrem.
  destruct (remember_all_spec D H HT cfg _ _ _ _ _ _ _ Hrem) as [Hgood _].
  specialize (Hgood (Forall_nil _)). rewrite Forall_forall in Hgood.
  destruct (Hgood _ Hin) as [nd [[Hg Hk] [Hnew [_ Hdig]]]]. cbn [fst snd] in *.
  exists nd. split; [exact Hk|]. split; [exact Hdig|].
  (* not too new: the file has not been touched since the instant was taken *)
  assert (HnW : ~ In (canon_path p) W).
  { intros HW. destruct (proj1 Hfs p HW) as [Hnone' | [nd' [Hg' Hc']]].
    - rewrite Hg in Hnone'. discriminate.
    - rewrite Hg in Hg'. inversion Hg'; subst nd'.
      unfold include_is_too_new in Hnew. apply orb_false_iff in Hnew as [_ Hc]. apply N.leb_gt in Hc. lia. }
  intros q ob Hq Hcanon.
  destruct (Hseen q ob Hq) as [HW | Hob]; [rewrite Hcanon in HW; contradiction|].
  rewrite Hob. unfold fs_read.
  rewrite (fs_get_canon _ q p Hcanon), <- (proj2 Hfs p HnW), Hg, Hk. reflexivity.
Qed.

End Timeline.
