(* Proofs/ComposeEx.v — non-vacuity witnesses for the composition theorems: a concrete 64-hex-valued hash and small
   concrete instances on which every hypothesis of the composed theorems holds (checked by computation). *)
From Coq Require Import List NArith Bool Arith Lia.
From Coq Require String.
Import String.StringSyntax.
From Sccache Require Import Base.Sx Gen.C04Consts Model.PpPaths Model.TimeMacro Model.PpCache
     Proofs.TimeMacro Proofs.PpCache Proofs.ComposePpLocal.
From Sccache Require Import Model.KeyEnc Proofs.KeyEnc Proofs.KeyEncSpec Gen.C02HashSpec Gen.C02HashSpec_ok
     Proofs.ComposeC04.
Import ListNotations.
Local Open Scope N_scope.

(* ------------------------------------------------------------------ a toy digest with 64 hex characters *)

Definition hexd (d : N) : N := if d <? 10 then 48 + d else 87 + d.

Fixpoint hexdigits (k : nat) (n : N) : bytes :=
  match k with
  | O => []
  | S k' => hexd (N.land n 15) :: hexdigits k' (N.shiftr n 4)
  end.

(* a polynomial hash kept below 2^256 (bitwise operations only, so that it computes quickly) *)
Definition toy_mask : N := N.ones 256.
Definition toyH (x : bytes) : bytes :=
  hexdigits 64 (fold_left (fun a c => N.land (a * 257 + c + 1) toy_mask) x 7).

Lemma hexd_hex d : d < 16 -> is_hex (hexd d) = true.
Proof.
  intro Hd. unfold is_hex, hexd. destruct (d <? 10) eqn:E.
  - apply N.ltb_lt in E. apply orb_true_iff. left. apply andb_true_iff. split; apply N.leb_le; lia.
  - apply N.ltb_ge in E. apply orb_true_iff. right. apply andb_true_iff. split; apply N.leb_le; lia.
Qed.

Lemma hexdigits_length k n : length (hexdigits k n) = k.
Proof. revert n; induction k as [|k IH]; intro n; simpl; [reflexivity | rewrite IH; reflexivity]. Qed.

Lemma hexdigits_hex k n : forallb is_hex (hexdigits k n) = true.
Proof.
  revert n; induction k as [|k IH]; intro n; simpl; [reflexivity|].
  rewrite IH, andb_true_r. apply hexd_hex. change 15 with (N.ones 4). rewrite N.land_ones.
  apply N.mod_lt. discriminate.
Qed.

Lemma toyH_hex x : is_hex64 (toyH x) = true.
Proof.
  unfold is_hex64, toyH. rewrite hexdigits_length, hexdigits_hex. reflexivity.
Qed.

(* ------------------------------------------------------------------ C04 ⟵ C02: an instance with a direct-mode hit *)
Local Open Scope string_scope.

Definition x_hdr_path : bytes := bs "/src/a.h".

Definition x_q : hreq :=
  {| hq_digest := hex_a; hq_plusplus := false; hq_tag := bs "c"; hq_args := [bs "-O2"; bs "-I."]; hq_extra := [hex_b];
     hq_path := bs "/src/x.c" |}.
Definition x_env : env_t :=
  [(bs "CPATH", bs "/opt/include"); (bs "HOME", bs "/root"); (bs "SDKROOT", bs "/sdk")].

Definition x_node (b : bytes) (m c : N) : node :=
  {| n_kind := KFile; n_size := N.of_nat (length b); n_mtime := m; n_ctime := c; n_bytes := b |}.

(* the input file mentions __TIMESTAMP__, the header __DATE__: both digests are salted *)
Definition x_fs : fsnap :=
  [ (bs "/src/x.c", x_node (bs "#include ""a.h""
const char *t = __TIMESTAMP__;") 90000000000 90000000000);
    (x_hdr_path, x_node (bs "const char *d = __DATE__;") 80000000007 80000000007) ].

Definition x_cfg : config :=
  {| file_stat_matches := false; use_ctime_for_stat := true; ignore_time_macros := false;
     skip_system_headers := false; hash_working_directory := true |}.

(* a preprocessor: the input file followed by the header; it reads exactly these two files *)
Definition x_read (fs : fsnap) (p : bytes) : bytes := match fs_read fs p with Some b => b | None => [] end.
Definition x_ppo (q : hreq) (_ : env_t) (fs : fsnap) (_ : bytes) : bytes := x_read fs (hq_path q) ++ x_read fs x_hdr_path.
Definition x_reads (q : hreq) (_ : env_t) (_ : fsnap) (_ : bytes) : list PpCache.path := [hq_path q; x_hdr_path].
Definition x_probes (_ : hreq) (_ : env_t) (_ : fsnap) (_ : bytes) : list PpCache.path := [].

Lemma x_pp_frame : forall req env fs0 d0 fs1 d1,
    same_inputs hreq x_reads x_probes req env fs0 d0 fs1 d1 -> x_ppo req env fs1 d1 = x_ppo req env fs0 d0.
Proof.
  intros req env fs0 d0 fs1 d1 [Hr _]. unfold x_ppo.
  assert (Hp : forall p, In p (x_reads req env fs0 d0) -> x_read fs1 p = x_read fs0 p).
  { intros p Hp. destruct (Hr p Hp) as [nd0 [nd1 [[Hg0 Hk0] [[Hg1 Hk1] [Hb _]]]]].
    unfold x_read, fs_read. rewrite Hg0, Hg1, Hk0, Hk1, Hb. reflexivity. }
  rewrite (Hp (hq_path req)), (Hp x_hdr_path); [reflexivity | right; left; reflexivity | left; reflexivity].
Qed.

Definition x_today : N * N * N := (2026, 9, 30).
Definition x_date : bytes := date_enc x_today None.

Definition x_cop : cop :=
  {| co_fresh := true; co_fs := x_fs; co_start := 100000000000; co_today := x_today; co_sde := None;
     co_key := mkey toyH x_q (filter_env (allow_main the_spec) x_env)
                    (x_ppo x_q (filter_env (allow_pp the_spec) x_env) x_fs x_date);
     co_incs := [(x_hdr_path, false)] |}.

Definition x_mk : bytes :=
  match input_digest_in bytes toyH (HTc toyH) (hq_path x_q) x_cfg x_fs x_date with
  | Some d => ppk toyH x_q (filter_env (allow_pp the_spec) x_env) d
  | None => []
  end.

Definition x_ops : list rec_op := map (rec_of (hq_path x_q)) [x_cop].

Lemma x_instance :
  (forall x, is_hex64 (toyH x) = true) /\
  (forall req env fs0 d0 fs1 d1,
      same_inputs hreq x_reads x_probes req env fs0 d0 fs1 d1 -> x_ppo req env fs1 d1 = x_ppo req env fs0 d0) /\
  forallb (wf_p the_spec) (reqs_in_play x_cfg x_q x_env x_q x_env [x_cop] x_fs x_today None) = true /\
  forallb fs_time_ok (map fst (snaps_in_play [x_cop] x_fs x_today None)) = true /\
  cf_on toyH (in_play toyH x_cfg x_q x_env x_q x_env [x_cop] x_fs x_today None) /\
  ignore_time_macros x_cfg = false /\
  (file_stat_matches x_cfg = true -> use_ctime_for_stat x_cfg = true ->
   forall op, In op x_ops -> stat_trust (ro_fs op) x_fs) /\
  (forall op, In op x_ops ->
              faithful bytes toyH (HTc toyH) hreq (allow_pp the_spec) (allow_main the_spec) x_ppo x_reads (mkey toyH)
                       bytes (ppk toyH) (hq_path x_q) x_cfg x_q x_env x_mk op) /\
  in_manifest bytes toyH (HTc toyH) hreq (allow_pp the_spec) bytes (ppk toyH) (hq_path x_q) x_cfg x_q x_env x_fs
              x_date x_mk /\
  (forall op p, In op x_ops ->
                In p (x_probes x_q (filter_env (allow_pp the_spec) x_env) (ro_fs op) (ro_date op)) ->
                fs_get x_fs p = None) /\
  (* the lookup is a hit, and both digests in play are salted *)
  lookup_result_digest bytes bytes_eqb toyH (HTc toyH) x_cfg x_fs x_date (run_recs bytes toyH (HTc toyH) x_cfg x_ops)
  = Some (co_key x_cop) /\
  length (reqs_in_play x_cfg x_q x_env x_q x_env [x_cop] x_fs x_today None) = 2%nat /\
  forallb salted (reqs_in_play x_cfg x_q x_env x_q x_env [x_cop] x_fs x_today None) = true.
Proof.
  assert (Hman : in_manifest bytes toyH (HTc toyH) hreq (allow_pp the_spec) bytes (ppk toyH) (hq_path x_q) x_cfg x_q
                             x_env x_fs x_date x_mk).
  { unfold in_manifest, x_mk.
    destruct (input_digest_in bytes toyH (HTc toyH) (hq_path x_q) x_cfg x_fs x_date) as [d|] eqn:E.
    - exists d. split; reflexivity.
    - exfalso. revert E. vm_compute. intro E. discriminate E. }
  split; [exact toyH_hex|]. split; [exact x_pp_frame|].
  split; [vm_compute; reflexivity|]. split; [vm_compute; reflexivity|].
  split; [apply cf_onb_sound; vm_compute; reflexivity|].
  split; [reflexivity|]. split; [intro Hc; discriminate Hc|].
  split.
  { intros op [<- | []]. split; [exact Hman|]. split; [reflexivity|].
    intros p [<- | [<- | []]]; [left; reflexivity | right].
    exists false, (x_node (bs "const char *d = __DATE__;") 80000000007 80000000007).
    split; [left; reflexivity|]. split; [vm_compute; repeat split; reflexivity|].
    split; [vm_compute; reflexivity | reflexivity]. }
  split; [exact Hman|]. split; [intros op p _ []|].
  split; [vm_compute; reflexivity|]. split; vm_compute; reflexivity.
Qed.

(* ------------------------------------------------------------------ C09 ⟵ C02: a world of three units *)
From Sccache Require Model.Stats Model.ReqSM Proofs.ReqSM Proofs.ComposeC09.

Module C09Ex.
Import Sccache.Model.ReqSM Sccache.Proofs.ReqSM Sccache.Proofs.ComposeC09.

(* units 0 and 1 differ in an argument, unit 2 in the input file; every other number is unit 2 again *)
Definition y_base (t : N) : creq :=
  if t =? 0 then ex_req
  else if t =? 1 then set_args ex_req [bs "-O3"]
  else set_input ex_req (bs "int y;").
Definition y_man (_ : N) : N := 7.
(* the preprocessor copies the input file; the compiler produces one object made of the preprocessed text *)
Definition y_ppf (cp : canon_p_t) (_ : N) : pp_result :=
  {| pr_status := 0; pr_stderr := []; pr_out := snd (fst cp) |}.
Definition y_ccf (cc : canon_c_t) : cc_result :=
  {| cr_status := 0; cr_stdout := []; cr_stderr := []; cr_outputs := [([111], snd cc)]; cr_writes := true |}.
Definition y_lang (_ : N) : Stats.lang := {| Stats.l_lang := 0; Stats.l_adv := 0 |}.
Definition y_true (_ : N) : bool := true.
Definition y_false (_ : N) : bool := false.

Definition y_world : world := world_of toyH y_base y_man y_ppf y_ccf y_true y_lang y_false y_true y_true y_false y_false.

Ltac y_cases t := destruct (t =? 0); [|destruct (t =? 1)].

Lemma y_instance :
  (forall x, is_hex64 (toyH x) = true) /\
  (forall t, wf_c the_spec (req y_base y_man y_ppf t) = true) /\
  (forall t, wf_p the_spec (y_base t) = true) /\
  (forall t t', extra_pp_ok (req y_base y_man y_ppf t) (req y_base y_man y_ppf t') = true) /\
  (forall t t', toyH (encode_c toyH the_spec (req y_base y_man y_ppf t))
                = toyH (encode_c toyH the_spec (req y_base y_man y_ppf t')) ->
                encode_c toyH the_spec (req y_base y_man y_ppf t) = encode_c toyH the_spec (req y_base y_man y_ppf t')) /\
  (forall t t', toyH (encode_pp toyH the_spec (y_base t)) = toyH (encode_pp toyH the_spec (y_base t')) ->
                encode_pp toyH the_spec (y_base t) = encode_pp toyH the_spec (y_base t')) /\
  (forall t t', toyH (input (y_base t)) = toyH (input (y_base t')) -> input (y_base t) = input (y_base t')) /\
  (forall t t', toyH (time_pre (y_base t)) = toyH (time_pre (y_base t')) -> time_pre (y_base t) = time_pre (y_base t')) /\
  (forall t, sane (y_world t)) /\ (forall t, calm_oracle (y_world t)) /\
  (* three different result keys, and the world's units are served as C09 says *)
  o_key (y_world 0) <> o_key (y_world 1) /\ o_key (y_world 0) <> o_key (y_world 2) /\
  o_key (y_world 1) <> o_key (y_world 2).
Proof.
  split; [exact toyH_hex|].
  split; [intro t; unfold req, pp_of, y_base; y_cases t; vm_compute; reflexivity|].
  split; [intro t; unfold y_base; y_cases t; vm_compute; reflexivity|].
  split; [intros t t'; unfold req, pp_of, y_base; y_cases t; y_cases t'; vm_compute; reflexivity|].
  split; [intros t t'; unfold req, pp_of, y_base; y_cases t; y_cases t'; vm_compute; intro E;
          first [discriminate E | reflexivity]|].
  split; [intros t t'; unfold y_base; y_cases t; y_cases t'; vm_compute; intro E;
          first [discriminate E | reflexivity]|].
  split; [intros t t'; unfold y_base; y_cases t; y_cases t'; vm_compute; intro E;
          first [discriminate E | reflexivity]|].
  split; [intros t t'; unfold y_base; y_cases t; y_cases t'; vm_compute; intro E;
          first [discriminate E | reflexivity]|].
  split; [intros t _; reflexivity|]. split; [intro t; split; reflexivity|].
  repeat split; unfold not; vm_compute; intro E; discriminate E.
Qed.
End C09Ex.

(* ------------------------------------------------------------------ C03 ⟵ C02: C03's example run under C02's key *)
From Sccache Require Model.Lru Model.HitModel Proofs.HitModel Proofs.ComposeC03.

Module C03Ex.
Import Sccache.Model.Lru Sccache.Model.HitModel Sccache.Proofs.HitModel Sccache.Proofs.ComposeC03.
Import C03Example.

(* what the abstract numbers stand for: compiler n = digest hex(n), C++ driver iff n is odd, language C, no extra
   hashes; the input digests ds = a preprocessor output listing them *)
Definition z_digest (n : N) : KeyEnc.bytes := hexdigits 64 n.
Definition z_plusplus (n : N) : bool := N.odd n.
Definition z_lang (_ : N) : KeyEnc.bytes := bs "C".
Definition z_extra (_ : N) : list KeyEnc.bytes := [].
Definition z_pp (ds : list N) : KeyEnc.bytes := 10 :: concat (map (fun d => hexdigits 8 d ++ [10]) ds).
Definition z_rust (_ : fingerprint) : Lru.key := [].

Definition z_key : fingerprint -> Lru.key := key_of_C02 toyH z_digest z_plusplus z_lang z_extra z_pp z_rust.
Definition z_creq (r : request) : creq := creq_of_fp z_digest z_plusplus z_lang z_extra z_pp (fingerprint_of r).

Definition zw1 : world := fst (do_request z_key oracle (empty_world 1000) r0).
Definition zo0 : outcome := snd (do_request z_key oracle (empty_world 1000) r0).
Definition zw2 : world := run_events z_key oracle zw1 hist.
Definition zw3 : world := fst (do_request z_key oracle zw2 r1).
Definition zo1 : outcome := snd (do_request z_key oracle zw2 r1).

Lemma z_instance :
  (* the hypotheses of key_of_is_C02_key at r0 and the unrelated request *)
  rq_lang r0 = LangC /\ rq_lang rother = LangC /\
  wf_c the_spec (z_creq r0) = true /\ wf_c the_spec (z_creq rother) = true /\
  extra_pp_ok (z_creq r0) (z_creq rother) = true /\
  (toyH (encode_c toyH the_spec (z_creq r0)) = toyH (encode_c toyH the_spec (z_creq rother)) ->
   encode_c toyH the_spec (z_creq r0) = encode_c toyH the_spec (z_creq rother)) /\
  (z_digest (rq_compiler r0) = z_digest (rq_compiler rother) ->
   z_plusplus (rq_compiler r0) = z_plusplus (rq_compiler rother) ->
   tag_of the_spec (z_lang (rq_compiler r0)) = tag_of the_spec (z_lang (rq_compiler rother)) ->
   z_extra (rq_compiler r0) = z_extra (rq_compiler rother) -> rq_compiler r0 = rq_compiler rother) /\
  (z_pp (rq_inputs r0) = z_pp (rq_inputs rother) -> rq_inputs r0 = rq_inputs rother) /\
  fingerprint_of r0 <> fingerprint_of rother /\ z_key (fingerprint_of r0) <> z_key (fingerprint_of rother) /\
  (* C03's example history, with C02's key as the hash function: stored, survives the unrelated request, the deletion
     of the output, the restart; the repeated request (other -o, extra variable) is a hit that runs no compiler *)
  oc_stored zo0 = true /\ unrelated z_key r0 hist = true /\ cached z_key zw2 r0 = true /\
  fingerprint_of r1 = fingerprint_of r0 /\ oc_kind zo1 = KHit /\ oc_compiled zo1 = false /\
  alookup b_o (w_ws zw3) = Some 101.
Proof.
  split; [reflexivity|]. split; [reflexivity|].
  split; [vm_compute; reflexivity|]. split; [vm_compute; reflexivity|]. split; [vm_compute; reflexivity|].
  split; [vm_compute; intro E; discriminate E|].
  split; [intros _ _ _ _; reflexivity|].
  split; [vm_compute; intro E; discriminate E|].
  split; [unfold not; vm_compute; intro E; discriminate E|].
  split; [unfold not; vm_compute; intro E; discriminate E|].
  vm_compute. repeat split; reflexivity.
Qed.
End C03Ex.

(* ------------------------------------------------------------------ C06 ⟵ C07: a start-up directory and two calls *)
From Sccache Require Model.DiskCache Proofs.DiskCache.

Definition store_ex_disk : Model.DiskCache.disk :=
  {| Model.DiskCache.d_files := []; Model.DiskCache.d_dir := []; Model.DiskCache.d_inodes := [];
     Model.DiskCache.d_tmps := []; Model.DiskCache.d_next_ino := 0; Model.DiskCache.d_next_h := 0;
     Model.DiskCache.d_clock := 0 |}.

Definition store_ex_key : Model.Lru.key := Model.DiskCache.make_key_path [97; 49; 98; 50].   (* "a/1/a1b2" *)
Definition store_ex_threads : list Model.DiskCache.thread :=
  [Model.DiskCache.TPut store_ex_key 2 [[1]; [1]] false; Model.DiskCache.TGet store_ex_key].

Lemma store_ex_ok :
  Proofs.DiskCache.disk_ok store_ex_disk /\
  forallb Model.DiskCache.is_call store_ex_threads = true /\
  Model.DiskCache.inited
    (Model.DiskCache.ws (Model.DiskCache.exec (Model.DiskCache.start 100 store_ex_disk store_ex_threads)
                                              [0; 0; 0; 0; 1; 1]%nat)) = true.
Proof.
  split; [|split; vm_compute; reflexivity].
  constructor; simpl.
  - reflexivity.
  - exact I.
  - intros k sz mt E. discriminate E.
  - intros k1 k2 sz1 sz2 mt E. discriminate E.
  - intros k sz mt E. discriminate E.
  - intros k i [].
Qed.
