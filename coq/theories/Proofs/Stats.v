(* Proofs/Stats.v — the counter laws of C14 for every set of requests and every interleaving.

   Method.  Every observable total ([tot]) is ADDITIVE: an increment adds a fixed vector ([inc_tot]), so the
   totals after a trace without zeroing are the initial totals plus the sum over the multiset of increments
   performed.  An interleaving ([interleave sched ts]) is a permutation of the concatenated programs, hence the
   sum — and with it every law — does not depend on the schedule.  The laws are linear (equalities and one
   [<=]), hold for the vector of every complete request program, and are closed under addition. *)
From Coq Require Import List NArith Bool Lia ZifyN ZifyBool Permutation.
From Sccache Require Import Model.Stats.
Import ListNotations.
Local Open Scope N_scope.

#[local] Arguments N.add : simpl never.

(* ---------- totals are additive ---------- *)

Definition tzero : totals := tot zero_stats.

Definition tadd (a b : totals) : totals := {|
  t_requests := t_requests a + t_requests b; t_unsupported := t_unsupported a + t_unsupported b;
  t_not_compile := t_not_compile a + t_not_compile b; t_not_cacheable := t_not_cacheable a + t_not_cacheable b;
  t_executed := t_executed a + t_executed b;
  t_errors := t_errors a + t_errors b; t_errors_adv := t_errors_adv a + t_errors_adv b;
  t_hits := t_hits a + t_hits b; t_hits_adv := t_hits_adv a + t_hits_adv b;
  t_misses := t_misses a + t_misses b; t_misses_adv := t_misses_adv a + t_misses_adv b;
  t_timeouts := t_timeouts a + t_timeouts b; t_read_errors := t_read_errors a + t_read_errors b;
  t_non_cacheable_comp := t_non_cacheable_comp a + t_non_cacheable_comp b;
  t_forced_recaches := t_forced_recaches a + t_forced_recaches b;
  t_write_errors := t_write_errors a + t_write_errors b; t_writes := t_writes a + t_writes b;
  t_compilations := t_compilations a + t_compilations b; t_compile_fails := t_compile_fails a + t_compile_fails b;
  t_not_cached_sum := t_not_cached_sum a + t_not_cached_sum b |}.

(* the vector one increment adds *)
Definition inc_tot (i : inc) : totals := tot (apply_inc i zero_stats).

Lemma cm_sum_inc k m : cm_sum (cm_inc k m) = cm_sum m + 1.
Proof.
  induction m as [|[k' v] m IH]; simpl; [reflexivity|].
  destruct (k =? k'); simpl; rewrite ?IH; lia.
Qed.

Lemma cm_get_inc k k' m : cm_get k (cm_inc k' m) = cm_get k m + (if k =? k' then 1 else 0).
Proof.
  induction m as [|[k2 v] m IH]; simpl.
  - destruct (k =? k'); reflexivity.
  - destruct (k' =? k2) eqn:E2; simpl.
    + apply N.eqb_eq in E2; subst. destruct (k =? k2); lia.
    + destruct (k =? k2) eqn:E3.
      * apply N.eqb_eq in E3; subst. rewrite N.eqb_sym, E2. lia.
      * exact IH.
Qed.

Lemma totals_ext a b :
  t_requests a = t_requests b -> t_unsupported a = t_unsupported b -> t_not_compile a = t_not_compile b ->
  t_not_cacheable a = t_not_cacheable b -> t_executed a = t_executed b -> t_errors a = t_errors b ->
  t_errors_adv a = t_errors_adv b -> t_hits a = t_hits b -> t_hits_adv a = t_hits_adv b ->
  t_misses a = t_misses b -> t_misses_adv a = t_misses_adv b -> t_timeouts a = t_timeouts b ->
  t_read_errors a = t_read_errors b -> t_non_cacheable_comp a = t_non_cacheable_comp b ->
  t_forced_recaches a = t_forced_recaches b -> t_write_errors a = t_write_errors b -> t_writes a = t_writes b ->
  t_compilations a = t_compilations b -> t_compile_fails a = t_compile_fails b ->
  t_not_cached_sum a = t_not_cached_sum b -> a = b.
Proof. destruct a, b; simpl; intros; subst; reflexivity. Qed.

Lemma tot_apply_inc i s : tot (apply_inc i s) = tadd (tot s) (inc_tot i).
Proof.
  destruct s as [cr un ncp nca ex ce ch cm ct cre ncc fr cwe cw co cf nc]; destruct i;
    apply totals_ext; unfold inc_tot, tot, tadd, plc_all, plc_adv_all, plc_inc, zero_stats, plc_zero; cbn;
    rewrite ?cm_sum_inc; lia.
Qed.

Lemma tadd_comm a b : tadd a b = tadd b a.
Proof. apply totals_ext; unfold tadd; cbn; lia. Qed.

Lemma tadd_assoc a b c : tadd a (tadd b c) = tadd (tadd a b) c.
Proof. apply totals_ext; unfold tadd; cbn; lia. Qed.

Lemma tadd_zero_r a : tadd a tzero = a.
Proof. apply totals_ext; unfold tadd, tzero; cbn; lia. Qed.

Lemma tadd_zero_l a : tadd tzero a = a.
Proof. rewrite tadd_comm. apply tadd_zero_r. Qed.

(* sum of the vectors of a list of increments / actions *)
Definition tsum_incs (l : list inc) : totals := fold_right (fun i acc => tadd (inc_tot i) acc) tzero l.
Definition tsum (l : list action) : totals := fold_right (fun a acc => tadd (tsum_incs a) acc) tzero l.

Lemma tot_apply_action a s : tot (apply_action a s) = tadd (tot s) (tsum_incs a).
Proof.
  unfold apply_action. revert s. induction a as [|i a IH]; intro s; simpl.
  - symmetry. apply tadd_zero_r.
  - rewrite IH, tot_apply_inc, <- tadd_assoc. reflexivity.
Qed.

Lemma tot_run_acts l s : tot (run_events (map EAct l) s) = tadd (tot s) (tsum l).
Proof.
  unfold run_events. revert s. induction l as [|a l IH]; intro s; simpl.
  - symmetry. apply tadd_zero_r.
  - rewrite IH. simpl. rewrite tot_apply_action, <- tadd_assoc. reflexivity.
Qed.

Lemma tsum_app l1 l2 : tsum (l1 ++ l2) = tadd (tsum l1) (tsum l2).
Proof.
  induction l1 as [|a l1 IH]; simpl.
  - symmetry. apply tadd_zero_l.
  - rewrite IH. apply tadd_assoc.
Qed.

Lemma tsum_perm l1 l2 : Permutation l1 l2 -> tsum l1 = tsum l2.
Proof.
  induction 1; simpl.
  - reflexivity.
  - congruence.
  - rewrite !tadd_assoc. f_equal. apply tadd_comm.
  - congruence.
Qed.

(* ---------- interleavings are permutations ---------- *)

Lemma pick_perm {A} i (ts : list (list A)) a ts' :
  pick i ts = Some (a, ts') -> Permutation (concat ts) (a :: concat ts').
Proof.
  revert i a ts'. induction ts as [|t r IH]; intros i a ts' H.
  - destruct i; discriminate.
  - destruct i as [|j].
    + destruct t as [|x t]; simpl in H; [discriminate|]. inversion H; subst. simpl. reflexivity.
    + simpl in H. destruct (pick j r) as [[a' r']|] eqn:E.
      * destruct t; inversion H; subst; simpl.
        -- eapply IH; eauto.
        -- specialize (IH _ _ _ E).
           change (Permutation ((a0 :: t) ++ concat r) (a :: (a0 :: t) ++ concat r')).
           rewrite IH. symmetry. apply Permutation_middle.
      * destruct t; discriminate.
Qed.

Lemma interleave_perm {A} sched (ts : list (list A)) : Permutation (interleave sched ts) (concat ts).
Proof.
  revert ts. induction sched as [|i r IH]; intro ts; simpl.
  - reflexivity.
  - destruct (pick i ts) as [[a ts']|] eqn:E.
    + apply pick_perm in E. rewrite E. constructor. apply IH.
    + apply IH.
Qed.

(* every complete execution (any merge of the threads that runs each to its end) is described by a schedule *)
Inductive Merge {A} : list (list A) -> list A -> Prop :=
| merge_done ts : concat ts = [] -> Merge ts []
| merge_step i ts a ts' tr : pick i ts = Some (a, ts') -> Merge ts' tr -> Merge ts (a :: tr).

Lemma merge_has_schedule {A} (ts : list (list A)) tr : Merge ts tr -> exists sched, interleave sched ts = tr.
Proof.
  induction 1 as [ts Hd | i ts a ts' tr Hp _ [sched IH]].
  - exists []. exact Hd.
  - exists (i :: sched). simpl. rewrite Hp, IH. reflexivity.
Qed.

(* ---------- the laws are linear ---------- *)

Definition Laws (t : totals) : Prop :=
  t_requests t = t_executed t + t_not_cacheable t + t_not_compile t + t_unsupported t
  /\ t_executed t = t_hits t + t_errors t + t_compile_fails t + t_compilations t
  /\ t_misses t + t_non_cacheable_comp t <= t_compilations t
  /\ t_writes t + t_write_errors t = t_misses t
  /\ (t_errors t = t_errors_adv t /\ t_hits t = t_hits_adv t /\ t_misses t = t_misses_adv t
      /\ t_not_cacheable t = t_not_cached_sum t)
  /\ t_forced_recaches t + t_timeouts t + t_read_errors t <= t_misses t.

Lemma laws_iff t : laws t = true <-> Laws t.
Proof.
  unfold laws, Laws, law_partition, law_outcome, law_compilations, law_writes, law_lang_sums, law_miss_kinds.
  rewrite !andb_true_iff, !N.eqb_eq, !N.leb_le. tauto.
Qed.

Lemma Laws_zero : Laws tzero.
Proof. apply laws_iff. reflexivity. Qed.

Lemma Laws_add a b : Laws a -> Laws b -> Laws (tadd a b).
Proof. unfold Laws, tadd; simpl. intros; repeat split; lia. Qed.

(* the vector of one complete request *)
Lemma Laws_program k : Laws (tsum (program k)).
Proof.
  apply laws_iff.
  destruct k as [| |why|l oc]; [| | |destruct oc as [|mt stored| | | | |]; [|destruct mt, stored| | | | |]];
    reflexivity.
Qed.

Lemma Laws_programs ks : Laws (tsum (concat (map program ks))).
Proof.
  induction ks as [|k ks IH]; cbn [map concat].
  - apply Laws_zero.
  - rewrite tsum_app. apply Laws_add; [apply Laws_program | exact IH].
Qed.

(* ---------- one epoch: a set of requests under an arbitrary schedule ---------- *)

Definition run_epoch (sched : list nat) (ks : list request_kind) (s : stats) : stats :=
  run_events (map EAct (interleave sched (map program ks))) s.

Lemma tot_run_epoch sched ks s :
  tot (run_epoch sched ks s) = tadd (tot s) (tsum (concat (map program ks))).
Proof.
  unfold run_epoch. rewrite tot_run_acts. f_equal. apply tsum_perm, interleave_perm.
Qed.

(* quiescent-point invariant: the laws survive any complete epoch *)
Lemma Laws_epoch sched ks s : Laws (tot s) -> Laws (tot (run_epoch sched ks s)).
Proof. intro H. rewrite tot_run_epoch. apply Laws_add; [exact H | apply Laws_programs]. Qed.

(* ---------- histories: epochs separated by quiescent points, optionally zeroing there ---------- *)

Record epoch := { e_zero : bool; e_reqs : list request_kind; e_sched : list nat }.

Definition run_history (h : list epoch) (s : stats) : stats :=
  fold_left (fun s e => run_epoch (e_sched e) (e_reqs e) (if e_zero e then zero_stats else s)) h s.

Lemma Laws_history h s : Laws (tot s) -> Laws (tot (run_history h s)).
Proof.
  unfold run_history. revert s. induction h as [|e h IH]; intros s H; simpl.
  - exact H.
  - apply IH. apply Laws_epoch. destruct (e_zero e); [apply Laws_zero | exact H].
Qed.

Theorem laws_every_history h : laws (tot (run_history h zero_stats)) = true.
Proof. apply laws_iff, Laws_history, Laws_zero. Qed.

Lemma laws_split t :
  laws t = true ->
  law_partition t = true /\ law_outcome t = true /\ law_compilations t = true /\ law_writes t = true
  /\ law_lang_sums t = true /\ law_miss_kinds t = true.
Proof. unfold laws. rewrite !andb_true_iff. tauto. Qed.

(* ---------- exactly one outcome class per executed request ---------- *)

(* the classes of the property text: hit, miss, failed compile, compiled without storing, error *)
Inductive oclass := CHit | CMiss | CFailed | CNotStored | CErr.

Definition class_of (oc : outcome) : oclass :=
  match oc with
  | OHit => CHit
  | OMiss _ _ => CMiss
  | OCompileFailed => CFailed
  | ONotCached | ONotCacheable => CNotStored
  | OError | OFatal => CErr
  end.

Definition oclass_eqb (a b : oclass) : bool :=
  match a, b with
  | CHit, CHit | CMiss, CMiss | CFailed, CFailed | CNotStored, CNotStored | CErr, CErr => true
  | _, _ => false
  end.

Definition in_class (c : oclass) (k : request_kind) : bool :=
  match k with KExecuted _ oc => oclass_eqb (class_of oc) c | _ => false end.

Definition is_executed (k : request_kind) : bool :=
  match k with KExecuted _ _ => true | _ => false end.

Definition count (p : request_kind -> bool) (ks : list request_kind) : N := N.of_nat (length (filter p ks)).

Lemma count_cons p k ks : count p (k :: ks) = (if p k then 1 else 0) + count p ks.
Proof. unfold count; simpl. destruct (p k); simpl; lia. Qed.

(* what the counters say after the requests [ks] ran from zeroed statistics, whatever the interleaving *)
Definition Ledger (ks : list request_kind) (t : totals) : Prop :=
  t_executed t = count is_executed ks
  /\ t_hits t = count (in_class CHit) ks
  /\ t_misses t = count (in_class CMiss) ks
  /\ t_compile_fails t = count (in_class CFailed) ks
  /\ t_errors t = count (in_class CErr) ks
  /\ t_compilations t = count (in_class CMiss) ks + count (in_class CNotStored) ks
  /\ t_requests t = N.of_nat (length ks).

Lemma Ledger_sum ks : Ledger ks (tsum (concat (map program ks))).
Proof.
  induction ks as [|k ks IH].
  - unfold Ledger, count; cbn. repeat split.
  - cbn [map concat]. rewrite tsum_app. unfold Ledger in *. rewrite !count_cons.
    replace (N.of_nat (length (k :: ks))) with (1 + N.of_nat (length ks)) by (cbn [length]; lia).
    remember (tsum (concat (map program ks))) as T eqn:ET. clear ET.
    destruct IH as (I1 & I2 & I3 & I4 & I5 & I6 & I7).
    destruct k as [| |why|l oc]; [| | |destruct oc as [|mt stored| | | | |]; [|destruct mt, stored| | | | |]];
      unfold tadd; cbn; repeat split; lia.
Qed.

Theorem ledger_every_interleaving sched ks : Ledger ks (tot (run_epoch sched ks zero_stats)).
Proof.
  rewrite tot_run_epoch. change (tot zero_stats) with tzero. rewrite tadd_zero_l. apply Ledger_sum.
Qed.

(* the five classes partition the executed requests *)
Lemma classes_partition ks :
  count is_executed ks =
  count (in_class CHit) ks + count (in_class CMiss) ks + count (in_class CFailed) ks
  + count (in_class CNotStored) ks + count (in_class CErr) ks.
Proof.
  induction ks as [|k ks IH]; [reflexivity|].
  rewrite !count_cons, IH.
  destruct k as [| |why|l oc]; [| | |destruct oc]; simpl; lia.
Qed.

Lemma one_class_each l oc : exists! c, in_class c (KExecuted l oc) = true.
Proof.
  exists (class_of oc). split.
  - simpl. destruct (class_of oc); reflexivity.
  - intros c H. simpl in H. destruct (class_of oc), c; simpl in H; congruence.
Qed.

(* ---------- per-language breakdowns, key by key ---------- *)

(* generic: any functional of the statistics that every increment changes by a fixed amount *)
Section Additive.
  Variable phi : stats -> N.
  Variable dphi : inc -> N.
  Hypothesis Hphi : forall i s, phi (apply_inc i s) = phi s + dphi i.

  Definition dsum_incs (l : list inc) : N := fold_right (fun i acc => dphi i + acc) 0 l.
  Definition dsum (l : list action) : N := fold_right (fun a acc => dsum_incs a + acc) 0 l.

  Lemma phi_apply_action a s : phi (apply_action a s) = phi s + dsum_incs a.
  Proof.
    unfold apply_action. revert s. induction a as [|i a IH]; intro s; simpl; [lia|].
    rewrite IH, Hphi. lia.
  Qed.

  Lemma phi_run_acts l s : phi (run_events (map EAct l) s) = phi s + dsum l.
  Proof.
    unfold run_events. revert s. induction l as [|a l IH]; intro s; simpl; [lia|].
    rewrite IH. simpl. rewrite phi_apply_action. lia.
  Qed.

  Lemma dsum_app l1 l2 : dsum (l1 ++ l2) = dsum l1 + dsum l2.
  Proof. induction l1 as [|a l1 IH]; simpl; [reflexivity|]. rewrite IH. lia. Qed.

  Lemma dsum_perm l1 l2 : Permutation l1 l2 -> dsum l1 = dsum l2.
  Proof. induction 1; simpl; lia. Qed.

  Lemma phi_run_epoch sched ks s : phi (run_epoch sched ks s) = phi s + dsum (concat (map program ks)).
  Proof. unfold run_epoch. rewrite phi_run_acts. f_equal. apply dsum_perm, interleave_perm. Qed.
End Additive.

Inductive ptag := PErrors | PHits | PMisses.

Definition sel (t : ptag) (s : stats) : plc :=
  match t with PErrors => cache_errors s | PHits => cache_hits s | PMisses => cache_misses s end.

Definition inc_sel (t : ptag) (i : inc) : option lang :=
  match t, i with
  | PErrors, ICacheError l | PHits, IHit l | PMisses, IMiss l => Some l
  | _, _ => None
  end.

Lemma sel_apply_inc t i s :
  sel t (apply_inc i s) = match inc_sel t i with Some l => plc_inc l (sel t s) | None => sel t s end.
Proof. destruct s, t, i; reflexivity. Qed.

(* which requests bump the per-language counter [t] *)
Definition bumps (t : ptag) (oc : outcome) : bool :=
  match t, oc with
  | PErrors, (OError | OFatal) | PHits, OHit | PMisses, OMiss _ _ => true
  | _, _ => false
  end.

Definition bumps_key (t : ptag) (proj : lang -> N) (k : N) (r : request_kind) : bool :=
  match r with KExecuted l oc => bumps t oc && (k =? proj l) | _ => false end.

Section PerKey.
  Variable t : ptag.
  Variable adv : bool.               (* false: `counts`, true: `adv_counts` *)
  Variable k : N.

  Definition proj (l : lang) : N := if adv then l_adv l else l_lang l.
  Definition phi_key (s : stats) : N := cm_get k (if adv then adv_counts (sel t s) else counts (sel t s)).
  Definition dphi_key (i : inc) : N :=
    match inc_sel t i with Some l => if k =? proj l then 1 else 0 | None => 0 end.

  Lemma phi_key_inc i s : phi_key (apply_inc i s) = phi_key s + dphi_key i.
  Proof.
    unfold phi_key, dphi_key, proj. rewrite sel_apply_inc.
    destruct (inc_sel t i) as [l|]; [|destruct adv; lia].
    destruct adv; simpl; rewrite cm_get_inc; reflexivity.
  Qed.

  Lemma dsum_key_programs ks :
    dsum dphi_key (concat (map program ks)) = count (bumps_key t proj k) ks.
  Proof.
    induction ks as [|r ks IH]; [reflexivity|].
    cbn [map concat]. rewrite dsum_app, IH, count_cons. f_equal.
    unfold bumps_key, dphi_key.
    destruct t; (destruct r as [| |why|l oc]; [reflexivity..|]);
      destruct oc as [|mt stored| | | | |]; try destruct mt; try destruct stored; cbn;
      try reflexivity; destruct (k =? proj l); reflexivity.
  Qed.

  (* after any interleaving of the requests [ks], from zeroed statistics, the entry for key [k] of the
     per-language (or per-language-and-compiler) map counts exactly the requests of that class and language *)
  Lemma per_key_ledger sched ks :
    phi_key (run_epoch sched ks zero_stats) = count (bumps_key t proj k) ks.
  Proof.
    rewrite (phi_run_epoch phi_key dphi_key phi_key_inc), dsum_key_programs.
    unfold phi_key. destruct t, adv; reflexivity.
  Qed.
End PerKey.

(* ---------- zeroing while a request is in flight ---------- *)

(* one executed request that hits; a ZeroStats request issued by another client *)
Definition midflight_threads : list (list event) :=
  [ map EAct (program (KExecuted {| l_lang := 0; l_adv := 0 |} OHit)); [EZero] ].

(* schedule: the request counts itself (compile_requests, requests_executed), then the zeroing, then the hit *)
Definition midflight_sched : list nat := [0%nat; 0%nat; 1%nat; 0%nat].

Lemma zero_midflight_breaks_partition :
  let s := run_events (interleave midflight_sched midflight_threads) zero_stats in
  law_partition (tot s) = true /\ law_outcome (tot s) = false.
Proof. vm_compute. split; reflexivity. Qed.

Definition midflight_sched2 : list nat := [0%nat; 1%nat; 0%nat; 0%nat].

Lemma zero_midflight_breaks_partition2 :
  law_partition (tot (run_events (interleave midflight_sched2 midflight_threads) zero_stats)) = false.
Proof. vm_compute. reflexivity. Qed.
