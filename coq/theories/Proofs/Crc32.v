(* Proofs/Crc32.v — facts about Model/Crc32.v.
   Finite facts over the 256 table entries are checked by vm_compute and lifted with forallb_forall:
     tbl_is_entry   the written-out table is the one the bitwise algorithm generates
     tbl_bound      every entry is below 2^32
     tbl_top_inj    the entries are pairwise different already in their top byte
   From these: the per-byte update is injective in the state (for a fixed byte) and injective in the byte (for
   a fixed state), hence two strings that differ in exactly one byte have different CRC-32. *)
From Coq Require Import List NArith Bool Lia.
From Sccache Require Import Model.Crc32.
Import ListNotations.
Local Open Scope N_scope.

Definition idx256 : list N := map N.of_nat (seq 0 256).

Lemma idx256_in i : i < 256 -> In i idx256.
Proof.
  intro H. unfold idx256. apply in_map_iff. exists (N.to_nat i). split.
  - apply N2Nat.id.
  - apply in_seq. lia.
Qed.

Lemma tbl_is_entry_all : forallb (fun i => N.eqb (tbl i) (crc_entry i)) idx256 = true.
Proof. vm_compute. reflexivity. Qed.

Lemma tbl_bound_all : forallb (fun i => N.ltb (tbl i) 4294967296) idx256 = true.
Proof. vm_compute. reflexivity. Qed.

Lemma tbl_top_inj_all :
  forallb (fun i => forallb (fun j => implb (N.eqb (N.shiftr (tbl i) 24) (N.shiftr (tbl j) 24)) (N.eqb i j)) idx256)
          idx256 = true.
Proof. vm_compute. reflexivity. Qed.

Lemma tbl_is_entry i : i < 256 -> tbl i = crc_entry i.
Proof.
  intro H. pose proof (proj1 (forallb_forall _ _) tbl_is_entry_all i (idx256_in i H)) as E.
  now apply N.eqb_eq in E.
Qed.

Lemma tbl_bound i : i < 256 -> tbl i < 4294967296.
Proof.
  intro H. pose proof (proj1 (forallb_forall _ _) tbl_bound_all i (idx256_in i H)) as E.
  now apply N.ltb_lt in E.
Qed.

Lemma tbl_top_inj i j : i < 256 -> j < 256 -> N.shiftr (tbl i) 24 = N.shiftr (tbl j) 24 -> i = j.
Proof.
  intros Hi Hj E.
  pose proof (proj1 (forallb_forall _ _) tbl_top_inj_all i (idx256_in i Hi)) as E1. cbv beta in E1.
  pose proof (proj1 (forallb_forall _ _) E1 j (idx256_in j Hj)) as E2. cbv beta in E2.
  rewrite E, N.eqb_refl in E2. simpl in E2. now apply N.eqb_eq in E2.
Qed.

Lemma tbl_inj i j : i < 256 -> j < 256 -> tbl i = tbl j -> i = j.
Proof. intros Hi Hj E. apply tbl_top_inj; auto. now rewrite E. Qed.

(* ---------------------------------------------------------------- bit-level helpers *)
Lemma lxor_cancel_r a b c : N.lxor a c = N.lxor b c -> a = b.
Proof.
  intro H.
  assert (E : N.lxor (N.lxor a c) c = N.lxor (N.lxor b c) c) by now rewrite H.
  now rewrite !N.lxor_assoc, !N.lxor_nilpotent, !N.lxor_0_r in E.
Qed.

Lemma lxor_cancel_l a b c : N.lxor c a = N.lxor c b -> a = b.
Proof. rewrite !(N.lxor_comm c). apply lxor_cancel_r. Qed.

Lemma land255 x : N.land x 255 = x mod 256.
Proof. change 255 with (N.ones 8). rewrite N.land_ones. reflexivity. Qed.

Lemma land255_lt x : N.land x 255 < 256.
Proof. rewrite land255. apply N.mod_lt. discriminate. Qed.

Lemma lt_pow2_log2 a n : a < 2 ^ n -> a = 0 \/ N.log2 a < n.
Proof.
  intro H. destruct (N.eq_dec a 0) as [->|Hz]; [now left|right].
  apply N.log2_lt_pow2; [lia|exact H].
Qed.

Lemma lxor_lt_pow2 a b n : a < 2 ^ n -> b < 2 ^ n -> N.lxor a b < 2 ^ n.
Proof.
  intros Ha Hb.
  destruct (N.eq_dec (N.lxor a b) 0) as [E|Hz].
  - rewrite E. apply N.neq_0_lt_0. apply N.pow_nonzero. discriminate.
  - apply N.log2_lt_pow2; [lia|].
    pose proof (N.log2_lxor a b) as Hl.
    destruct (lt_pow2_log2 _ _ Ha) as [->|Ha'], (lt_pow2_log2 _ _ Hb) as [->|Hb'].
    + now rewrite N.lxor_0_l in Hz.
    + rewrite N.lxor_0_l. exact Hb'.
    + rewrite N.lxor_0_r. exact Ha'.
    + lia.
Qed.

Lemma shiftr_le a n : N.shiftr a n <= a.
Proof.
  rewrite N.shiftr_div_pow2. apply N.div_le_upper_bound.
  - apply N.pow_nonzero. discriminate.
  - pose proof (N.pow_nonzero 2 n ltac:(discriminate)) as Hp.
    assert (1 <= 2 ^ n) by lia. nia.
Qed.

Lemma shiftr32_small c : c < 4294967296 -> N.shiftr c 32 = 0.
Proof.
  intro H. rewrite N.shiftr_div_pow2. apply N.div_small. exact H.
Qed.

(* the low byte of (c xor b) determines the low byte of c, given b — and the low byte of b, given c *)
Lemma land_lxor_cancel c c' b :
  N.land (N.lxor c b) 255 = N.land (N.lxor c' b) 255 -> N.land c 255 = N.land c' 255.
Proof.
  intro H. apply N.bits_inj. intro n.
  assert (E := f_equal (fun x => N.testbit x n) H). cbv beta in E.
  rewrite !N.land_spec, !N.lxor_spec in E. rewrite !N.land_spec.
  destruct (N.testbit c n), (N.testbit c' n), (N.testbit b n), (N.testbit 255 n); simpl in *; congruence.
Qed.

Lemma land_lxor_cancel_l c b b' :
  N.land (N.lxor c b) 255 = N.land (N.lxor c b') 255 -> N.land b 255 = N.land b' 255.
Proof. rewrite !(N.lxor_comm c). apply land_lxor_cancel. Qed.

(* ---------------------------------------------------------------- the per-byte update *)
Definition st32 (c : N) : Prop := c < 4294967296.

Lemma crc_step_bound c b : st32 c -> st32 (crc_step c b).
Proof.
  unfold st32, crc_step. intro H. change 4294967296 with (2 ^ 32).
  apply lxor_lt_pow2.
  - apply tbl_bound. apply land255_lt.
  - eapply N.le_lt_trans; [apply shiftr_le|exact H].
Qed.

Lemma crc_step_inj_state c c' b : st32 c -> st32 c' -> crc_step c b = crc_step c' b -> c = c'.
Proof.
  unfold st32, crc_step. intros Hc Hc' H.
  set (i := N.land (N.lxor c b) 255) in *. set (i' := N.land (N.lxor c' b) 255) in *.
  assert (Hi : i < 256) by apply land255_lt. assert (Hi' : i' < 256) by apply land255_lt.
  assert (Etop : N.shiftr (tbl i) 24 = N.shiftr (tbl i') 24).
  { assert (E := f_equal (fun x => N.shiftr x 24) H). cbv beta in E.
    rewrite !N.shiftr_lxor, !N.shiftr_shiftr in E. change (8 + 24) with 32 in E.
    now rewrite !shiftr32_small, !N.lxor_0_r in E by assumption. }
  assert (Ei : i = i') by (apply tbl_top_inj; assumption).
  rewrite Ei in H. apply lxor_cancel_l in H.
  subst i i'. apply land_lxor_cancel in Ei. rewrite !land255 in Ei.
  rewrite !N.shiftr_div_pow2 in H. change (2 ^ 8) with 256 in H.
  rewrite (N.div_mod c 256), (N.div_mod c' 256) by discriminate. now rewrite H, Ei.
Qed.

Lemma crc_step_inj_byte c b b' : b < 256 -> b' < 256 -> crc_step c b = crc_step c b' -> b = b'.
Proof.
  unfold crc_step. intros Hb Hb' H. apply lxor_cancel_r in H.
  apply tbl_inj in H; try apply land255_lt.
  apply land_lxor_cancel_l in H. rewrite !land255 in H.
  now rewrite !N.mod_small in H by assumption.
Qed.

Lemma crc_update_bound bs : forall c, st32 c -> st32 (crc_update c bs).
Proof.
  unfold crc_update. induction bs as [|b bs IH]; intros c H; simpl; [exact H|].
  apply IH. now apply crc_step_bound.
Qed.

Lemma crc_update_inj bs : forall c c', st32 c -> st32 c' -> crc_update c bs = crc_update c' bs -> c = c'.
Proof.
  unfold crc_update. induction bs as [|b bs IH]; intros c c' H H' E; simpl in E; [exact E|].
  apply IH in E; try now apply crc_step_bound.
  eapply crc_step_inj_state; eauto.
Qed.

Lemma crc_update_app c a b : crc_update c (a ++ b) = crc_update (crc_update c a) b.
Proof. unfold crc_update. apply fold_left_app. Qed.

Lemma mask_st32 : st32 MASK32.
Proof. unfold st32, MASK32. reflexivity. Qed.

(* ---------------------------------------------------------------- the theorem *)
Lemma crc32_single_byte :
  forall (p s : list N) (b b' : N), b < 256 -> b' < 256 -> b <> b' ->
    crc32 (p ++ b :: s) <> crc32 (p ++ b' :: s).
Proof.
  intros p s b b' Hb Hb' Hne E. unfold crc32 in E. apply lxor_cancel_r in E.
  rewrite !crc_update_app in E.
  change (b :: s) with ([b] ++ s) in E. change (b' :: s) with ([b'] ++ s) in E.
  rewrite !crc_update_app in E.
  pose proof (crc_update_bound p _ mask_st32) as Hp.
  apply crc_update_inj in E.
  - unfold crc_update in E at 1 3. simpl in E. apply crc_step_inj_byte in E; auto.
  - unfold crc_update at 1. simpl. now apply crc_step_bound.
  - unfold crc_update at 1. simpl. now apply crc_step_bound.
Qed.

Lemma crc32_bound bs : crc32 bs < 4294967296.
Proof.
  unfold crc32. change 4294967296 with (2 ^ 32). apply lxor_lt_pow2.
  - apply (crc_update_bound bs _ mask_st32).
  - reflexivity.
Qed.

(* crc_take is the CRC state after the first n bytes *)
Lemma crc_take_firstn l : forall n c, crc_take l n c = crc_update c (firstn (N.to_nat n) l).
Proof.
  induction l as [|x l IH]; intros n c; simpl.
  - now rewrite firstn_nil.
  - destruct (N.eqb_spec n 0) as [->|Hn]; [reflexivity|].
    rewrite IH. replace (N.to_nat n) with (S (N.to_nat (N.pred n))) by lia. reflexivity.
Qed.
