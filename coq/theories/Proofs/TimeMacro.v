(* Proofs/TimeMacro.v — the time-macro scan is exact and independent of how the file is split into reads. *)
From Coq Require Import List NArith Bool Arith Lia.
From Sccache Require Import Base.Sx Gen.C04Consts Model.TimeMacro.
Import ListNotations.

Definition occurs (p s : bytes) : Prop := exists a b, s = a ++ p ++ b.
Definition is_suffix (x s : bytes) : Prop := exists pre, s = pre ++ x.
Definition is_prefix (x s : bytes) : Prop := exists post, s = x ++ post.

(* ---------------- substring search ---------------- *)

Lemma prefixb_spec p h : prefixb p h = true <-> is_prefix p h.
Proof.
  revert h; induction p as [|x p IH]; intros h; simpl.
  - split; [intros _; exists h; reflexivity | reflexivity].
  - destruct h as [|y h].
    + split; [discriminate | intros [post Hp]; discriminate].
    + rewrite andb_true_iff, N.eqb_eq, IH. split.
      * intros [-> [post ->]]. exists post. reflexivity.
      * intros [post Hp]. inversion Hp; subst. split; [reflexivity | exists post; reflexivity].
Qed.

Lemma containsb_spec p h : containsb p h = true <-> occurs p h.
Proof.
  induction h as [|y h IH].
  - simpl. rewrite orb_false_r, prefixb_spec. split.
    + intros [post Hp]. exists [], post. exact Hp.
    + intros [a [b Hab]]. destruct a; [exists b; exact Hab | discriminate].
  - cbn [containsb]. rewrite orb_true_iff, prefixb_spec, IH. split.
    + intros [[post Hp] | [a [b Hab]]].
      * exists [], post. exact Hp.
      * exists (y :: a), b. rewrite Hab. reflexivity.
    + intros [a [b Hab]]. destruct a as [|z a].
      * left. exists b. exact Hab.
      * right. inversion Hab; subst. exists a, b. reflexivity.
Qed.

Lemma occurs_mono p x y z : occurs p x -> occurs p (y ++ x ++ z).
Proof.
  intros [a [b ->]]. exists (y ++ a), (b ++ z). repeat rewrite <- app_assoc. reflexivity.
Qed.

Lemma occurs_app_l p x z : occurs p x -> occurs p (x ++ z).
Proof. intros Ho. apply (occurs_mono p x [] z) in Ho. exact Ho. Qed.

Lemma occurs_app_r p x y : occurs p x -> occurs p (y ++ x).
Proof. intros Ho. apply (occurs_mono p x y []) in Ho. rewrite app_nil_r in Ho. exact Ho. Qed.

Lemma occurs_nil s : occurs [] s.
Proof. exists [], s. reflexivity. Qed.

(* an occurrence in a ++ b lies in a, in b, or straddles the seam *)
Lemma occurs_straddle p a b :
  occurs p (a ++ b) ->
  occurs p a \/ occurs p b \/
  exists a2 b1, is_suffix a2 a /\ is_prefix b1 b /\ p = a2 ++ b1.
Proof.
  intros [u [v Huv]].
  rewrite app_assoc in Huv.
  apply app_eq_app in Huv. destruct Huv as [l [[Ha Hv] | [Hup Hb]]].
  - left. exists u, l. rewrite Ha. rewrite <- app_assoc. reflexivity.
  - apply app_eq_app in Hup. destruct Hup as [l' [[Hu Hl] | [Ha Hp]]].
    + right. left. exists l', v. rewrite Hb, Hl. rewrite <- app_assoc. reflexivity.
    + right. right. exists l', l. split; [exists u; exact Ha|]. split; [exists v; exact Hb | exact Hp].
Qed.

Lemma straddle_occurs a2 b1 x y : is_suffix a2 x -> is_prefix b1 y -> occurs (a2 ++ b1) (x ++ y).
Proof.
  intros [pre ->] [post ->]. exists pre, post. repeat rewrite <- app_assoc. reflexivity.
Qed.

(* two suffixes of the same list: the shorter one is a suffix of the longer one *)
Lemma suffix_of_suffix (x t s : bytes) :
  is_suffix x s -> is_suffix t s -> length x <= length t -> is_suffix x t.
Proof.
  intros [p1 H1] [p2 H2] Hlen. subst s.
  apply app_eq_app in H2. destruct H2 as [l [[Hp Ht] | [Hp Hx]]].
  - exists l. exact Ht.
  - assert (l = []) as ->.
    { apply (f_equal (@length _)) in Hx. rewrite app_length in Hx. destruct l; [reflexivity | simpl in Hx; lia]. }
    exists []. simpl in Hx. rewrite Hx. reflexivity.
Qed.

Lemma prefix_of_firstn (x v : bytes) n : is_prefix x v -> length x <= n -> is_prefix x (firstn n v).
Proof.
  intros [post ->] Hlen.
  rewrite firstn_app. replace (firstn n x) with x.
  - eexists. reflexivity.
  - symmetry. apply firstn_all2. exact Hlen.
Qed.

Lemma suffix_trans (x y z : bytes) : is_suffix x y -> is_suffix y z -> is_suffix x z.
Proof. intros [p ->] [q ->]. exists (q ++ p). rewrite app_assoc. reflexivity. Qed.

Lemma suffix_app (x y pre : bytes) : is_suffix x y -> is_suffix x (pre ++ y).
Proof. intros [p ->]. exists (pre ++ p). rewrite app_assoc. reflexivity. Qed.

Lemma suffix_app_r (x y z : bytes) : is_suffix x y -> is_suffix (x ++ z) (y ++ z).
Proof. intros [p ->]. exists p. rewrite app_assoc. reflexivity. Qed.

Lemma suffix_refl (x : bytes) : is_suffix x x.
Proof. exists []. reflexivity. Qed.

Lemma lastn_suffix {A} n (l : list A) : exists pre, l = pre ++ lastn n l.
Proof. unfold lastn. exists (firstn (length l - n) l). symmetry. apply firstn_skipn. Qed.

Lemma lastn_length {A} n (l : list A) : n <= length l -> length (lastn n l) = n.
Proof. intros Hn. unfold lastn. rewrite skipn_length. lia. Qed.

Lemma suffix_occurs p x s : is_suffix x s -> occurs p x -> occurs p s.
Proof. intros [pre ->] Ho. apply occurs_app_r. exact Ho. Qed.

(* zero padding cannot create an occurrence of a zero-free pattern *)
Definition zero_free (p : bytes) : Prop := forall c, In c p -> c <> 0%N.

Lemma in_zeros c n : In c (zeros n) -> c = 0%N.
Proof. unfold zeros. intros Hin. apply repeat_spec in Hin. exact Hin. Qed.

Lemma occurs_pad p x n : zero_free p -> occurs p (x ++ zeros n) -> occurs p x.
Proof.
  intros Hz Ho. apply occurs_straddle in Ho. destruct Ho as [Ho | [Ho | [a2 [b1 [Hs [Hp Hpq]]]]]].
  - exact Ho.
  - destruct p as [|c p]; [apply occurs_nil|].
    destruct Ho as [a [b Hab]]. exfalso. apply (Hz c); [left; reflexivity|].
    apply (in_zeros c n). rewrite Hab. apply in_or_app. right. left. reflexivity.
  - destruct b1 as [|c b1].
    + rewrite app_nil_r in Hpq. subst a2. destruct Hs as [pre ->]. exists pre, []. rewrite app_nil_r. reflexivity.
    + exfalso. apply (Hz c).
      * rewrite Hpq. apply in_or_app. right. left. reflexivity.
      * destruct Hp as [post Hp]. apply (in_zeros c n). rewrite Hp. left. reflexivity.
Qed.

(* ---------------- the three (pattern, flag) pairs ---------------- *)

Inductive which := WDate | WTime | WTimestamp.

Definition pat (w : which) : bytes :=
  match w with WDate => pat_date | WTime => pat_time | WTimestamp => pat_timestamp end.
Definition flag (w : which) (f : finder) : bool :=
  match w with WDate => f_date f | WTime => f_time f | WTimestamp => f_timestamp f end.

Definition zero_freeb (p : bytes) : bool := forallb (fun c => negb (N.eqb c 0)) p.

Lemma zero_freeb_spec p : zero_freeb p = true -> zero_free p.
Proof.
  unfold zero_freeb, zero_free. intros Hf c Hin Hc. rewrite forallb_forall in Hf.
  specialize (Hf c Hin). subst c. discriminate.
Qed.

(* side conditions on the translated constants *)
Lemma pat_len w : length (pat w) <= max_haystack_len.
Proof. destruct w; apply Nat.leb_le; vm_compute; reflexivity. Qed.

Lemma pat_zero_free w : zero_free (pat w).
Proof. destruct w; apply zero_freeb_spec; vm_compute; reflexivity. Qed.

Lemma haystack_pos : 1 <= max_haystack_len.
Proof. apply Nat.leb_le; vm_compute; reflexivity. Qed.

Lemma flag_find w f buf : flag w (find_macros f buf) = flag w f || containsb (pat w) buf.
Proof. destruct w; reflexivity. Qed.

Lemma flag_set_psr w f p : flag w (set_psr f p) = flag w f.
Proof. destruct w; reflexivity. Qed.
Lemma flag_set_ob w f l r : flag w (set_ob f l r) = flag w f.
Proof. destruct w; reflexivity. Qed.

Lemma flag_finish w f v :
  flag w (finish_full f v) =
  flag w f || (nonempty (psr f) && containsb (pat w) (psr f ++ v)) || containsb (pat w) v.
Proof.
  unfold finish_full. destruct (nonempty (psr f)); destruct w; cbn;
    rewrite ?orb_false_r; reflexivity.
Qed.

Lemma obl_finish f v : ob_l (finish_full f v) = ob_l f.
Proof. unfold finish_full. destruct (nonempty (psr f)); reflexivity. Qed.
Lemma psr_finish f v : psr (finish_full f v) = [].
Proof. reflexivity. Qed.
Lemma fc_finish f v : full_chunks (finish_full f v) = (full_chunks f + 1)%N.
Proof. unfold finish_full. destruct (nonempty (psr f)); reflexivity. Qed.

Lemma nonempty_false {A} (l : list A) : nonempty l = false -> l = [].
Proof. destruct l; [reflexivity | discriminate]. Qed.

(* ---------------- the invariant ---------------- *)

Definition M := max_haystack_len.

Definition Inv (w : which) (f : finder) (S : bytes) : Prop :=
  (flag w f = true <-> occurs (pat w) S) /\
  (full_chunks f = 0%N -> psr f = S) /\
  (full_chunks f <> 0%N ->
     if nonempty (psr f) then is_suffix (psr f) S /\ M <= length (psr f)
     else is_suffix (ob_l f) S /\ length (ob_l f) = M).

Lemma Inv_init w : Inv w finder_new [].
Proof.
  split; [|split].
  - split; [destruct w; discriminate|].
    intros [a [b Hab]]. destruct a; [|discriminate]. destruct w; discriminate.
  - reflexivity.
  - intros Hne. exfalso. apply Hne. reflexivity.
Qed.

(* a straddling occurrence is visible in T ++ v whenever T is a long enough suffix of S *)
Lemma straddle_visible w (S T v : bytes) :
  is_suffix T S -> M <= length T ->
  occurs (pat w) (S ++ v) -> occurs (pat w) S \/ occurs (pat w) (T ++ v).
Proof.
  intros HT HlT Ho. apply occurs_straddle in Ho. destruct Ho as [Ho | [Ho | [a2 [b1 [Hs [Hp Hpq]]]]]].
  - left. exact Ho.
  - right. apply occurs_app_r. exact Ho.
  - right. rewrite Hpq. apply straddle_occurs; [|exact Hp].
    apply (suffix_of_suffix a2 T S Hs HT).
    pose proof (pat_len w) as Hl. rewrite Hpq, app_length in Hl. fold M in Hl. lia.
Qed.

Lemma straddle_visible_firstn w (S T v : bytes) :
  is_suffix T S -> M <= length T ->
  occurs (pat w) (S ++ v) ->
  occurs (pat w) S \/ occurs (pat w) v \/ occurs (pat w) (T ++ firstn M v).
Proof.
  intros HT HlT Ho. apply occurs_straddle in Ho. destruct Ho as [Ho | [Ho | [a2 [b1 [Hs [Hp Hpq]]]]]].
  - left. exact Ho.
  - right. left. exact Ho.
  - right. right. rewrite Hpq.
    pose proof (pat_len w) as Hl. rewrite Hpq, app_length in Hl. fold M in Hl.
    apply straddle_occurs.
    + apply (suffix_of_suffix a2 T S Hs HT). lia.
    + apply prefix_of_firstn; [exact Hp | lia].
Qed.

Lemma firstn_prefix {A} n (l : list A) : exists post, l = firstn n l ++ post.
Proof. exists (skipn n l). symmetry. apply firstn_skipn. Qed.

Lemma lastn_is_suffix n (l : bytes) : is_suffix (lastn n l) l.
Proof. destruct (lastn_suffix n l) as [pre Hp]. exists pre. exact Hp. Qed.

Ltac flag_rw := repeat (rewrite ?flag_finish, ?flag_find, ?flag_set_psr, ?flag_set_ob).

Lemma Inv_step w f S v : Inv w f S -> Inv w (find_time_macros f v) (S ++ v).
Proof.
  intros [Hflag [Hz Hnz]].
  pose proof haystack_pos as HMpos. fold M in HMpos.
  unfold find_time_macros. fold M.
  destruct (N.eqb (full_chunks f) 0) eqn:Hfc.
  - (* no full chunk so far: psr = S *)
    apply N.eqb_eq in Hfc. specialize (Hz Hfc).
    destruct (Nat.leb (length v) M) eqn:Hlen.
    + (* small read *)
      split; [|split].
      * flag_rw. rewrite orb_true_iff, containsb_spec, Hflag, Hz. split.
        -- intros [Ho | Ho]; [apply occurs_app_l; exact Ho | exact Ho].
        -- intros Ho. right. exact Ho.
      * intros _. cbn. rewrite Hz. reflexivity.
      * intros Hne. exfalso. apply Hne. exact Hfc.
    + (* first full read *)
      apply Nat.leb_gt in Hlen.
      split; [|split].
      * flag_rw. cbn [psr set_ob]. rewrite Hz.
        rewrite !orb_true_iff, andb_true_iff, !containsb_spec, Hflag. split.
        -- intros [[Ho | [_ Ho]] | Ho].
           ++ apply occurs_app_l; exact Ho.
           ++ exact Ho.
           ++ apply occurs_app_r; exact Ho.
        -- intros Ho. destruct S as [|c S'].
           ++ right. exact Ho.
           ++ left. right. split; [reflexivity | exact Ho].
      * intros Hc. exfalso. rewrite fc_finish in Hc. lia.
      * intros _. rewrite psr_finish, obl_finish. cbn. split.
        -- apply suffix_app. apply lastn_is_suffix.
        -- apply lastn_length. lia.
  - (* at least one full chunk before *)
    apply N.eqb_neq in Hfc. specialize (Hnz Hfc).
    destruct (Nat.ltb (length v) M) eqn:Hlen.
    + (* small read after a full one *)
      destruct (nonempty (psr f)) eqn:Hpsr.
      * destruct Hnz as [Hsuf HlT].
        split; [|split].
        -- flag_rw. cbn [psr set_psr]. rewrite orb_true_iff, containsb_spec, Hflag. split.
           ++ intros [Ho | Ho]; [apply occurs_app_l; exact Ho|].
              apply (suffix_occurs _ (psr f ++ v)); [apply suffix_app_r; exact Hsuf | exact Ho].
           ++ intros Ho. apply (straddle_visible w S (psr f) v Hsuf HlT) in Ho. exact Ho.
        -- intros Hc. exfalso. apply Hfc. exact Hc.
        -- intros _. cbn [psr set_psr find_macros ob_l set_ob].
           assert (Hne : nonempty (psr f ++ v) = true) by (destruct (psr f); [discriminate | reflexivity]).
           rewrite Hne. split; [apply suffix_app_r; exact Hsuf | rewrite app_length; lia].
      * destruct Hnz as [Hsuf HlT].
        split; [|split].
        -- flag_rw. cbn [psr set_psr]. rewrite orb_true_iff, containsb_spec, Hflag. split.
           ++ intros [Ho | Ho]; [apply occurs_app_l; exact Ho|].
              apply (suffix_occurs _ (ob_l f ++ v)); [apply suffix_app_r; exact Hsuf | exact Ho].
           ++ intros Ho. apply (straddle_visible w S (ob_l f) v Hsuf) in Ho; [exact Ho | lia].
        -- intros Hc. exfalso. apply Hfc. exact Hc.
        -- intros _. cbn [psr set_psr find_macros ob_l set_ob].
           assert (Hne : nonempty (ob_l f ++ v) = true) by (destruct (ob_l f); [simpl in HlT; lia | reflexivity]).
           rewrite Hne. split; [apply suffix_app_r; exact Hsuf | rewrite app_length; lia].
    + (* full read after a full one *)
      apply Nat.ltb_ge in Hlen.
      assert (Hpad : forall x, occurs (pat w) (x ++ zeros M) -> occurs (pat w) x).
      { intros x. apply occurs_pad. apply pat_zero_free. }
      destruct (nonempty (psr f)) eqn:Hpsr.
      * destruct Hnz as [Hsuf HlT].
        split; [|split].
        -- flag_rw. cbn [psr ob_l ob_r set_ob find_macros]. rewrite Hpsr.
           rewrite !orb_true_iff, andb_true_iff, !containsb_spec, Hflag. split.
           ++ intros [[[Ho | Ho] | [_ Ho]] | Ho].
              ** apply occurs_app_l; exact Ho.
              ** apply Hpad in Ho. apply occurs_app_r.
                 apply (suffix_occurs _ _ _ (lastn_is_suffix M v) Ho).
              ** apply (suffix_occurs _ (psr f ++ v)); [apply suffix_app_r; exact Hsuf | exact Ho].
              ** apply occurs_app_r; exact Ho.
           ++ intros Ho. apply (straddle_visible w S (psr f) v Hsuf HlT) in Ho.
              destruct Ho as [Ho | Ho]; [left; left; left; exact Ho | left; right; split; [reflexivity | exact Ho]].
        -- intros Hc. exfalso. rewrite fc_finish in Hc. lia.
        -- intros _. rewrite psr_finish, obl_finish. cbn. split.
           ++ apply suffix_app. apply lastn_is_suffix.
           ++ apply lastn_length. exact Hlen.
      * destruct Hnz as [Hsuf HlT].
        split; [|split].
        -- flag_rw. cbn [psr ob_l ob_r set_ob find_macros]. rewrite Hpsr.
           rewrite andb_false_l, orb_false_r.
           rewrite !orb_true_iff, !containsb_spec, Hflag. split.
           ++ intros [[[Ho | Ho] | Ho] | Ho].
              ** apply occurs_app_l; exact Ho.
              ** destruct (firstn_prefix M v) as [post Hpost].
                 rewrite Hpost at 1. rewrite app_assoc. apply occurs_app_l.
                 apply (suffix_occurs _ (ob_l f ++ firstn M v)); [apply suffix_app_r; exact Hsuf | exact Ho].
              ** apply Hpad in Ho. apply occurs_app_r.
                 apply (suffix_occurs _ _ _ (lastn_is_suffix M v) Ho).
              ** apply occurs_app_r; exact Ho.
           ++ intros Ho. apply (straddle_visible_firstn w S (ob_l f) v Hsuf) in Ho; [|lia].
              destruct Ho as [Ho | [Ho | Ho]].
              ** left; left; left; exact Ho.
              ** right; exact Ho.
              ** left; left; right; exact Ho.
        -- intros Hc. exfalso. rewrite fc_finish in Hc. lia.
        -- intros _. rewrite psr_finish, obl_finish. cbn. split.
           ++ apply suffix_app. apply lastn_is_suffix.
           ++ apply lastn_length. exact Hlen.
Qed.

Lemma Inv_fold w chunks : forall f S, Inv w f S -> Inv w (fold_left find_time_macros chunks f) (S ++ concat chunks).
Proof.
  induction chunks as [|c cs IH]; intros f S HI; simpl.
  - rewrite app_nil_r. exact HI.
  - rewrite app_assoc. apply IH. apply Inv_step. exact HI.
Qed.

(* the scan is exact, for every way of splitting the bytes into reads *)
Theorem scan_exact (chunks : list bytes) (w : which) :
  flag w (scan_chunks chunks) = true <-> occurs (pat w) (concat chunks).
Proof.
  pose proof (Inv_fold w chunks finder_new [] (Inv_init w)) as [Hf _]. exact Hf.
Qed.

Theorem scan_chunk_independent (c1 c2 : list bytes) :
  concat c1 = concat c2 -> flags_of (scan_chunks c1) = flags_of (scan_chunks c2).
Proof.
  intros Heq.
  assert (Hw : forall w, flag w (scan_chunks c1) = flag w (scan_chunks c2)).
  { intros w. pose proof (scan_exact c1 w) as H1. pose proof (scan_exact c2 w) as H2.
    rewrite Heq in H1. destruct (flag w (scan_chunks c1)), (flag w (scan_chunks c2)); try reflexivity.
    - symmetry. apply H2. apply H1. reflexivity.
    - apply H1. apply H2. reflexivity. }
  unfold flags_of. pose proof (Hw WDate) as Hd. pose proof (Hw WTime) as Ht. pose proof (Hw WTimestamp) as Hs.
  cbn in Hd, Ht, Hs. rewrite Hd, Ht, Hs. reflexivity.
Qed.

(* ---------------- regular files ---------------- *)

Lemma concat_chunks_of fuel n b : 0 < n -> length b <= fuel -> concat (chunks_of fuel n b) = b.
Proof.
  intros Hn. revert b. induction fuel as [|fuel IH]; intros b Hlen.
  - destruct b; [reflexivity | simpl in Hlen; lia].
  - destruct b as [|c b]; [reflexivity|].
    cbn [chunks_of concat]. rewrite IH.
    + apply firstn_skipn.
    + rewrite skipn_length. simpl length in *. lia.
Qed.

Lemma concat_file_chunks b : concat (file_chunks b) = b.
Proof.
  unfold file_chunks. destruct (N.leb (N.of_nat (length b)) hash_buffer_size).
  - destruct b; [reflexivity | simpl; rewrite app_nil_r; reflexivity].
  - apply concat_chunks_of; [|lia].
    assert (H : N.to_nat hash_buffer_size <> 0).
    { intros H0. apply (f_equal N.of_nat) in H0. rewrite N2Nat.id in H0. discriminate H0. }
    lia.
Qed.

Definition mentions (w : which) (b : bytes) : Prop := occurs (pat w) b.

Theorem scan_file_exact b :
  (fl_date (scan_file b) = true <-> mentions WDate b) /\
  (fl_time (scan_file b) = true <-> mentions WTime b) /\
  (fl_timestamp (scan_file b) = true <-> mentions WTimestamp b).
Proof.
  unfold scan_file, mentions.
  pose proof (scan_exact (file_chunks b)) as He. rewrite concat_file_chunks in He.
  split; [exact (He WDate) | split; [exact (He WTime) | exact (He WTimestamp)]].
Qed.

(* ---------------- the digest ---------------- *)
Section Digest.
  Variable Hst : Type.
  Variable upd : Hst -> bytes -> Hst.
  Hypothesis upd_app : forall h a b, upd (upd h a) b = upd h (a ++ b).
  Hypothesis upd_nil : forall h, upd h [] = h.

  (* Digest::reader_sync_with: m.update(chunk) for every read *)
  Definition digest_chunks (h0 : Hst) (chunks : list bytes) : Hst := fold_left upd chunks h0.

  Lemma digest_chunks_concat chunks : forall h0, digest_chunks h0 chunks = upd h0 (concat chunks).
  Proof.
    unfold digest_chunks. induction chunks as [|c cs IH]; intros h0; simpl.
    - symmetry. apply upd_nil.
    - rewrite IH. apply upd_app.
  Qed.

  Theorem digest_chunk_independent h0 c1 c2 :
    concat c1 = concat c2 -> digest_chunks h0 c1 = digest_chunks h0 c2.
  Proof. intros Heq. rewrite !digest_chunks_concat, Heq. reflexivity. Qed.
End Digest.
