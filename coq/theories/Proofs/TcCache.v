(* Proofs/TcCache.v — invariants and theorems about Model/TcCache.v (property C17).

   Layout:
     A  association lists, the order on keys, sorted file maps
     B  what evict / make_space / lru_insert do (the facts C17 needs)
     C  the Lru-level invariant [core] and its preservation by the LruDiskCache
        calls TcCache makes (insert_file, prepare_add+commit / abandon, get, remove, new)
     D  ids and paths (key_path)
     E  the TcCache invariant [tinv] and its preservation by every operation
     F  the theorems pinned in Properties/C17.v

   Self-contained on purpose (does not import Proofs/Lru.v, which belongs to C07). *)
From Coq Require Import List NArith Bool Lia ZifyBool Permutation Sorting.Sorted.
From Sccache Require Import Base.Sx.
From Sccache Require Import Model.Lru.
From Sccache Require Import Model.TcCache.
Import ListNotations.
Local Open Scope N_scope.

#[local] Arguments N.add : simpl never.
#[local] Arguments N.sub : simpl never.
#[local] Arguments N.leb : simpl never.
#[local] Arguments N.ltb : simpl never.
#[local] Arguments N.eqb : simpl never.

(* ====================================================================== *)
(* A. association lists                                                    *)
(* ====================================================================== *)

Definition keys {V} (l : list (key * V)) : list key := map fst l.

Lemma beq_neq a b : bytes_eqb a b = false <-> a <> b.
Proof. rewrite <- bytes_eqb_eq. destruct (bytes_eqb a b); split; congruence. Qed.

Lemma beq_sym a b : bytes_eqb a b = bytes_eqb b a.
Proof.
  destruct (bytes_eqb a b) eqn:E.
  - apply bytes_eqb_eq in E. subst. symmetry. apply bytes_eqb_refl.
  - apply beq_neq in E. symmetry. apply beq_neq. congruence.
Qed.

Lemma amem_In {V} k (l : list (key * V)) : amem k l = true <-> In k (keys l).
Proof.
  unfold amem. induction l as [|[k' v] r IH]; simpl.
  - split; [discriminate | tauto].
  - destruct (bytes_eqb k k') eqn:E.
    + apply bytes_eqb_eq in E. subst. split; auto.
    + apply beq_neq in E. rewrite IH. split; [auto | intros [H|H]; congruence].
Qed.

Lemma amem_false {V} k (l : list (key * V)) : amem k l = false <-> ~ In k (keys l).
Proof. rewrite <- amem_In. destruct (amem k l); split; congruence. Qed.

Lemma alookup_amem {V} k (l : list (key * V)) v : alookup k l = Some v -> amem k l = true.
Proof. unfold amem. intros ->. reflexivity. Qed.

Lemma amem_alookup {V} k (l : list (key * V)) : amem k l = true -> exists v, alookup k l = Some v.
Proof. unfold amem. destruct (alookup k l); [eauto | discriminate]. Qed.

Lemma alookup_aremove_eq {V} k (l : list (key * V)) : alookup k (aremove k l) = None.
Proof.
  induction l as [|[k' v] r IH]; simpl; auto.
  destruct (bytes_eqb k k') eqn:E; auto. simpl. rewrite E. exact IH.
Qed.

Lemma alookup_aremove_neq {V} k k' (l : list (key * V)) :
  k' <> k -> alookup k' (aremove k l) = alookup k' l.
Proof.
  intros N. induction l as [|[k0 v] r IH]; simpl; auto.
  destruct (bytes_eqb k k0) eqn:E.
  - apply bytes_eqb_eq in E. subst k0.
    destruct (bytes_eqb k' k) eqn:E2; [apply bytes_eqb_eq in E2; congruence | exact IH].
  - simpl. destruct (bytes_eqb k' k0); auto.
Qed.

Lemma keys_aremove {V} k k' (l : list (key * V)) :
  In k' (keys (aremove k l)) <-> In k' (keys l) /\ k' <> k.
Proof.
  induction l as [|[k0 v] r IH]; simpl; [tauto|].
  destruct (bytes_eqb k k0) eqn:E.
  - apply bytes_eqb_eq in E. subst k0. rewrite IH. split; [tauto|]. intros [[H|H] N]; [congruence | tauto].
  - apply beq_neq in E. simpl. rewrite IH. split.
    + intros [H|H]; [subst; split; auto | tauto].
    + tauto.
Qed.

Lemma alookup_ains_eq {V} k (v : V) l : alookup k (ains k v l) = Some v.
Proof.
  induction l as [|[k' v'] r IH]; simpl.
  - rewrite bytes_eqb_refl. reflexivity.
  - destruct (bytes_eqb k k') eqn:E; simpl.
    + rewrite bytes_eqb_refl. reflexivity.
    + destruct (bytes_ltb k k'); simpl.
      * rewrite bytes_eqb_refl. reflexivity.
      * rewrite E. exact IH.
Qed.

Lemma alookup_ains_neq {V} k k' (v : V) l : k' <> k -> alookup k' (ains k v l) = alookup k' l.
Proof.
  intros N. apply beq_neq in N. induction l as [|[k0 v0] r IH]; simpl.
  - rewrite N. reflexivity.
  - destruct (bytes_eqb k k0) eqn:E; simpl.
    + apply bytes_eqb_eq in E. subst k0. rewrite N. reflexivity.
    + destruct (bytes_ltb k k0); simpl.
      * rewrite N. reflexivity.
      * destruct (bytes_eqb k' k0); auto.
Qed.

Lemma keys_ains {V} k k' (v : V) l : In k' (keys (ains k v l)) <-> k' = k \/ In k' (keys l).
Proof.
  rewrite <- !amem_In. unfold amem.
  destruct (list_eq_dec N.eq_dec k' k) as [->|N].
  - rewrite alookup_ains_eq. tauto.
  - rewrite alookup_ains_neq by exact N. tauto.
Qed.

(* ---- the order on keys ---- *)

Lemma ltb_irrefl a : bytes_ltb a a = false.
Proof. induction a as [|x a IH]; simpl; auto. rewrite N.ltb_irrefl. exact IH. Qed.

Lemma ltb_trans a : forall b c, bytes_ltb a b = true -> bytes_ltb b c = true -> bytes_ltb a c = true.
Proof.
  induction a as [|x a IH]; intros [|y b] [|z c]; simpl; try discriminate; auto.
  destruct (x <? y) eqn:Exy, (y <? x) eqn:Eyx, (y <? z) eqn:Eyz, (z <? y) eqn:Ezy,
           (x <? z) eqn:Exz, (z <? x) eqn:Ezx; try discriminate; try lia; auto.
  intros H1 H2. eapply IH; eauto.
Qed.

Lemma ltb_total a : forall b, bytes_ltb a b = false -> bytes_eqb a b = false -> bytes_ltb b a = true.
Proof.
  induction a as [|x a IH]; intros [|y b]; simpl; try discriminate; auto.
  destruct (x <? y) eqn:Exy, (y <? x) eqn:Eyx; try discriminate; auto.
  assert (x = y) by lia. subst. rewrite N.eqb_refl. simpl. apply IH.
Qed.

Lemma ltb_neq a b : bytes_ltb a b = true -> a <> b.
Proof. intros H ->. rewrite ltb_irrefl in H. discriminate. Qed.

Definition klt {V} (a b : key * V) : Prop := bytes_ltb (fst a) (fst b) = true.
Definition ksorted {V} (l : list (key * V)) : Prop := StronglySorted klt l.

Lemma ksorted_aremove {V} k (l : list (key * V)) : ksorted l -> ksorted (aremove k l).
Proof.
  induction 1 as [|[k' v] r Hs IH Hall]; simpl; [constructor|].
  destruct (bytes_eqb k k'); auto. constructor; auto.
  rewrite Forall_forall in *. intros [k2 v2] Hin. apply Hall.
  clear - Hin. induction r as [|[k3 v3] r IH]; simpl in *; auto.
  destruct (bytes_eqb k k3); simpl in *; tauto.
Qed.

Lemma ksorted_ains {V} k (v : V) l : ksorted l -> ksorted (ains k v l).
Proof.
  induction 1 as [|[k' v'] r Hs IH Hall]; simpl.
  - constructor; constructor.
  - destruct (bytes_eqb k k') eqn:E.
    + apply bytes_eqb_eq in E. subst k'. constructor; auto.
    + destruct (bytes_ltb k k') eqn:L.
      * constructor; [constructor; auto|]. constructor; [exact L|].
        rewrite Forall_forall in *. intros x Hx. specialize (Hall x Hx). unfold klt in *. simpl in *.
        eapply ltb_trans; eauto.
      * constructor; auto. rewrite Forall_forall in *. intros [k2 v2] Hin.
        assert (Hk : In k2 (keys (ains k v r))) by (apply in_map_iff; exists (k2, v2); auto).
        apply keys_ains in Hk. destruct Hk as [->|Hk].
        -- unfold klt. simpl. apply ltb_total; auto.
        -- apply in_map_iff in Hk. destruct Hk as [[k3 v3] [Hf Hin3]]. simpl in Hf. subst k3.
           specialize (Hall _ Hin3). exact Hall.
Qed.

Lemma ksorted_NoDup {V} (l : list (key * V)) : ksorted l -> NoDup (keys l).
Proof.
  induction 1 as [|[k v] r Hs IH Hall]; simpl; constructor; auto.
  intros Hin. apply in_map_iff in Hin. destruct Hin as [[k2 v2] [Hf Hin]]. simpl in Hf. subst k2.
  rewrite Forall_forall in Hall. specialize (Hall _ Hin). unfold klt in Hall. simpl in Hall.
  rewrite ltb_irrefl in Hall. discriminate.
Qed.

Lemma NoDup_keys_aremove {V} k (l : list (key * V)) : NoDup (keys l) -> NoDup (keys (aremove k l)).
Proof.
  induction l as [|[k' v] r IH]; simpl; auto. intros H. inversion H; subst.
  destruct (bytes_eqb k k'); auto. simpl. constructor; auto.
  intros Hin. apply keys_aremove in Hin. tauto.
Qed.

Lemma keys_app {V} (a b : list (key * V)) : keys (a ++ b) = keys a ++ keys b.
Proof. apply map_app. Qed.

Lemma NoDup_snoc {A} (l : list A) x : NoDup l -> ~ In x l -> NoDup (l ++ [x]).
Proof.
  induction l as [|y l IH]; simpl; intros Hn Hx.
  - constructor; auto.
  - inversion Hn; subst. constructor.
    + rewrite in_app_iff. simpl. intros [H|[H|[]]]; [tauto | subst; tauto].
    + apply IH; tauto.
Qed.

(* ---- sort_mtime is a permutation ---- *)

Lemma ins_mtime_perm e l : Permutation (ins_mtime e l) (e :: l).
Proof.
  induction l as [|e' r IH]; simpl; auto.
  destruct (snd (snd e) <? snd (snd e')); auto.
  rewrite IH. apply perm_swap.
Qed.

Lemma sort_mtime_perm l : Permutation (sort_mtime l) l.
Proof.
  unfold sort_mtime. induction l as [|e r IH]; simpl; auto.
  rewrite ins_mtime_perm. constructor. exact IH.
Qed.

(* ====================================================================== *)
(* B. evict / make_space / lru_insert                                      *)
(* ====================================================================== *)

(* index duplicate-free, every indexed key has a file, the file map is canonical *)
Definition wf (s : st) : Prop :=
  NoDup (keys (index s)) /\
  (forall k, In k (keys (index s)) -> In k (keys (files s))) /\
  ksorted (files s).

(* the bookkeeping make_space / lru_insert never touch *)
Definition env_eq (s s' : st) : Prop :=
  cap s' = cap s /\ pending s' = pending s /\ pending_size s' = pending_size s /\
  handles s' = handles s /\ next_h s' = next_h s.

Lemma env_eq_refl s : env_eq s s.
Proof. repeat split. Qed.

Lemma env_eq_trans a b c : env_eq a b -> env_eq b c -> env_eq a c.
Proof. unfold env_eq. intuition congruence. Qed.

Lemma lru_trim_noop idx m c : m <= c -> lru_trim idx m c = (idx, m).
Proof. intros H. destruct idx as [|[k sz] r]; simpl; replace (m <=? c) with true by lia; reflexivity. Qed.

Lemma evict_props : forall idx m fs extra c ok idx' m' fs',
  evict idx m fs extra c = (ok, (idx', m', fs')) ->
  NoDup (keys idx) -> (forall k, In k (keys idx) -> In k (keys fs)) -> ksorted fs ->
  NoDup (keys idx') /\ (forall k, In k (keys idx') -> In k (keys fs')) /\ ksorted fs' /\
  m' <= m /\ (ok = true -> m' + extra <= c) /\
  (forall k, In k (keys idx') -> In k (keys idx)) /\
  (forall k, In k (keys fs') -> In k (keys fs)) /\
  (forall k, In k (keys fs) -> ~ In k (keys idx) -> In k (keys fs')).
Proof.
  induction idx as [|[k sz] r IH]; intros m fs extra c ok idx' m' fs' H Hnd Hsub Hs.
  - simpl in H. destruct (m + extra <=? c) eqn:E; inversion H; subst; clear H;
      repeat split; auto; try lia; try discriminate.
  - simpl in H. destruct (m + extra <=? c) eqn:E.
    + inversion H; subst; clear H. repeat split; auto; lia.
    + simpl in Hnd. inversion Hnd as [|? ? Hnin Hnd']; subst.
      apply IH in H; auto.
      * destruct H as (A & B & C & D & E' & F & G & I).
        repeat split; auto.
        -- lia.
        -- intros k0 Hk. simpl. right. auto.
        -- intros k0 Hk. apply G in Hk. apply keys_aremove in Hk. tauto.
        -- intros k0 Hk Hn. apply I.
           ++ apply keys_aremove. split; auto. intros ->. apply Hn. simpl. auto.
           ++ intros Hr. apply Hn. simpl. auto.
      * intros k0 Hk. apply keys_aremove. split.
        -- apply Hsub. simpl. auto.
        -- intros ->. contradiction.
      * apply ksorted_aremove. exact Hs.
Qed.

Lemma evict_noop idx m fs extra c : m + extra <= c -> evict idx m fs extra c = (true, (idx, m, fs)).
Proof. intros H. destruct idx as [|[k sz] r]; simpl; replace (m + extra <=? c) with true by lia; reflexivity. Qed.

Lemma make_space_props s n ok s' :
  make_space s n = (ok, s') -> wf s ->
  env_eq s s' /\ clock s' = clock s /\ wf s' /\ measure s' <= measure s /\
  (ok = true -> measure s' + (pending_size s + n) <= cap s) /\
  (forall k, In k (keys (index s')) -> In k (keys (index s))) /\
  (forall k, In k (keys (files s')) -> In k (keys (files s))) /\
  (forall k, In k (keys (files s)) -> ~ In k (keys (index s)) -> In k (keys (files s'))).
Proof.
  unfold make_space. intros H (Hnd & Hsub & Hs).
  destruct (negb (n <=? cap s) || negb (pending_size s + n <=? cap s)) eqn:G.
  - inversion H; subst; clear H. repeat split; auto; try lia; discriminate.
  - destruct (evict (index s) (measure s) (files s) (pending_size s + n) (cap s)) as [ok' [[idx m] fs]] eqn:E.
    inversion H; subst; clear H.
    apply evict_props in E; auto. destruct E as (A & B & C & D & E' & F & G' & I).
    simpl. repeat split; auto.
Qed.

Lemma make_space_noop s n :
  n <= cap s -> measure s + (pending_size s + n) <= cap s -> make_space s n = (true, s).
Proof.
  intros H1 H2. unfold make_space.
  replace (n <=? cap s) with true by lia. replace (pending_size s + n <=? cap s) with true by lia. simpl.
  rewrite evict_noop by exact H2. destruct s; reflexivity.
Qed.

Lemma lru_insert_props s k v :
  measure s + v <= cap s ->
  index (lru_insert s k v) = aremove k (index s) ++ [(k, v)] /\
  measure (lru_insert s k v) <= cap s /\
  files (lru_insert s k v) = files s /\ clock (lru_insert s k v) = clock s /\
  env_eq s (lru_insert s k v).
Proof.
  intros H. unfold lru_insert.
  set (m2 := match alookup k (index s) with Some old => measure s + v - old | None => measure s + v end).
  assert (Hm2 : m2 <= cap s) by (subst m2; destruct (alookup k (index s)); lia).
  rewrite lru_trim_noop by exact Hm2. simpl. repeat split; auto.
Qed.

Lemma wf_lru_insert s k v :
  wf s -> In k (keys (files s)) -> measure s + v <= cap s -> wf (lru_insert s k v).
Proof.
  intros (Hnd & Hsub & Hs) Hk Hm.
  destruct (lru_insert_props s k v Hm) as (Hi & _ & Hf & _ & _).
  unfold wf. rewrite Hi, Hf, keys_app. simpl. repeat split; auto.
  - apply NoDup_snoc; [apply NoDup_keys_aremove; exact Hnd|]. intros Hin. apply keys_aremove in Hin. tauto.
  - intros k0 Hin. apply in_app_iff in Hin. destruct Hin as [Hin|[<-|[]]]; auto.
    apply keys_aremove in Hin. apply Hsub. tauto.
Qed.

Lemma keys_index_lru_insert s k v k' :
  measure s + v <= cap s ->
  In k' (keys (index (lru_insert s k v))) <-> k' = k \/ In k' (keys (index s)).
Proof.
  intros Hm. destruct (lru_insert_props s k v Hm) as (Hi & _). rewrite Hi, keys_app, in_app_iff. simpl.
  rewrite keys_aremove. destruct (list_eq_dec N.eq_dec k' k) as [->|Hn]; intuition congruence.
Qed.

Lemma lru_remove_props s k :
  (forall k', In k' (keys (index (lru_remove s k))) <-> In k' (keys (index s)) /\ k' <> k) /\
  (NoDup (keys (index s)) -> NoDup (keys (index (lru_remove s k)))) /\
  measure (lru_remove s k) <= measure s /\ files (lru_remove s k) = files s /\
  clock (lru_remove s k) = clock s /\ env_eq s (lru_remove s k).
Proof.
  unfold lru_remove. destruct (alookup k (index s)) as [sz|] eqn:E; simpl.
  - repeat split; auto; try lia; try (apply keys_aremove; auto).
    + apply keys_aremove in H. tauto.
    + apply keys_aremove in H. tauto.
    + apply NoDup_keys_aremove.
  - assert (Hn : ~ In k (keys (index s))).
    { apply amem_false. unfold amem. rewrite E. reflexivity. }
    repeat split; auto; try lia; try tauto. intros ->. tauto.
Qed.

(* ====================================================================== *)
(* C. the Lru-level invariant                                              *)
(* ====================================================================== *)

(* between two TcCache calls: no reservation, within the limit, index and disk agree *)
Definition core (s : st) : Prop := wf s /\ pending_size s = 0 /\ measure s <= cap s.
Definition idle (s : st) : Prop := handles s = [] /\ pending s = [].

Definition files_sub (s s' : st) : Prop := forall k, In k (keys (files s')) -> In k (keys (files s)).

Lemma wf_tick s : wf s -> wf (tick s).
Proof. unfold wf. simpl. auto. Qed.

(* goals: wf, pending_size, measure, handles, pending, the rest *)
Ltac split_ci := split; [split; [| split] | split; [split |]].

(* ---- LruDiskCache::insert_file ---- *)
Lemma insert_file_props s k n s' r t :
  insert_by s k (Some n) n false = (s', r, t) -> core s -> idle s ->
  core s' /\ idle s' /\ next_h s' = next_h s /\ cap s' = cap s /\
  (forall k', In k' (keys (files s')) -> (k' = k /\ r = ROk) \/ In k' (keys (files s))).
Proof.
  unfold insert_by. cbv beta iota zeta. intros H ((Hnd & Hsub & Hs) & Hps & Hm) (Hh & Hp).
  destruct (negb (n <=? cap s)) eqn:G.
  - inversion H; subst. repeat split; auto.
  - destruct (lru_remove_props s k) as (R1 & R2 & R3 & R4 & R5 & R6).
    set (s1 := lru_remove s k) in *.
    set (s2 := set_files s1 (ains k (n, clock s1 + 1) (files s1))) in *.
    destruct (make_space s2 n) as [ok s3] eqn:M.
    assert (Hk1 : ~ In k (keys (index s1))) by (intros Hin; apply R1 in Hin; tauto).
    assert (W2 : wf s2).
    { unfold wf, s2. simpl. repeat split.
      - apply R2. exact Hnd.
      - intros k0 Hin. apply keys_ains. right. rewrite R4. apply Hsub. apply R1 in Hin. tauto.
      - apply ksorted_ains. rewrite R4. exact Hs. }
    destruct (make_space_props _ _ _ _ M W2) as (E3 & C3 & W3 & M3 & O3 & I3 & F3 & S3).
    destruct R6 as (Rc & Rp & Rps & Rh & Rn). destruct E3 as (Ec & Ep & Eps & Eh & En).
    simpl in Ec, Ep, Eps, Eh, En, M3, O3.
    assert (Hk3 : ~ In k (keys (index s3))) by (intros Hin; apply I3 in Hin; simpl in Hin; tauto).
    assert (Hf2 : forall k', In k' (keys (files s2)) -> k' = k \/ In k' (keys (files s))).
    { unfold s2. simpl. intros k' Hin. apply keys_ains in Hin. rewrite R4 in Hin. exact Hin. }
    destruct ok.
    + inversion H; subst; clear H.
      assert (Hm3 : measure s3 + n <= cap s3) by (specialize (O3 eq_refl); lia).
      assert (Hkf : In k (keys (files s3))).
      { apply S3; [unfold s2; simpl; apply keys_ains; auto | simpl; exact Hk1]. }
      destruct (lru_insert_props s3 k n Hm3) as (Li & Lm & Lf & Lc & (Lcap & Lp & Lps & Lh & Ln)).
      split_ci; simpl; try congruence; try lia.
      * apply wf_tick, wf_lru_insert; auto.
      * split; [congruence|]. split; [congruence|].
        intros k' Hin. rewrite Lf in Hin. apply F3 in Hin. apply Hf2 in Hin. tauto.
    + inversion H; subst; clear H. destruct W3 as (W3a & W3b & W3c).
      split_ci; simpl; try congruence; try lia.
      * unfold wf. simpl. repeat split; auto.
        -- intros k0 Hin. apply keys_aremove. split; [auto | intros ->; contradiction].
        -- apply ksorted_aremove. exact W3c.
      * split; [congruence|]. split; [congruence|].
        intros k' Hin. apply keys_aremove in Hin. destruct Hin as [Hin Hne].
        apply F3 in Hin. apply Hf2 in Hin. tauto.
Qed.

(* ---- the second half of LruDiskCache::commit, from an idle state ---- *)
Definition commit_core (s : st) (k : key) (n : N) : st * res * option key :=
  let '(ok, s2) := make_space s n in
  if ok then (lru_insert (tick (set_files s2 (ains k (n, clock s2 + 1) (files s2)))) k n, ROk, Some k)
  else (s2, RTooLarge, None).

Lemma commit_core_props s k n s' r t :
  commit_core s k n = (s', r, t) -> core s -> idle s ->
  core s' /\ idle s' /\ next_h s' = next_h s /\ cap s' = cap s /\
  (forall k', In k' (keys (files s')) -> (k' = k /\ r = ROk) \/ In k' (keys (files s))) /\
  (r = ROk \/ (r = RTooLarge /\ t = None)).
Proof.
  unfold commit_core. intros H (W & Hps & Hm) (Hh & Hp).
  destruct (make_space s n) as [ok s2] eqn:M.
  destruct (make_space_props _ _ _ _ M W) as (E2 & C2 & W2 & M2 & O2 & I2 & F2 & S2).
  destruct E2 as (Ec & Ep & Eps & Eh & En). destruct W2 as (W2a & W2b & W2c).
  destruct ok.
  - inversion H; subst; clear H.
    remember (tick (set_files s2 (ains k (n, clock s2 + 1) (files s2)))) as s3 eqn:Es3.
    assert (T3 : cap s3 = cap s2 /\ pending s3 = pending s2 /\ pending_size s3 = pending_size s2 /\
                 handles s3 = handles s2 /\ next_h s3 = next_h s2 /\ measure s3 = measure s2 /\
                 index s3 = index s2 /\ files s3 = ains k (n, clock s2 + 1) (files s2))
      by (subst s3; simpl; repeat split).
    destruct T3 as (Tc & Tp & Tps & Th & Tn & Tm & Ti & Tf).
    assert (Hm3 : measure s3 + n <= cap s3) by (specialize (O2 eq_refl); lia).
    assert (W3 : wf s3).
    { unfold wf. rewrite Ti, Tf. repeat split; auto.
      - intros k0 Hin. apply keys_ains. right. auto.
      - apply ksorted_ains. exact W2c. }
    assert (Hkf : In k (keys (files s3))) by (rewrite Tf; apply keys_ains; auto).
    destruct (lru_insert_props s3 k n Hm3) as (Li & Lm & Lf & Lc & (Lcap & Lp & Lps & Lh & Ln)).
    split_ci; try congruence; try lia.
    + apply wf_lru_insert; auto.
    + split; [congruence|]. split; [congruence|]. split; [|auto].
      intros k' Hin. rewrite Lf, Tf in Hin. apply keys_ains in Hin.
      destruct Hin as [->|Hin]; auto.
  - inversion H; subst; clear H. split_ci; try congruence; try lia.
    + unfold wf; auto.
    + repeat split; auto.
Qed.

(* ---- get ---- *)
Lemma get_props s k s' r t :
  get s k = (s', r, t) -> core s -> idle s ->
  core s' /\ idle s' /\ next_h s' = next_h s /\ cap s' = cap s /\ files_sub s s' /\
  (r = ROk -> In k (keys (index s)) /\ In k (keys (files s))).
Proof.
  unfold get, lru_get. intros H ((Hnd & Hsub & Hs) & Hps & Hm) (Hh & Hp).
  destruct (alookup k (index s)) as [sz|] eqn:E.
  - assert (Hki : In k (keys (index s))) by (apply amem_In; eapply alookup_amem; eauto).
    assert (W1 : wf (set_lru s (aremove k (index s) ++ [(k, sz)]) (measure s))).
    { unfold wf. simpl. rewrite keys_app. simpl. repeat split; auto.
      - apply NoDup_snoc; [apply NoDup_keys_aremove; auto|]. intros Hin. apply keys_aremove in Hin. tauto.
      - intros k0 Hin. apply in_app_iff in Hin. destruct Hin as [Hin|[<-|[]]]; auto.
        apply keys_aremove in Hin. apply Hsub. tauto. }
    cbv beta iota zeta in H. simpl files in H.
    destruct (alookup k (files s)) as [[fsz fmt]|] eqn:F.
    + inversion H; subst; clear H. destruct W1 as (W1a & W1b & W1c). simpl in W1a, W1b, W1c.
      split_ci; simpl; auto.
      * unfold wf. simpl. repeat split; auto.
        -- intros k0 Hin. apply keys_ains. right. auto.
        -- apply ksorted_ains. exact Hs.
      * repeat split; auto.
        intros k0 Hin. simpl in Hin. apply keys_ains in Hin. destruct Hin as [->|Hin]; auto.
    + inversion H; subst; clear H. split_ci; simpl; auto.
      repeat split; auto; try discriminate. intros k0 Hin. exact Hin.
  - inversion H; subst; clear H. split_ci; auto.
    + unfold wf; auto.
    + repeat split; auto; try discriminate. intros k0 Hin. exact Hin.
Qed.

(* ---- remove ---- *)
Lemma remove_props s k s' r :
  remove s k = (s', r) -> core s -> idle s ->
  core s' /\ idle s' /\ next_h s' = next_h s /\ cap s' = cap s /\ files_sub s s'.
Proof.
  unfold remove. intros H ((Hnd & Hsub & Hs) & Hps & Hm) (Hh & Hp).
  destruct (alookup k (index s)) as [sz|] eqn:E.
  - destruct (lru_remove_props s k) as (R1 & R2 & R3 & R4 & R5 & (Rc & Rp & Rps & Rh & Rn)).
    set (s1 := lru_remove s k) in *.
    assert (W1 : wf s1).
    { unfold wf. rewrite R4. repeat split; auto. intros k0 Hin. apply R1 in Hin. apply Hsub. tauto. }
    destruct (alookup k (files s1)) as [x|] eqn:F.
    + inversion H; subst; clear H. destruct W1 as (W1a & W1b & W1c).
      split_ci; simpl; try congruence; try lia.
      * unfold wf. simpl. repeat split; auto.
        -- intros k0 Hin. apply keys_aremove. split; auto. intros ->. apply R1 in Hin. tauto.
        -- apply ksorted_aremove. exact W1c.
      * repeat split; try congruence.
        intros k0 Hin. simpl in Hin. apply keys_aremove in Hin. rewrite R4 in Hin. tauto.
    + inversion H; subst; clear H. split_ci; try congruence; try lia.
      repeat split; try congruence.
  - inversion H; subst; clear H. split_ci; auto.
    + unfold wf; auto.
    + repeat split; auto. intros k0 Hin. exact Hin.
Qed.

(* ---- LruDiskCache::new (init): re-indexes whatever is on the disk ---- *)
Definition rinv (c : N) (a : st) (R : list (key * (N * N))) : Prop :=
  core a /\ idle a /\ cap a = c /\ NoDup (keys R) /\
  (forall k, In k (keys R) -> In k (keys (files a))) /\
  (forall k, In k (keys R) -> ~ In k (keys (index a))).

Lemma init_add_step c a e R :
  rinv c a (e :: R) ->
  rinv c (init_add a e) R /\ files_sub a (init_add a e) /\
  next_h (init_add a e) = next_h a /\ clock (init_add a e) = clock a.
Proof.
  destruct e as [k [sz mt]]. intros (((Hnd & Hsub & Hs) & Hps & Hm) & (Hh & Hp) & Hc & HR & HRf & HRi).
  simpl in HR. inversion HR as [|? ? Hk HR']; subst.
  assert (Hkf : In k (keys (files a))) by (apply HRf; simpl; auto).
  assert (Hki : ~ In k (keys (index a))) by (apply HRi; simpl; auto).
  assert (Drop : rinv (cap a) (set_files a (aremove k (files a))) R /\
                 files_sub a (set_files a (aremove k (files a)))).
  { split.
    - split; [|split; [|split; [|split; [|split]]]]; simpl; auto.
      + split; [|split]; auto. unfold wf. simpl. repeat split; auto.
        * intros k0 Hin. apply keys_aremove. split; auto. intros ->. contradiction.
        * apply ksorted_aremove. exact Hs.
      + split; auto.
      + intros k0 Hin. apply keys_aremove. split; [apply HRf; simpl; auto | intros ->; contradiction].
      + intros k0 Hin. apply HRi. simpl. auto.
    - intros k0 Hin. simpl in Hin. apply keys_aremove in Hin. tauto. }
  unfold init_add.
  destruct (is_temp k); [destruct Drop as [D1 D2]; split; [exact D1 | split; [exact D2 | split; reflexivity]]|].
  destruct (negb (sz <=? cap a)); [destruct Drop as [D1 D2]; split; [exact D1 | split; [exact D2 | split; reflexivity]]|].
  clear Drop.
  destruct (make_space a sz) as [ok s1] eqn:M.
  assert (W : wf a) by (unfold wf; auto).
  destruct (make_space_props _ _ _ _ M W) as (E1 & C1 & W1 & M1 & O1 & I1 & F1 & S1).
  destruct E1 as (Ec & Ep & Eps & Eh & En).
  assert (HRf1 : forall k0, In k0 (keys R) -> In k0 (keys (files s1))).
  { intros k0 Hin. apply S1; [apply HRf | apply HRi]; simpl; auto. }
  assert (HRi1 : forall k0, In k0 (keys R) -> ~ In k0 (keys (index s1))).
  { intros k0 Hin Hx. apply I1 in Hx. revert Hx. apply HRi. simpl. auto. }
  destruct ok.
  - assert (Hm1 : measure s1 + sz <= cap s1) by (specialize (O1 eq_refl); lia).
    destruct (lru_insert_props s1 k sz Hm1) as (Li & Lm & Lf & Lc & (Lcap & Lp & Lps & Lh & Ln)).
    assert (Hkf1 : In k (keys (files s1))) by (apply S1; auto).
    split; [|split; [|split]]; try congruence.
    + split; [|split; [|split; [|split; [|split]]]]; try congruence; auto.
      * split; [|split]; try congruence; try lia. apply wf_lru_insert; auto.
      * split; congruence.
      * intros k0 Hin. rewrite Lf. auto.
      * intros k0 Hin Hx. apply keys_index_lru_insert in Hx; [|exact Hm1].
        destruct Hx as [->|Hx]; [contradiction | revert Hx; apply HRi1; exact Hin].
    + intros k0 Hin. rewrite Lf in Hin. auto.
  - split; [|split; [|split]]; try congruence; auto.
    split; [|split; [|split; [|split; [|split]]]]; try congruence; auto.
    + split; [|split]; try congruence; try lia.
    + split; congruence.
Qed.

Lemma init_fold c : forall R a,
  rinv c a R ->
  core (fold_left init_add R a) /\ idle (fold_left init_add R a) /\ cap (fold_left init_add R a) = c /\
  files_sub a (fold_left init_add R a) /\ next_h (fold_left init_add R a) = next_h a /\
  clock (fold_left init_add R a) = clock a.
Proof.
  induction R as [|e R IH]; intros a H.
  - simpl. destruct H as (A & B & C & _). split; [exact A | split; [exact B | split; [exact C | split; [intros k Hin; exact Hin | split; reflexivity]]]].
  - simpl. apply init_add_step in H. destruct H as (H & Fs & Nh & Ck).
    apply IH in H. destruct H as (A & B & C & D & E & F).
    split; [exact A | split; [exact B | split; [exact C | split; [| split; congruence]]]].
    intros k Hin. apply Fs. apply D. exact Hin.
Qed.

Lemma reopen_props l c :
  ksorted (files l) ->
  core (reopen l c) /\ idle (reopen l c) /\ cap (reopen l c) = c /\
  files_sub l (reopen l c) /\ next_h (reopen l c) = next_h l /\ clock (reopen l c) = clock l.
Proof.
  intros Hs. unfold reopen.
  match goal with |- context [fold_left init_add ?R ?a] => pose proof (init_fold c R a) as H end.
  simpl in H. apply H. clear H.
  assert (P : Permutation (keys (sort_mtime (files l))) (keys (files l))).
  { apply Permutation_map. apply sort_mtime_perm. }
  split; [|split; [|split; [|split; [|split]]]]; simpl; auto.
  - split; [|split]; simpl; auto; try lia. unfold wf. simpl. repeat split; auto; [constructor | intros k []].
  - split; auto.
  - eapply Permutation_NoDup; [apply Permutation_sym; exact P | apply ksorted_NoDup; exact Hs].
  - intros k Hin. eapply Permutation_in; eauto.
Qed.

(* ---- next_h (the id of the next temp-file handle) is invisible ---- *)
Definition set_nh (a : st) (n : N) : st :=
  {| cap := cap a; index := index a; measure := measure a; pending := pending a;
     pending_size := pending_size a; files := files a; handles := handles a;
     next_h := n; clock := clock a |}.

Lemma make_space_set_nh a n sz :
  make_space (set_nh a n) sz = (fst (make_space a sz), set_nh (snd (make_space a sz)) n).
Proof.
  unfold make_space. simpl.
  destruct (negb (sz <=? cap a) || negb (pending_size a + sz <=? cap a)); [reflexivity|].
  destruct (evict (index a) (measure a) (files a) (pending_size a + sz) (cap a)) as [ok [[idx m] fs]].
  reflexivity.
Qed.

Lemma lru_insert_set_nh a n k v : lru_insert (set_nh a n) k v = set_nh (lru_insert a k v) n.
Proof.
  unfold lru_insert. simpl.
  destruct (lru_trim (aremove k (index a) ++ [(k, v)])
              match alookup k (index a) with Some old => measure a + v - old | None => measure a + v end (cap a)).
  reflexivity.
Qed.

Lemma init_add_set_nh a n e : init_add (set_nh a n) e = set_nh (init_add a e) n.
Proof.
  destruct e as [k [sz mt]]. unfold init_add. simpl cap.
  destruct (is_temp k); [reflexivity|].
  destruct (negb (sz <=? cap a)); [reflexivity|].
  rewrite make_space_set_nh. destruct (make_space a sz) as [ok s1]. simpl.
  destruct ok; [apply lru_insert_set_nh | reflexivity].
Qed.

Lemma init_fold_set_nh n : forall R a, fold_left init_add R (set_nh a n) = set_nh (fold_left init_add R a) n.
Proof. induction R as [|e R IH]; intros a; simpl; [reflexivity|]. rewrite init_add_set_nh. apply IH. Qed.

(* LruDiskCache::new only looks at the files (and the clock) *)
Lemma reopen_only_files l l' c :
  files l' = files l -> clock l' = clock l -> reopen l' c = set_nh (reopen l c) (next_h l').
Proof.
  intros Hf Hc. unfold reopen. rewrite <- init_fold_set_nh. rewrite Hf, Hc. reflexivity.
Qed.

(* ---- TcCache::insert_with seen from an idle cache ---- *)
Definition bump (l : st) : st := set_nh l (next_h l + 1).

Definition mid (l : st) (k : key) (n : N) : st :=
  set_handles (set_pending l [k] 0)
    [(next_h l, {| h_key := k; h_reserved := 0; h_written := n |})] (next_h l + 1).

Lemma receive_idle s i b :
  core (lru s) -> idle (lru s) ->
  receive s i b = (mid (lru s) (key_path i) (blen b), ROk, next_h (lru s)).
Proof.
  intros (W & Hps & Hm) (Hh & Hp). unfold receive, prepare_add.
  rewrite make_space_noop by lia. cbv beta iota zeta.
  unfold write_tmp, mid. destruct (lru s) as [cp ix ms pd ps fl hd nh ck]. simpl in *. subst. simpl.
  rewrite N.eqb_refl. simpl. rewrite ?N.eqb_refl, ?N.add_0_l. reflexivity.
Qed.

Lemma commit_mid l k n :
  idle l -> pending_size l = 0 -> commit (mid l k n) (next_h l) = commit_core (bump l) k n.
Proof.
  intros (Hh & Hp) Hps. unfold commit, commit_core, mid, bump, release.
  destruct l as [cp ix ms pd ps fl hd nh ck]. simpl in *. subst. simpl.
  rewrite N.eqb_refl. simpl. rewrite ?N.eqb_refl, ?bytes_eqb_refl. simpl.
  replace (0 - 0) with 0 by reflexivity. reflexivity.
Qed.

Lemma abandon_mid l k n :
  idle l -> pending_size l = 0 -> abandon (mid l k n) (next_h l) = (bump l, ROk).
Proof.
  intros (Hh & Hp) Hps. unfold abandon, mid, bump, release.
  destruct l as [cp ix ms pd ps fl hd nh ck]. simpl in *. subst. simpl.
  rewrite N.eqb_refl. simpl. rewrite ?N.eqb_refl, ?bytes_eqb_refl. simpl.
  replace (0 - 0) with 0 by reflexivity. reflexivity.
Qed.

Lemma reopen_mid l k n c : reopen (mid l k n) c = set_nh (reopen l c) (next_h l + 1).
Proof. apply reopen_only_files; reflexivity. Qed.

Lemma core_bump l : core l -> core (bump l).
Proof. unfold core, wf, bump. simpl. auto. Qed.

Lemma idle_bump l : idle l -> idle (bump l).
Proof. unfold idle, bump. simpl. auto. Qed.

(* ---- LruDiskCache::insert_file whose fallback copy stops part-way (insert_by, failing writer) ---- *)
Lemma insert_by_fail_props s k n s' r t :
  insert_by s k (Some n) n true = (s', r, t) -> core s -> idle s ->
  core s' /\ idle s' /\ next_h s' = next_h s /\ cap s' = cap s /\ files_sub s s' /\
  r <> ROk /\ t = None /\
  (forall k', In k' (keys (index s')) -> In k' (keys (index s))) /\
  (n <= cap s -> ~ In k (keys (files s')) /\ ~ In k (keys (index s'))).
Proof.
  unfold insert_by. cbv beta iota zeta. intros H ((Hnd & Hsub & Hs) & Hps & Hm) (Hh & Hp).
  destruct (negb (n <=? cap s)) eqn:G.
  - inversion H; subst. split_ci; auto.
    + unfold wf; auto.
    + repeat split; auto; try discriminate; try (intros k0 Hin; exact Hin); lia.
  - destruct (lru_remove_props s k) as (R1 & R2 & R3 & R4 & R5 & (Rc & Rp & Rps & Rh & Rn)).
    set (s1 := lru_remove s k) in *.
    inversion H; subst; clear H.
    split_ci; simpl; try congruence; try lia.
    + unfold wf. simpl. repeat split; auto.
      * intros k0 Hin. apply keys_aremove. apply R1 in Hin. split; [|tauto]. rewrite R4. apply Hsub. tauto.
      * apply ksorted_aremove. rewrite R4. exact Hs.
    + split; [congruence|]. split; [congruence|]. split.
      * intros k0 Hin. simpl in Hin. apply keys_aremove in Hin. rewrite R4 in Hin. tauto.
      * split; [discriminate|]. split; [reflexivity|]. split.
        -- intros k0 Hin. apply R1 in Hin. tauto.
        -- intros _. split.
           ++ intros Hin. apply keys_aremove in Hin. tauto.
           ++ intros Hin. apply R1 in Hin. tauto.
Qed.

(* ---- LruDiskCache::commit whose final rename fails, from an idle cache ---- *)
Lemma commit_rename_fails_mid l k n :
  idle l -> pending_size l = 0 ->
  commit_rename_fails (mid l k n) (next_h l) =
  (snd (make_space (bump l) n), if fst (make_space (bump l) n) then RIoErr else RTooLarge).
Proof.
  intros (Hh & Hp) Hps. unfold commit_rename_fails, mid, bump, release, set_nh.
  destruct l as [cp ix ms pd ps fl hd nh ck]. simpl in *. subst. simpl.
  rewrite N.eqb_refl. simpl. rewrite ?N.eqb_refl, ?bytes_eqb_refl. simpl.
  replace (0 - 0) with 0 by reflexivity.
  unfold set_pending, set_handles. simpl.
  match goal with |- context [make_space ?a ?m] => destruct (make_space a m) as [ok s2] end. reflexivity.
Qed.

Lemma make_space_idle_props l n :
  core l -> idle l ->
  core (snd (make_space l n)) /\ idle (snd (make_space l n)) /\
  files_sub l (snd (make_space l n)) /\
  (forall k, In k (keys (index (snd (make_space l n)))) -> In k (keys (index l))).
Proof.
  intros (W & Hps & Hm) (Hh & Hp). destruct (make_space l n) as [ok s2] eqn:M. simpl.
  destruct (make_space_props _ _ _ _ M W) as ((Ec & Ep & Eps & Eh & En) & C2 & W2 & M2 & O2 & I2 & F2 & S2).
  split_ci; try congruence; try lia. repeat split; auto.
Qed.

(* ====================================================================== *)
(* D. ids and paths                                                        *)
(* ====================================================================== *)

Lemma lhex_facts c : is_lhex c = true -> (c =? 46) = false /\ (c =? 47) = false /\ (c <? 128) = true.
Proof. unfold is_lhex. intros H. repeat split; lia. Qed.

Lemma valid_id_shape i :
  valid_id i = true -> exists a b r, i = a :: b :: r /\ is_lhex a = true /\ is_lhex b = true /\ forallb is_lhex r = true.
Proof.
  destruct i as [|a [|b r]]; simpl; try discriminate. intros H.
  apply andb_true_iff in H. destruct H as [Ha H]. apply andb_true_iff in H. destruct H as [Hb Hr].
  exists a, b, r. auto.
Qed.

Lemma key_path_inj i j : valid_id i = true -> key_path j = key_path i -> j = i.
Proof.
  intros Hv H. apply valid_id_shape in Hv. destruct Hv as (a & b & r & -> & _).
  destruct j as [|a' [|b' r']]; simpl in H; try discriminate.
  inversion H. reflexivity.
Qed.

Lemma split_no_slash : forall l acc, forallb (fun c => negb (c =? 47)) l = true -> split_slash_aux l acc = [acc ++ l].
Proof.
  induction l as [|c r IH]; intros acc H; simpl.
  - rewrite app_nil_r. reflexivity.
  - simpl in H. apply andb_true_iff in H. destruct H as [Hc Hr].
    apply negb_true_iff in Hc. rewrite Hc. rewrite IH by exact Hr. rewrite <- app_assoc. reflexivity.
Qed.

Lemma file_name_no_slash : forall l acc, forallb (fun c => negb (c =? 47)) l = true -> file_name_aux l acc = acc ++ l.
Proof.
  induction l as [|c r IH]; intros acc H; simpl.
  - rewrite app_nil_r. reflexivity.
  - simpl in H. apply andb_true_iff in H. destruct H as [Hc Hr].
    apply negb_true_iff in Hc. rewrite Hc. rewrite IH by exact Hr. rewrite <- app_assoc. reflexivity.
Qed.

Lemma lhex_no_slash l : forallb is_lhex l = true -> forallb (fun c => negb (c =? 47)) l = true.
Proof.
  induction l as [|c r IH]; simpl; auto. intros H. apply andb_true_iff in H. destruct H as [Hc Hr].
  apply lhex_facts in Hc. destruct Hc as (_ & Hc & _). rewrite Hc. simpl. auto.
Qed.

Lemma key_path_total i :
  valid_id i = true ->
  slices_ok i = true /\
  (exists a b, key_path i = [a; 47; b; 47] ++ i /\ components (key_path i) = [[a]; [b]; i]) /\
  forallb plain_component (components (key_path i)) = true /\
  file_name (key_path i) = i /\ is_temp (key_path i) = false /\
  (forall j, key_path j = key_path i -> j = i).
Proof.
  intros Hv. pose proof (key_path_inj i) as Hinj.
  destruct (valid_id_shape i Hv) as (a & b & r & -> & Ha & Hb & Hr).
  assert (Hns : forallb (fun c => negb (c =? 47)) r = true) by (apply lhex_no_slash; exact Hr).
  destruct (lhex_facts a Ha) as (Ha46 & Ha47 & Ha128).
  destruct (lhex_facts b Hb) as (Hb46 & Hb47 & Hb128).
  assert (Hc : components (key_path (a :: b :: r)) = [[a]; [b]; a :: b :: r]).
  { unfold components, key_path. simpl. rewrite Ha47, Hb47. rewrite split_no_slash by exact Hns. reflexivity. }
  split; [simpl; rewrite Ha128, Hb128; reflexivity|].
  split; [exists a, b; split; [reflexivity | exact Hc]|].
  split.
  { rewrite Hc. unfold plain_component. simpl. rewrite Ha46, Hb46. reflexivity. }
  assert (Hfn : file_name (key_path (a :: b :: r)) = a :: b :: r).
  { unfold file_name, key_path. simpl. rewrite Ha47, Hb47. rewrite file_name_no_slash by exact Hns. reflexivity. }
  split; [exact Hfn|].
  split; [|intros j Hj; apply Hinj; auto].
  unfold is_temp. rewrite Hfn. simpl. rewrite N.eqb_sym, Ha46. reflexivity.
Qed.

(* ====================================================================== *)
(* E. the TcCache invariant                                                *)
(* ====================================================================== *)

Lemma alookup_restrict k (c : list (key * bytes)) fs :
  alookup k (restrict c fs) = if amem k fs then alookup k c else None.
Proof.
  unfold restrict. induction c as [|[k0 v] r IH]; simpl.
  - destruct (amem k fs); reflexivity.
  - destruct (amem k0 fs) eqn:M0; simpl.
    + destruct (bytes_eqb k k0) eqn:E.
      * apply bytes_eqb_eq in E. subst. rewrite M0. reflexivity.
      * exact IH.
    + destruct (bytes_eqb k k0) eqn:E.
      * apply bytes_eqb_eq in E. subst. rewrite IH, M0. reflexivity.
      * exact IH.
Qed.

Lemma restrict_id (c : list (key * bytes)) fs :
  (forall e, In e c -> amem (fst e) fs = true) -> restrict c fs = c.
Proof.
  unfold restrict. induction c as [|e r IH]; simpl; auto. intros H.
  rewrite (H e) by auto. f_equal. apply IH. auto.
Qed.

Lemma In_restrict e (c : list (key * bytes)) fs : In e (restrict c fs) -> In e c /\ amem (fst e) fs = true.
Proof. unfold restrict. intros H. apply filter_In in H. exact H. Qed.

Lemma alookup_cset k' k b (c : list (key * bytes)) :
  alookup k' (cset k b c) = if bytes_eqb k' k then Some b else alookup k' c.
Proof.
  unfold cset. simpl. destruct (bytes_eqb k' k) eqn:E; auto.
  apply alookup_aremove_neq. apply beq_neq. exact E.
Qed.

Lemma core_set_nh l n : core l -> core (set_nh l n).
Proof. unfold core, wf. simpl. auto. Qed.
Lemma idle_set_nh l n : idle l -> idle (set_nh l n).
Proof. unfold idle. simpl. auto. Qed.

Section Inv.
Variable digest : bytes -> id.

(* every entry file sits at a/b/<digest of its content> *)
Definition good_files (s : tst) : Prop :=
  forall k, In k (keys (files (lru s))) ->
  exists c, alookup k (cont s) = Some c /\ k = key_path (digest c).

Definition cont_sub (s : tst) : Prop :=
  forall e, In e (cont s) -> amem (fst e) (files (lru s)) = true.

Definition tinv (s : tst) : Prop :=
  core (lru s) /\ idle (lru s) /\ cont_sub s /\ good_files s.

Lemma tinv_mk s l' :
  tinv s -> core l' -> idle l' -> files_sub (lru s) l' -> tinv (mk s l').
Proof.
  intros (C & I & CS & G) C' I' FS. unfold tinv, good_files, cont_sub, mk. cbn [lru cont]. split; [exact C'|]. split; [exact I'|]. split.
  - intros e Hin. apply In_restrict in Hin. tauto.
  - intros k Hin. destruct (G k (FS k Hin)) as (c & Hc & Hk).
    exists c. split; [|exact Hk]. rewrite alookup_restrict.
    replace (amem k (files l')) with true by (symmetry; apply amem_In; exact Hin). exact Hc.
Qed.

Lemma tinv_mk_put s l' k b :
  tinv s -> core l' -> idle l' ->
  (forall k', In k' (keys (files l')) -> k' = k \/ In k' (keys (files (lru s)))) ->
  k = key_path (digest b) -> tinv (mk_put s l' k b).
Proof.
  intros (C & I & CS & G) C' I' FS Hk. unfold tinv, good_files, cont_sub, mk_put. cbn [lru cont]. split; [exact C'|]. split; [exact I'|]. split.
  - intros e Hin. apply In_restrict in Hin. tauto.
  - intros k' Hin. rewrite alookup_restrict.
    replace (amem k' (files l')) with true by (symmetry; apply amem_In; exact Hin).
    rewrite alookup_cset. destruct (bytes_eqb k' k) eqn:E.
    + apply bytes_eqb_eq in E. subst k'. exists b. auto.
    + apply beq_neq in E. destruct (FS k' Hin) as [->|Hf]; [congruence|]. apply G. exact Hf.
Qed.

Lemma files_sub_refl l : files_sub l l.
Proof. intros k H. exact H. Qed.

Lemma files_sub_set_nh l l' n : files_sub l l' -> files_sub l (set_nh l' n).
Proof. intros H k Hin. apply H. exact Hin. Qed.

Lemma files_sub_bump l : files_sub l (bump l).
Proof. apply files_sub_set_nh, files_sub_refl. Qed.

Lemma tinv_insert_with s i b fail :
  tinv s -> tinv (fst (fst (tc_insert_with digest s i b fail))).
Proof.
  intros T. pose proof T as (C & I & CS & G). unfold tc_insert_with.
  destruct (valid_id i); simpl; [|exact T].
  rewrite receive_idle by assumption.
  destruct C as (W & Hps & Hm).
  destruct fail.
  - rewrite abandon_mid by assumption. simpl.
    apply tinv_mk; auto using idle_bump, files_sub_bump. apply core_bump. split; auto.
  - destruct (bytes_eqb (digest b) i) eqn:E.
    + apply bytes_eqb_eq in E. rewrite commit_mid by assumption.
      destruct (commit_core (bump (lru s)) (key_path i) (blen b)) as [[l3 r3] t3] eqn:CC.
      assert (CB : core (bump (lru s))) by (apply core_bump; split; auto).
      destruct (commit_core_props _ _ _ _ _ _ CC CB (idle_bump _ I)) as (C3 & I3 & _ & _ & F3 & R3).
      destruct R3 as [->|[-> ->]]; simpl.
      * apply tinv_mk_put; auto.
        -- intros k' Hin. destruct (F3 k' Hin) as [[-> _]|Hf]; auto.
        -- rewrite E. reflexivity.
      * apply tinv_mk; auto. intros k' Hin. destruct (F3 k' Hin) as [[_ Hx]|Hf]; [discriminate | exact Hf].
    + rewrite abandon_mid by assumption. simpl.
      apply tinv_mk; auto using idle_bump, files_sub_bump. apply core_bump. split; auto.
Qed.

Lemma tinv_crash_upload s i b c : tinv s -> tinv (tc_crash_upload s i b c).
Proof.
  intros T. pose proof T as (C & I & CS & G). unfold tc_crash_upload.
  assert (Hs : ksorted (files (lru s))) by apply C.
  destruct (reopen_props (lru s) c Hs) as (RC & RI & _ & RF & _).
  destruct (valid_id i); simpl.
  - rewrite receive_idle by assumption. rewrite reopen_mid.
    apply tinv_mk; auto using core_set_nh, idle_set_nh, files_sub_set_nh.
  - apply tinv_mk; auto.
Qed.

Lemma tinv_insert_file s b : tinv s -> tinv (fst (fst (fst (tc_insert_file digest s b)))).
Proof.
  intros T. pose proof T as (C & I & CS & G). unfold tc_insert_file.
  destruct (valid_id (digest b)); simpl; [|exact T].
  destruct (insert_by (lru s) (key_path (digest b)) (Some (blen b)) (blen b) false) as [[l1 r] t] eqn:IB.
  destruct (insert_file_props _ _ _ _ _ _ IB C I) as (C1 & I1 & _ & _ & F1).
  destruct r; simpl.
  - apply tinv_mk_put; auto. intros k' Hin. destruct (F1 k' Hin) as [[-> _]|Hf]; auto.
  - apply tinv_mk; auto. intros k' Hin. destruct (F1 k' Hin) as [[_ Hx]|Hf]; [discriminate | exact Hf].
  - apply tinv_mk; auto. intros k' Hin. destruct (F1 k' Hin) as [[_ Hx]|Hf]; [discriminate | exact Hf].
  - apply tinv_mk; auto. intros k' Hin. destruct (F1 k' Hin) as [[_ Hx]|Hf]; [discriminate | exact Hf].
  - apply tinv_mk; auto. intros k' Hin. destruct (F1 k' Hin) as [[_ Hx]|Hf]; [discriminate | exact Hf].
Qed.

Lemma tinv_get s i : tinv s -> tinv (fst (fst (fst (tc_get digest s i)))).
Proof.
  intros T. pose proof T as (C & I & CS & G). unfold tc_get.
  destruct (valid_id i); simpl; [|exact T].
  destruct (get (lru s) (key_path i)) as [[l1 r] t] eqn:GE.
  destruct (get_props _ _ _ _ _ GE C I) as (C1 & I1 & _ & _ & F1 & _).
  destruct r; simpl; apply tinv_mk; auto.
Qed.

Lemma tinv_remove s i : tinv s -> tinv (fst (tc_remove s i)).
Proof.
  intros T. pose proof T as (C & I & CS & G). unfold tc_remove.
  destruct (valid_id i); simpl; [|exact T].
  destruct (remove (lru s) (key_path i)) as [l1 r] eqn:RE.
  destruct (remove_props _ _ _ _ RE C I) as (C1 & I1 & _ & _ & F1).
  simpl. apply tinv_mk; auto.
Qed.

Lemma tinv_reopen s c : tinv s -> tinv (tc_reopen s c).
Proof.
  intros T. pose proof T as (C & I & CS & G). unfold tc_reopen.
  assert (Hs : ksorted (files (lru s))) by apply C.
  destruct (reopen_props (lru s) c Hs) as (RC & RI & _ & RF & _).
  apply tinv_mk; auto.
Qed.

Lemma tinv_insert_with_xdev s i b :
  tinv s -> tinv (fst (fst (tc_insert_with_xdev digest s i b))).
Proof.
  intros T. pose proof T as (C & I & CS & G). unfold tc_insert_with_xdev.
  destruct (valid_id i); simpl; [|exact T].
  rewrite receive_idle by assumption.
  pose proof C as (W & Hps & Hm).
  destruct (bytes_eqb (digest b) i).
  - rewrite commit_rename_fails_mid by assumption. simpl.
    destruct (make_space_idle_props (bump (lru s)) (blen b) (core_bump _ C) (idle_bump _ I)) as (C2 & I2 & F2 & _).
    apply tinv_mk; auto.
  - rewrite abandon_mid by assumption. simpl.
    apply tinv_mk; auto using idle_bump, files_sub_bump, core_bump.
Qed.

Lemma tinv_insert_file_copy s b fits :
  tinv s -> tinv (fst (fst (fst (tc_insert_file_copy digest s b fits)))).
Proof.
  intros T. destruct fits.
  - exact (tinv_insert_file s b T).
  - pose proof T as (C & I & CS & G). unfold tc_insert_file_copy.
    destruct (valid_id (digest b)); simpl; [|exact T].
    destruct (insert_by (lru s) (key_path (digest b)) (Some (blen b)) (blen b) true) as [[l1 r] t] eqn:IB.
    destruct (insert_by_fail_props _ _ _ _ _ _ IB C I) as (C1 & I1 & _ & _ & F1 & R & _ & _ & _).
    destruct r; simpl; try congruence; apply tinv_mk; auto.
Qed.

Lemma tinv_step s o : tinv s -> tinv (fst (tstep digest s o)).
Proof.
  intros T. destruct o as [i b f|i b c|b|i|i|i|c|i b|b fits]; simpl.
  8: { pose proof (tinv_insert_with_xdev s i b T) as H.
       destruct (tc_insert_with_xdev digest s i b) as [[s' r] t]. exact H. }
  8: { pose proof (tinv_insert_file_copy s b fits T) as H.
       destruct (tc_insert_file_copy digest s b fits) as [[[s' r] t] ret]. exact H. }
  - pose proof (tinv_insert_with s i b f T) as H.
    destruct (tc_insert_with digest s i b f) as [[s' r] t]. exact H.
  - apply tinv_crash_upload. exact T.
  - pose proof (tinv_insert_file s b T) as H.
    destruct (tc_insert_file digest s b) as [[[s' r] t] ret]. exact H.
  - pose proof (tinv_get s i T) as H.
    destruct (tc_get digest s i) as [[[s' r] t] ret]. exact H.
  - exact T.
  - pose proof (tinv_remove s i T) as H. destruct (tc_remove s i) as [s' r]. exact H.
  - apply tinv_reopen. exact T.
Qed.

Lemma tinv_run ops : forall s, tinv s -> tinv (trun digest s ops).
Proof.
  unfold trun. induction ops as [|o r IH]; intros s T; simpl; [exact T|].
  apply IH. apply tinv_step. exact T.
Qed.

End Inv.

(* ====================================================================== *)
(* F. the theorems                                                         *)
(* ====================================================================== *)

Lemma In_aremove {V} k e (l : list (key * V)) : In e (aremove k l) -> In e l.
Proof.
  induction l as [|[k' v] r IH]; simpl; auto.
  destruct (bytes_eqb k k'); simpl; intros H; tauto.
Qed.

Lemma alookup_In {V} k (v : V) l : alookup k l = Some v -> In (k, v) l.
Proof.
  induction l as [|[k' v'] r IH]; simpl; [discriminate|].
  destruct (bytes_eqb k k') eqn:E.
  - apply bytes_eqb_eq in E. subst. intros H. inversion H. auto.
  - auto.
Qed.

Lemma set_nh_self l : set_nh l (next_h l) = l.
Proof. destruct l; reflexivity. Qed.

Lemma of_res_ok r : of_res r = TOk -> r = ROk.
Proof. destruct r; simpl; congruence. Qed.

Lemma tinv_empty digest c : tinv digest (tc_empty c).
Proof.
  unfold tinv, tc_empty, core, idle, wf, cont_sub, good_files. simpl.
  repeat split; auto; try lia; try constructor; intros ? [].
Qed.

(* ---- C17_content_matches ---- *)
Lemma content_matches_state digest s :
  tinv digest s -> forall i,
  (tc_contains s i = true -> exists c, content_of s i = Some c /\ digest c = i) /\
  (forall s' t ret, tc_get digest s i = (s', TOk, t, ret) ->
     exists c, ret = [c; digest c] /\ digest c = i /\ content_of s i = Some c).
Proof.
  intros (((Hnd & Hsub & Hs) & Hps & Hm) & I & CS & G) i.
  assert (Key : valid_id i = true -> In (key_path i) (keys (files (lru s))) ->
                exists c, alookup (key_path i) (cont s) = Some c /\ content_of s i = Some c /\ digest c = i).
  { intros Hv Hin. destruct (G _ Hin) as (c & Hc & Hk). exists c. split; [exact Hc|]. split.
    - unfold content_of. replace (amem (key_path i) (files (lru s))) with true by (symmetry; apply amem_In; exact Hin).
      exact Hc.
    - apply key_path_inj; auto. }
  split.
  - unfold tc_contains. intros H. apply andb_true_iff in H. destruct H as [Hv Hi].
    apply amem_In in Hi. destruct (Key Hv (Hsub _ Hi)) as (c & _ & Hc & Hd). eauto.
  - intros s' t ret. unfold tc_get. destruct (valid_id i) eqn:Hv; simpl; [|discriminate].
    destruct (get (lru s) (key_path i)) as [[l1 r] t1] eqn:GE.
    assert (C : core (lru s)) by (repeat split; auto).
    destruct (get_props _ _ _ _ _ GE C I) as (_ & _ & _ & _ & _ & OK).
    destruct r; simpl; intros H; inversion H; subst; clear H.
    destruct (OK eq_refl) as (_ & Hf). destruct (Key eq_refl Hf) as (c & Hc & Hco & Hd).
    rewrite Hc. exists c. auto.
Qed.

Theorem content_matches digest s0 ops :
  tinv digest s0 ->
  let s := trun digest s0 ops in
  forall i,
  (tc_contains s i = true -> exists c, content_of s i = Some c /\ digest c = i) /\
  (forall s' t ret, tc_get digest s i = (s', TOk, t, ret) ->
     exists c, ret = [c; digest c] /\ digest c = i /\ content_of s i = Some c).
Proof. intros T s. apply content_matches_state. apply tinv_run. exact T. Qed.

(* ---- C17_serves_the_intended_archive ---- *)
Definition op_contents (o : top) : list bytes :=
  match o with
  | TInsertWith _ b _ => [b] | TCrashUpload _ b _ => [b] | TInsertFile b => [b]
  | TInsertWithXdev _ b => [b] | TInsertFileCopy b _ => [b]
  | _ => []
  end.

Definition universe (s0 : tst) (ops : list top) : list bytes :=
  map snd (cont s0) ++ flat_map op_contents ops.

Definition no_collision (digest : bytes -> id) (U : list bytes) : Prop :=
  forall a b, In a U -> In b U -> digest a = digest b -> a = b.

Lemma cont_mk s l e : In e (cont (mk s l)) -> In e (cont s).
Proof. unfold mk. cbn [cont]. intros H. apply In_restrict in H. tauto. Qed.

Lemma cont_mk_put s l k b e : In e (cont (mk_put s l k b)) -> e = (k, b) \/ In e (cont s).
Proof.
  unfold mk_put. cbn [cont]. intros H. apply In_restrict in H. destruct H as [H _].
  unfold cset in H. destruct H as [H|H]; auto. right. eapply In_aremove; eauto.
Qed.

Lemma cont_step digest s o e :
  In e (cont (fst (tstep digest s o))) -> In (snd e) (map snd (cont s) ++ op_contents o).
Proof.
  assert (Old : In e (cont s) -> In (snd e) (map snd (cont s) ++ op_contents o)).
  { intros H. apply in_app_iff. left. apply in_map. exact H. }
  destruct o as [i b f|i b c|b|i|i|i|c|i b|b fits]; simpl.
  8: { unfold tc_insert_with_xdev. destruct (valid_id i); simpl; auto.
       destruct (receive s i b) as [[l2 r] h]. destruct r; simpl; try (intros H; apply cont_mk in H; auto).
       destruct (bytes_eqb (digest b) i); simpl; [|intros H; apply cont_mk in H; auto].
       destruct (commit_rename_fails l2 h) as [l3 r3]. simpl. intros H. apply cont_mk in H. auto. }
  8: { unfold tc_insert_file_copy. destruct (valid_id (digest b)); simpl; auto.
       destruct (insert_by (lru s) (key_path (digest b)) (Some (blen b)) (blen b) (negb fits)) as [[l1 r] t].
       destruct r; simpl; try (intros H; apply cont_mk in H; auto).
       intros H. apply cont_mk_put in H. destruct H as [->|H]; auto.
       apply in_app_iff. right. simpl. auto. }
  - unfold tc_insert_with. destruct (valid_id i); simpl; auto.
    destruct (receive s i b) as [[l2 r] h]. destruct r; simpl; try (intros H; apply cont_mk in H; auto).
    destruct f; simpl; [intros H; apply cont_mk in H; auto|].
    destruct (bytes_eqb (digest b) i); simpl; [|intros H; apply cont_mk in H; auto].
    destruct (commit l2 h) as [[l3 r3] t3]. destruct r3; simpl; try (intros H; apply cont_mk in H; auto).
    intros H. apply cont_mk_put in H. destruct H as [->|H]; auto.
    apply in_app_iff. right. simpl. auto.
  - unfold tc_crash_upload. destruct (valid_id i); simpl.
    + destruct (receive s i b) as [[l2 r] h]. intros H. apply cont_mk in H. auto.
    + intros H. apply cont_mk in H. auto.
  - unfold tc_insert_file. destruct (valid_id (digest b)); simpl; auto.
    destruct (insert_by (lru s) (key_path (digest b)) (Some (blen b)) (blen b) false) as [[l1 r] t].
    destruct r; simpl; try (intros H; apply cont_mk in H; auto).
    intros H. apply cont_mk_put in H. destruct H as [->|H]; auto.
    apply in_app_iff. right. simpl. auto.
  - unfold tc_get. destruct (valid_id i); simpl; auto.
    destruct (get (lru s) (key_path i)) as [[l1 r] t].
    destruct r; simpl; intros H; apply cont_mk in H; auto.
  - auto.
  - unfold tc_remove. destruct (valid_id i); simpl; auto.
    destruct (remove (lru s) (key_path i)) as [l1 r]. simpl. intros H. apply cont_mk in H. auto.
  - unfold tc_reopen. intros H. apply cont_mk in H. auto.
Qed.

Lemma cont_run digest ops : forall s e,
  In e (cont (trun digest s ops)) -> In (snd e) (universe s ops).
Proof.
  unfold trun, universe. induction ops as [|o r IH]; intros s e H; simpl in *.
  - rewrite app_nil_r. apply in_map. exact H.
  - apply IH in H. apply in_app_iff in H. destruct H as [H|H].
    + apply in_map_iff in H. destruct H as (e' & <- & H). apply cont_step in H.
      apply in_app_iff in H. rewrite !in_app_iff. tauto.
    + rewrite !in_app_iff. tauto.
Qed.

Theorem serves_the_intended_archive digest s0 ops a0 :
  tinv digest s0 ->
  no_collision digest (a0 :: universe s0 ops) ->
  let s := trun digest s0 ops in
  forall s' t ret, tc_get digest s (digest a0) = (s', TOk, t, ret) -> ret = [a0; digest a0].
Proof.
  intros T NC s s' t ret H.
  destruct (content_matches digest s0 ops T (digest a0)) as (_ & GM).
  destruct (GM _ _ _ H) as (c & -> & Hd & Hc).
  unfold content_of in Hc. destruct (amem (key_path (digest a0)) (files (lru (trun digest s0 ops)))); [|discriminate].
  apply alookup_In in Hc. apply cont_run in Hc. simpl in Hc.
  assert (c = a0) by (apply NC; simpl; auto). subst. reflexivity.
Qed.

(* ---- C17_bad_upload_leaves_nothing ---- *)
Definition same_visible (s s' : tst) : Prop :=
  lru s' = set_nh (lru s) (next_h (lru s')) /\ cont s' = cont s.

Lemma next_h_reopen l c : next_h (reopen l c) = next_h l.
Proof.
  pose proof (reopen_only_files l l c eq_refl eq_refl) as H.
  apply (f_equal next_h) in H. simpl in H. exact H.
Qed.

Lemma same_visible_facts s s' :
  same_visible s s' ->
  index (lru s') = index (lru s) /\ files (lru s') = files (lru s) /\ cont s' = cont s /\
  handles (lru s') = handles (lru s) /\
  (forall j, tc_contains s' j = tc_contains s j /\ content_of s' j = content_of s j) /\
  (forall c, same_visible (tc_reopen s c) (tc_reopen s' c)).
Proof.
  intros (Hl & Hc). split; [rewrite Hl; reflexivity|]. split; [rewrite Hl; reflexivity|].
  split; [exact Hc|]. split; [rewrite Hl; reflexivity|]. split.
  - intros j. unfold tc_contains, content_of. rewrite Hl, Hc. simpl. auto.
  - intros c. unfold same_visible, tc_reopen, mk. cbn [lru cont].
    rewrite Hl at 1 3.
    rewrite (reopen_only_files (lru s) (set_nh (lru s) (next_h (lru s'))) c) by reflexivity.
    simpl. rewrite Hc, next_h_reopen. auto.
Qed.

Lemma bad_upload_state digest s i b fail :
  tinv digest s ->
  (fail = true \/ digest b <> i \/ valid_id i = false) ->
  exists s' r, tc_insert_with digest s i b fail = (s', r, None) /\ r <> TOk /\ same_visible s s'.
Proof.
  intros (C & I & CS & G) Bad. unfold tc_insert_with.
  destruct (valid_id i) eqn:Hv; simpl.
  - rewrite receive_idle by assumption. destruct C as (W & Hps & Hm).
    assert (SV : same_visible s (mk s (bump (lru s)))).
    { unfold same_visible, mk, bump. cbn [lru cont]. split; [reflexivity|].
      apply restrict_id. exact CS. }
    destruct fail.
    + rewrite abandon_mid by assumption. simpl. eexists _, _. split; [reflexivity|]. split; [discriminate | exact SV].
    + destruct (bytes_eqb (digest b) i) eqn:E.
      * apply bytes_eqb_eq in E. destruct Bad as [?|[?|?]]; congruence.
      * rewrite abandon_mid by assumption. simpl. eexists _, _. split; [reflexivity|]. split; [discriminate | exact SV].
  - exists s, TRejected. split; [reflexivity|]. split; [discriminate|].
    split; [symmetry; apply set_nh_self | reflexivity].
Qed.

Theorem bad_upload_leaves_nothing digest s0 ops i b fail :
  tinv digest s0 ->
  let s := trun digest s0 ops in
  (fail = true \/ digest b <> i \/ valid_id i = false) ->
  exists s' r, tc_insert_with digest s i b fail = (s', r, None) /\ r <> TOk /\
    index (lru s') = index (lru s) /\ files (lru s') = files (lru s) /\ cont s' = cont s /\
    handles (lru s') = [] /\
    (forall j, tc_contains s' j = tc_contains s j /\ content_of s' j = content_of s j) /\
    (forall c, index (lru (tc_reopen s' c)) = index (lru (tc_reopen s c)) /\
               files (lru (tc_reopen s' c)) = files (lru (tc_reopen s c)) /\
               cont (tc_reopen s' c) = cont (tc_reopen s c)).
Proof.
  intros T s Bad. pose proof (tinv_run digest ops s0 T) as Ts. fold s in Ts.
  destruct (bad_upload_state digest s i b fail Ts Bad) as (s' & r & E & R & SV).
  exists s', r. split; [exact E|]. split; [exact R|].
  destruct (same_visible_facts _ _ SV) as (A & B & C & D & F & H).
  split; [exact A|]. split; [exact B|]. split; [exact C|].
  split; [rewrite D; apply Ts|]. split; [exact F|].
  intros c. destruct (same_visible_facts _ _ (H c)) as (A' & B' & C' & _). auto.
Qed.

(* ---- C17_crashed_upload_leaves_nothing ---- *)
Lemma crash_upload_state digest s i b c :
  tinv digest s -> same_visible (tc_reopen s c) (tc_crash_upload s i b c).
Proof.
  intros (C & I & CS & G). unfold tc_crash_upload, tc_reopen.
  destruct (valid_id i); simpl.
  - rewrite receive_idle by assumption. rewrite reopen_mid.
    unfold same_visible, mk. cbn [lru cont]. split; reflexivity.
  - unfold same_visible. split; [symmetry; apply set_nh_self | reflexivity].
Qed.

Theorem crashed_upload_leaves_nothing digest s0 ops i b c :
  tinv digest s0 ->
  let s := trun digest s0 ops in
  let s' := tc_crash_upload s i b c in
  index (lru s') = index (lru (tc_reopen s c)) /\ files (lru s') = files (lru (tc_reopen s c)) /\
  cont s' = cont (tc_reopen s c) /\ handles (lru s') = [] /\
  (forall j, tc_contains s' j = tc_contains (tc_reopen s c) j /\ content_of s' j = content_of (tc_reopen s c) j).
Proof.
  intros T s s'. pose proof (tinv_run digest ops s0 T) as Ts. fold s in Ts.
  destruct (same_visible_facts _ _ (crash_upload_state digest s i b c Ts)) as (A & B & C & D & F & _).
  fold s' in A, B, C, D, F.
  split; [exact A|]. split; [exact B|]. split; [exact C|]. split; [|exact F].
  rewrite D. apply (tinv_reopen digest s c Ts).
Qed.

(* ---- C17_invalid_id_no_effect ---- *)
Theorem invalid_id_no_effect digest s i :
  valid_id i = false ->
  (forall b f, tc_insert_with digest s i b f = (s, TRejected, None)) /\
  tc_get digest s i = (s, TNotInCache, None, []) /\
  tc_contains s i = false /\
  tc_remove s i = (s, TOk).
Proof.
  intros H. unfold tc_insert_with, tc_get, tc_contains, tc_remove. rewrite H. simpl. auto.
Qed.

(* ---- the client side ---- *)
Lemma tinv_cput_new digest s w b ins :
  tinv digest (fst (fst (fst ins))) -> tinv digest (tcs (fst (cput_new digest s w b ins))).
Proof. destruct ins as [[[s' r] t] ret]. simpl. intros H. destruct r; exact H. Qed.

Lemma tinv_cstep digest s o : tinv digest (tcs s) -> tinv digest (tcs (fst (cstep digest s o))).
Proof.
  intros T. destruct o as [w b f|i|c|w b fits]; simpl.
  - destruct (alookup w (weak s)); [exact T|]. destruct f; [exact T|].
    apply tinv_cput_new. apply tinv_insert_file. exact T.
  - pose proof (tinv_get digest (tcs s) i T) as H.
    destruct (tc_get digest (tcs s) i) as [[[s' r] t] ret]. exact H.
  - apply tinv_reopen. exact T.
  - destruct (alookup w (weak s)); [exact T|].
    apply tinv_cput_new. apply tinv_insert_file_copy. exact T.
Qed.

Lemma tinv_crun digest ops : forall s, tinv digest (tcs s) -> tinv digest (tcs (crun digest s ops)).
Proof.
  unfold crun. induction ops as [|o r IH]; intros s T; simpl; [exact T|].
  apply IH. apply tinv_cstep. exact T.
Qed.

Theorem client_content_matches digest s0 ops :
  tinv digest (tcs s0) ->
  let s := crun digest s0 ops in
  forall i s' t ret, cstep digest s (CGet i) = (s', TORes TOk t ret) ->
  exists c, ret = [c; digest c] /\ digest c = i /\ content_of (tcs s) i = Some c.
Proof.
  intros T s i s' t ret H. pose proof (tinv_crun digest ops s0 T) as Ts. fold s in Ts.
  simpl in H. destruct (tc_get digest (tcs s) i) as [[[s1 r] t1] ret1] eqn:G.
  inversion H; subst.
  destruct (content_matches_state digest (tcs s) Ts i) as (_ & GM). eapply GM. exact G.
Qed.

(* ---- C17_failed_rename_leaves_nothing / C17_failed_copy_leaves_nothing ---- *)

(* [s'] holds nothing that [s] did not hold: no new index entry, no new file, every
   remaining file with its old content, no temp file *)
Definition nothing_new (s s' : tst) : Prop :=
  handles (lru s') = [] /\
  (forall k, In k (keys (files (lru s'))) -> In k (keys (files (lru s)))) /\
  (forall j, tc_contains s' j = true -> tc_contains s j = true) /\
  (forall j c, content_of s' j = Some c -> content_of s j = Some c).

Lemma nothing_new_mk s l' :
  idle l' -> files_sub (lru s) l' ->
  (forall k, In k (keys (index l')) -> In k (keys (index (lru s)))) ->
  nothing_new s (mk s l').
Proof.
  intros (Hh & _) FS IS. unfold nothing_new, mk. cbn [lru cont]. split; [exact Hh|]. split; [exact FS|]. split.
  - intros j. unfold tc_contains. cbn [lru]. intros H. apply andb_true_iff in H. destruct H as [Hv Hi].
    rewrite Hv. simpl. apply amem_In. apply IS. apply amem_In. exact Hi.
  - intros j c. unfold content_of. cbn [lru cont]. rewrite alookup_restrict.
    destruct (amem (key_path j) (files l')) eqn:M; [|discriminate].
    intros H. apply amem_In in M. apply FS in M. apply amem_In in M. rewrite M. exact H.
Qed.

Lemma failed_rename_state digest s i b :
  tinv digest s ->
  exists s' r, tc_insert_with_xdev digest s i b = (s', r, None) /\ r <> TOk /\ nothing_new s s'.
Proof.
  intros (C & I & CS & G). unfold tc_insert_with_xdev.
  destruct (valid_id i) eqn:Hv; simpl.
  - rewrite receive_idle by assumption. pose proof C as (W & Hps & Hm).
    destruct (bytes_eqb (digest b) i).
    + rewrite commit_rename_fails_mid by assumption. simpl.
      destruct (make_space_idle_props (bump (lru s)) (blen b) (core_bump _ C) (idle_bump _ I)) as (C2 & I2 & F2 & X2).
      eexists _, _. split; [reflexivity|]. split.
      * destruct (fst (make_space (bump (lru s)) (blen b))); discriminate.
      * apply nothing_new_mk; auto.
    + rewrite abandon_mid by assumption. simpl. eexists _, _. split; [reflexivity|]. split; [discriminate|].
      apply nothing_new_mk; auto using idle_bump, files_sub_bump.
  - exists s, TRejected. split; [reflexivity|]. split; [discriminate|].
    destruct I as (Hh & Hp). repeat split; auto.
Qed.

Theorem failed_rename_leaves_nothing digest s0 ops i b :
  tinv digest s0 ->
  let s := trun digest s0 ops in
  exists s' r, tc_insert_with_xdev digest s i b = (s', r, None) /\ r <> TOk /\
    handles (lru s') = [] /\
    (forall k, In k (keys (files (lru s'))) -> In k (keys (files (lru s)))) /\
    (forall j, tc_contains s' j = true -> tc_contains s j = true) /\
    (forall j c, content_of s' j = Some c -> content_of s j = Some c).
Proof.
  intros T s. pose proof (tinv_run digest ops s0 T) as Ts. fold s in Ts.
  destruct (failed_rename_state digest s i b Ts) as (s' & r & E & R & N).
  exists s', r. split; [exact E|]. split; [exact R|]. exact N.
Qed.

Lemma failed_copy_state digest s b :
  tinv digest s ->
  exists s' r, tc_insert_file_copy digest s b false = (s', r, None, []) /\ r <> TOk /\ nothing_new s s' /\
    (blen b <= cap (lru s) -> valid_id (digest b) = true ->
       tc_contains s' (digest b) = false /\ content_of s' (digest b) = None).
Proof.
  intros (C & I & CS & G). unfold tc_insert_file_copy.
  destruct (valid_id (digest b)) eqn:Hv; simpl.
  - destruct (insert_by (lru s) (key_path (digest b)) (Some (blen b)) (blen b) true) as [[l1 r] t] eqn:IB.
    destruct (insert_by_fail_props _ _ _ _ _ _ IB C I) as (C1 & I1 & _ & _ & F1 & R & _ & X1 & Gone).
    assert (E : (let '(l1, r, _) := (l1, r, t) in
                 match r with ROk => (mk_put s l1 (key_path (digest b)) b, TOk, t, [digest b])
                            | _ => (mk s l1, of_res r, None, []) end) = (mk s l1, of_res r, None, []))
      by (destruct r; congruence).
    exists (mk s l1), (of_res r). split; [destruct r; congruence|]. split.
    + intros Hx. apply of_res_ok in Hx. contradiction.
    + split; [apply nothing_new_mk; auto|].
      intros Hle _. destruct (Gone Hle) as (Nf & Ni). unfold tc_contains, content_of, mk. cbn [lru cont]. split.
      * rewrite Hv. simpl. apply amem_false. exact Ni.
      * replace (amem (key_path (digest b)) (files l1)) with false by (symmetry; apply amem_false; exact Nf). reflexivity.
  - exists s, TRejected. split; [reflexivity|]. split; [discriminate|]. split.
    + destruct I as (Hh & Hp). repeat split; auto.
    + intros _ Hx. discriminate.
Qed.

Theorem failed_copy_leaves_nothing digest s0 ops b :
  tinv digest s0 ->
  let s := trun digest s0 ops in
  exists s' r, tc_insert_file_copy digest s b false = (s', r, None, []) /\ r <> TOk /\
    handles (lru s') = [] /\
    (forall k, In k (keys (files (lru s'))) -> In k (keys (files (lru s)))) /\
    (forall j, tc_contains s' j = true -> tc_contains s j = true) /\
    (forall j c, content_of s' j = Some c -> content_of s j = Some c) /\
    (blen b <= cap (lru s) -> valid_id (digest b) = true ->
       tc_contains s' (digest b) = false /\ content_of s' (digest b) = None).
Proof.
  intros T s. pose proof (tinv_run digest ops s0 T) as Ts. fold s in Ts.
  destruct (failed_copy_state digest s b Ts) as (s' & r & E & R & (N1 & N2 & N3 & N4) & Gone).
  exists s', r. repeat (split; [assumption|]). exact Gone.
Qed.

(* ---- a crash inside insert_file's fall-back copy (finding C17-K1, fixed by 7ead532) ---- *)
Lemma reopen_lru_remove l k c : reopen (lru_remove l k) c = reopen l c.
Proof.
  destruct (lru_remove_props l k) as (_ & _ & _ & Rf & Rc & (_ & _ & _ & _ & Rn)).
  rewrite (reopen_only_files l (lru_remove l k) c Rf Rc). rewrite Rn.
  rewrite <- (next_h_reopen l c). apply set_nh_self.
Qed.

Theorem crash_in_fallback_copy_leaves_nothing digest s b k c :
  tc_crash_insert_file_copy digest s b k c = tc_reopen s c.
Proof.
  unfold tc_crash_insert_file_copy, tc_reopen.
  destruct (negb (valid_id (digest b))); [reflexivity|].
  destruct (negb (blen b <=? cap (lru s))); [reflexivity|].
  rewrite reopen_lru_remove. reflexivity.
Qed.

(* ---- lookups and removals are exact in the id (ids of every length) ---- *)
Lemma amem_aremove_neq {V} k k' (l : list (key * V)) : k' <> k -> amem k' (aremove k l) = amem k' l.
Proof. intros N. unfold amem. rewrite alookup_aremove_neq by exact N. reflexivity. Qed.

Lemma remove_other s k s' r :
  remove s k = (s', r) ->
  forall k', k' <> k ->
  amem k' (index s') = amem k' (index s) /\ amem k' (files s') = amem k' (files s).
Proof.
  unfold remove, lru_remove. intros H k' N.
  destruct (alookup k (index s)) as [sz|] eqn:E; [|inversion H; subst; auto].
  simpl in H. destruct (alookup k (files s)) as [x|] eqn:F; inversion H; subst; clear H; simpl;
    rewrite ?amem_aremove_neq by exact N; auto.
Qed.

Theorem remove_is_exact digest s0 ops i :
  tinv digest s0 ->
  let s := trun digest s0 ops in
  forall j, j <> i ->
  tc_contains (fst (tc_remove s i)) j = tc_contains s j /\
  content_of (fst (tc_remove s i)) j = content_of s j.
Proof.
  intros T s j Hji. unfold tc_remove.
  destruct (valid_id i) eqn:Hv; simpl; [|auto].
  destruct (remove (lru s) (key_path i)) as [l1 r] eqn:RE. simpl.
  assert (Hk : key_path j <> key_path i) by (intros Hk; apply Hji; apply key_path_inj; auto).
  destruct (remove_other _ _ _ _ RE (key_path j) Hk) as (Hi & Hf).
  unfold tc_contains, content_of, mk. cbn [lru cont]. rewrite Hi, Hf, alookup_restrict, Hf. split; [reflexivity|].
  destruct (amem (key_path j) (files (lru s))); reflexivity.
Qed.

(* an id that is not the digest of any content (too long, too short, ...) is never reported
   present and never served, whatever is stored under ids that resemble it *)
Theorem only_digests_are_served digest s0 ops i :
  tinv digest s0 ->
  (forall c, digest c <> i) ->
  let s := trun digest s0 ops in
  tc_contains s i = false /\
  (forall s' r t ret, tc_get digest s i = (s', r, t, ret) -> r <> TOk /\ ret = []).
Proof.
  intros T ND s. destruct (content_matches digest s0 ops T i) as (CM & GM). fold s in CM, GM. split.
  - destruct (tc_contains s i) eqn:E; [|reflexivity].
    destruct (CM eq_refl) as (c & _ & Hd). exfalso. exact (ND c Hd).
  - intros s' r t ret H. assert (R : r <> TOk).
    { intros ->. destruct (GM _ _ _ H) as (c & _ & Hd & _). exact (ND c Hd). }
    split; [exact R|]. unfold tc_get in H.
    destruct (negb (valid_id i)); [inversion H; reflexivity|].
    destruct (get (lru s) (key_path i)) as [[l1 r1] t1]. destruct r1; inversion H; subst; try reflexivity.
    exfalso. apply R. reflexivity.
Qed.

(* ---- the build server in front of the cache ---- *)
Lemma tinv_submit_now digest v jobs j b :
  tinv digest v -> tinv digest (fst (submit_now digest v jobs j b)).
Proof.
  intros T. unfold submit_now. destruct (hlookup j jobs) as [i|]; [|exact T].
  destruct (tc_contains v i); [exact T|].
  pose proof (tinv_insert_with digest v i b false T) as H.
  destruct (tc_insert_with digest v i b false) as [[v' r] t]. exact H.
Qed.

Lemma tinv_sstep digest s o : tinv digest (sv s) -> tinv digest (sv (fst (fst (sstep digest s o)))).
Proof.
  intros T. destruct o as [i|j b|j b| |j]; simpl.
  - destruct (negb (valid_id i)); [exact T|]. destruct (supl s); exact T.
  - destruct (supl s); [exact T|].
    pose proof (tinv_submit_now digest (sv s) (sjobs s) j b T) as H.
    destruct (submit_now digest (sv s) (sjobs s) j b) as [v' r]. exact H.
  - destruct (supl s); [exact T|]. destruct (hlookup j (sjobs s)); [|exact T].
    destruct (tc_contains (sv s) i); exact T.
  - destruct (supl s) as [[j b]|]; [|exact T].
    pose proof (tinv_submit_now digest (sv s) (sjobs s) j b T) as H.
    destruct (submit_now digest (sv s) (sjobs s) j b) as [v' r]. exact H.
  - destruct (supl s); [exact T|]. destruct (hlookup j (sjobs s)) as [i|]; [|exact T].
    destruct (mem_id i (sdirs s)); [exact T|].
    pose proof (tinv_get digest (sv s) i T) as H.
    destruct (tc_get digest (sv s) i) as [[[v1 r] t] ret]. simpl in H.
    destruct r; simpl; try exact H. apply tinv_remove. exact H.
Qed.

Lemma tinv_srun digest ops : forall s, tinv digest (sv s) -> tinv digest (sv (srun digest s ops)).
Proof.
  unfold srun. induction ops as [|o r IH]; intros s T; simpl; [exact T|].
  apply IH. apply tinv_sstep. exact T.
Qed.

Lemma answer_ready digest v i :
  tinv digest v -> answer v i = SReady -> exists c, content_of v i = Some c /\ digest c = i.
Proof.
  intros T H. unfold answer in H. destruct (tc_contains v i) eqn:E; [|discriminate].
  destruct (content_matches_state digest v T i) as (CM & _). exact (CM E).
Qed.

Theorem server_ready_means_present digest s0 ops o :
  tinv digest (sv s0) ->
  let s := srun digest s0 ops in
  let s' := fst (fst (sstep digest s o)) in
  (snd (fst (sstep digest s o)) = SReady ->
     exists i c, o = SAssign i /\ content_of (sv s') i = Some c /\ digest c = i) /\
  (forall n w, nth_error (swait s) n = Some w ->
     nth_error (snd (sstep digest s o)) n = Some SReady ->
     exists c, content_of (sv s') (snd w) = Some c /\ digest c = snd w).
Proof.
  intros T s s'. pose proof (tinv_srun digest ops s0 T) as Ts. fold s in Ts.
  pose proof (tinv_sstep digest s o Ts) as Ts'. fold s' in Ts'.
  subst s'. destruct o as [i|j b|j b| |j]; simpl in *.
  - destruct (negb (valid_id i)); simpl in *.
    + split; [discriminate|]. intros n w _ H. destruct n; discriminate.
    + destruct (supl s); simpl in *.
      * split; [discriminate|]. intros n w _ H. destruct n; discriminate.
      * split.
        -- intros H. destruct (answer_ready digest (sv s) i Ts H) as (c & Hc & Hd). exists i, c. auto.
        -- intros n w _ H. destruct n; discriminate.
  - destruct (supl s); simpl in *.
    + split; [discriminate|]. intros n w _ H. destruct n; discriminate.
    + destruct (submit_now digest (sv s) (sjobs s) j b) as [v' r] eqn:SN. simpl in *. split.
      * intros ->. unfold submit_now in SN. destruct (hlookup j (sjobs s)); [|inversion SN].
        destruct (tc_contains (sv s) i); [inversion SN|].
        destruct (tc_insert_with digest (sv s) i b false) as [[v2 r2] t2]. destruct r2; inversion SN.
      * intros n w _ H. destruct n; discriminate.
  - destruct (supl s); simpl in *; [split; [discriminate|]; intros n w _ H; destruct n; discriminate|].
    destruct (hlookup j (sjobs s)); simpl in *; [|split; [discriminate|]; intros n w _ H; destruct n; discriminate].
    destruct (tc_contains (sv s) i); simpl in *; split; try discriminate; intros n w _ H; destruct n; discriminate.
  - destruct (supl s) as [[j b]|]; simpl in *; [|split; [discriminate|]; intros n w _ H; destruct n; discriminate].
    destruct (submit_now digest (sv s) (sjobs s) j b) as [v' r] eqn:SN. simpl in *. split.
    + intros ->. unfold submit_now in SN. destruct (hlookup j (sjobs s)); [|inversion SN].
      destruct (tc_contains (sv s) i); [inversion SN|].
      destruct (tc_insert_with digest (sv s) i b false) as [[v2 r2] t2]. destruct r2; inversion SN.
    + intros n w Hw H. rewrite nth_error_map, Hw in H. simpl in H. inversion H as [H1].
      apply (answer_ready digest v' (snd w) Ts' H1).
  - destruct (supl s); simpl in *; [split; [discriminate|]; intros n w _ H; destruct n; discriminate|].
    destruct (hlookup j (sjobs s)) as [i|]; simpl in *; [|split; [discriminate|]; intros n w _ H; destruct n; discriminate].
    destruct (mem_id i (sdirs s)); simpl in *; [split; [discriminate|]; intros n w _ H; destruct n; discriminate|].
    destruct (tc_get digest (sv s) i) as [[[v1 r] t] ret]. destruct r; simpl in *;
      (split; [discriminate|]; intros n w _ H; destruct n; discriminate).
Qed.
