(* Proofs/TcCache.v — invariants and theorems about Model/TcCache.v (property C17).

   Layout:
     A  association lists, the order on keys, sorted file maps
     B  what evict / make_space / lru_insert do (the facts C17 needs)
     C  the Lru-level invariant [core] and its preservation by the LruDiskCache
        calls TcCache makes (insert_file, prepare_add+commit / abandon, get, remove, new)
     D  ids and paths (key_path)
     E  the TcCache invariant [tinv] and its preservation by every operation
     F  the theorems pinned in Properties/C17.v

   Self-contained on purpose (does not import Proofs/Lru.v, which belongs to C07). *)
From Coq Require Import List NArith Bool Lia ZifyBool Permutation Sorting.Sorted.
From Sccache Require Import Base.Sx Model.Lru Model.TcCache.
Import ListNotations.
Local Open Scope N_scope.

#[local] Arguments N.add : simpl never.
#[local] Arguments N.sub : simpl never.
#[local] Arguments N.leb : simpl never.
#[local] Arguments N.ltb : simpl never.
#[local] Arguments N.eqb : simpl never.

(* ====================================================================== *)
(* A. association lists                                                    *)
(* ====================================================================== *)

Definition keys {V} (l : list (key * V)) : list key := map fst l.

Lemma beq_neq a b : bytes_eqb a b = false <-> a <> b.
Proof. rewrite <- bytes_eqb_eq. destruct (bytes_eqb a b); split; congruence. Qed.

Lemma beq_sym a b : bytes_eqb a b = bytes_eqb b a.
Proof.
  destruct (bytes_eqb a b) eqn:E.
  - apply bytes_eqb_eq in E. subst. symmetry. apply bytes_eqb_refl.
  - apply beq_neq in E. symmetry. apply beq_neq. congruence.
Qed.

Lemma amem_In {V} k (l : list (key * V)) : amem k l = true <-> In k (keys l).
Proof.
  unfold amem. induction l as [|[k' v] r IH]; simpl.
  - split; [discriminate | tauto].
  - destruct (bytes_eqb k k') eqn:E.
    + apply bytes_eqb_eq in E. subst. split; auto.
    + apply beq_neq in E. rewrite IH. split; [auto | intros [H|H]; congruence].
Qed.

Lemma amem_false {V} k (l : list (key * V)) : amem k l = false <-> ~ In k (keys l).
Proof. rewrite <- amem_In. destruct (amem k l); split; congruence. Qed.

Lemma alookup_amem {V} k (l : list (key * V)) v : alookup k l = Some v -> amem k l = true.
Proof. unfold amem. intros ->. reflexivity. Qed.

Lemma amem_alookup {V} k (l : list (key * V)) : amem k l = true -> exists v, alookup k l = Some v.
Proof. unfold amem. destruct (alookup k l); [eauto | discriminate]. Qed.

Lemma alookup_aremove_eq {V} k (l : list (key * V)) : alookup k (aremove k l) = None.
Proof.
  induction l as [|[k' v] r IH]; simpl; auto.
  destruct (bytes_eqb k k') eqn:E; auto. simpl. rewrite E. exact IH.
Qed.

Lemma alookup_aremove_neq {V} k k' (l : list (key * V)) :
  k' <> k -> alookup k' (aremove k l) = alookup k' l.
Proof.
  intros N. induction l as [|[k0 v] r IH]; simpl; auto.
  destruct (bytes_eqb k k0) eqn:E.
  - apply bytes_eqb_eq in E. subst k0.
    destruct (bytes_eqb k' k) eqn:E2; [apply bytes_eqb_eq in E2; congruence | exact IH].
  - simpl. destruct (bytes_eqb k' k0); auto.
Qed.

Lemma keys_aremove {V} k k' (l : list (key * V)) :
  In k' (keys (aremove k l)) <-> In k' (keys l) /\ k' <> k.
Proof.
  induction l as [|[k0 v] r IH]; simpl; [tauto|].
  destruct (bytes_eqb k k0) eqn:E.
  - apply bytes_eqb_eq in E. subst k0. rewrite IH. split; [tauto|]. intros [[H|H] N]; [congruence | tauto].
  - apply beq_neq in E. simpl. rewrite IH. split.
    + intros [H|H]; [subst; split; auto | tauto].
    + tauto.
Qed.

Lemma alookup_ains_eq {V} k (v : V) l : alookup k (ains k v l) = Some v.
Proof.
  induction l as [|[k' v'] r IH]; simpl.
  - rewrite bytes_eqb_refl. reflexivity.
  - destruct (bytes_eqb k k') eqn:E; simpl.
    + rewrite bytes_eqb_refl. reflexivity.
    + destruct (bytes_ltb k k'); simpl.
      * rewrite bytes_eqb_refl. reflexivity.
      * rewrite E. exact IH.
Qed.

Lemma alookup_ains_neq {V} k k' (v : V) l : k' <> k -> alookup k' (ains k v l) = alookup k' l.
Proof.
  intros N. apply beq_neq in N. induction l as [|[k0 v0] r IH]; simpl.
  - rewrite N. reflexivity.
  - destruct (bytes_eqb k k0) eqn:E; simpl.
    + apply bytes_eqb_eq in E. subst k0. rewrite N. reflexivity.
    + destruct (bytes_ltb k k0); simpl.
      * rewrite N. reflexivity.
      * destruct (bytes_eqb k' k0); auto.
Qed.

Lemma keys_ains {V} k k' (v : V) l : In k' (keys (ains k v l)) <-> k' = k \/ In k' (keys l).
Proof.
  rewrite <- !amem_In. unfold amem.
  destruct (list_eq_dec N.eq_dec k' k) as [->|N].
  - rewrite alookup_ains_eq. tauto.
  - rewrite alookup_ains_neq by exact N. tauto.
Qed.

(* ---- the order on keys ---- *)

Lemma ltb_irrefl a : bytes_ltb a a = false.
Proof. induction a as [|x a IH]; simpl; auto. rewrite N.ltb_irrefl. exact IH. Qed.

Lemma ltb_trans a : forall b c, bytes_ltb a b = true -> bytes_ltb b c = true -> bytes_ltb a c = true.
Proof.
  induction a as [|x a IH]; intros [|y b] [|z c]; simpl; try discriminate; auto.
  destruct (x <? y) eqn:Exy, (y <? x) eqn:Eyx, (y <? z) eqn:Eyz, (z <? y) eqn:Ezy,
           (x <? z) eqn:Exz, (z <? x) eqn:Ezx; try discriminate; try lia; auto.
  intros H1 H2. eapply IH; eauto.
Qed.

Lemma ltb_total a : forall b, bytes_ltb a b = false -> bytes_eqb a b = false -> bytes_ltb b a = true.
Proof.
  induction a as [|x a IH]; intros [|y b]; simpl; try discriminate; auto.
  destruct (x <? y) eqn:Exy, (y <? x) eqn:Eyx; try discriminate; auto.
  assert (x = y) by lia. subst. rewrite N.eqb_refl. simpl. apply IH.
Qed.

Lemma ltb_neq a b : bytes_ltb a b = true -> a <> b.
Proof. intros H ->. rewrite ltb_irrefl in H. discriminate. Qed.

Definition klt {V} (a b : key * V) : Prop := bytes_ltb (fst a) (fst b) = true.
Definition ksorted {V} (l : list (key * V)) : Prop := StronglySorted klt l.

Lemma ksorted_aremove {V} k (l : list (key * V)) : ksorted l -> ksorted (aremove k l).
Proof.
  induction 1 as [|[k' v] r Hs IH Hall]; simpl; [constructor|].
  destruct (bytes_eqb k k'); auto. constructor; auto.
  rewrite Forall_forall in *. intros [k2 v2] Hin. apply Hall.
  clear - Hin. induction r as [|[k3 v3] r IH]; simpl in *; auto.
  destruct (bytes_eqb k k3); simpl in *; tauto.
Qed.

Lemma ksorted_ains {V} k (v : V) l : ksorted l -> ksorted (ains k v l).
Proof.
  induction 1 as [|[k' v'] r Hs IH Hall]; simpl.
  - constructor; constructor.
  - destruct (bytes_eqb k k') eqn:E.
    + apply bytes_eqb_eq in E. subst k'. constructor; auto.
    + destruct (bytes_ltb k k') eqn:L.
      * constructor; [constructor; auto|]. constructor; [exact L|].
        rewrite Forall_forall in *. intros x Hx. specialize (Hall x Hx). unfold klt in *. simpl in *.
        eapply ltb_trans; eauto.
      * constructor; auto. rewrite Forall_forall in *. intros [k2 v2] Hin.
        assert (Hk : In k2 (keys (ains k v r))) by (apply in_map_iff; exists (k2, v2); auto).
        apply keys_ains in Hk. destruct Hk as [->|Hk].
        -- unfold klt. simpl. apply ltb_total; auto.
        -- apply in_map_iff in Hk. destruct Hk as [[k3 v3] [Hf Hin3]]. simpl in Hf. subst k3.
           specialize (Hall _ Hin3). exact Hall.
Qed.

Lemma ksorted_NoDup {V} (l : list (key * V)) : ksorted l -> NoDup (keys l).
Proof.
  induction 1 as [|[k v] r Hs IH Hall]; simpl; constructor; auto.
  intros Hin. apply in_map_iff in Hin. destruct Hin as [[k2 v2] [Hf Hin]]. simpl in Hf. subst k2.
  rewrite Forall_forall in Hall. specialize (Hall _ Hin). unfold klt in Hall. simpl in Hall.
  rewrite ltb_irrefl in Hall. discriminate.
Qed.

Lemma NoDup_keys_aremove {V} k (l : list (key * V)) : NoDup (keys l) -> NoDup (keys (aremove k l)).
Proof.
  induction l as [|[k' v] r IH]; simpl; auto. intros H. inversion H; subst.
  destruct (bytes_eqb k k'); auto. simpl. constructor; auto.
  intros Hin. apply keys_aremove in Hin. tauto.
Qed.

Lemma keys_app {V} (a b : list (key * V)) : keys (a ++ b) = keys a ++ keys b.
Proof. apply map_app. Qed.

Lemma NoDup_snoc {A} (l : list A) x : NoDup l -> ~ In x l -> NoDup (l ++ [x]).
Proof.
  induction l as [|y l IH]; simpl; intros Hn Hx.
  - constructor; auto.
  - inversion Hn; subst. constructor.
    + rewrite in_app_iff. simpl. intros [H|[H|[]]]; [tauto | subst; tauto].
    + apply IH; tauto.
Qed.

(* ---- sort_mtime is a permutation ---- *)

Lemma ins_mtime_perm e l : Permutation (ins_mtime e l) (e :: l).
Proof.
  induction l as [|e' r IH]; simpl; auto.
  destruct (snd (snd e) <? snd (snd e')); auto.
  rewrite IH. apply perm_swap.
Qed.

Lemma sort_mtime_perm l : Permutation (sort_mtime l) l.
Proof.
  unfold sort_mtime. induction l as [|e r IH]; simpl; auto.
  rewrite ins_mtime_perm. constructor. exact IH.
Qed.

(* ====================================================================== *)
(* B. evict / make_space / lru_insert                                      *)
(* ====================================================================== *)

(* index duplicate-free, every indexed key has a file, the file map is canonical *)
Definition wf (s : st) : Prop :=
  NoDup (keys (index s)) /\
  (forall k, In k (keys (index s)) -> In k (keys (files s))) /\
  ksorted (files s).

(* the bookkeeping make_space / lru_insert never touch *)
Definition env_eq (s s' : st) : Prop :=
  cap s' = cap s /\ pending s' = pending s /\ pending_size s' = pending_size s /\
  handles s' = handles s /\ next_h s' = next_h s.

Lemma env_eq_refl s : env_eq s s.
Proof. repeat split. Qed.

Lemma env_eq_trans a b c : env_eq a b -> env_eq b c -> env_eq a c.
Proof. unfold env_eq. intuition congruence. Qed.

Lemma lru_trim_noop idx m c : m <= c -> lru_trim idx m c = (idx, m).
Proof. intros H. destruct idx as [|[k sz] r]; simpl; replace (m <=? c) with true by lia; reflexivity. Qed.

Lemma evict_props : forall idx m fs extra c ok idx' m' fs',
  evict idx m fs extra c = (ok, (idx', m', fs')) ->
  NoDup (keys idx) -> (forall k, In k (keys idx) -> In k (keys fs)) -> ksorted fs ->
  NoDup (keys idx') /\ (forall k, In k (keys idx') -> In k (keys fs')) /\ ksorted fs' /\
  m' <= m /\ (ok = true -> m' + extra <= c) /\
  (forall k, In k (keys idx') -> In k (keys idx)) /\
  (forall k, In k (keys fs') -> In k (keys fs)) /\
  (forall k, In k (keys fs) -> ~ In k (keys idx) -> In k (keys fs')).
Proof.
  induction idx as [|[k sz] r IH]; intros m fs extra c ok idx' m' fs' H Hnd Hsub Hs.
  - simpl in H. destruct (m + extra <=? c) eqn:E; inversion H; subst; clear H;
      repeat split; auto; try lia; try discriminate.
  - simpl in H. destruct (m + extra <=? c) eqn:E.
    + inversion H; subst; clear H. repeat split; auto; lia.
    + simpl in Hnd. inversion Hnd as [|? ? Hnin Hnd']; subst.
      apply IH in H; auto.
      * destruct H as (A & B & C & D & E' & F & G & I).
        repeat split; auto.
        -- lia.
        -- intros k0 Hk. simpl. right. auto.
        -- intros k0 Hk. apply G in Hk. apply keys_aremove in Hk. tauto.
        -- intros k0 Hk Hn. apply I.
           ++ apply keys_aremove. split; auto. intros ->. apply Hn. simpl. auto.
           ++ intros Hr. apply Hn. simpl. auto.
      * intros k0 Hk. apply keys_aremove. split.
        -- apply Hsub. simpl. auto.
        -- intros ->. contradiction.
      * apply ksorted_aremove. exact Hs.
Qed.

Lemma evict_noop idx m fs extra c : m + extra <= c -> evict idx m fs extra c = (true, (idx, m, fs)).
Proof. intros H. destruct idx as [|[k sz] r]; simpl; replace (m + extra <=? c) with true by lia; reflexivity. Qed.

Lemma make_space_props s n ok s' :
  make_space s n = (ok, s') -> wf s ->
  env_eq s s' /\ clock s' = clock s /\ wf s' /\ measure s' <= measure s /\
  (ok = true -> measure s' + (pending_size s + n) <= cap s) /\
  (forall k, In k (keys (index s')) -> In k (keys (index s))) /\
  (forall k, In k (keys (files s')) -> In k (keys (files s))) /\
  (forall k, In k (keys (files s)) -> ~ In k (keys (index s)) -> In k (keys (files s'))).
Proof.
  unfold make_space. intros H (Hnd & Hsub & Hs).
  destruct (negb (n <=? cap s) || negb (pending_size s + n <=? cap s)) eqn:G.
  - inversion H; subst; clear H. repeat split; auto; try lia; discriminate.
  - destruct (evict (index s) (measure s) (files s) (pending_size s + n) (cap s)) as [ok' [[idx m] fs]] eqn:E.
    inversion H; subst; clear H.
    apply evict_props in E; auto. destruct E as (A & B & C & D & E' & F & G' & I).
    simpl. repeat split; auto.
Qed.

Lemma make_space_noop s n :
  n <= cap s -> measure s + (pending_size s + n) <= cap s -> make_space s n = (true, s).
Proof.
  intros H1 H2. unfold make_space.
  replace (n <=? cap s) with true by lia. replace (pending_size s + n <=? cap s) with true by lia. simpl.
  rewrite evict_noop by exact H2. destruct s; reflexivity.
Qed.

Lemma lru_insert_props s k v :
  measure s + v <= cap s ->
  index (lru_insert s k v) = aremove k (index s) ++ [(k, v)] /\
  measure (lru_insert s k v) <= cap s /\
  files (lru_insert s k v) = files s /\ clock (lru_insert s k v) = clock s /\
  env_eq s (lru_insert s k v).
Proof.
  intros H. unfold lru_insert.
  set (m2 := match alookup k (index s) with Some old => measure s + v - old | None => measure s + v end).
  assert (Hm2 : m2 <= cap s) by (subst m2; destruct (alookup k (index s)); lia).
  rewrite lru_trim_noop by exact Hm2. simpl. repeat split; auto.
Qed.

Lemma wf_lru_insert s k v :
  wf s -> In k (keys (files s)) -> measure s + v <= cap s -> wf (lru_insert s k v).
Proof.
  intros (Hnd & Hsub & Hs) Hk Hm.
  destruct (lru_insert_props s k v Hm) as (Hi & _ & Hf & _ & _).
  unfold wf. rewrite Hi, Hf, keys_app. simpl. repeat split; auto.
  - apply NoDup_snoc; [apply NoDup_keys_aremove; exact Hnd|]. intros Hin. apply keys_aremove in Hin. tauto.
  - intros k0 Hin. apply in_app_iff in Hin. destruct Hin as [Hin|[<-|[]]]; auto.
    apply keys_aremove in Hin. apply Hsub. tauto.
Qed.

Lemma keys_index_lru_insert s k v k' :
  measure s + v <= cap s ->
  In k' (keys (index (lru_insert s k v))) <-> k' = k \/ In k' (keys (index s)).
Proof.
  intros Hm. destruct (lru_insert_props s k v Hm) as (Hi & _). rewrite Hi, keys_app, in_app_iff. simpl.
  rewrite keys_aremove. destruct (list_eq_dec N.eq_dec k' k) as [->|Hn]; intuition congruence.
Qed.

Lemma lru_remove_props s k :
  (forall k', In k' (keys (index (lru_remove s k))) <-> In k' (keys (index s)) /\ k' <> k) /\
  (NoDup (keys (index s)) -> NoDup (keys (index (lru_remove s k)))) /\
  measure (lru_remove s k) <= measure s /\ files (lru_remove s k) = files s /\
  clock (lru_remove s k) = clock s /\ env_eq s (lru_remove s k).
Proof.
  unfold lru_remove. destruct (alookup k (index s)) as [sz|] eqn:E; simpl.
  - repeat split; auto; try lia; try (apply keys_aremove; auto).
    + apply keys_aremove in H. tauto.
    + apply keys_aremove in H. tauto.
    + apply NoDup_keys_aremove.
  - assert (Hn : ~ In k (keys (index s))).
    { apply amem_false. unfold amem. rewrite E. reflexivity. }
    repeat split; auto; try lia; try tauto. intros ->. tauto.
Qed.

(* ====================================================================== *)
(* C. the Lru-level invariant                                              *)
(* ====================================================================== *)

(* between two TcCache calls: no reservation, within the limit, index and disk agree *)
Definition core (s : st) : Prop := wf s /\ pending_size s = 0 /\ measure s <= cap s.
Definition idle (s : st) : Prop := handles s = [] /\ pending s = [].

Definition files_sub (s s' : st) : Prop := forall k, In k (keys (files s')) -> In k (keys (files s)).

Lemma wf_tick s : wf s -> wf (tick s).
Proof. unfold wf. simpl. auto. Qed.

(* goals: wf, pending_size, measure, handles, pending, the rest *)
Ltac split_ci := split; [split; [| split] | split; [split |]].

(* ---- LruDiskCache::insert_file ---- *)
Lemma insert_file_props s k n s' r t :
  insert_by s k (Some n) n false = (s', r, t) -> core s -> idle s ->
  core s' /\ idle s' /\ next_h s' = next_h s /\ cap s' = cap s /\
  (forall k', In k' (keys (files s')) -> (k' = k /\ r = ROk) \/ In k' (keys (files s))).
Proof.
  unfold insert_by. cbv beta iota zeta. intros H ((Hnd & Hsub & Hs) & Hps & Hm) (Hh & Hp).
  destruct (negb (n <=? cap s)) eqn:G.
  - inversion H; subst. repeat split; auto.
  - destruct (lru_remove_props s k) as (R1 & R2 & R3 & R4 & R5 & R6).
    set (s1 := lru_remove s k) in *.
    set (s2 := set_files s1 (ains k (n, clock s1 + 1) (files s1))) in *.
    destruct (make_space s2 n) as [ok s3] eqn:M.
    assert (Hk1 : ~ In k (keys (index s1))) by (intros Hin; apply R1 in Hin; tauto).
    assert (W2 : wf s2).
    { unfold wf, s2. simpl. repeat split.
      - apply R2. exact Hnd.
      - intros k0 Hin. apply keys_ains. right. rewrite R4. apply Hsub. apply R1 in Hin. tauto.
      - apply ksorted_ains. rewrite R4. exact Hs. }
    destruct (make_space_props _ _ _ _ M W2) as (E3 & C3 & W3 & M3 & O3 & I3 & F3 & S3).
    destruct R6 as (Rc & Rp & Rps & Rh & Rn). destruct E3 as (Ec & Ep & Eps & Eh & En).
    simpl in Ec, Ep, Eps, Eh, En, M3, O3.
    assert (Hk3 : ~ In k (keys (index s3))) by (intros Hin; apply I3 in Hin; simpl in Hin; tauto).
    assert (Hf2 : forall k', In k' (keys (files s2)) -> k' = k \/ In k' (keys (files s))).
    { unfold s2. simpl. intros k' Hin. apply keys_ains in Hin. rewrite R4 in Hin. exact Hin. }
    destruct ok.
    + inversion H; subst; clear H.
      assert (Hm3 : measure s3 + n <= cap s3) by (specialize (O3 eq_refl); lia).
      assert (Hkf : In k (keys (files s3))).
      { apply S3; [unfold s2; simpl; apply keys_ains; auto | simpl; exact Hk1]. }
      destruct (lru_insert_props s3 k n Hm3) as (Li & Lm & Lf & Lc & (Lcap & Lp & Lps & Lh & Ln)).
      split_ci; simpl; try congruence; try lia.
      * apply wf_tick, wf_lru_insert; auto.
      * split; [congruence|]. split; [congruence|].
        intros k' Hin. rewrite Lf in Hin. apply F3 in Hin. apply Hf2 in Hin. tauto.
    + inversion H; subst; clear H. destruct W3 as (W3a & W3b & W3c).
      split_ci; simpl; try congruence; try lia.
      * unfold wf. simpl. repeat split; auto.
        -- intros k0 Hin. apply keys_aremove. split; [auto | intros ->; contradiction].
        -- apply ksorted_aremove. exact W3c.
      * split; [congruence|]. split; [congruence|].
        intros k' Hin. apply keys_aremove in Hin. destruct Hin as [Hin Hne].
        apply F3 in Hin. apply Hf2 in Hin. tauto.
Qed.

(* ---- the second half of LruDiskCache::commit, from an idle state ---- *)
Definition commit_core (s : st) (k : key) (n : N) : st * res * option key :=
  let '(ok, s2) := make_space s n in
  if ok then (lru_insert (tick (set_files s2 (ains k (n, clock s2 + 1) (files s2)))) k n, ROk, Some k)
  else (s2, RTooLarge, None).

Lemma commit_core_props s k n s' r t :
  commit_core s k n = (s', r, t) -> core s -> idle s ->
  core s' /\ idle s' /\ next_h s' = next_h s /\ cap s' = cap s /\
  (forall k', In k' (keys (files s')) -> (k' = k /\ r = ROk) \/ In k' (keys (files s))) /\
  (r = ROk \/ (r = RTooLarge /\ t = None)).
Proof.
  unfold commit_core. intros H (W & Hps & Hm) (Hh & Hp).
  destruct (make_space s n) as [ok s2] eqn:M.
  destruct (make_space_props _ _ _ _ M W) as (E2 & C2 & W2 & M2 & O2 & I2 & F2 & S2).
  destruct E2 as (Ec & Ep & Eps & Eh & En). destruct W2 as (W2a & W2b & W2c).
  destruct ok.
  - inversion H; subst; clear H.
    remember (tick (set_files s2 (ains k (n, clock s2 + 1) (files s2)))) as s3 eqn:Es3.
    assert (T3 : cap s3 = cap s2 /\ pending s3 = pending s2 /\ pending_size s3 = pending_size s2 /\
                 handles s3 = handles s2 /\ next_h s3 = next_h s2 /\ measure s3 = measure s2 /\
                 index s3 = index s2 /\ files s3 = ains k (n, clock s2 + 1) (files s2))
      by (subst s3; simpl; repeat split).
    destruct T3 as (Tc & Tp & Tps & Th & Tn & Tm & Ti & Tf).
    assert (Hm3 : measure s3 + n <= cap s3) by (specialize (O2 eq_refl); lia).
    assert (W3 : wf s3).
    { unfold wf. rewrite Ti, Tf. repeat split; auto.
      - intros k0 Hin. apply keys_ains. right. auto.
      - apply ksorted_ains. exact W2c. }
    assert (Hkf : In k (keys (files s3))) by (rewrite Tf; apply keys_ains; auto).
    destruct (lru_insert_props s3 k n Hm3) as (Li & Lm & Lf & Lc & (Lcap & Lp & Lps & Lh & Ln)).
    split_ci; try congruence; try lia.
    + apply wf_lru_insert; auto.
    + split; [congruence|]. split; [congruence|]. split; [|auto].
      intros k' Hin. rewrite Lf, Tf in Hin. apply keys_ains in Hin.
      destruct Hin as [->|Hin]; auto.
  - inversion H; subst; clear H. split_ci; try congruence; try lia.
    + unfold wf; auto.
    + repeat split; auto.
Qed.

(* ---- get ---- *)
Lemma get_props s k s' r t :
  get s k = (s', r, t) -> core s -> idle s ->
  core s' /\ idle s' /\ next_h s' = next_h s /\ cap s' = cap s /\ files_sub s s' /\
  (r = ROk -> In k (keys (index s)) /\ In k (keys (files s))).
Proof.
  unfold get, lru_get. intros H ((Hnd & Hsub & Hs) & Hps & Hm) (Hh & Hp).
  destruct (alookup k (index s)) as [sz|] eqn:E.
  - assert (Hki : In k (keys (index s))) by (apply amem_In; eapply alookup_amem; eauto).
    assert (W1 : wf (set_lru s (aremove k (index s) ++ [(k, sz)]) (measure s))).
    { unfold wf. simpl. rewrite keys_app. simpl. repeat split; auto.
      - apply NoDup_snoc; [apply NoDup_keys_aremove; auto|]. intros Hin. apply keys_aremove in Hin. tauto.
      - intros k0 Hin. apply in_app_iff in Hin. destruct Hin as [Hin|[<-|[]]]; auto.
        apply keys_aremove in Hin. apply Hsub. tauto. }
    cbv beta iota zeta in H. simpl files in H.
    destruct (alookup k (files s)) as [[fsz fmt]|] eqn:F.
    + inversion H; subst; clear H. destruct W1 as (W1a & W1b & W1c). simpl in W1a, W1b, W1c.
      split_ci; simpl; auto.
      * unfold wf. simpl. repeat split; auto.
        -- intros k0 Hin. apply keys_ains. right. auto.
        -- apply ksorted_ains. exact Hs.
      * repeat split; auto.
        intros k0 Hin. simpl in Hin. apply keys_ains in Hin. destruct Hin as [->|Hin]; auto.
    + inversion H; subst; clear H. split_ci; simpl; auto.
      repeat split; auto; try discriminate. intros k0 Hin. exact Hin.
  - inversion H; subst; clear H. split_ci; auto.
    + unfold wf; auto.
    + repeat split; auto; try discriminate. intros k0 Hin. exact Hin.
Qed.

(* ---- remove ---- *)
Lemma remove_props s k s' r :
  remove s k = (s', r) -> core s -> idle s ->
  core s' /\ idle s' /\ next_h s' = next_h s /\ cap s' = cap s /\ files_sub s s'.
Proof.
  unfold remove. intros H ((Hnd & Hsub & Hs) & Hps & Hm) (Hh & Hp).
  destruct (alookup k (index s)) as [sz|] eqn:E.
  - destruct (lru_remove_props s k) as (R1 & R2 & R3 & R4 & R5 & (Rc & Rp & Rps & Rh & Rn)).
    set (s1 := lru_remove s k) in *.
    assert (W1 : wf s1).
    { unfold wf. rewrite R4. repeat split; auto. intros k0 Hin. apply R1 in Hin. apply Hsub. tauto. }
    destruct (alookup k (files s1)) as [x|] eqn:F.
    + inversion H; subst; clear H. destruct W1 as (W1a & W1b & W1c).
      split_ci; simpl; try congruence; try lia.
      * unfold wf. simpl. repeat split; auto.
        -- intros k0 Hin. apply keys_aremove. split; auto. intros ->. apply R1 in Hin. tauto.
        -- apply ksorted_aremove. exact W1c.
      * repeat split; try congruence.
        intros k0 Hin. simpl in Hin. apply keys_aremove in Hin. rewrite R4 in Hin. tauto.
    + inversion H; subst; clear H. split_ci; try congruence; try lia.
      repeat split; try congruence.
  - inversion H; subst; clear H. split_ci; auto.
    + unfold wf; auto.
    + repeat split; auto. intros k0 Hin. exact Hin.
Qed.
