(* Proofs/ComposeC09.v — C09 ⟵ C02: the hypothesis `consistent w` ("hash-key soundness") of Properties/C09.v discharged
   for worlds whose keys ARE C02's keys.

   The world is built, by definition, from
     - one C02 request per translation unit ([base t]; its preprocessor-output field is filled in by the world),
     - the state of the include files per unit ([man t], the abstract `o_manifest` of Model/ReqSM.v),
     - a PREPROCESSOR that is a function of C02's canonical preprocessor-level view  canon_p  and of that state,
     - a COMPILER that is a function of C02's canonical request view  canon_c  (hashed components only),
     - keys computed as  KeyEnc.key = H ∘ encode_c  and  KeyEnc.pp_key = H ∘ encode_pp  over the translated spec.
   `consistent` then follows from C02_key_iff (result key), C02_pp_key_iff + C02_pp_env_covers_main (preprocessor-level
   key) under C02's well-formedness predicates and collision-freeness of H on the pre-images of the world's units. *)
From Coq Require Import List NArith Bool.
From Sccache Require Import Base.Sx Model.Stats Model.ReqSM Proofs.ReqSM.
From Sccache Require Import Model.KeyEnc Proofs.KeyEnc Proofs.KeyEncSpec Gen.C02HashSpec Gen.C02HashSpec_ok
     Properties.C02.
Import ListNotations.
Local Open Scope N_scope.

Definition canon_c_t : Type :=
  (KeyEnc.bytes * bool * KeyEnc.bytes * list KeyEnc.bytes * list KeyEnc.bytes * list (KeyEnc.bytes * KeyEnc.bytes)
   * KeyEnc.bytes)%type.
Definition canon_p_t : Type :=
  (KeyEnc.bytes * bool * KeyEnc.bytes * list KeyEnc.bytes * list KeyEnc.bytes * list (KeyEnc.bytes * KeyEnc.bytes)
   * KeyEnc.bytes * KeyEnc.bytes * option (option (N * N * N * KeyEnc.bytes) * option (N * N)))%type.

(* what a preprocessor run gives: exit status, stderr, output *)
Record pp_result := { pr_status : N; pr_stderr : KeyEnc.bytes; pr_out : KeyEnc.bytes }.
(* what a compiler run gives *)
Record cc_result := {
  cr_status : N; cr_stdout : KeyEnc.bytes; cr_stderr : KeyEnc.bytes; cr_outputs : outputs; cr_writes : bool }.

Section World.
Variable H : KeyEnc.bytes -> KeyEnc.bytes.
Hypothesis H_hex : forall x, is_hex64 (H x) = true.

Variable base : N -> creq.                        (* the request of unit t (field pp unused) *)
Variable man : N -> N.                            (* state of its include files *)
Variable ppf : canon_p_t -> N -> pp_result.       (* the preprocessor *)
Variable ccf : canon_c_t -> cc_result.            (* the compiler *)
(* the remaining, unconstrained, per-unit data of Model/ReqSM.oracle *)
Variable direct_mode : N -> bool.
Variable lng : N -> Stats.lang.
Variable upd mok cab : N -> bool.
(* whether sccache's own code panics around the preprocessor / compiler step of unit t (Model/ReqSM.v o_pp_panics,
   o_c_panics): unconstrained here; the corollaries name [calm] / [calm_oracle] where C09's theorems do *)
Variable ppan cpan : N -> bool.

Definition pp_of (t : N) : pp_result := ppf (canon_p the_spec (base t)) (man t).
(* the C02 request of unit t, preprocessor output included *)
Definition req (t : N) : creq := set_pp (base t) (pr_out (pp_of t)).
Definition cc_of (t : N) : cc_result := ccf (canon_c the_spec (req t)).

Definition world_of : world := fun t =>
  {| o_lang := lng t;
     o_pp_key := if direct_mode t then KeyEnc.pp_key H the_spec (base t) else None;
     o_manifest := man t;
     o_upd := upd t;
     o_pp_status := pr_status (pp_of t);
     o_pp_stderr := pr_stderr (pp_of t);
     o_manifest_ok := mok t;
     o_key := KeyEnc.key H the_spec (req t);
     o_c_status := cr_status (cc_of t);
     o_c_stdout := cr_stdout (cc_of t);
     o_c_stderr := cr_stderr (cc_of t);
     o_c_outputs := cr_outputs (cc_of t);
     o_c_writes := cr_writes (cc_of t);
     o_cacheable := cab t;
     o_pp_panics := ppan t;
     o_c_panics := cpan t |}.

(* C02's well-formedness of every unit's requests *)
Hypothesis wf_main : forall t, wf_c the_spec (req t) = true.
Hypothesis wf_pp : forall t, wf_p the_spec (base t) = true.
Hypothesis boundary_ok : forall t t', extra_pp_ok (req t) (req t') = true.
(* H is collision-free on the pre-images of the world's units *)
Hypothesis cf_main : forall t t',
    H (encode_c H the_spec (req t)) = H (encode_c H the_spec (req t')) ->
    encode_c H the_spec (req t) = encode_c H the_spec (req t').
Hypothesis cf_pp : forall t t',
    H (encode_pp H the_spec (base t)) = H (encode_pp H the_spec (base t')) ->
    encode_pp H the_spec (base t) = encode_pp H the_spec (base t').
Hypothesis cf_input : forall t t', H (input (base t)) = H (input (base t')) -> input (base t) = input (base t').
Hypothesis cf_time : forall t t',
    H (time_pre (base t)) = H (time_pre (base t')) -> time_pre (base t) = time_pre (base t').

Lemma pp_key_some r pk : KeyEnc.pp_key H the_spec r = Some pk -> gated the_spec r = false.
Proof. unfold KeyEnc.pp_key. destruct (gated the_spec r); [discriminate | reflexivity]. Qed.

Theorem consistent_from_C02 : consistent world_of.
Proof.
  intros t t'. split.
  - (* the result key: C02_key_iff *)
    cbn [o_key world_of]. intro Ek.
    apply (C02_key_iff H (req t) (req t') (wf_main t) (wf_main t') (boundary_ok t t') (cf_main t t')) in Ek.
    unfold same_compile. cbn [o_c_status o_c_stdout o_c_stderr o_c_outputs o_c_writes world_of].
    unfold cc_of. rewrite Ek. repeat split; reflexivity.
  - (* the preprocessor-level key: C02_pp_key_iff, then S16 *)
    intros pk. cbn [o_pp_key o_manifest world_of]. intros K1 K2 Em.
    destruct (direct_mode t); [|discriminate]. destruct (direct_mode t'); [|discriminate].
    assert (Ep : canon_p the_spec (base t) = canon_p the_spec (base t')).
    { apply (C02_pp_key_iff H H_hex (base t) (base t') (wf_pp t) (wf_pp t') (pp_key_some _ _ K1) (pp_key_some _ _ K2)
                            (cf_pp t t') (cf_input t t') (cf_time t t')).
      rewrite K1, K2. reflexivity. }
    assert (Eo : pp_of t = pp_of t') by (unfold pp_of; rewrite Ep, Em; reflexivity).
    unfold same_pp. cbn [o_pp_status o_key world_of]. split; [rewrite Eo; reflexivity|].
    unfold KeyEnc.key. f_equal. apply (canon_c_encode H the_spec _ _ the_spec_shape_c).
    pose proof Ep as Ep'. unfold canon_p in Ep'. inversion Ep' as [[Edg Epl Etag Earg Eex Eenv Epath Einp Esalt]].
    pose proof (env_covers_main the_spec (base t) (base t') the_spec_env_covers Eenv) as Emain.
    unfold canon_c, req, fenv in *. cbn [digest plusplus lang args extra env pp set_pp].
    rewrite Edg, Epl, Etag, Earg, Eex, Emain, Eo. reflexivity.
Qed.

End World.

(* ---- C09's theorems with `consistent` no longer a hypothesis ---- *)

(* the hypotheses of [consistent_from_C02] as one named predicate on the world's ingredients *)
Definition C02_world_ok (H : KeyEnc.bytes -> KeyEnc.bytes) (base : N -> creq) (man : N -> N)
           (ppf : canon_p_t -> N -> pp_result) : Prop :=
  (forall x, is_hex64 (H x) = true) /\
  (forall t, wf_c the_spec (req base man ppf t) = true) /\
  (forall t, wf_p the_spec (base t) = true) /\
  (forall t t', extra_pp_ok (req base man ppf t) (req base man ppf t') = true) /\
  (forall t t', H (encode_c H the_spec (req base man ppf t)) = H (encode_c H the_spec (req base man ppf t')) ->
                encode_c H the_spec (req base man ppf t) = encode_c H the_spec (req base man ppf t')) /\
  (forall t t', H (encode_pp H the_spec (base t)) = H (encode_pp H the_spec (base t')) ->
                encode_pp H the_spec (base t) = encode_pp H the_spec (base t')) /\
  (forall t t', H (input (base t)) = H (input (base t')) -> input (base t) = input (base t')) /\
  (forall t t', H (time_pre (base t)) = H (time_pre (base t')) -> time_pre (base t) = time_pre (base t')).

Section Bundled.
Variable H : KeyEnc.bytes -> KeyEnc.bytes.
Variable base : N -> creq.
Variable man : N -> N.
Variable ppf : canon_p_t -> N -> pp_result.
Variable ccf : canon_c_t -> cc_result.
Variable direct_mode : N -> bool.
Variable lng : N -> Stats.lang.
Variable upd mok cab : N -> bool.
Variable ppan cpan : N -> bool.
Hypothesis ok : C02_world_ok H base man ppf.
Let w := world_of H base man ppf ccf direct_mode lng upd mok cab ppan cpan.

Lemma consistent_from_C02_b : consistent w.
Proof.
  destruct ok as (A1 & A2 & A3 & A4 & A5 & A6 & A7 & A8). apply consistent_from_C02; assumption.
Qed.

Lemma faults_transparent_closed_b (st : cstate) (t : N) (f : faults) (cl : req_class) (cc : cache_control) :
  Inv w st -> sane (w t) -> f_outdir_ok f = true -> calm f (w t) ->
  transparent (w t) (snd (fst (request f cl cc (w t) st))).
Proof. intros. apply request_transparent; try assumption. exact consistent_from_C02_b. Qed.

(* without [calm]: the request is still answered, with the compiler's result or a reported fatal error *)
Lemma internal_fault_reported_closed_b (st : cstate) (t : N) (f : faults) (cl : req_class) (cc : cache_control) :
  Inv w st -> sane (w t) -> f_outdir_ok f = true ->
  transparent (w t) (snd (fst (request f cl cc (w t) st)))
  \/ r_client (snd (fst (request f cl cc (w t) st))) = CFatal.
Proof. intros. apply request_answered; try assumption. exact consistent_from_C02_b. Qed.

Lemma history_transparent_closed_b (ss : list step) :
  (forall t, sane (w t)) -> history_ok w empty_cache ss.
Proof. intro HS. apply history_transparent; auto. exact consistent_from_C02_b. apply Inv_empty. Qed.

Lemma repopulates_closed_b (st : cstate) (t : N) :
  Inv w st -> sane (w t) -> calm_oracle (w t) -> cs_ro st = false ->
  o_pp_status (w t) = 0 -> o_c_status (w t) = 0 -> o_cacheable (w t) = true ->
  let '(st1, r1, _) := request no_faults QCompile CCDefault (w t) st in
  let '(st2, r2, _) := request no_faults QCompile CCDefault (w t) st1 in
  kv_get (o_key (w t)) (cs_res st1) = Some (RGood (o_c_stdout (w t)) (o_c_stderr (w t)) (o_c_outputs (w t)))
  /\ transparent (w t) r1 /\ is_hit_of (w t) r2 /\ transparent (w t) r2.
Proof. intros. apply repopulates; try assumption. exact consistent_from_C02_b. Qed.
End Bundled.
