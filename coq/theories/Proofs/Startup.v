(* Proofs/Startup.v — invariants of the cold-start model, for every schedule. *)
From Coq Require Import List NArith Bool Lia FinFun.
From Sccache Require Import Model.Startup.
Import ListNotations.
Local Open Scope N_scope.

(* ---------- field equations of the primitive updates ---------- *)

Lemma upd_same {A} (f : N -> A) i x : upd f i x i = x.
Proof. unfold upd. now rewrite N.eqb_refl. Qed.

Lemma upd_other {A} (f : N -> A) i x j : j <> i -> upd f i x j = f j.
Proof. intro H. unfold upd. apply N.eqb_neq in H. now rewrite H. Qed.

Lemma lock_is_true s i : lock_is s i = true <-> lock s = Some i.
Proof.
  unfold lock_is. destruct (lock s) as [j|]; split; intro H; try discriminate.
  - apply N.eqb_eq in H. now subst.
  - inversion H. apply N.eqb_refl.
Qed.

Lemma name_is_true s i : name_is s i = true <-> name s = NBound i.
Proof.
  unfold name_is. destruct (name s) as [| |j]; split; intro H; try discriminate.
  - apply N.eqb_eq in H. now subst.
  - inversion H. apply N.eqb_refl.
Qed.

Ltac exit_tac s i :=
  unfold exit_server; destruct (name_is s i); cbv zeta;
  [change (lock_is (set_name s (released (kind s))) i) with (lock_is s i)|];
  destruct (lock_is s i); reflexivity.

Lemma exit_sv s i j : sv (exit_server s i) j = if j =? i then SExited (listening (sv s i)) else sv s j.
Proof. exit_tac s i. Qed.

Lemma exit_cl s i : cl (exit_server s i) = cl s.
Proof. exit_tac s i. Qed.

Lemma exit_mbox s i : mbox (exit_server s i) = mbox s.
Proof. exit_tac s i. Qed.

Lemma exit_kind s i : kind (exit_server s i) = kind s.
Proof. exit_tac s i. Qed.

Lemma exit_name s i : name (exit_server s i) = if name_is s i then released (kind s) else name s.
Proof. exit_tac s i. Qed.

Lemma exit_lock s i : lock (exit_server s i) = if lock_is s i then None else lock s.
Proof. exit_tac s i. Qed.

Lemma released_not_bound k j : released k <> NBound j.
Proof. destruct k; discriminate. Qed.

(* ---------- the invariant ---------- *)

Definition lockstate (x : sstate) : bool :=
  match x with SLocked | SUnlinked | SBound | SRunning => true | _ => false end.

Definition proc_ok (c : cstate) (x : sstate) (m : option status) : Prop :=
  match x with
  | SNone => m = None /\ (c = CNone \/ c = CInit \/ c = CSpawn \/ exists j, c = CDone j)
  | SStart | SLocked | SUnlinked | SBound | SFail => m = None /\ (c = CWait \/ c = CFail FTimeout)
  | SRunning => m = Some StOk /\ c <> CNone /\ c <> CInit /\ c <> CSpawn
  | SExited b => (m = Some StInUse /\ b = false /\ c <> CNone /\ c <> CInit /\ c <> CSpawn)
                 \/ (m = None /\ c = CFail FTimeout)
  end.

Record Inv (s : st) : Prop := {
  inv_kind : kind s <> UdsPath false;
  inv_listen : forall i, listening (sv s i) = true -> name s = NBound i;
  inv_nolock : (kind s = Tcp \/ kind s = Abstract) -> forall i, sv s i <> SLocked /\ sv s i <> SUnlinked;
  inv_lock : kind s = UdsPath true -> forall i, lockstate (sv s i) = true -> lock s = Some i;
  inv_proc : forall i, proc_ok (cl s i) (sv s i) (mbox s i);
  inv_done : forall c j, cl s c = CDone j -> listening (sv s j) = true \/ sv s j = SExited true;
}.

Lemma listener_some s j : Inv s -> (listener s = Some j <-> listening (sv s j) = true).
Proof.
  intro I. unfold listener. split.
  - destruct (name s) as [| |x] eqn:Hn; try discriminate.
    destruct (listening (sv s x)) eqn:Hl; try discriminate. intro H. inversion H. now subst.
  - intro H. rewrite (inv_listen s I j H). now rewrite H.
Qed.

Lemma listener_none s : Inv s -> listener s = None -> forall j, listening (sv s j) = false.
Proof.
  intros I H j. destruct (listening (sv s j)) eqn:Hl; auto.
  apply (listener_some s j I) in Hl. congruence.
Qed.

Lemma init_inv a r n stale : a <> UdsPath false -> Inv (init a r n stale).
Proof.
  intro Ha. constructor; simpl; auto; try discriminate; try (intros; discriminate).
  - intros _ i. split; discriminate.
  - intro i. split; auto. destruct (i <? n); auto.
  - intros c j. destruct (c <? n); discriminate.
Qed.

Ltac eqb_case j i :=
  let E := fresh "E" in
  destruct (N.eqb_spec j i) as [E|E]; [subst j|].

Ltac pk :=
  match goal with |- proc_ok _ (sv ?s ?i) _ => destruct (sv s i) end;
  simpl in *; intuition (try discriminate; try congruence; eauto);
  repeat match goal with H : exists _, _ |- _ => destruct H; try discriminate end.

(* ---------- client steps ---------- *)

Lemma set_cl_inv s i c :
  Inv s ->
  proc_ok c (sv s i) (mbox s i) ->
  (forall j, c = CDone j -> listening (sv s j) = true \/ sv s j = SExited true) ->
  Inv (set_cl s i c).
Proof.
  intros I Hp Hd. constructor; simpl; try apply I.
  - intro j. unfold upd. eqb_case j i; auto. apply I.
  - intros c0 j. unfold upd. eqb_case c0 i; [apply Hd | apply I].
Qed.

Lemma step_client_inv s i : Inv s -> Inv (step_client s i).
Proof.
  intro I. unfold step_client.
  pose proof (inv_proc s I i) as P.
  destruct (cl s i) as [| | | |n|j|f] eqn:Hc; auto.
  - (* CInit *)
    destruct (listener s) as [j|] eqn:Hl.
    + apply set_cl_inv; auto.
      * pk.
      * intros j' Hj. inversion Hj; subst. left. now apply (listener_some s j' I).
    + apply set_cl_inv; auto.
      * pk.
      * intros; discriminate.
  - (* CSpawn *)
    assert (Hs : sv s i = SNone /\ mbox s i = None).
    { destruct (sv s i); simpl in P; intuition (try discriminate);
        try (match goal with H : exists _, _ |- _ => destruct H; discriminate end). }
    destruct Hs as [Hs Hm].
    constructor; simpl; try apply I.
    + intro j. unfold upd. eqb_case j i; [discriminate | apply I].
    + intros Hk j. unfold upd. eqb_case j i; [split; discriminate | now apply I].
    + intros Hk j. unfold upd. eqb_case j i; [discriminate | now apply I].
    + intro j. unfold upd. eqb_case j i; [simpl; auto | apply I].
    + intros c j. unfold upd. eqb_case c i; [discriminate|].
      intro H. destruct (inv_done s I c j H) as [H1|H1]; eqb_case j i; auto;
        rewrite Hs in H1; discriminate.
  - (* CWait *)
    destruct (mbox s i) as [m|] eqn:Hm; auto.
    apply set_cl_inv; auto.
    + rewrite Hm. pk.
    + intros; discriminate.
  - (* CRetry *)
    destruct (listener s) as [j|] eqn:Hl.
    + apply set_cl_inv; auto.
      * pk.
      * intros j' Hj. inversion Hj; subst. left. now apply (listener_some s j' I).
    + destruct n.
      * apply set_cl_inv; auto; try (intros; discriminate).
        pk.
      * apply set_cl_inv; auto; try (intros; discriminate).
        pk.
Qed.

(* ---------- timer ---------- *)

Lemma step_timer_inv s i : Inv s -> Inv (step s (ET i)).
Proof.
  intro I. simpl. unfold waiting. destruct (cl s i) eqn:Hc; auto.
  pose proof (inv_proc s I i) as P. rewrite Hc in P.
  apply set_cl_inv; auto; try (intros; discriminate).
  pk.
Qed.

(* ---------- server steps: one lemma for every local change of server i ---------- *)

Lemma local_inv s s' i x :
  Inv s ->
  kind s' = kind s -> (forall j, cl s' j = cl s j) -> (forall j, sv s' j = upd (sv s) i x j) ->
  (forall j, j <> i -> mbox s' j = mbox s j) ->
  proc_ok (cl s i) x (mbox s' i) ->
  (forall j, j <> i -> listening (sv s j) = true -> name s' = NBound j) ->
  (listening x = true -> name s' = NBound i) ->
  ((kind s = Tcp \/ kind s = Abstract) -> x <> SLocked /\ x <> SUnlinked) ->
  (kind s = UdsPath true -> forall j, j <> i -> lockstate (sv s j) = true -> lock s' = Some j) ->
  (kind s = UdsPath true -> lockstate x = true -> lock s' = Some i) ->
  (forall c, cl s c = CDone i -> listening x = true \/ x = SExited true) ->
  Inv s'.
Proof.
  intros I Hk Hc Hs Hm Hp Hn Hni Hnl Hl Hli Hd.
  constructor.
  - rewrite Hk. apply I.
  - intro j. rewrite Hs. unfold upd. eqb_case j i; auto.
  - rewrite Hk. intros K j. rewrite Hs. unfold upd. eqb_case j i; auto. now apply I.
  - rewrite Hk. intros K j. rewrite Hs. unfold upd. eqb_case j i; auto.
  - intro j. rewrite Hc, Hs. unfold upd. eqb_case j i; auto. rewrite Hm by auto. apply I.
  - intros c j. rewrite Hc, Hs. unfold upd. eqb_case j i; [apply Hd | apply (inv_done s I)].
Qed.

Lemma no_other_listening_locked s i :
  Inv s -> kind s = UdsPath true -> lockstate (sv s i) = true ->
  forall j, j <> i -> listening (sv s j) = false.
Proof.
  intros I K Hi j Hj. destruct (listening (sv s j)) eqn:Hl; auto.
  assert (Hlj : lockstate (sv s j) = true) by (destruct (sv s j); simpl in *; congruence).
  pose proof (inv_lock s I K i Hi). pose proof (inv_lock s I K j Hlj). congruence.
Qed.

Lemma kind_cases s : Inv s -> kind s = Tcp \/ kind s = Abstract \/ kind s = UdsPath true.
Proof. intro I. pose proof (inv_kind s I). destruct (kind s) as [| |[|]]; auto. congruence. Qed.

Lemma exit_inv s i :
  Inv s ->
  proc_ok (cl s i) (SExited (listening (sv s i))) (mbox s i) ->
  (forall c, cl s c = CDone i -> listening (sv s i) = true) ->
  Inv (exit_server s i).
Proof.
  intros I Hp Hd.
  apply (local_inv s (exit_server s i) i (SExited (listening (sv s i)))); auto.
  - apply exit_kind.
  - intro j. now rewrite exit_cl.
  - intro j. rewrite exit_sv. reflexivity.
  - intros j _. now rewrite exit_mbox.
  - now rewrite exit_mbox.
  - intros j Hj Hl. rewrite exit_name. pose proof (inv_listen s I j Hl) as Hn.
    destruct (name_is s i) eqn:E; auto. apply name_is_true in E. congruence.
  - simpl. discriminate.
  - intros _. split; discriminate.
  - intros K j Hj Hl. rewrite exit_lock. pose proof (inv_lock s I K j Hl) as Hn.
    destruct (lock_is s i) eqn:E; auto. apply lock_is_true in E. congruence.
  - simpl. discriminate.
  - intros c Hc. right. now rewrite (Hd c Hc).
Qed.

Ltac cl0 K :=
  simpl; auto; try discriminate; try (split; discriminate);
  try (rewrite K; discriminate); try (rewrite K; intros [?|?]; discriminate);
  try (intros [?|?]; congruence).

Lemma step_server_inv s i : Inv s -> Inv (step_server s i).
Proof.
  intro I. unfold step_server.
  pose proof (inv_proc s I i) as P.
  assert (ND : forall x, sv s i = x -> listening x = false -> x <> SExited true ->
               forall c, cl s c = CDone i -> False).
  { intros x Hx Hl Hne c Hc. destruct (inv_done s I c i Hc) as [H|H]; congruence. }
  destruct (sv s i) eqn:Hsv; auto.
  - (* SStart *)
    destruct (kind_cases s I) as [K|[K|K]]; rewrite K.
    + (* Tcp *)
      unfold step_bind. destruct (listener s) as [h|] eqn:Hl.
      * apply (local_inv s _ i SFail); cl0 K.
        -- intros j Hj. apply I.
        -- intros c Hc. exfalso. eapply (ND SStart); eauto. discriminate.
      * apply (local_inv s _ i SBound); cl0 K.
        intros j Hj Hlj. rewrite (listener_none s I Hl j) in Hlj. discriminate.
    + (* Abstract *)
      unfold step_bind. destruct (listener s) as [h|] eqn:Hl.
      * apply (local_inv s _ i SFail); cl0 K.
        -- intros j Hj. apply I.
        -- intros c Hc. exfalso. eapply (ND SStart); eauto. discriminate.
      * apply (local_inv s _ i SBound); cl0 K.
        intros j Hj Hlj. rewrite (listener_none s I Hl j) in Hlj. discriminate.
    + (* UdsPath true *)
      destruct (lock s) as [h|] eqn:Hl.
      * apply (local_inv s _ i SFail); cl0 K.
        -- intros j Hj. apply I.
        -- intros _ j Hj Hlj. now apply I.
        -- intros c Hc. exfalso. eapply (ND SStart); eauto. discriminate.
      * apply (local_inv s _ i SLocked); cl0 K.
        -- intros j Hj. apply I.
        -- intros _ j Hj Hlj. pose proof (inv_lock s I K j Hlj). congruence.
        -- intros c Hc. exfalso. eapply (ND SStart); eauto. discriminate.
  - (* SLocked *)
    destruct (kind_cases s I) as [K|[K|K]];
      try (exfalso; refine (proj1 (inv_nolock s I _ i) Hsv); auto; fail).
    assert (NL := no_other_listening_locked s i I K). rewrite Hsv in NL. specialize (NL eq_refl).
    apply (local_inv s _ i SUnlinked); cl0 K.
    + intros j Hj Hl. rewrite NL in Hl by auto. discriminate.
    + intros _ j Hj. now apply I.
    + intros _ _. apply (inv_lock s I K i). now rewrite Hsv.
    + intros c Hc. exfalso. eapply (ND SLocked); eauto. discriminate.
  - (* SUnlinked *)
    destruct (kind_cases s I) as [K|[K|K]];
      try (exfalso; refine (proj2 (inv_nolock s I _ i) Hsv); auto; fail).
    assert (NL := no_other_listening_locked s i I K). rewrite Hsv in NL. specialize (NL eq_refl).
    assert (LK : lock s = Some i) by (apply (inv_lock s I K i); now rewrite Hsv).
    unfold step_bind. destruct (name s) eqn:Hn.
    + apply (local_inv s _ i SBound); cl0 K.
      * intros j Hj Hl. rewrite NL in Hl by auto. discriminate.
      * intros _ j Hj. now apply I.
    + apply (local_inv s _ i SFail); cl0 K.
      * intros j Hj Hl. rewrite NL in Hl by auto. discriminate.
      * intros _ j Hj. now apply I.
      * intros c Hc. exfalso. eapply (ND SUnlinked); eauto. discriminate.
    + apply (local_inv s _ i SFail); cl0 K.
      * intros j Hj Hl. rewrite NL in Hl by auto. discriminate.
      * intros _ j Hj. now apply I.
      * intros c Hc. exfalso. eapply (ND SUnlinked); eauto. discriminate.
  - (* SBound *)
    unfold notify, waiting. simpl in P. destruct P as [Pm Pc].
    destruct (cl s i) eqn:Hc; try (destruct Pc; discriminate).
    + (* still waiting: Ok is delivered *)
      apply (local_inv s _ i SRunning); simpl; auto; try discriminate.
      * intros j Hj. unfold upd. apply N.eqb_neq in Hj. now rewrite Hj.
      * rewrite upd_same. rewrite Hc. repeat split; discriminate.
      * intros j Hj. apply I.
      * intros _. apply (inv_listen s I i). now rewrite Hsv.
      * intros _; split; discriminate.
      * intros K j Hj. now apply I.
      * intros K _. apply (inv_lock s I K i). now rewrite Hsv.
    + (* the client gave up: the server exits *)
      apply exit_inv; auto.
      * rewrite Hsv, Hc. simpl. right. split; auto. destruct Pc; congruence.
      * intros c _. now rewrite Hsv.
  - (* SFail *)
    unfold notify, waiting. simpl in P. destruct P as [Pm Pc].
    destruct (cl s i) eqn:Hc; try (destruct Pc; discriminate).
    + (* still waiting: AddrInUse is delivered, then the server exits *)
      set (s1 := set_mbox s i StInUse).
      apply (local_inv s (exit_server s1 i) i (SExited false)); auto.
      * now rewrite exit_kind.
      * intro j. now rewrite exit_cl.
      * intro j. rewrite exit_sv. simpl. now rewrite Hsv.
      * intros j Hj. rewrite exit_mbox. simpl. now apply upd_other.
      * rewrite exit_mbox. simpl. rewrite upd_same, Hc. left. repeat split; discriminate.
      * intros j Hj Hl. rewrite exit_name. pose proof (inv_listen s I j Hl) as Hn.
        destruct (name_is s1 i) eqn:E; auto. apply name_is_true in E. simpl in E. congruence.
      * simpl. discriminate.
      * intros _. split; discriminate.
      * intros K j Hj Hl. rewrite exit_lock. pose proof (inv_lock s I K j Hl) as Hn.
        destruct (lock_is s1 i) eqn:E; auto. apply lock_is_true in E. simpl in E. congruence.
      * simpl. discriminate.
      * intros c Hc'. exfalso. eapply (ND SFail); eauto. discriminate.
    + apply exit_inv; auto.
      * rewrite Hsv, Hc. simpl. right. split; auto. destruct Pc; congruence.
      * intros c Hc'. exfalso. eapply (ND SFail); eauto. discriminate.
Qed.

(* ---------- every schedule ---------- *)

Lemma step_inv s e : Inv s -> Inv (step s e).
Proof.
  intro I. destruct e as [i|i|i].
  - now apply step_client_inv.
  - now apply step_server_inv.
  - now apply step_timer_inv.
Qed.

Lemma exec_inv s sched : Inv s -> Inv (exec s sched).
Proof.
  revert s. induction sched as [|e r IH]; intros s I; simpl; auto.
  apply IH. now apply step_inv.
Qed.

Lemma reach_inv a r n stale sched : a <> UdsPath false -> Inv (exec (init a r n stale) sched).
Proof. intro Ha. apply exec_inv. now apply init_inv. Qed.

Lemma step_server_cl s i : cl (step_server s i) = cl s.
Proof.
  unfold step_server, step_bind, notify.
  destruct (sv s i); try reflexivity.
  - destruct (kind s) as [| |[|]]; try destruct (listener s); try destruct (lock s); reflexivity.
  - destruct (name s); reflexivity.
  - destruct (waiting s i); [reflexivity | apply exit_cl].
  - destruct (waiting s i); rewrite exit_cl; reflexivity.
Qed.

(* clients are exactly the indices below n *)
Lemma step_cnone s e i : cl s i = CNone -> cl (step s e) i = CNone.
Proof.
  intro H. destruct e as [j|j|j]; simpl.
  - unfold step_client.
    destruct (cl s j) eqn:Hj; auto;
      repeat match goal with |- context [match ?x with _ => _ end] => destruct x end;
      simpl; unfold upd; eqb_case i j; auto; congruence.
  - now rewrite step_server_cl.
  - destruct (waiting s j) eqn:W; auto. simpl. unfold upd. eqb_case i j; auto.
    unfold waiting in W. rewrite H in W. discriminate.
Qed.

Lemma step_cnot_none s e i : cl s i <> CNone -> cl (step s e) i <> CNone.
Proof.
  intro H. destruct e as [j|j|j]; simpl.
  - unfold step_client.
    destruct (cl s j) eqn:Hj; auto;
      repeat match goal with |- context [match ?x with _ => _ end] => destruct x end;
      simpl; unfold upd; eqb_case i j; auto; discriminate.
  - now rewrite step_server_cl.
  - destruct (waiting s j) eqn:W; auto. simpl. unfold upd. eqb_case i j; auto. discriminate.
Qed.

Lemma exec_clients a r n stale sched i :
  cl (exec (init a r n stale) sched) i = CNone <-> n <= i.
Proof.
  assert (G : forall s, (cl s i = CNone <-> n <= i) -> (cl (exec s sched) i = CNone <-> n <= i)).
  { induction sched as [|e t IH]; intros s H; simpl; auto.
    apply IH. split; intro H1.
    - destruct (cl s i) eqn:Hc; try (apply H; reflexivity);
        exfalso; (apply (step_cnot_none s e i); [rewrite Hc; discriminate | exact H1]).
    - apply step_cnone. now apply H. }
  apply G. simpl. destruct (N.ltb_spec i n); split; intro; try discriminate; auto; lia.
Qed.

(* ---------- safety, for every schedule ---------- *)

Definition safe (s : st) : Prop :=
  (forall i j, listening (sv s i) = true -> listening (sv s j) = true -> i = j)
  /\ (forall i, listening (sv s i) = true -> listener s = Some i)
  /\ (forall c j, cl s c = CDone j ->
        listener s = Some j \/ (sv s j = SExited true /\ cl s j = CFail FTimeout))
  /\ (forall i, sv s i = SExited true -> cl s i = CFail FTimeout).

Lemma inv_safe s : Inv s -> safe s.
Proof.
  intro I. repeat split.
  - intros i j Hi Hj. pose proof (inv_listen s I i Hi). pose proof (inv_listen s I j Hj). congruence.
  - intros i Hi. now apply (listener_some s i I).
  - intros c j Hc. destruct (inv_done s I c j Hc) as [H|H].
    + left. now apply (listener_some s j I).
    + right. split; auto. pose proof (inv_proc s I j) as P. rewrite H in P. simpl in P.
      destruct P as [[_ [P _]]|[_ P]]; [discriminate | auto].
  - intros i H. pose proof (inv_proc s I i) as P. rewrite H in P. simpl in P.
    destruct P as [[_ [P _]]|[_ P]]; [discriminate | auto].
Qed.

(* ---------- convergence at quiescence ---------- *)

Definition converged (n : N) (s : st) : Prop :=
  exists h, (forall c, c < n -> cl s c = CDone h)
            /\ sv s h = SRunning
            /\ listener s = Some h
            /\ (forall j, j <> h -> sv s j = SNone \/ sv s j = SExited false).

Lemma quiescent_converged a r n stale sched :
  a <> UdsPath false ->
  let s := exec (init a r n stale) sched in
  quiescent s -> (forall c f, cl s c <> CFail f) -> 0 < n -> converged n s.
Proof.
  intros Ha s Q NF Hn.
  assert (I : Inv s) by (apply reach_inv; auto).
  (* every client below n is connected *)
  assert (D : forall c, c < n -> exists j, cl s c = CDone j).
  { intros c Hc. destruct (Q c) as [Qc Qs].
    assert (Hne : cl s c <> CNone).
    { intro H. apply (exec_clients a r n stale sched c) in H. lia. }
    pose proof (inv_proc s I c) as P.
    unfold client_enabled in Qc. unfold server_enabled in Qs.
    destruct (cl s c) eqn:Hcl; try discriminate; try congruence; eauto.
    - (* CWait with an empty mailbox: its server could still move *)
      destruct (mbox s c) eqn:Hm; try discriminate.
      destruct (sv s c); simpl in P; try discriminate;
        intuition (try discriminate; try congruence).
    - exfalso. now apply (NF c why). }
  (* nobody exited after binding *)
  assert (NE : forall j, sv s j <> SExited true).
  { intros j H. destruct (inv_safe s I) as [_ [_ [_ S4]]]. apply (NF j FTimeout). now apply S4. }
  destruct (D 0 Hn) as [h Hh].
  assert (Lh : listening (sv s h) = true).
  { destruct (inv_done s I 0 h Hh) as [H|H]; auto. exfalso. now apply (NE h). }
  exists h. repeat split.
  - intros c Hc. destruct (D c Hc) as [j Hj]. rewrite Hj. f_equal.
    destruct (inv_done s I c j Hj) as [H|H]; [| exfalso; now apply (NE j)].
    destruct (inv_safe s I) as [U _]. now apply U.
  - destruct (Q h) as [_ Qs]. unfold server_enabled in Qs.
    destruct (sv s h); simpl in Lh; try discriminate; auto.
  - now apply (listener_some s h I).
  - intros j Hj. destruct (Q j) as [_ Qs]. unfold server_enabled in Qs.
    destruct (sv s j) as [| | | | | | |b] eqn:Hsv; try discriminate; auto.
    + exfalso. apply Hj. destruct (inv_safe s I) as [U _]. apply U; auto. now rewrite Hsv.
    + destruct b; auto. exfalso. now apply (NE j).
Qed.

Lemma quiescent_no_leftover s :
  Inv s -> quiescent s ->
  forall i, live (sv s i) = true -> sv s i = SRunning /\ listener s = Some i.
Proof.
  intros I Q i L. destruct (Q i) as [_ Qs]. unfold server_enabled in Qs.
  destruct (sv s i) eqn:Hsv; simpl in L; try discriminate.
  split; auto. apply (listener_some s i I). now rewrite Hsv.
Qed.

(* ---------- TCP / abstract socket: without start-up time-outs no client fails ---------- *)

Definition no_timeouts (sched : list ev) : bool :=
  forallb (fun e => match e with ET _ => false | _ => true end) sched.

Definition some_listening (s : st) : Prop := exists j, listening (sv s j) = true.

Record NoFail (s : st) : Prop := {
  nf_kind : kind s = Tcp \/ kind s = Abstract;
  nf_cl : forall c f, cl s c <> CFail f;
  nf_heard : forall c, (mbox s c <> None \/ sv s c = SFail) -> some_listening s;
}.

Lemma step_server_sv_other s i j : j <> i -> sv (step_server s i) j = sv s j.
Proof.
  intro Hj. unfold step_server, step_bind, notify.
  destruct (sv s i); try reflexivity.
  - destruct (kind s) as [| |[|]]; try destruct (listener s); try destruct (lock s);
      simpl; now rewrite upd_other.
  - simpl; now rewrite upd_other.
  - destruct (name s); simpl; now rewrite upd_other.
  - destruct (waiting s i); [simpl; now rewrite upd_other |].
    rewrite exit_sv. apply N.eqb_neq in Hj. now rewrite Hj.
  - destruct (waiting s i); rewrite exit_sv; apply N.eqb_neq in Hj; now rewrite Hj.
Qed.

Lemma step_server_kind s i : kind (step_server s i) = kind s.
Proof.
  unfold step_server, step_bind, notify.
  destruct (sv s i); try reflexivity.
  - destruct (kind s) as [| |[|]] eqn:K; try destruct (listener s); try destruct (lock s); simpl; auto.
  - destruct (name s); reflexivity.
  - destruct (waiting s i); [reflexivity | apply exit_kind].
  - destruct (waiting s i); rewrite exit_kind; reflexivity.
Qed.

Lemma step_client_kind s i : kind (step_client s i) = kind s.
Proof.
  unfold step_client.
  destruct (cl s i) as [| | | |n| |]; try reflexivity;
    try destruct (listener s); try destruct (mbox s i); try destruct n; reflexivity.
Qed.

Lemma nofail_client s i : Inv s -> NoFail s -> NoFail (step_client s i).
Proof.
  intros I F.
  assert (SL : forall x, (forall j, sv x j = sv s j) -> some_listening s -> some_listening x).
  { intros x Hx [j Hj]. exists j. now rewrite Hx. }
  constructor.
  - rewrite step_client_kind. apply F.
  - intros c f. unfold step_client.
    pose proof (inv_proc s I i) as P.
    destruct (cl s i) as [| | | |n|j|f'] eqn:Hc; try apply F.
    + destruct (listener s); simpl; unfold upd; eqb_case c i; try discriminate; apply F.
    + simpl; unfold upd; eqb_case c i; try discriminate; apply F.
    + destruct (mbox s i); [simpl; unfold upd; eqb_case c i; try discriminate |]; apply F.
    + destruct (listener s) as [h|] eqn:Hl; [simpl; unfold upd; eqb_case c i; try discriminate; apply F|].
      exfalso.
      assert (Hm : mbox s i <> None).
      { destruct (sv s i); simpl in P; intuition (try discriminate; try congruence);
          repeat match goal with H : exists _, _ |- _ => destruct H; try discriminate end. }
      destruct (nf_heard s F i (or_introl Hm)) as [h Hh].
      apply (listener_some s h I) in Hh. congruence.
  - intros c H.
    unfold step_client in *.
    destruct (cl s i) as [| | | |n|j|f'] eqn:Hc; try (apply (nf_heard s F c); exact H).
    + destruct (listener s); simpl in *; apply (nf_heard s F c H).
    + (* spawn *)
      simpl in H. unfold upd in H.
      pose proof (inv_proc s I i) as P. rewrite Hc in P.
      assert (Hs : sv s i = SNone /\ mbox s i = None).
      { destruct (sv s i); simpl in P; intuition (try discriminate);
          repeat match goal with H : exists _, _ |- _ => destruct H; try discriminate end. }
      destruct Hs as [Hs Hm].
      assert (G : some_listening s).
      { apply (nf_heard s F c). destruct (c =? i) eqn:E.
        - apply N.eqb_eq in E. subst c. destruct H as [H|H]; [left; exact H | discriminate].
        - exact H. }
      destruct G as [h Hh]. exists h. simpl. unfold upd. eqb_case h i; auto.
      rewrite Hs in Hh. discriminate.
    + destruct (mbox s i); simpl in *; apply (nf_heard s F c H).
    + destruct (listener s); [| destruct n]; simpl in *; apply (nf_heard s F c H).
Qed.

Lemma nofail_server s i : Inv s -> NoFail s -> NoFail (step_server s i).
Proof.
  intros I F.
  assert (W : forall x, sv s i = x -> (x = SBound \/ x = SFail) -> waiting s i = true).
  { intros x Hx Hor. pose proof (inv_proc s I i) as P. rewrite Hx in P. unfold waiting.
    destruct Hor as [E|E]; rewrite E in P; simpl in P; destruct P as [_ [P|P]]; rewrite P; auto;
      exfalso; apply (nf_cl s F i FTimeout P). }
  constructor.
  - rewrite step_server_kind. apply F.
  - intros c f. rewrite step_server_cl. apply F.
  - intros c H.
    (* a listening server stays listening; find who listens afterwards *)
    assert (Keep : forall h, h <> i -> listening (sv s h) = true -> some_listening (step_server s i)).
    { intros h Hh L. exists h. now rewrite step_server_sv_other. }
    destruct (sv s i) eqn:Hsv.
    + (* SNone *) unfold step_server in *. rewrite Hsv in *. apply (nf_heard s F c H).
    + (* SStart *)
      destruct (nf_kind s F) as [K|K].
      * destruct (listener s) as [h|] eqn:Hl.
        -- apply (listener_some s h I) in Hl. apply (Keep h); auto.
           intro E. subst h. rewrite Hsv in Hl. discriminate.
        -- exists i. unfold step_server. rewrite Hsv, K, Hl. simpl. now rewrite upd_same.
      * destruct (listener s) as [h|] eqn:Hl.
        -- apply (listener_some s h I) in Hl. apply (Keep h); auto.
           intro E. subst h. rewrite Hsv in Hl. discriminate.
        -- exists i. unfold step_server. rewrite Hsv, K, Hl. simpl. now rewrite upd_same.
    + exfalso. apply (proj1 (inv_nolock s I (nf_kind s F) i) Hsv).
    + exfalso. apply (proj2 (inv_nolock s I (nf_kind s F) i) Hsv).
    + (* SBound: Ok is delivered, the server keeps listening *)
      exists i. unfold step_server, notify. rewrite Hsv, (W SBound eq_refl (or_introl eq_refl)).
      simpl. now rewrite upd_same.
    + (* SFail: somebody listened when the bind failed, and still does *)
      destruct (nf_heard s F i (or_intror Hsv)) as [h Hh].
      apply (Keep h); auto. intro E. subst h. rewrite Hsv in Hh. discriminate.
    + (* SRunning *) exists i. unfold step_server. rewrite Hsv. now rewrite Hsv.
    + (* SExited *) unfold step_server in *. rewrite Hsv in *. apply (nf_heard s F c H).
Qed.

Lemma nofail_exec s sched :
  Inv s -> NoFail s -> no_timeouts sched = true -> NoFail (exec s sched).
Proof.
  revert s. induction sched as [|e r IH]; intros s I F H; simpl; auto.
  simpl in H. apply andb_true_iff in H as [He Hr].
  apply IH; auto.
  - now apply step_inv.
  - destruct e as [i|i|i]; try discriminate; simpl.
    + now apply nofail_client.
    + now apply nofail_server.
Qed.

Lemma nofail_init a r n stale : a = Tcp \/ a = Abstract -> NoFail (init a r n stale).
Proof.
  intro Ha. constructor; simpl; auto.
  - intros c f. destruct (c <? n); discriminate.
  - intros c [H|H]; [congruence | discriminate].
Qed.

Lemma exclusive_no_client_fails a r n sched :
  a = Tcp \/ a = Abstract -> no_timeouts sched = true ->
  forall c f, cl (exec (init a r n false) sched) c <> CFail f.
Proof.
  intros Ha H. apply nofail_exec; auto.
  - apply init_inv. destruct Ha; subst; discriminate.
  - now apply nofail_init.
Qed.

(* ---------- the decidable quiescence test is sound on reachable states ---------- *)

Lemma in_ids i n : In i (ids n) <-> i < n.
Proof.
  unfold ids. rewrite in_map_iff. split.
  - intros [m [Hm Hin]]. apply in_seq in Hin. lia.
  - intro H. exists (N.to_nat i). split; [lia|]. apply in_seq. lia.
Qed.

Lemma quiescentb_sound a r n stale sched :
  a <> UdsPath false ->
  let s := exec (init a r n stale) sched in
  quiescentb n s = true -> quiescent s.
Proof.
  intros Ha s Q i.
  destruct (N.ltb_spec i n) as [Hi|Hi].
  - unfold quiescentb in Q. rewrite forallb_forall in Q.
    specialize (Q i (proj2 (in_ids i n) Hi)). apply andb_true_iff in Q as [Q1 Q2].
    split; now apply negb_true_iff.
  - assert (Hc : cl s i = CNone) by (apply exec_clients; auto).
    pose proof (inv_proc s (reach_inv a r n stale sched Ha) i) as P. fold s in P.
    unfold client_enabled, server_enabled. rewrite Hc in *. split; auto.
    destruct (sv s i); simpl in P; auto; destruct P as [_ [P|P]]; discriminate.
Qed.

(* ---------- the statements pinned in Properties/C20.v ---------- *)

Definition singleton_core (n : N) (s : st) : Prop :=
  (forall i j, listening (sv s i) = true -> listening (sv s j) = true -> i = j)
  /\ (forall i, listening (sv s i) = true -> listener s = Some i)
  /\ (forall c j, cl s c = CDone j ->
        listener s = Some j \/ (sv s j = SExited true /\ cl s j = CFail FTimeout))
  /\ (quiescentb n s = true -> forall i, live (sv s i) = true -> sv s i = SRunning /\ listener s = Some i).

Lemma singleton_core_holds a r n stale sched :
  a <> UdsPath false -> singleton_core n (exec (init a r n stale) sched).
Proof.
  intro Ha. pose proof (reach_inv a r n stale sched Ha) as I.
  destruct (inv_safe _ I) as [S1 [S2 [S3 _]]].
  split; [exact S1|]. split; [exact S2|]. split; [exact S3|].
  intros Q i L. apply (quiescent_no_leftover _ I); auto. now apply (quiescentb_sound a r n stale sched Ha).
Qed.

Lemma exclusive_singleton a r n sched :
  a = Tcp \/ a = Abstract ->
  let s := exec (init a r n false) sched in
  (forall i j, listening (sv s i) = true -> listening (sv s j) = true -> i = j)
  /\ (forall i, listening (sv s i) = true -> listener s = Some i)
  /\ (forall c j, cl s c = CDone j ->
        listener s = Some j \/ (sv s j = SExited true /\ cl s j = CFail FTimeout))
  /\ (quiescentb n s = true -> forall i, live (sv s i) = true -> sv s i = SRunning /\ listener s = Some i)
  /\ (quiescentb n s = true -> no_timeouts sched = true -> 0 < n ->
      exists h, (forall c, c < n -> cl s c = CDone h) /\ sv s h = SRunning /\ listener s = Some h
                /\ (forall j, j <> h -> sv s j = SNone \/ sv s j = SExited false)).
Proof.
  intros Ha s.
  assert (Hne : a <> UdsPath false) by (destruct Ha; subst; discriminate).
  destruct (singleton_core_holds a r n false sched Hne) as [A [B [C D]]].
  split; [exact A|]. split; [exact B|]. split; [exact C|]. split; [exact D|].
  intros Q NT Hn.
  apply (quiescent_converged a r n false sched Hne); auto.
  - now apply (quiescentb_sound a r n false sched Hne).
  - now apply exclusive_no_client_fails.
Qed.

Lemma tcp_singleton : forall (r : nat) (n : N) (sched : list ev),
  let s := exec (init Tcp r n false) sched in
  (forall i j, listening (sv s i) = true -> listening (sv s j) = true -> i = j)
  /\ (forall i, listening (sv s i) = true -> listener s = Some i)
  /\ (forall c j, cl s c = CDone j ->
        listener s = Some j \/ (sv s j = SExited true /\ cl s j = CFail FTimeout))
  /\ (quiescentb n s = true -> forall i, live (sv s i) = true -> sv s i = SRunning /\ listener s = Some i)
  /\ (quiescentb n s = true -> no_timeouts sched = true -> 0 < n ->
      exists h, (forall c, c < n -> cl s c = CDone h) /\ sv s h = SRunning /\ listener s = Some h
                /\ (forall j, j <> h -> sv s j = SNone \/ sv s j = SExited false)).
Proof. intros. apply exclusive_singleton. now left. Qed.

Lemma abstract_singleton : forall (r : nat) (n : N) (sched : list ev),
  let s := exec (init Abstract r n false) sched in
  (forall i j, listening (sv s i) = true -> listening (sv s j) = true -> i = j)
  /\ (forall i, listening (sv s i) = true -> listener s = Some i)
  /\ (forall c j, cl s c = CDone j ->
        listener s = Some j \/ (sv s j = SExited true /\ cl s j = CFail FTimeout))
  /\ (quiescentb n s = true -> forall i, live (sv s i) = true -> sv s i = SRunning /\ listener s = Some i)
  /\ (quiescentb n s = true -> no_timeouts sched = true -> 0 < n ->
      exists h, (forall c, c < n -> cl s c = CDone h) /\ sv s h = SRunning /\ listener s = Some h
                /\ (forall j, j <> h -> sv s j = SNone \/ sv s j = SExited false)).
Proof. intros. apply exclusive_singleton. now right. Qed.

Lemma uds_singleton : forall (r : nat) (n : N) (stale : bool) (sched : list ev),
  let s := exec (init (UdsPath true) r n stale) sched in
  (forall i j, listening (sv s i) = true -> listening (sv s j) = true -> i = j)
  /\ (forall i, listening (sv s i) = true -> listener s = Some i)
  /\ (forall c j, cl s c = CDone j ->
        listener s = Some j \/ (sv s j = SExited true /\ cl s j = CFail FTimeout))
  /\ (quiescentb n s = true -> forall i, live (sv s i) = true -> sv s i = SRunning /\ listener s = Some i)
  /\ (quiescentb n s = true -> (forall c f, cl s c <> CFail f) -> 0 < n ->
      exists h, (forall c, c < n -> cl s c = CDone h) /\ sv s h = SRunning /\ listener s = Some h
                /\ (forall j, j <> h -> sv s j = SNone \/ sv s j = SExited false)).
Proof.
  intros r n stale sched s.
  assert (Hne : UdsPath true <> UdsPath false) by discriminate.
  destruct (singleton_core_holds (UdsPath true) r n stale sched Hne) as [A [B [C D]]].
  split; [exact A|]. split; [exact B|]. split; [exact C|]. split; [exact D|].
  intros Q NF Hn.
  apply (quiescent_converged (UdsPath true) r n stale sched Hne); auto.
  now apply (quiescentb_sound (UdsPath true) r n stale sched Hne).
Qed.

Lemma uds_unlocked_refuted : exists sched,
  let s := exec (init (UdsPath false) 10 2 false) sched in
  quiescentb 2 s = true /\ no_timeouts sched = true
  /\ sv s 0 = SRunning /\ sv s 1 = SRunning
  /\ cl s 0 = CDone 0 /\ cl s 1 = CDone 1 /\ listener s = Some 1.
Proof.
  exists [EC 0; EC 0; EC 1; EC 1; ES 0; ES 0; ES 0; EC 0; EC 0; ES 1; ES 1; ES 1; EC 1; EC 1].
  vm_compute. repeat split; reflexivity.
Qed.

Lemma uds_retry_needs_timing : exists sched,
  no_timeouts sched = true /\
  cl (exec (init (UdsPath true) 10 2 false) sched) 1 = CFail FRetry.
Proof.
  exists ([EC 0; EC 0; ES 0; EC 1; EC 1; ES 1; ES 1; EC 1] ++ repeat (EC 1) 11).
  vm_compute. split; reflexivity.
Qed.

(* ---------- termination: every run has a bounded number of effective steps ---------- *)

Definition cmu (r : nat) (c : cstate) : nat :=
  match c with CInit => r + 4 | CSpawn => r + 3 | CWait => r + 2 | CRetry k => k + 1 | _ => 0 end.

Definition smu (x : sstate) : nat :=
  match x with
  | SNone => 6 | SStart => 5 | SLocked => 4 | SUnlinked => 3 | SBound => 2 | SFail => 2
  | SRunning => 0 | SExited _ => 0
  end.

Definition pmu (s : st) (i : N) : nat := cmu (retries s) (cl s i) + smu (sv s i).

Definition mu (n : N) (s : st) : nat := list_sum (map (pmu s) (ids n)).

Fixpoint effective (s : st) (sched : list ev) : nat :=
  match sched with
  | [] => 0
  | e :: r => (if ev_label s e =? 0 then 0 else 1) + effective (step s e) r
  end.

Lemma sum_same (f g : N -> nat) l : (forall j, In j l -> f j = g j) -> list_sum (map f l) = list_sum (map g l).
Proof.
  induction l as [|x l IH]; intro H; simpl; auto.
  rewrite (H x (or_introl eq_refl)), IH; auto. intros j Hj. apply H. now right.
Qed.

Lemma sum_less (f g : N -> nat) l i :
  NoDup l -> In i l -> (forall j, j <> i -> f j = g j) -> (f i < g i)%nat ->
  (list_sum (map f l) < list_sum (map g l))%nat.
Proof.
  induction l as [|x l IH]; intros ND Hin Hoth Hlt; simpl; [destruct Hin|].
  inversion ND as [|? ? Hnot ND']; subst.
  destruct Hin as [E|Hin].
  - subst x. rewrite (sum_same f g l); [lia|].
    intros j Hj. apply Hoth. intro E. subst j. contradiction.
  - assert (x <> i) by (intro E; subst x; contradiction).
    rewrite (Hoth x H). specialize (IH ND' Hin Hoth Hlt). lia.
Qed.

Lemma ids_nodup n : NoDup (ids n).
Proof.
  unfold ids. apply Injective_map_NoDup; [|apply seq_NoDup].
  intros x y H. lia.
Qed.

Record Small (n : N) (s : st) : Prop := {
  sm_none : forall i, cl s i = CNone -> sv s i = SNone;
  sm_out : forall i, n <= i -> cl s i = CNone;
  sm_retry : forall i k, cl s i = CRetry k -> (k <= retries s)%nat;
  sm_pre : forall i, cl s i = CInit \/ cl s i = CSpawn -> sv s i = SNone;
}.

Lemma step_retries s e : retries (step s e) = retries s.
Proof.
  destruct e as [i|i|i]; simpl.
  - unfold step_client.
    destruct (cl s i) as [| | | |k| |]; try reflexivity;
      try destruct (listener s); try destruct (mbox s i); try destruct k; reflexivity.
  - unfold step_server, step_bind, notify.
    destruct (sv s i); try reflexivity.
    + destruct (kind s) as [| |[|]]; try destruct (listener s); try destruct (lock s); reflexivity.
    + destruct (name s); reflexivity.
    + destruct (waiting s i); [reflexivity|]. unfold exit_server.
      destruct (name_is s i); cbv zeta;
        [change (lock_is (set_name s (released (kind s))) i) with (lock_is s i)|];
        destruct (lock_is s i); reflexivity.
    + destruct (waiting s i); unfold exit_server.
      * destruct (name_is (set_mbox s i StInUse) i); cbv zeta;
          match goal with |- context [if ?b then _ else _] => destruct b end; reflexivity.
      * destruct (name_is s i); cbv zeta;
          match goal with |- context [if ?b then _ else _] => destruct b end; reflexivity.
  - destruct (waiting s i); reflexivity.
Qed.

Lemma step_client_other s i j : j <> i -> cl (step_client s i) j = cl s j /\ sv (step_client s i) j = sv s j.
Proof.
  intro H. unfold step_client.
  destruct (cl s i) as [| | | |k| |]; auto;
    try destruct (listener s); try destruct (mbox s i); try destruct k; simpl;
    rewrite ?upd_other by auto; auto.
Qed.

Lemma step_other s e j :
  (match e with EC i | ES i | ET i => j <> i end) ->
  cl (step s e) j = cl s j /\ sv (step s e) j = sv s j.
Proof.
  destruct e as [i|i|i]; intro H; simpl.
  - now apply step_client_other.
  - rewrite step_server_cl. split; auto. now apply step_server_sv_other.
  - destruct (waiting s i); simpl; rewrite ?upd_other by auto; auto.
Qed.

Lemma small_step n s e : Small n s -> Small n (step s e).
Proof.
  intros [A B C P]. constructor.
  - intros j Hj.
    destruct e as [i|i|i].
    + destruct (N.eq_dec j i) as [E|E].
      * subst j. simpl in *. unfold step_client in *.
        destruct (cl s i) as [| | | |k| |] eqn:Hc; auto;
          try destruct (listener s); try destruct (mbox s i); try destruct k; simpl in *;
          rewrite ?upd_same in *; try discriminate; auto.
      * destruct (step_other s (EC i) j E) as [H1 H2]. rewrite H2. apply A. now rewrite <- H1.
    + simpl in *. rewrite step_server_cl in Hj.
      destruct (N.eq_dec j i) as [E|E].
      * subst j. unfold step_server. rewrite (A i Hj). apply A. exact Hj.
      * rewrite step_server_sv_other by auto. now apply A.
    + destruct (N.eq_dec j i) as [E|E].
      * subst j. simpl in *. destruct (waiting s i) eqn:W; [|now apply A].
        simpl in Hj. rewrite upd_same in Hj. discriminate.
      * destruct (step_other s (ET i) j E) as [H1 H2]. rewrite H2. apply A. now rewrite <- H1.
  - intros j Hj. apply step_cnone. now apply B.
  - intros j k Hj. rewrite step_retries.
    destruct e as [i|i|i].
    + destruct (N.eq_dec j i) as [E|E].
      * subst j. simpl in *. unfold step_client in *.
        destruct (cl s i) as [| | | |k'| |] eqn:Hc; try (now apply (C i)); try discriminate.
        -- destruct (listener s); simpl in Hj; rewrite upd_same in Hj; discriminate.
        -- simpl in Hj; rewrite upd_same in Hj; discriminate.
        -- destruct (mbox s i); [|rewrite Hc in Hj; discriminate].
           simpl in Hj. rewrite upd_same in Hj. inversion Hj. lia.
        -- specialize (C i k' Hc).
           destruct (listener s); [simpl in Hj; rewrite upd_same in Hj; discriminate|].
           destruct k' as [|k'']; simpl in Hj; rewrite upd_same in Hj; [discriminate|].
           inversion Hj. lia.
      * destruct (step_other s (EC i) j E) as [H1 _]. rewrite H1 in Hj. now apply (C j).
    + simpl in Hj. rewrite step_server_cl in Hj. now apply (C j).
    + destruct (N.eq_dec j i) as [E|E].
      * subst j. simpl in *. destruct (waiting s i); [|now apply (C i)].
        simpl in Hj. rewrite upd_same in Hj. discriminate.
      * destruct (step_other s (ET i) j E) as [H1 _]. rewrite H1 in Hj. now apply (C j).
  - intros j Hj.
    destruct e as [i|i|i].
    + destruct (N.eq_dec j i) as [E|E].
      * subst j. simpl in *. unfold step_client in *.
        destruct (cl s i) as [| | | |k'| |] eqn:Hc;
          try (destruct Hj as [Hj|Hj]; rewrite Hc in Hj; discriminate).
        -- destruct (listener s); simpl in *; rewrite upd_same in Hj;
             [destruct Hj; discriminate|]. apply P. rewrite Hc. now left.
        -- simpl in Hj. rewrite upd_same in Hj. destruct Hj; discriminate.
        -- destruct (mbox s i); [|destruct Hj as [Hj|Hj]; rewrite Hc in Hj; discriminate].
           simpl in Hj. rewrite upd_same in Hj. destruct Hj; discriminate.
        -- destruct (listener s); [|destruct k']; simpl in Hj; rewrite upd_same in Hj; destruct Hj; discriminate.
      * destruct (step_other s (EC i) j E) as [H1 H2]. rewrite H2. apply P. now rewrite <- H1.
    + simpl in *. rewrite step_server_cl in Hj.
      destruct (N.eq_dec j i) as [E|E].
      * subst j. unfold step_server. rewrite (P i Hj). now apply P.
      * rewrite step_server_sv_other by auto. now apply P.
    + destruct (N.eq_dec j i) as [E|E].
      * subst j. simpl in *. destruct (waiting s i) eqn:W; [|now apply P].
        simpl in Hj. rewrite upd_same in Hj. destruct Hj; discriminate.
      * destruct (step_other s (ET i) j E) as [H1 H2]. rewrite H2. apply P. now rewrite <- H1.
Qed.

Lemma step_stutter s e : ev_label s e = 0 -> step s e = s.
Proof.
  destruct e as [i|i|i]; simpl; intro H.
  - unfold step_client. destruct (cl s i) as [| | | |k| |]; auto.
    + destruct (listener s); discriminate.
    + discriminate.
    + destruct (mbox s i) as [[|]|]; try discriminate; reflexivity.
    + destruct (listener s); [discriminate|]. destruct k; discriminate.
  - unfold step_server. destruct (sv s i); auto.
    + destruct (kind s) as [| |[|]]; try destruct (listener s); try destruct (lock s); discriminate.
    + discriminate.
    + destruct (name s); discriminate.
    + destruct (waiting s i); discriminate.
    + destruct (waiting s i); discriminate.
  - destruct (waiting s i); [discriminate | reflexivity].
Qed.

Definition ev_index (e : ev) : N := match e with EC i | ES i | ET i => i end.

Lemma step_decreases n s e : Small n s -> ev_label s e <> 0 -> (mu n (step s e) < mu n s)%nat.
Proof.
  intros Sm L. destruct Sm as [A B C P].
  set (i := ev_index e).
  assert (Hin : In i (ids n)).
  { apply in_ids. destruct (N.ltb_spec i n) as [H|H]; auto. exfalso.
    pose proof (B i H) as Hc. pose proof (A i Hc) as Hs. apply L.
    destruct e as [j|j|j]; simpl in *; subst i; simpl in *.
    - now rewrite Hc.
    - now rewrite Hs.
    - unfold waiting. now rewrite Hc. }
  unfold mu. apply (sum_less _ _ (ids n) i (ids_nodup n) Hin).
  - intros j Hj. unfold pmu. rewrite step_retries.
    destruct (step_other s e j) as [H1 H2]; [destruct e; exact Hj|]. now rewrite H1, H2.
  - unfold pmu. rewrite step_retries.
    destruct e as [j|j|j]; simpl in i; subst i; simpl in *.
    + (* client *)
      unfold step_client.
      destruct (cl s j) as [| | | |k| |] eqn:Hc; try (exfalso; apply L; reflexivity).
      * destruct (listener s); simpl; rewrite upd_same; simpl; lia.
      * simpl. rewrite !upd_same. rewrite (P j (or_intror Hc)). simpl. lia.
      * destruct (mbox s j) as [m|]; [|exfalso; apply L; reflexivity].
        simpl. rewrite upd_same. simpl. lia.
      * destruct (listener s); [simpl; rewrite upd_same; simpl; lia|].
        destruct k; simpl; rewrite upd_same; simpl; lia.
    + (* server *)
      rewrite step_server_cl.
      cut (smu (sv (step_server s j) j) < smu (sv s j))%nat; [lia|].
      unfold step_server, step_bind, notify.
      destruct (sv s j) eqn:Hs; try (exfalso; apply L; reflexivity).
      * destruct (kind s) as [| |[|]]; try destruct (listener s); try destruct (lock s);
          simpl; rewrite upd_same; simpl; lia.
      * simpl; rewrite upd_same; simpl; lia.
      * destruct (name s); simpl; rewrite upd_same; simpl; lia.
      * destruct (waiting s j); [simpl; rewrite upd_same; simpl; lia|].
        rewrite exit_sv, N.eqb_refl. simpl. lia.
      * destruct (waiting s j); rewrite exit_sv, N.eqb_refl; simpl; lia.
    + (* timer *)
      unfold waiting in *. destruct (cl s j) eqn:Hc; try (exfalso; apply L; reflexivity).
      simpl. rewrite upd_same. simpl. lia.
Qed.

Lemma effective_bound n sched : forall s, Small n s -> (effective s sched + mu n (exec s sched) <= mu n s)%nat.
Proof.
  induction sched as [|e r IH]; intros s Sm; simpl; [lia|].
  specialize (IH (step s e) (small_step n s e Sm)).
  destruct (N.eqb_spec (ev_label s e) 0) as [E|E].
  - rewrite (step_stutter s e E) in *. lia.
  - pose proof (step_decreases n s e Sm E). lia.
Qed.

Lemma small_init a r n stale : Small n (init a r n stale).
Proof.
  constructor; simpl; auto.
  - intros i H. destruct (N.ltb_spec i n); auto. lia.
  - intros i k. destruct (i <? n); discriminate.
Qed.

Lemma mu_init a r n stale : mu n (init a r n stale) = (N.to_nat n * (r + 10))%nat.
Proof.
  unfold mu. rewrite (sum_same _ (fun _ => (r + 10)%nat)).
  - unfold ids. rewrite map_map.
    assert (H : forall l : list nat, list_sum (map (fun _ : nat => (r + 10)%nat) l) = (length l * (r + 10))%nat).
    { induction l as [|x l IH]; simpl; auto. }
    rewrite H, seq_length. reflexivity.
  - intros j Hj. apply in_ids in Hj. unfold pmu. simpl.
    destruct (N.ltb_spec j n); [simpl; lia | lia].
Qed.

Lemma startup_terminates a r n stale sched :
  (effective (init a r n stale) sched <= N.to_nat n * (r + 10))%nat.
Proof.
  pose proof (effective_bound n sched _ (small_init a r n stale)) as H.
  rewrite mu_init in H. lia.
Qed.

Lemma enabled_effective s i :
  (client_enabled s i = true -> ev_label s (EC i) <> 0) /\
  (server_enabled s i = true -> ev_label s (ES i) <> 0).
Proof.
  split; intro H; simpl.
  - unfold client_enabled in H. destruct (cl s i) as [| | | |k| |]; try discriminate.
    + destruct (listener s); discriminate.
    + destruct (mbox s i) as [[|]|]; discriminate.
    + destruct (listener s); [discriminate|]. destruct k; discriminate.
  - unfold server_enabled in H. destruct (sv s i); try discriminate.
    + destruct (kind s) as [| |[|]]; try destruct (listener s); try destruct (lock s); discriminate.
    + destruct (name s); discriminate.
    + destruct (waiting s i); discriminate.
    + destruct (waiting s i); discriminate.
Qed.
