(* Proofs/ComposeC03.v — C03 ⟵ C02: C03's hash function `key_of : fingerprint -> key` (a Section variable of
   Model/HitModel.v) instantiated, for the C/C++ branch, with C02's result key  KeyEnc.key = H ∘ encode_c  over the
   translated spec, applied to the C02 request made of the fingerprint's components.

   HitModel abstracts the compiler identity and the preprocessor-output digest as numbers; what they stand for is given
   by decoding functions (Section variables, no hypotheses for the forward direction):
       fp_compiler n   ↦  compiler digest, plusplus, language, extra hashes        (comp_digest .. comp_extra)
       fp_inputs  ds   ↦  the preprocessor output                                     (pp_text)
       fp_args         =  C02's hashed arguments        fp_env  =  C02's filtered environment (already sorted)
   Results:
     - C03's allow-list (hand-written in Model/HitModel.v) IS C02's translated CACHED_ENV_VARS          [c_env_allow_agrees]
     - equal fingerprints ⟹ equal canon_c ⟹ equal C02 keys                                             [same_fingerprint_same_key]
     - equal C02 keys ⟹ equal fingerprints, by C02_key_iff, under C02's wf predicates, collision-freeness of H on the
       two pre-images and injectivity of the decoding at the two fingerprints                            [key_determines_fingerprint]
     - C03_hit_after_store for this key function                                                          [hit_after_store_C02_key] *)
From Coq Require Import List NArith Bool Permutation.
From Sccache Require Import Base.Sx Model.Lru Model.HitModel Proofs.Lru Proofs.HitModel.
From Sccache Require Import Model.KeyEnc Proofs.KeyEnc Proofs.KeyEncSpec Gen.C02HashSpec Gen.C02HashSpec_ok
     Properties.C02.
Import ListNotations.
Local Open Scope N_scope.

Lemma c_env_allow_agrees : c_env_allow = allow_main the_spec.
Proof. vm_compute. reflexivity. Qed.

Lemma c_env_hashed_allowed v : c_env_hashed v = allowed (allow_main the_spec) v.
Proof. unfold c_env_hashed, bmem, allowed. rewrite c_env_allow_agrees. reflexivity. Qed.

Lemma filter_all {A} (f : A -> bool) l : (forall x, In x l -> f x = true) -> filter f l = l.
Proof.
  induction l as [|a l IH]; intro Hall; simpl; [reflexivity|].
  rewrite (Hall a (or_introl eq_refl)), IH; [reflexivity|]. intros x Hx. apply Hall. right. exact Hx.
Qed.

Section C03.
Variable H : KeyEnc.bytes -> KeyEnc.bytes.

(* what HitModel's abstract numbers stand for *)
Variable comp_digest : N -> KeyEnc.bytes.
Variable comp_plusplus : N -> bool.
Variable comp_lang : N -> KeyEnc.bytes.
Variable comp_extra : N -> list KeyEnc.bytes.
Variable pp_text : list N -> KeyEnc.bytes.
(* the key of the rustc branch (property C05) *)
Variable rust_key : fingerprint -> Lru.key.

Definition creq_of_fp (fp : fingerprint) : creq :=
  {| digest := comp_digest (fp_compiler fp); plusplus := comp_plusplus (fp_compiler fp);
     lang := comp_lang (fp_compiler fp); args := fp_args fp; extra := comp_extra (fp_compiler fp);
     env := fp_env fp; pp := pp_text (fp_inputs fp);
     path := []; input := []; ignore_time := false; date := (0, 0, 0); sde := None; mtime := (0, 0) |}.

Definition key_of_C02 (fp : fingerprint) : Lru.key :=
  match fp_lang fp with
  | LangC => KeyEnc.key H the_spec (creq_of_fp fp)
  | LangRust => rust_key fp
  end.

Theorem same_fingerprint_same_key (r r' : request) :
  fingerprint_of r' = fingerprint_of r ->
  canon_c the_spec (creq_of_fp (fingerprint_of r')) = canon_c the_spec (creq_of_fp (fingerprint_of r))
  /\ key_of_C02 (fingerprint_of r') = key_of_C02 (fingerprint_of r).
Proof. intro E. rewrite E. split; reflexivity. Qed.

(* the environment component of a C/C++ fingerprint is what C02's key sees of it *)
Lemma fp_env_is_fenv r :
  rq_lang r = LangC -> fenv (allow_main the_spec) (creq_of_fp (fingerprint_of r)) = fp_env (fingerprint_of r).
Proof.
  intro L. unfold fenv, creq_of_fp. cbn [env]. unfold fingerprint_of. rewrite L. cbn [fp_env].
  apply filter_all. intros x Hx.
  apply (Permutation_in _ (isort_perm pair_leb _)) in Hx. apply filter_In in Hx. destruct Hx as [_ Hx].
  rewrite <- c_env_hashed_allowed. exact Hx.
Qed.

Theorem key_determines_fingerprint (r r' : request) :
  rq_lang r = LangC -> rq_lang r' = LangC ->
  let c := creq_of_fp (fingerprint_of r) in
  let c' := creq_of_fp (fingerprint_of r') in
  wf_c the_spec c = true -> wf_c the_spec c' = true -> extra_pp_ok c c' = true ->
  (H (encode_c H the_spec c) = H (encode_c H the_spec c') -> encode_c H the_spec c = encode_c H the_spec c') ->
  (* the decoding is injective at these two fingerprints *)
  (comp_digest (rq_compiler r) = comp_digest (rq_compiler r') ->
   comp_plusplus (rq_compiler r) = comp_plusplus (rq_compiler r') ->
   tag_of the_spec (comp_lang (rq_compiler r)) = tag_of the_spec (comp_lang (rq_compiler r')) ->
   comp_extra (rq_compiler r) = comp_extra (rq_compiler r') -> rq_compiler r = rq_compiler r') ->
  (pp_text (rq_inputs r) = pp_text (rq_inputs r') -> rq_inputs r = rq_inputs r') ->
  key_of_C02 (fingerprint_of r) = key_of_C02 (fingerprint_of r') ->
  fingerprint_of r = fingerprint_of r'.
Proof.
  intros L L' c c' W W' X Hcf Hcomp Hpp Ek.
  assert (Lf : fp_lang (fingerprint_of r) = LangC) by (unfold fingerprint_of; rewrite L; reflexivity).
  assert (Lf' : fp_lang (fingerprint_of r') = LangC) by (unfold fingerprint_of; rewrite L'; reflexivity).
  unfold key_of_C02 in Ek. rewrite Lf, Lf' in Ek. fold c c' in Ek.
  apply (C02_key_iff H c c' W W' X Hcf) in Ek.
  pose proof (fp_env_is_fenv r L) as Fe. pose proof (fp_env_is_fenv r' L') as Fe'. fold c in Fe. fold c' in Fe'.
  unfold canon_c in Ek. rewrite Fe, Fe' in Ek.
  inversion Ek as [[Edg Epl Etag Earg Eex Eenv Epp]]. clear Ek.
  unfold c, c', creq_of_fp in Edg, Epl, Etag, Earg, Eex, Epp. cbn [digest plusplus lang args extra pp] in *.
  assert (Ec : fp_compiler (fingerprint_of r) = rq_compiler r) by (unfold fingerprint_of; rewrite L; reflexivity).
  assert (Ec' : fp_compiler (fingerprint_of r') = rq_compiler r') by (unfold fingerprint_of; rewrite L'; reflexivity).
  assert (Ei : fp_inputs (fingerprint_of r) = rq_inputs r) by (unfold fingerprint_of; rewrite L; reflexivity).
  assert (Ei' : fp_inputs (fingerprint_of r') = rq_inputs r') by (unfold fingerprint_of; rewrite L'; reflexivity).
  rewrite Ec, Ec' in Edg, Epl, Etag, Eex. rewrite Ei, Ei' in Epp.
  pose proof (Hcomp Edg Epl Etag Eex) as En. pose proof (Hpp Epp) as Ein.
  unfold fingerprint_of in *. rewrite L in *. rewrite L' in *. cbn [fp_args fp_env] in *.
  rewrite En, Ein, Earg, Eenv. reflexivity.
Qed.

Theorem key_of_is_C02_key (r r' : request) :
  rq_lang r = LangC -> rq_lang r' = LangC ->
  let c := creq_of_fp (fingerprint_of r) in
  let c' := creq_of_fp (fingerprint_of r') in
  wf_c the_spec c = true -> wf_c the_spec c' = true -> extra_pp_ok c c' = true ->
  (H (encode_c H the_spec c) = H (encode_c H the_spec c') -> encode_c H the_spec c = encode_c H the_spec c') ->
  (comp_digest (rq_compiler r) = comp_digest (rq_compiler r') ->
   comp_plusplus (rq_compiler r) = comp_plusplus (rq_compiler r') ->
   tag_of the_spec (comp_lang (rq_compiler r)) = tag_of the_spec (comp_lang (rq_compiler r')) ->
   comp_extra (rq_compiler r) = comp_extra (rq_compiler r') -> rq_compiler r = rq_compiler r') ->
  (pp_text (rq_inputs r) = pp_text (rq_inputs r') -> rq_inputs r = rq_inputs r') ->
  (key_of_C02 (fingerprint_of r) = key_of_C02 (fingerprint_of r') <-> fingerprint_of r = fingerprint_of r')
  /\ (fingerprint_of r = fingerprint_of r' -> canon_c the_spec c = canon_c the_spec c').
Proof.
  intros L L' c c' W W' X Hcf Hcomp Hpp. split; [split|].
  - apply key_determines_fingerprint; assumption.
  - intro E. rewrite E. reflexivity.
  - intro E. unfold c, c'. rewrite E. reflexivity.
Qed.

(* C03's main theorem for this key function (the theorem holds for every key function; this is the instance) *)
Theorem hit_after_store_C02_key
        (compile : request -> N -> cresult) (c0 : N) (h0 : list event) (r0 : request) (h : list event) (r1 : request)
        (w1 : world) (o0 : outcome) (w3 : world) (o1 : outcome) :
  let w0 := run_events key_of_C02 compile (empty_world c0) h0 in
  do_request key_of_C02 compile w0 r0 = (w1, o0) -> oc_stored o0 = true ->
  unrelated key_of_C02 r0 h = true ->
  let w2 := run_events key_of_C02 compile w1 h in
  cached key_of_C02 w2 r0 = true ->
  fingerprint_of r1 = fingerprint_of r0 ->
  map (fun o => (o_role o, o_optional o)) (rq_outputs r1) = map (fun o => (o_role o, o_optional o)) (rq_outputs r0) ->
  NoDup (map o_role (rq_outputs r0)) -> NoDup (map o_path (rq_outputs r1)) ->
  (pp_hit key_of_C02 w2 r1 = true \/ cr_pre_ok (compile r1 (w_compiles w2)) = true) ->
  do_request key_of_C02 compile w2 r1 = (w3, o1) ->
  oc_kind o1 = KHit /\ oc_compiled o1 = false /\ w_compiles w3 = w_compiles w2 /\
  forall oa ob c, In oa (rq_outputs r0) -> In ob (rq_outputs r1) -> o_role oa = o_role ob ->
    alookup (o_path oa) (w_ws w1) = Some c -> alookup (o_path ob) (w_ws w3) = Some c.
Proof. exact (hit_after_store key_of_C02 compile c0 h0 r0 h r1 w1 o0 w3 o1). Qed.
End C03.
