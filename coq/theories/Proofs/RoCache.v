(* Proofs about Model/RoCache.v (read-only DiskCache) for property C15. *)
From Coq Require Import List NArith Bool Lia ZifyN ZifyBool.
From Sccache Require Import Base.Sx Model.Lru Model.RoCache.
Import ListNotations.
Local Open Scope N_scope.

Arguments N.add : simpl never.
Arguments N.sub : simpl never.
Arguments N.mul : simpl never.
Arguments N.ltb : simpl never.
Arguments N.leb : simpl never.
Arguments N.eqb : simpl never.

(* ------------------------------------------------------------------ association lists *)

Lemma eqb_true_eq a b : bytes_eqb a b = true -> a = b.
Proof. apply bytes_eqb_eq. Qed.

Lemma eqb_false_neq a b : bytes_eqb a b = false -> a <> b.
Proof. intros H E. subst. rewrite bytes_eqb_refl in H. discriminate. Qed.

Lemma eqb_sym a b : bytes_eqb a b = bytes_eqb b a.
Proof.
  destruct (bytes_eqb a b) eqn:E1; destruct (bytes_eqb b a) eqn:E2; try reflexivity.
  - apply eqb_true_eq in E1. subst. rewrite bytes_eqb_refl in E2. discriminate.
  - apply eqb_true_eq in E2. subst. rewrite bytes_eqb_refl in E1. discriminate.
Qed.

Lemma alookup_ains {V} (p k : key) (v : V) l :
  alookup p (ains k v l) = if bytes_eqb p k then Some v else alookup p l.
Proof.
  induction l as [|[k' v'] r IH]; simpl.
  - reflexivity.
  - destruct (bytes_eqb k k') eqn:Ekk'.
    + apply eqb_true_eq in Ekk'. subst k'. simpl. destruct (bytes_eqb p k); reflexivity.
    + destruct (bytes_ltb k k') eqn:Elt; simpl.
      * reflexivity.
      * rewrite IH. destruct (bytes_eqb p k') eqn:Epk'; [|reflexivity].
        destruct (bytes_eqb p k) eqn:Epk; [|reflexivity].
        apply eqb_true_eq in Epk'. apply eqb_true_eq in Epk. subst.
        rewrite bytes_eqb_refl in Ekk'. discriminate.
Qed.

Lemma alookup_app {V} (p : key) (l1 l2 : list (key * V)) :
  alookup p (l1 ++ l2) = match alookup p l1 with Some v => Some v | None => alookup p l2 end.
Proof.
  induction l1 as [|[k v] r IH]; simpl; [reflexivity|].
  destruct (bytes_eqb p k); [reflexivity | apply IH].
Qed.

Lemma alookup_aremove {V} (p k : key) (l : list (key * V)) :
  alookup p (aremove k l) = if bytes_eqb p k then None else alookup p l.
Proof.
  induction l as [|[k' v'] r IH]; simpl.
  - destruct (bytes_eqb p k); reflexivity.
  - destruct (bytes_eqb k k') eqn:Ekk'.
    + apply eqb_true_eq in Ekk'. subst k'. rewrite IH. destruct (bytes_eqb p k); reflexivity.
    + simpl. rewrite IH. destruct (bytes_eqb p k') eqn:Epk'; [|reflexivity].
      apply eqb_true_eq in Epk'. subst k'. rewrite eqb_sym, Ekk'. reflexivity.
Qed.

Lemma alookup_In {V} (p : key) (v : V) l : alookup p l = Some v -> In (p, v) l.
Proof.
  induction l as [|[k' v'] r IH]; simpl; [discriminate|].
  destruct (bytes_eqb p k') eqn:E.
  - intros H. inversion H; subst. apply eqb_true_eq in E. subst. left; reflexivity.
  - intros H. right. apply IH, H.
Qed.

Lemma In_amem {V} (p : key) (v : V) l : In (p, v) l -> amem p l = true.
Proof.
  unfold amem. induction l as [|[k' v'] r IH]; simpl; [tauto|].
  intros [H|H].
  - inversion H; subst. rewrite bytes_eqb_refl. reflexivity.
  - destruct (bytes_eqb p k'); [reflexivity | apply IH, H].
Qed.

Lemma amem_alookup {V} (p : key) (l : list (key * V)) :
  amem p l = true <-> exists v, alookup p l = Some v.
Proof.
  unfold amem. destruct (alookup p l) as [v|]; split; intros H; try discriminate; eauto.
  destruct H as [v H]; discriminate.
Qed.

Lemma amem_ains {V} (p k : key) (v : V) l : amem p (ains k v l) = bytes_eqb p k || amem p l.
Proof. unfold amem. rewrite alookup_ains. destruct (bytes_eqb p k); reflexivity. Qed.

(* ------------------------------------------------------------------ Lru primitives used by the stores *)

Lemma lru_trim_spec idx m c :
  m <= c -> lru_trim idx m c = (idx, m).
Proof. intros H. destruct idx; simpl; destruct (m <=? c) eqn:E; try reflexivity; lia. Qed.

Lemma lru_trim_sub idx : forall m c p,
  amem p (fst (lru_trim idx m c)) = true -> amem p idx = true.
Proof.
  induction idx as [|[k sz] r IH]; intros m c p; simpl.
  - destruct (m <=? c); simpl; auto.
  - destruct (m <=? c) eqn:E; simpl; [auto|].
    intros H. apply IH in H. unfold amem in *. simpl.
    destruct (bytes_eqb p k); [reflexivity | exact H].
Qed.

Lemma lru_insert_frame s k v :
  files (lru_insert s k v) = files s /\ clock (lru_insert s k v) = clock s /\ cap (lru_insert s k v) = cap s
  /\ pending_size (lru_insert s k v) = pending_size s.
Proof.
  unfold lru_insert. destruct (lru_trim _ _ _) as [idx' m3]. simpl. repeat split; reflexivity.
Qed.

Lemma ro_init_add_frame s e :
  files (ro_init_add s e) = files s /\ clock (ro_init_add s e) = clock s /\ cap (ro_init_add s e) = cap s.
Proof.
  unfold ro_init_add. destruct e as [k [sz mt]].
  destruct (is_temp k); [repeat split; reflexivity|].
  destruct (negb (sz <=? cap s)); [repeat split; reflexivity|].
  destruct (lru_insert_frame s k sz) as (A & B & C & _). auto.
Qed.

Lemma fold_ro_frame l : forall s,
  files (fold_left ro_init_add l s) = files s /\ clock (fold_left ro_init_add l s) = clock s
  /\ cap (fold_left ro_init_add l s) = cap s.
Proof.
  induction l as [|e r IH]; intros s; simpl; [repeat split; reflexivity|].
  destruct (IH (ro_init_add s e)) as (A & B & C).
  destruct (ro_init_add_frame s e) as (A' & B' & C'). repeat split; congruence.
Qed.

Lemma open_ro_frame w c l clk0 :
  files (open_ro w c l clk0) = l /\ clock (open_ro w c l clk0) = clk0 /\ cap (open_ro w c l clk0) = c.
Proof. unfold open_ro. destruct (fold_ro_frame (walked w l) (fresh c l clk0)) as (A & B & C). auto. Qed.

(* what Lru.get does to the disk: nothing, or it bumps the mtime of the looked-up file *)
Lemma get_effect s k :
  let '(s', r, _) := get s k in
  (r <> ROk /\ files s' = files s /\ clock s' = clock s) \/
  (r = ROk /\ exists sz m, alookup k (files s) = Some (sz, m) /\ files s' = ains k (sz, clock s + 1) (files s)
            /\ clock s' = clock s + 1).
Proof.
  unfold get, lru_get. destruct (alookup k (index s)) as [isz|] eqn:Ei.
  - simpl. destruct (alookup k (files s)) as [[sz m]|] eqn:Ef.
    + right. split; [reflexivity|]. exists sz, m. simpl. auto.
    + left. simpl. repeat split; congruence.
  - left. repeat split; congruence.
Qed.

Lemma get_index s k p :
  amem p (index (fst (fst (get s k)))) = amem p (index s).
Proof.
  unfold get, lru_get. destruct (alookup k (index s)) as [isz|] eqn:Ei; [|reflexivity].
  simpl. assert (E : amem p (aremove k (index s) ++ [(k, isz)]) = amem p (index s)).
  { unfold amem. rewrite alookup_app, alookup_aremove. simpl.
    destruct (bytes_eqb p k) eqn:Epk.
    - apply eqb_true_eq in Epk. subst. rewrite Ei. reflexivity.
    - destruct (alookup p (index s)); reflexivity. }
  destruct (alookup k (files s)) as [[sz m]|]; simpl; exact E.
Qed.

(* ------------------------------------------------------------------ "unchanged" *)

Definition same_sizes (l l' : fmap) : Prop :=
  forall p, option_map fst (alookup p l') = option_map fst (alookup p l).

Lemma same_sizes_refl l : same_sizes l l.
Proof. intros p; reflexivity. Qed.

Lemma same_sizes_trans a b c : same_sizes a b -> same_sizes b c -> same_sizes a c.
Proof. intros H1 H2 p. rewrite H2. apply H1. Qed.

Lemma same_sizes_bump l k sz m m' :
  alookup k l = Some (sz, m) -> same_sizes l (ains k (sz, m') l).
Proof.
  intros H p. rewrite alookup_ains. destruct (bytes_eqb p k) eqn:E; [|reflexivity].
  apply eqb_true_eq in E. subst. rewrite H. reflexivity.
Qed.

Lemma get_same_sizes s k : same_sizes (files s) (files (fst (fst (get s k)))).
Proof.
  pose proof (get_effect s k) as H. destruct (get s k) as [[s' r] t]. simpl.
  destruct H as [(_ & Hf & _) | (_ & sz & m & Ha & Hf & _)]; rewrite Hf.
  - apply same_sizes_refl.
  - eapply same_sizes_bump; eauto.
Qed.

(* the relation every read-only step satisfies *)
Record keeps (d d' : dc) : Prop := {
  k_rw : rw d' = false;
  k_conts : conts d' = conts d;
  k_dirs : dirs d' = dirs d;
  k_sizes : same_sizes (fs d) (fs d')
}.

Lemma keeps_refl d : rw d = false -> keeps d d.
Proof. intros H. constructor; auto. apply same_sizes_refl. Qed.

Lemma keeps_trans a b c : keeps a b -> keeps b c -> keeps a c.
Proof.
  intros [A1 A2 A3 A4] [B1 B2 B3 B4]. constructor; [congruence | congruence | congruence |].
  eapply same_sizes_trans; eauto.
Qed.

Lemma keeps_entry d d' : keeps d d' -> forall p, entry d' p = entry d p.
Proof.
  intros [_ Hc _ Hs] p. unfold entry, cont_of. rewrite Hc.
  specialize (Hs p). destruct (alookup p (fs d')) as [[sz m]|], (alookup p (fs d)) as [[sz' m']|];
    simpl in Hs; try discriminate; [|reflexivity].
  inversion Hs; subst. reflexivity.
Qed.

(* get_or_init in read-only mode *)
Lemma opened_ro w d :
  rw d = false ->
  let '(d1, s) := opened w d in
  rw d1 = false /\ wrapped d1 = wrapped d /\ dcap d1 = dcap d /\ ppsz d1 = ppsz d /\
  conts d1 = conts d /\ dirs d1 = dirs d /\ fs d1 = fs d /\ clk d1 = clk d /\
  files s = fs d /\ clock s = clk d /\
  store_of (negb w) d1 = store_of (negb w) d.
Proof.
  intros Hrw. unfold opened. destruct (store_of w d) as [s|] eqn:Es.
  - simpl. repeat split; auto.
  - rewrite Hrw. destruct (open_ro_frame w (dcap d) (fs d) (clk d)) as (A & B & C).
    simpl. rewrite A, B. repeat split; auto. destruct w; reflexivity.
Qed.

Lemma set_store_fields w d s :
  rw (set_store w d s) = rw d /\ conts (set_store w d s) = conts d /\ dirs (set_store w d s) = dirs d /\
  fs (set_store w d s) = files s /\ clk (set_store w d s) = clock s /\ wrapped (set_store w d s) = wrapped d.
Proof. repeat split; reflexivity. Qed.

Lemma do_get_keeps d k : rw d = false -> keeps d (fst (do_get d k)).
Proof.
  intros Hrw. unfold do_get. pose proof (opened_ro false d Hrw) as H.
  destruct (opened false d) as [d1 s]. destruct H as (A & _ & _ & _ & C & D & E & _ & F & _).
  pose proof (get_same_sizes s (main_path k)) as Hs.
  destruct (get s (main_path k)) as [[s' r] t]. simpl in *.
  constructor; simpl; auto. rewrite <- F. exact Hs.
Qed.

Lemma do_ppget_keeps d k : rw d = false -> keeps d (fst (do_ppget d k)).
Proof.
  intros Hrw. unfold do_ppget. pose proof (opened_ro true d Hrw) as H.
  destruct (opened true d) as [d1 s]. destruct H as (A & _ & _ & _ & C & D & E & _ & F & _).
  pose proof (get_same_sizes s (pp_path k)) as Hs.
  destruct (get s (pp_path k)) as [[s' r] t]. simpl in *.
  constructor; simpl; auto. rewrite <- F. exact Hs.
Qed.

Lemma do_put_ro d k n c : rw d = false ->
  do_put d k n c = (d, ORefusedWrapper) \/ do_put d k n c = (d, ORefusedCache).
Proof. intros H. unfold do_put. rewrite H. destruct (wrapped d); simpl; auto. Qed.

Lemma do_ppput_ro d k : rw d = false ->
  do_ppput d k = (d, ORefusedWrapper) \/ do_ppput d k = (d, ORefusedCache).
Proof. intros H. unfold do_ppput. rewrite H. destruct (wrapped d); simpl; auto. Qed.

Lemma step_keeps d o : rw d = false -> ro_op o = true -> keeps d (fst (step d o)).
Proof.
  intros Hrw Ho. destruct o as [k|k n c|k|k|r w c]; simpl.
  - apply do_get_keeps, Hrw.
  - destruct (do_put_ro d k n c Hrw) as [E|E]; rewrite E; apply keeps_refl, Hrw.
  - apply do_ppget_keeps, Hrw.
  - destruct (do_ppput_ro d k Hrw) as [E|E]; rewrite E; apply keeps_refl, Hrw.
  - simpl in Ho. destruct r; [discriminate|]. constructor; simpl; auto. apply same_sizes_refl.
Qed.

Lemma run_keeps ops : forall d, rw d = false -> forallb ro_op ops = true -> keeps d (run d ops).
Proof.
  induction ops as [|o r IH]; intros d Hrw Hops; simpl.
  - apply keeps_refl, Hrw.
  - simpl in Hops. apply andb_true_iff in Hops as [Ho Hr].
    pose proof (step_keeps d o Hrw Ho) as K1.
    eapply keeps_trans; [exact K1|]. apply IH; [apply K1 | exact Hr].
Qed.

(* ------------------------------------------------------------------ whole requests *)

Local Opaque step.

Ltac step_one K :=
  match goal with
  | |- context [step ?d ?o] =>
      let Hk := fresh "Hk" in
      assert (Hk : keeps d (fst (step d o))) by (apply step_keeps; [solve [eauto using k_rw] | reflexivity]);
      let d' := fresh "d'" in let x := fresh "x" in
      destruct (step d o) as [d' x]; simpl in Hk;
      let K' := fresh "K" in
      pose proof (keeps_trans _ _ _ K Hk) as K'; clear Hk
  end.

Lemma req_finish_keeps d0 d r acc : keeps d0 d -> keeps d0 (fst (req_finish d r acc)).
Proof.
  intros K. unfold req_finish.
  destruct (r_recache r).
  - simpl. destruct (r_compile_ok r); simpl; [|exact K].
    step_one K. simpl. assumption.
  - step_one K. destruct x; simpl; try assumption;
      (destruct (r_compile_ok r); simpl; [|assumption]; step_one K0; simpl; assumption).
Qed.

Lemma req_preprocess_keeps d0 d r acc : keeps d0 d -> keeps d0 (fst (req_preprocess d r acc)).
Proof.
  intros K. unfold req_preprocess.
  destruct (r_preproc_ok r); simpl; [|exact K].
  destruct (r_pp_on r).
  - step_one K. apply req_finish_keeps. assumption.
  - apply req_finish_keeps, K.
Qed.

Lemma do_req_keeps d r : rw d = false -> keeps d (fst (do_req d r)).
Proof.
  intros Hrw. pose proof (keeps_refl d Hrw) as K. unfold do_req.
  destruct (r_pp_on r && negb (r_recache r)).
  - step_one K.
    destruct x; try (apply req_preprocess_keeps; assumption).
    destruct (r_pp_updated r).
    + step_one K0.
      destruct (negb match x with OOk => false | _ => true end && r_pp_match r);
        [apply req_finish_keeps | apply req_preprocess_keeps]; assumption.
    + destruct (negb false && r_pp_match r);
        [apply req_finish_keeps | apply req_preprocess_keeps]; assumption.
  - apply req_preprocess_keeps, K.
Qed.

Lemma step_item_keeps d i : rw d = false -> ro_item i = true -> keeps d (fst (step_item d i)).
Proof.
  intros Hrw Hi. destruct i as [o|r]; simpl.
  - pose proof (step_keeps d o Hrw Hi) as K. destruct (step d o); exact K.
  - apply do_req_keeps, Hrw.
Qed.

Lemma run_items_keeps l : forall d, rw d = false -> forallb ro_item l = true -> keeps d (run_items d l).
Proof.
  induction l as [|i r IH]; intros d Hrw Hl; simpl.
  - apply keeps_refl, Hrw.
  - simpl in Hl. apply andb_true_iff in Hl as [Hi Hr].
    pose proof (step_item_keeps d i Hrw Hi) as K1.
    eapply keeps_trans; [exact K1|]. apply IH; [apply K1 | exact Hr].
Qed.

Local Transparent step.

(* ------------------------------------------------------------------ pinned forms *)

Theorem frozen_ops : forall d ops,
  rw d = false -> forallb ro_op ops = true ->
  (forall p, entry (run d ops) p = entry d p) /\ dirs (run d ops) = dirs d.
Proof.
  intros d ops Hrw Hops. pose proof (run_keeps ops d Hrw Hops) as K.
  split; [apply keeps_entry, K | apply K].
Qed.

Theorem frozen_items : forall d l,
  rw d = false -> forallb ro_item l = true ->
  (forall p, entry (run_items d l) p = entry d p) /\ dirs (run_items d l) = dirs d.
Proof.
  intros d l Hrw Hl. pose proof (run_items_keeps l d Hrw Hl) as K.
  split; [apply keeps_entry, K | apply K].
Qed.

Theorem writes_refused : forall d k n c,
  rw d = false ->
  (step d (Put k n c) = (d, ORefusedWrapper) \/ step d (Put k n c) = (d, ORefusedCache)) /\
  (step d (PpPut k) = (d, ORefusedWrapper) \/ step d (PpPut k) = (d, ORefusedCache)).
Proof. intros d k n c H. split; simpl; [apply do_put_ro | apply do_ppput_ro]; exact H. Qed.

(* ------------------------------------------------------------------ what a read-only open indexes *)

Lemma total_ins e l : total_size (ins_mtime e l) = fst (snd e) + total_size l.
Proof.
  induction l as [|e' r IH]; simpl; [reflexivity|].
  destruct (snd (snd e) <? snd (snd e')); simpl; [reflexivity|]. rewrite IH. lia.
Qed.

Lemma total_sort l : total_size (sort_mtime l) = total_size l.
Proof. induction l as [|e r IH]; simpl; [reflexivity|]. rewrite total_ins, IH. reflexivity. Qed.

Lemma total_filter f l : total_size (filter f l) <= total_size l.
Proof. induction l as [|e r IH]; simpl; [lia|]. destruct (f e); simpl; lia. Qed.

Lemma In_ins x e l : In x (ins_mtime e l) <-> x = e \/ In x l.
Proof.
  induction l as [|e' r IH]; simpl.
  - intuition.
  - destruct (snd (snd e) <? snd (snd e')); simpl; [intuition|]. rewrite IH. intuition.
Qed.

Lemma In_sort x l : In x (sort_mtime l) <-> In x l.
Proof.
  induction l as [|e r IH]; simpl; [tauto|]. rewrite In_ins, IH. intuition.
Qed.

Lemma total_walked w l : total_size (walked w l) <= total_size l.
Proof. unfold walked. rewrite total_sort. apply total_filter. Qed.

Lemma In_total e l : In e l -> fst (snd e) <= total_size l.
Proof. induction l as [|e' r IH]; simpl; [tauto|]. intros [H|H]; [subst; lia | apply IH in H; lia]. Qed.

Lemma lru_insert_fits s k v :
  measure s + v <= cap s ->
  index (lru_insert s k v) = aremove k (index s) ++ [(k, v)] /\ measure (lru_insert s k v) <= measure s + v.
Proof.
  intros H. unfold lru_insert.
  set (m2 := match alookup k (index s) with Some old => measure s + v - old | None => measure s + v end).
  assert (Hm : m2 <= measure s + v) by (unfold m2; destruct (alookup k (index s)); lia).
  rewrite lru_trim_spec by lia. simpl. auto.
Qed.

Lemma amem_insert_idx p k v (idx : list (key * N)) :
  amem p (aremove k idx ++ [(k, v)]) = bytes_eqb p k || amem p idx.
Proof.
  unfold amem. rewrite alookup_app, alookup_aremove. simpl.
  destruct (bytes_eqb p k); [reflexivity|]. destruct (alookup p idx); reflexivity.
Qed.

(* when everything fits, every walked non-temp file gets indexed *)
Lemma fold_ro_all l : forall s,
  measure s + total_size l <= cap s ->
  let s' := fold_left ro_init_add l s in
  (forall p, amem p (index s) = true -> amem p (index s') = true) /\
  (forall e, In e l -> is_temp (fst e) = false -> amem (fst e) (index s') = true).
Proof.
  induction l as [|e r IH]; intros s Hfit; simpl.
  - split; [auto | tauto].
  - simpl in Hfit. destruct e as [k [sz mt]]. simpl in Hfit.
    assert (Hstep : cap (ro_init_add s (k, (sz, mt))) = cap s /\
                    measure (ro_init_add s (k, (sz, mt))) <= measure s + sz /\
                    (forall p, amem p (index s) = true -> amem p (index (ro_init_add s (k, (sz, mt)))) = true) /\
                    (is_temp k = false -> amem k (index (ro_init_add s (k, (sz, mt)))) = true)).
    { unfold ro_init_add. destruct (is_temp k) eqn:Et.
      - repeat split; auto; try lia; try discriminate.
      - destruct (sz <=? cap s) eqn:Ec; [|lia]. simpl.
        destruct (lru_insert_fits s k sz) as [Hi Hm]; [lia|].
        destruct (lru_insert_frame s k sz) as (_ & _ & Hc & _).
        rewrite Hi. repeat split; auto.
        + intros p Hp. rewrite amem_insert_idx, Hp. apply orb_true_r.
        + intros _. rewrite amem_insert_idx, bytes_eqb_refl. reflexivity. }
    destruct Hstep as (Hc & Hm & Hmono & Hk).
    destruct (IH (ro_init_add s (k, (sz, mt)))) as [IH1 IH2]; [rewrite Hc; lia|].
    split.
    + intros p Hp. apply IH1, Hmono, Hp.
    + intros e [He|He] Ht.
      * subst e. simpl in *. apply IH1, Hk, Ht.
      * apply IH2; assumption.
Qed.

(* an index built by a read-only open only names files that are there *)
Lemma fold_ro_sub l : forall s p,
  amem p (index (fold_left ro_init_add l s)) = true ->
  amem p (index s) = true \/ exists v, In (p, v) l.
Proof.
  induction l as [|e r IH]; intros s p H; simpl in *; [auto|].
  apply IH in H. destruct H as [H | [v H]]; [|right; eauto].
  destruct e as [k [sz mt]]. unfold ro_init_add in H.
  destruct (is_temp k); [auto|]. destruct (negb (sz <=? cap s)); [auto|].
  unfold lru_insert in H.
  destruct (lru_trim (aremove k (index s) ++ [(k, sz)]) _ (cap s)) as [idx' m3] eqn:Et. simpl in H.
  assert (H' : amem p (aremove k (index s) ++ [(k, sz)]) = true).
  { eapply lru_trim_sub. rewrite Et. exact H. }
  rewrite amem_insert_idx in H'. apply orb_true_iff in H' as [H'|H']; [|auto].
  apply eqb_true_eq in H'. subst. right. exists (sz, mt). left; reflexivity.
Qed.

Lemma open_ro_sub w c l clk0 p :
  amem p (index (open_ro w c l clk0)) = true -> amem p l = true.
Proof.
  unfold open_ro. intros H. apply fold_ro_sub in H. destruct H as [H | [v H]].
  - discriminate.
  - unfold walked in H. apply (proj1 (In_sort _ _)) in H. apply filter_In in H as [H _]. eapply In_amem; eauto.
Qed.

Lemma open_ro_all w c l clk0 p sz mt :
  total_size l <= c -> alookup p l = Some (sz, mt) -> sel_of w p = true -> is_temp p = false ->
  amem p (index (open_ro w c l clk0)) = true.
Proof.
  intros Hfit Ha Hsel Ht. unfold open_ro.
  destruct (fold_ro_all (walked w l) (fresh c l clk0)) as [_ H].
  - simpl. pose proof (total_walked w l). lia.
  - apply (H (p, (sz, mt))); [|exact Ht].
    unfold walked. apply (proj2 (In_sort _ _)). apply filter_In. split; [apply alookup_In, Ha | exact Hsel].
Qed.

(* ------------------------------------------------------------------ hits are served, misses miss *)

Lemma get_hit s p sz mt :
  amem p (index s) = true -> alookup p (files s) = Some (sz, mt) ->
  exists s' t, get s p = (s', ROk, t) /\ files s' = ains p (sz, clock s + 1) (files s) /\ clock s' = clock s + 1.
Proof.
  intros Hi Hf. unfold get, lru_get. apply amem_alookup in Hi as [isz Hi]. rewrite Hi. simpl. rewrite Hf.
  eexists _, _. split; [reflexivity|]. simpl. auto.
Qed.

Lemma get_miss s p : amem p (index s) = false -> get s p = (s, RNotInCache, None).
Proof.
  intros Hi. unfold get, lru_get. unfold amem in Hi. destruct (alookup p (index s)); [discriminate|reflexivity].
Qed.

Theorem hit_served_main : forall d k sz mt,
  rw d = false -> main d = None -> total_size (fs d) <= dcap d ->
  alookup (main_path k) (fs d) = Some (sz, mt) -> is_temp (main_path k) = false -> min_entry <= sz ->
  snd (step d (Get k)) = OHit.
Proof.
  intros d k sz mt Hrw Hm Hfit Ha Ht Hsz. simpl. unfold do_get, opened. simpl. rewrite Hm, Hrw.
  destruct (open_ro_frame false (dcap d) (fs d) (clk d)) as (Ff & Fc & _).
  pose proof (open_ro_all false (dcap d) (fs d) (clk d) (main_path k) sz mt Hfit Ha eq_refl Ht) as Hi.
  destruct (get_hit (open_ro false (dcap d) (fs d) (clk d)) (main_path k) sz mt Hi) as (s' & t & Eg & Ef & _).
  { rewrite Ff. exact Ha. }
  rewrite Eg. simpl. rewrite Ef, alookup_ains, bytes_eqb_refl.
  destruct (sz <? min_entry) eqn:E; [lia | reflexivity].
Qed.

Lemma starts_with_app a b : starts_with a (a ++ b) = true.
Proof. induction a as [|x a IH]; simpl; [reflexivity|]. rewrite N.eqb_refl. exact IH. Qed.

Lemma under_pp_path k : under_pp (pp_path k) = true.
Proof. unfold under_pp, pp_path. apply starts_with_app. Qed.

Theorem hit_served_pp : forall d k sz mt,
  rw d = false -> pp d = None -> total_size (fs d) <= dcap d ->
  alookup (pp_path k) (fs d) = Some (sz, mt) -> is_temp (pp_path k) = false ->
  snd (step d (PpGet k)) = OFound.
Proof.
  intros d k sz mt Hrw Hm Hfit Ha Ht. simpl. unfold do_ppget, opened. simpl. rewrite Hm, Hrw.
  destruct (open_ro_frame true (dcap d) (fs d) (clk d)) as (Ff & Fc & _).
  pose proof (open_ro_all true (dcap d) (fs d) (clk d) (pp_path k) sz mt Hfit Ha (under_pp_path k) Ht) as Hi.
  destruct (get_hit (open_ro true (dcap d) (fs d) (clk d)) (pp_path k) sz mt Hi) as (s' & t & Eg & _).
  { rewrite Ff. exact Ha. }
  rewrite Eg. reflexivity.
Qed.

(* invariant of a read-only DiskCache: both indexes only name files that exist *)
Definition idx_ok (d : dc) : Prop :=
  forall w s, store_of w d = Some s -> forall p, amem p (index s) = true -> amem p (fs d) = true.

Lemma amem_same_sizes l l' p : same_sizes l l' -> amem p l' = amem p l.
Proof.
  intros H. specialize (H p). unfold amem.
  destruct (alookup p l'), (alookup p l); simpl in H; congruence.
Qed.

Lemma store_get_idx_ok w d k :
  rw d = false -> idx_ok d ->
  let '(d1, s) := opened w d in
  idx_ok (set_store w d1 (fst (fst (get s k)))).
Proof.
  intros Hrw Hok. pose proof (opened_ro w d Hrw) as H. unfold opened in *.
  destruct (store_of w d) as [s0|] eqn:Es.
  - destruct H as (_ & _ & _ & _ & _ & _ & _ & _ & Ff & _).
    pose proof (get_same_sizes (with_env s0 (fs d) (clk d)) k) as Hs.
    intros w' s' Hst p Hp.
    assert (Hfs : amem p (fs (set_store w d (fst (fst (get (with_env s0 (fs d) (clk d)) k))))) = amem p (fs d)).
    { simpl. rewrite (amem_same_sizes _ _ p Hs). reflexivity. }
    rewrite Hfs.
    destruct w, w'; simpl in *.
    + inversion Hst; subst s'. rewrite get_index in Hp. simpl in Hp. eapply (Hok true); eauto.
    + eapply (Hok false); eauto.
    + eapply (Hok true); eauto.
    + inversion Hst; subst s'. rewrite get_index in Hp. simpl in Hp. eapply (Hok false); eauto.
  - rewrite Hrw in *. destruct H as (_ & _ & _ & _ & _ & _ & _ & _ & Ff & _).
    set (s0 := open_ro w (dcap d) (fs d) (clk d)) in *.
    pose proof (get_same_sizes s0 k) as Hs.
    intros w' s' Hst p Hp.
    assert (Hfs : amem p (fs (set_store w (set_store w d s0) (fst (fst (get s0 k))))) = amem p (fs d)).
    { simpl. rewrite (amem_same_sizes _ _ p Hs). rewrite Ff. reflexivity. }
    rewrite Hfs.
    assert (Hopen : forall q, amem q (index s0) = true -> amem q (fs d) = true)
      by (intros q; apply open_ro_sub).
    destruct w, w'; simpl in *.
    + inversion Hst; subst s'. rewrite get_index in Hp. apply Hopen, Hp.
    + eapply (Hok false); eauto.
    + eapply (Hok true); eauto.
    + inversion Hst; subst s'. rewrite get_index in Hp. apply Hopen, Hp.
Qed.

Lemma step_idx_ok d o : rw d = false -> ro_op o = true -> idx_ok d -> idx_ok (fst (step d o)).
Proof.
  intros Hrw Ho Hok. destruct o as [k|k n c|k|k|r w c]; simpl.
  - unfold do_get. pose proof (store_get_idx_ok false d (main_path k) Hrw Hok) as H.
    destruct (opened false d) as [d1 s]. destruct (get s (main_path k)) as [[s' r] t]. exact H.
  - destruct (do_put_ro d k n c Hrw) as [E|E]; rewrite E; exact Hok.
  - unfold do_ppget. pose proof (store_get_idx_ok true d (pp_path k) Hrw Hok) as H.
    destruct (opened true d) as [d1 s]. destruct (get s (pp_path k)) as [[s' r] t]. exact H.
  - destruct (do_ppput_ro d k Hrw) as [E|E]; rewrite E; exact Hok.
  - intros w' s' Hst. destruct w'; discriminate.
Qed.

Lemma run_idx_ok ops : forall d, rw d = false -> forallb ro_op ops = true -> idx_ok d -> idx_ok (run d ops).
Proof.
  induction ops as [|o r IH]; intros d Hrw Hops Hok; simpl; [exact Hok|].
  simpl in Hops. apply andb_true_iff in Hops as [Ho Hr].
  apply IH; [apply (step_keeps d o Hrw Ho) | exact Hr | apply step_idx_ok; assumption].
Qed.

Lemma miss_when_absent d k :
  rw d = false -> idx_ok d -> alookup (main_path k) (fs d) = None -> snd (step d (Get k)) = OMiss.
Proof.
  intros Hrw Hok Ha. simpl. unfold do_get.
  pose proof (opened_ro false d Hrw) as H. unfold opened in *.
  assert (Hno : amem (main_path k) (fs d) = false) by (unfold amem; rewrite Ha; reflexivity).
  destruct (store_of false d) as [s0|] eqn:Es.
  - rewrite get_miss; [reflexivity|]. simpl.
    destruct (amem (main_path k) (index s0)) eqn:E; [|reflexivity].
    rewrite (Hok false s0 Es _ E) in Hno. discriminate.
  - rewrite Hrw in *. rewrite get_miss; [reflexivity|].
    destruct (amem (main_path k) (index (open_ro false (dcap d) (fs d) (clk d)))) eqn:E; [|reflexivity].
    apply open_ro_sub in E. rewrite E in Hno. discriminate.
Qed.

(* after ANY read-only history of a freshly started server: an entry that is not in the directory is a
   miss, and the store of the compiled result is refused without touching the state *)
Theorem miss_compiles : forall d ops k n c,
  rw d = false -> main d = None -> pp d = None -> forallb ro_op ops = true ->
  alookup (main_path k) (fs d) = None ->
  let d' := run d ops in
  snd (step d' (Get k)) = OMiss /\
  (step d' (Put k n c) = (d', ORefusedWrapper) \/ step d' (Put k n c) = (d', ORefusedCache)).
Proof.
  intros d ops k n c Hrw Hm Hp Hops Ha d'.
  pose proof (run_keeps ops d Hrw Hops) as K.
  assert (Hok : idx_ok d) by (intros w s Hs; destruct w; simpl in Hs; congruence).
  pose proof (run_idx_ok ops d Hrw Hops Hok) as Hok'. fold d' in K, Hok'.
  split.
  - apply miss_when_absent; [apply K | exact Hok' |].
    pose proof (k_sizes _ _ K (main_path k)) as Hs. rewrite Ha in Hs.
    destruct (alookup (main_path k) (fs d')); [discriminate | reflexivity].
  - apply do_put_ro, K.
Qed.

(* a served lookup is visible on disk: the entry's mtime becomes the new current time *)
Theorem mtime_touched : forall d k,
  rw d = false -> snd (step d (Get k)) = OHit ->
  let d' := fst (step d (Get k)) in
  clk d' = clk d + 1 /\ exists sz, alookup (main_path k) (fs d') = Some (sz, clk d + 1).
Proof.
  intros d k Hrw. simpl. unfold do_get.
  pose proof (opened_ro false d Hrw) as H. destruct (opened false d) as [d1 s].
  destruct H as (_ & _ & _ & _ & _ & _ & _ & _ & Ff & Fc & _).
  pose proof (get_effect s (main_path k)) as G. destruct (get s (main_path k)) as [[s' r] t].
  simpl. intros Hout.
  destruct G as [(Hr & _) | (_ & sz & m & Ha & Hf & Hc)].
  - destruct r; try discriminate. congruence.
  - rewrite Fc in Hc, Hf. rewrite Hc. split; [reflexivity|]. exists sz. rewrite Hf, alookup_ains, bytes_eqb_refl. reflexivity.
Qed.

(* the read-write open (what read-only mode used before the fix) does delete: S12's witness *)
Definition s12_dir : fmap :=
  [ ([97;47;98;47;97;98;99;100], (30, 1)); ([99;47;100;47;99;100;101;102], (30, 2));
    ([101;47;102;47;101;102;48;49], (30, 3)) ].

Theorem rw_open_evicts :
  exists l c p, total_size l > c /\ alookup p l <> None /\
                alookup p (files (open_rw false c l 1000)) = None /\
                alookup p (files (open_ro false c l 1000)) = alookup p l.
Proof.
  exists s12_dir, 60, [97;47;98;47;97;98;99;100]. vm_compute. repeat split; congruence.
Qed.

(* ------------------------------------------------------------------ canonical (sorted) directory maps:
   list-level statements and "served after any history" *)

Lemma ltb_irrefl a : bytes_ltb a a = false.
Proof. induction a as [|x a IH]; simpl; [reflexivity|]. rewrite N.ltb_irrefl. exact IH. Qed.

Lemma ltb_trans : forall a b c, bytes_ltb a b = true -> bytes_ltb b c = true -> bytes_ltb a c = true.
Proof.
  induction a as [|x a IH]; intros [|y b] [|z c]; simpl; try discriminate; auto.
  destruct (x <? y) eqn:E1.
  - intros _. destruct (y <? z) eqn:E2.
    + intros _. assert (x <? z = true) by lia. rewrite H. reflexivity.
    + destruct (z <? y) eqn:E3; [discriminate|]. intros _.
      assert (x <? z = true) by lia. rewrite H. reflexivity.
  - destruct (y <? x) eqn:E2; [discriminate|]. intros H1.
    destruct (y <? z) eqn:E3.
    + intros _. assert (x <? z = true) by lia. rewrite H. reflexivity.
    + destruct (z <? y) eqn:E4; [discriminate|]. intros H2.
      assert (x <? z = false) by lia. assert (z <? x = false) by lia. rewrite H, H0. eapply IH; eauto.
Qed.

Lemma ltb_neq a b : bytes_ltb a b = true -> bytes_eqb a b = false.
Proof.
  intros H. destruct (bytes_eqb a b) eqn:E; [|reflexivity].
  apply eqb_true_eq in E. subst. rewrite ltb_irrefl in H. discriminate.
Qed.

Fixpoint ksorted {V} (l : list (key * V)) : Prop :=
  match l with
  | [] => True
  | (k, _) :: r => (forall e, In e r -> bytes_ltb k (fst e) = true) /\ ksorted r
  end.

Lemma alookup_above {V} k (l : list (key * V)) :
  (forall e, In e l -> bytes_ltb k (fst e) = true) -> alookup k l = None.
Proof.
  induction l as [|[k' v'] r IH]; intros H; simpl; [reflexivity|].
  rewrite (ltb_neq k k') by (apply (H (k', v')); left; reflexivity).
  apply IH. intros e He. apply H. right; exact He.
Qed.

Lemma In_ains {V} e k (v : V) l : In e (ains k v l) -> e = (k, v) \/ In e l.
Proof.
  induction l as [|[k' v'] r IH]; simpl.
  - intros [H|[]]; auto.
  - destruct (bytes_eqb k k'); [|destruct (bytes_ltb k k')]; simpl.
    + intros [H|H]; auto.
    + intros [H|[H|H]]; auto.
    + intros [H|H]; auto. apply IH in H. destruct H; auto.
Qed.

Lemma ksorted_ains {V} k (v : V) l : ksorted l -> ksorted (ains k v l).
Proof.
  induction l as [|[k' v'] r IH]; simpl.
  - intros _. split; [intros e []| exact I].
  - intros [Hlt Hs]. destruct (bytes_eqb k k') eqn:Eeq.
    + apply eqb_true_eq in Eeq. subst k'. simpl. split; assumption.
    + destruct (bytes_ltb k k') eqn:Elt; simpl.
      * split; [|split; assumption].
        intros e [He|He]; [subst e; exact Elt|]. eapply ltb_trans; [exact Elt | apply Hlt, He].
      * split; [|apply IH, Hs].
        intros e He. apply In_ains in He as [He|He]; [|apply Hlt, He].
        subst e. simpl.
        (* k' < k: neither k = k' nor k < k' *)
        clear -Eeq Elt. revert k' Eeq Elt. induction k as [|x k IHk]; intros [|y k']; simpl; try discriminate; auto.
        destruct (x <? y) eqn:E1; [discriminate|]. destruct (y <? x) eqn:E2; [reflexivity|].
        assert (x = y) by lia. subst y. rewrite N.eqb_refl. simpl. intros A B. apply IHk; assumption.
Qed.

Definition proj (e : key * (N * N)) : key * N := (fst e, fst (snd e)).

Lemma ains_bump l : forall k sz m m',
  ksorted l -> alookup k l = Some (sz, m) -> map proj (ains k (sz, m') l) = map proj l.
Proof.
  induction l as [|[k' [sz' mt']] r IH]; intros k sz m m' Hs Ha; simpl in *; [discriminate|].
  destruct Hs as [Hlt Hs]. destruct (bytes_eqb k k') eqn:Eeq.
  - apply eqb_true_eq in Eeq. subst k'. inversion Ha; subst. reflexivity.
  - destruct (bytes_ltb k k') eqn:Elt.
    + exfalso. rewrite alookup_above in Ha; [discriminate|].
      intros e He. eapply ltb_trans; [exact Elt | apply Hlt, He].
    + simpl. f_equal. eapply IH; eauto.
Qed.

Lemma total_proj l : total_size l = fold_right (fun e a => snd e + a) 0 (map proj l).
Proof. induction l as [|e r IH]; simpl; [reflexivity|]. rewrite IH. reflexivity. Qed.

(* Lru.get on a canonical directory: the (path, size) listing is literally the same list *)
Lemma get_listing s k :
  ksorted (files s) ->
  ksorted (files (fst (fst (get s k)))) /\ map proj (files (fst (fst (get s k)))) = map proj (files s).
Proof.
  intros Hs. pose proof (get_effect s k) as H. destruct (get s k) as [[s' r] t]. simpl.
  destruct H as [(_ & Hf & _) | (_ & sz & m & Ha & Hf & _)]; rewrite Hf.
  - auto.
  - split; [apply ksorted_ains, Hs | eapply ains_bump; eauto].
Qed.

(* invariant of a read-only cache whose (canonical) directory fits its size: every opened store
   indexes every entry that is there *)
Record served (d : dc) : Prop := {
  sv_rw : rw d = false;
  sv_sorted : ksorted (fs d);
  sv_fits : total_size (fs d) <= dcap d;
  sv_idx : forall w s, store_of w d = Some s ->
           forall p sz mt, alookup p (fs d) = Some (sz, mt) -> sel_of w p = true -> is_temp p = false ->
                           amem p (index s) = true
}.

Lemma lookup_proj l l' p : map proj l' = map proj l ->
  option_map fst (alookup p l') = option_map fst (alookup p l).
Proof.
  revert l'. induction l as [|[k [sz mt]] r IH]; intros [|[k' [sz' mt']] r'] H; simpl in *; try discriminate; auto.
  inversion H; subst. destruct (bytes_eqb p k); simpl; auto.
Qed.

Lemma served_get w d k :
  served d ->
  let '(d1, s) := opened w d in
  served (set_store w d1 (fst (fst (get s k)))) /\
  map proj (fs (set_store w d1 (fst (fst (get s k))))) = map proj (fs d).
Proof.
  intros [Hrw Hso Hfit Hidx]. pose proof (opened_ro w d Hrw) as H.
  destruct (opened w d) as [d1 s] eqn:Eo.
  destruct H as (A1 & A2 & A3 & A4 & A5 & A6 & A7 & A8 & Ff & Fc & Fo).
  assert (Hs : ksorted (files s)) by (rewrite Ff; exact Hso).
  destruct (get_listing s k Hs) as [Hs' Hp].
  assert (Hidx_s : forall p sz mt, alookup p (fs d) = Some (sz, mt) -> sel_of w p = true -> is_temp p = false ->
                                   amem p (index s) = true).
  { unfold opened in Eo. destruct (store_of w d) as [s0|] eqn:Es.
    - inversion Eo; subst. simpl. intros p sz mt. apply (Hidx w s0 Es).
    - rewrite Hrw in Eo. inversion Eo; subst. intros p sz mt Ha Hsel Ht.
      eapply open_ro_all; eauto. }
  split; [|simpl; rewrite Hp, Ff; reflexivity].
  constructor.
  - simpl. exact A1.
  - simpl. exact Hs'.
  - simpl. rewrite total_proj, Hp, <- total_proj, Ff, A3. exact Hfit.
  - intros w' s' Hst p sz mt Ha Hsel Ht. simpl in Ha.
    assert (Ha' : exists mt0, alookup p (fs d) = Some (sz, mt0)).
    { pose proof (lookup_proj (files s) _ p Hp) as E. rewrite Ha, Ff in E. simpl in E.
      destruct (alookup p (fs d)) as [[sz0 mt0]|]; [|discriminate]. simpl in E. inversion E; subst. eauto. }
    destruct Ha' as [mt0 Ha'].
    destruct w, w'; simpl in Hst.
    + inversion Hst; subst s'. rewrite get_index. eapply Hidx_s; eauto.
    + simpl in Fo. eapply (Hidx false s'); eauto. simpl. rewrite <- Fo. exact Hst.
    + simpl in Fo. eapply (Hidx true s'); eauto. simpl. rewrite <- Fo. exact Hst.
    + inversion Hst; subst s'. rewrite get_index. eapply Hidx_s; eauto.
Qed.

(* restarts keep the invariant as long as the (new) size still fits the directory *)
Definition ro_op_fits (t : N) (o : op) : bool :=
  match o with Restart r _ c => negb r && (t <=? c) | _ => true end.

Lemma step_served d o :
  served d -> ro_op_fits (total_size (fs d)) o = true ->
  served (fst (step d o)) /\ map proj (fs (fst (step d o))) = map proj (fs d).
Proof.
  intros Hsv Ho. pose proof (sv_rw d Hsv) as Hrw. destruct o as [k|k n c|k|k|r w c]; simpl.
  - unfold do_get. pose proof (served_get false d (main_path k) Hsv) as H.
    destruct (opened false d) as [d1 s]. destruct (get s (main_path k)) as [[s' r] t]. exact H.
  - destruct (do_put_ro d k n c Hrw) as [E|E]; rewrite E; auto.
  - unfold do_ppget. pose proof (served_get true d (pp_path k) Hsv) as H.
    destruct (opened true d) as [d1 s]. destruct (get s (pp_path k)) as [[s' r] t]. exact H.
  - destruct (do_ppput_ro d k Hrw) as [E|E]; rewrite E; auto.
  - simpl in Ho. apply andb_true_iff in Ho as [Hr Hc]. destruct r; [discriminate|].
    split; [|reflexivity]. destruct Hsv as [_ Hso Hfit _]. constructor; simpl; auto; [lia|].
    intros w' s' Hst. destruct w'; discriminate.
Qed.

Lemma run_served ops : forall d,
  served d -> forallb (ro_op_fits (total_size (fs d))) ops = true ->
  served (run d ops) /\ map proj (fs (run d ops)) = map proj (fs d).
Proof.
  induction ops as [|o r IH]; intros d Hsv Hops; simpl; [auto|].
  simpl in Hops. apply andb_true_iff in Hops as [Ho Hr].
  destruct (step_served d o Hsv Ho) as [H1 H2].
  assert (Ht : total_size (fs (fst (step d o))) = total_size (fs d)) by (rewrite !total_proj, H2; reflexivity).
  destruct (IH (fst (step d o)) H1) as [H3 H4]; [rewrite Ht; exact Hr|].
  split; [exact H3 | congruence].
Qed.

Lemma served_hit d k sz mt :
  served d -> alookup (main_path k) (fs d) = Some (sz, mt) -> is_temp (main_path k) = false -> min_entry <= sz ->
  snd (step d (Get k)) = OHit.
Proof.
  intros [Hrw Hso Hfit Hidx] Ha Ht Hsz. simpl. unfold do_get.
  pose proof (opened_ro false d Hrw) as H. destruct (opened false d) as [d1 s] eqn:Eo.
  destruct H as (_ & _ & _ & _ & _ & _ & _ & _ & Ff & Fc & _).
  assert (Hi : amem (main_path k) (index s) = true).
  { unfold opened in Eo. destruct (store_of false d) as [s0|] eqn:Es.
    - inversion Eo; subst. simpl. eapply (Hidx false s0 Es); eauto.
    - rewrite Hrw in Eo. inversion Eo; subst. eapply open_ro_all; eauto. }
  destruct (get_hit s (main_path k) sz mt Hi) as (s' & t & Eg & Ef & _); [rewrite Ff; exact Ha|].
  rewrite Eg. simpl. rewrite Ef, alookup_ains, bytes_eqb_refl.
  destruct (sz <? min_entry) eqn:E; [lia | reflexivity].
Qed.

Lemma served_found d k sz mt :
  served d -> alookup (pp_path k) (fs d) = Some (sz, mt) -> is_temp (pp_path k) = false ->
  snd (step d (PpGet k)) = OFound.
Proof.
  intros [Hrw Hso Hfit Hidx] Ha Ht. simpl. unfold do_ppget.
  pose proof (opened_ro true d Hrw) as H. destruct (opened true d) as [d1 s] eqn:Eo.
  destruct H as (_ & _ & _ & _ & _ & _ & _ & _ & Ff & Fc & _).
  assert (Hi : amem (pp_path k) (index s) = true).
  { unfold opened in Eo. destruct (store_of true d) as [s0|] eqn:Es.
    - inversion Eo; subst. simpl. eapply (Hidx true s0 Es); eauto; try apply under_pp_path.
    - rewrite Hrw in Eo. inversion Eo; subst. eapply open_ro_all; eauto; try apply under_pp_path. }
  destruct (get_hit s (pp_path k) sz mt Hi) as (s' & t & Eg & _); [rewrite Ff; exact Ha|].
  rewrite Eg. reflexivity.
Qed.

(* decidable form of ksorted for the statement *)
Fixpoint ksortedb {V} (l : list (key * V)) : bool :=
  match l with
  | [] => true
  | (k, _) :: r => forallb (fun e => bytes_ltb k (fst e)) r && ksortedb r
  end.

Lemma ksortedb_ok {V} (l : list (key * V)) : ksortedb l = true -> ksorted l.
Proof.
  induction l as [|[k v] r IH]; simpl; [auto|].
  intros H. apply andb_true_iff in H as [H1 H2]. split; [|apply IH, H2].
  intros e He. rewrite forallb_forall in H1. apply H1, He.
Qed.

(* for ALL read-only histories (lookups, refused stores, restarts whose size still fits) of a freshly
   started cache over a canonical directory that fits: the (path, size) listing stays literally the same
   list, and every entry that is there is served *)
Theorem hits_served_always : forall d ops,
  rw d = false -> main d = None -> pp d = None -> ksortedb (fs d) = true -> total_size (fs d) <= dcap d ->
  forallb (ro_op_fits (total_size (fs d))) ops = true ->
  let d' := run d ops in
  map proj (fs d') = map proj (fs d) /\
  forall k sz mt,
    (alookup (main_path k) (fs d) = Some (sz, mt) -> is_temp (main_path k) = false -> min_entry <= sz ->
     snd (step d' (Get k)) = OHit) /\
    (alookup (pp_path k) (fs d) = Some (sz, mt) -> is_temp (pp_path k) = false ->
     snd (step d' (PpGet k)) = OFound).
Proof.
  intros d ops Hrw Hm Hp Hso Hfit Hops d'.
  assert (Hsv : served d).
  { constructor; auto; [apply ksortedb_ok, Hso|]. intros w s Hs. destruct w; simpl in Hs; congruence. }
  destruct (run_served ops d Hsv Hops) as [Hsv' Hpr]. fold d' in Hsv', Hpr.
  split; [exact Hpr|]. intros k sz mt.
  assert (Hl : forall p sz0 mt0, alookup p (fs d) = Some (sz0, mt0) -> exists mt1, alookup p (fs d') = Some (sz0, mt1)).
  { intros p sz0 mt0 Ha. pose proof (lookup_proj (fs d) (fs d') p Hpr) as E. rewrite Ha in E. simpl in E.
    destruct (alookup p (fs d')) as [[sz1 mt1]|]; [|discriminate]. simpl in E. inversion E; subst. eauto. }
  split.
  - intros Ha Ht Hsz. destruct (Hl _ _ _ Ha) as [mt1 Ha']. eapply served_hit; eauto.
  - intros Ha Ht. destruct (Hl _ _ _ Ha) as [mt1 Ha']. eapply served_found; eauto.
Qed.
