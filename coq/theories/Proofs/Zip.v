(* Proofs/Zip.v — proofs about Model/Zip.v.
   1. layout of the written entry (write_zip_spec) and what the reader makes of it: locate_tail, open_tail (the
      reader's view of the directory depends only on the LENGTH of what precedes it), parse_central_ch,
      read_member_region (a member's data region may hold any bytes of the right length: accepted iff the CRC
      matches);
   2. round trip of sccache's glue (roundtrip, roundtrip_unpack);
   3. a substituted payload byte makes the member unreadable and the cache-hit path a miss;
   4. every proper prefix fails to open when the EOCD signature is unique;
   5. the reader never looks at the 22 metadata bytes and the name of a local header (local_headers_ignored);
      whatever it extracts carries the CRC recorded in the directory (read_member_crc);
   6. a concrete entry: non-vacuity of the hypotheses, and the witnesses of what the unprotected central
      directory allows (mode change, dropped stderr, dropped optional object — all cache hits). *)
From Coq Require Import List NArith Bool Lia Arith.
From Sccache Require Import Model.Crc32 Model.Zip Proofs.Crc32 Proofs.ZipBase.
Import ListNotations.
Local Open Scope N_scope.
#[global] Arguments le16 _ : simpl never.
#[global] Arguments le32 _ : simpl never.
#[global] Arguments get16 _ : simpl never.
#[global] Arguments get32 _ : simpl never.
#[global] Arguments get64 _ : simpl never.
#[global] Arguments split_at _ _ : simpl never.
#[global] Arguments dropN _ _ : simpl never.
#[global] Arguments takeN _ _ : simpl never.
#[global] Arguments lenN _ : simpl never.
#[global] Arguments crc32 _ : simpl never.
#[global] Arguments decode_name _ _ : simpl never.

(* ------------------------------------------------------------------ layout of the written entry *)
Definition lh (m : member) : list N := local_header (m_name m) (crc32 (m_data m)) (lenN (m_data m)).
Definition ch (m : member) (off : N) : list N :=
  central_header (m_name m) (m_perm m) (crc32 (m_data m)) (lenN (m_data m)) off.
Definition msize (m : member) : N := 30 + lenN (m_name m) + lenN (m_data m).

Fixpoint body_bytes (ms : list member) : list N :=
  match ms with [] => [] | m :: r => lh m ++ m_data m ++ body_bytes r end.
Fixpoint cd_bytes (ms : list member) (off : N) : list N :=
  match ms with [] => [] | m :: r => ch m off ++ cd_bytes r (off + msize m) end.

Lemma lenN_local_header name crc len : lenN (local_header name crc len) = 30 + lenN name.
Proof. unfold local_header. rewrite !lenN_app, !lenN_le16, !lenN_le32. lia. Qed.

Lemma lenN_central_header name perm crc len off : lenN (central_header name perm crc len off) = 46 + lenN name.
Proof. unfold central_header. rewrite !lenN_app, !lenN_le16, !lenN_le32. lia. Qed.

Lemma lenN_eocd a b c : lenN (eocd a b c) = 22.
Proof. reflexivity. Qed.

Lemma lenN_lh m : lenN (lh m) = 30 + lenN (m_name m).
Proof. apply lenN_local_header. Qed.

Lemma lenN_ch m off : lenN (ch m off) = 46 + lenN (m_name m).
Proof. apply lenN_central_header. Qed.

Lemma lay_spec ms : forall off,
  let '(body, cd, fin) := lay ms off in
  concat body = body_bytes ms /\ concat cd = cd_bytes ms off /\ fin = off + lenN (body_bytes ms).
Proof.
  induction ms as [|m ms IH]; intro off; cbn.
  - repeat split. rewrite lenN_nil. lia.
  - specialize (IH (off + lenN (local_header (m_name m) (crc32 (m_data m)) (lenN (m_data m))) + lenN (m_data m))).
    destruct (lay ms _) as [[body cd] fin]. destruct IH as (Hb & Hc & Hf). cbn.
    rewrite Hb, Hc, Hf. fold (lh m). fold (ch m off). rewrite !lenN_app, lenN_lh.
    unfold msize. repeat split.
    + f_equal. f_equal. lia.
    + lia.
Qed.

Definition count_of (ms : list member) : N := lenN (map m_perm ms).

Lemma write_zip_spec ms :
  write_zip ms = body_bytes ms ++ cd_bytes ms 0
                 ++ eocd (count_of ms) (lenN (cd_bytes ms 0)) (lenN (body_bytes ms)).
Proof.
  unfold write_zip, zip_chunks. pose proof (lay_spec ms 0) as H.
  destruct (lay ms 0) as [[body cd] fin]. destruct H as (Hb & Hc & Hf).
  rewrite cat_concat, !concat_app, Hb, Hc, sumlen_concat, Hc, Hf. cbn [concat]. rewrite app_nil_r, N.add_0_l. reflexivity.
Qed.

Lemma writable_spec ms :
  writable ms = true <->
  (forall m, In m ms -> lenN (m_data m) <= U32MAX) /\ count_of ms <= U16MAX
  /\ lenN (body_bytes ms) <= U32MAX /\ lenN (cd_bytes ms 0) <= U32MAX.
Proof.
  unfold writable. pose proof (lay_spec ms 0) as H.
  destruct (lay ms 0) as [[body cd] fin]. destruct H as (Hb & Hc & Hf).
  rewrite sumlen_concat, Hc, Hf, N.add_0_l. fold (count_of ms).
  rewrite !andb_true_iff, forallb_forall, !N.leb_le.
  split; [intros (((H1 & H2) & H3) & H4)|intros (H1 & H2 & H3 & H4)]; repeat split; auto;
    intros m Hm; specialize (H1 m Hm); now apply N.leb_le in H1 || now apply N.leb_le.
Qed.
(* ------------------------------------------------------------------ what the reader makes of the directory *)
Definition name_ok (name : list N) : bool := is_ascii name || beq (utf8_lossy name) name.

Lemma decode_name_ok name : name_ok name = true -> decode_name (negb (is_ascii name)) name = name.
Proof.
  unfold name_ok, decode_name. destruct (is_ascii name) eqn:E; simpl.
  - intros _. unfold from_cp437. now rewrite E.
  - intro H. now apply beq_eq.
Qed.

Definition cent_of (m : member) (off : N) : cent :=
  mkCent (m_name m) 3 false 0 false (crc32 (m_data m)) (lenN (m_data m)) off (m_perm m * 65536).

Fixpoint cents_of (ms : list member) (off : N) : list cent :=
  match ms with [] => [] | m :: r => cent_of m off :: cents_of r (off + msize m) end.

Definition mwf (m : member) : Prop :=
  name_ok (m_name m) = true /\ lenN (m_name m) < 65536 /\ lenN (m_data m) <= U32MAX /\ m_perm m < 65536.

Lemma split_at_0 l : split_at 0 l = Some ([], l).
Proof. unfold split_at. rewrite takeN_firstn. cbn. now rewrite dropN_0. Qed.

Lemma gp_flags_bit11 name : N.testbit (gp_flags name) 11 = negb (is_ascii name).
Proof. unfold gp_flags. destruct (is_ascii name); reflexivity. Qed.
Lemma gp_flags_bit0 name : N.testbit (gp_flags name) 0 = false.
Proof. unfold gp_flags. destruct (is_ascii name); reflexivity. Qed.
Lemma gp_flags_lt name : gp_flags name < 65536.
Proof. unfold gp_flags. destruct (is_ascii name); reflexivity. Qed.

Ltac g16 := rewrite get16_le16 by (first [reflexivity | assumption | lia | apply gp_flags_lt]); cbv beta iota.
Ltac g32 := rewrite get32_le32 by (first [reflexivity | assumption | lia]); cbv beta iota.

Lemma parse_central_ch m off rest :
  mwf m -> off < 4294967296 ->
  parse_central (ch m off ++ rest) 0 = Some (cent_of m off, rest).
Proof.
  intros (Hn & Hl & Hd & Hp) Ho.
  assert (Hc := crc32_bound (m_data m)).
  assert (Hd' : lenN (m_data m) < 4294967296) by (unfold U32MAX in Hd; lia).
  assert (Ha : m_perm m * 65536 < 4294967296) by lia.
  unfold ch, central_header. rewrite <- !app_assoc. unfold parse_central.
  g32. change (N.eqb SIG_CENTRAL SIG_CENTRAL) with true. cbv beta iota. cbn [negb].
  do 6 g16. do 3 g32. do 5 g16. do 2 g32.
  rewrite split_at_app. cbv beta iota. rewrite !split_at_0. cbv beta iota.
  cbn [length parse_extra x_method x_aes x_hstart x_csize].
  change (N.eqb 0 99) with false. cbn [andb].
  rewrite N.add_0_r.
  replace (N.leb TWO64 off) with false by (symmetry; apply N.leb_gt; unfold TWO64; lia).
  rewrite gp_flags_bit11, gp_flags_bit0, decode_name_ok by assumption.
  reflexivity.
Qed.

Lemma lenN_cd_bytes_ge ms : forall off, 46 * N.of_nat (length ms) <= lenN (cd_bytes ms off).
Proof.
  induction ms as [|m ms IH]; intro off; cbn [cd_bytes length].
  - rewrite lenN_nil. lia.
  - rewrite lenN_app, lenN_ch. specialize (IH (off + msize m)). lia.
Qed.

Lemma lenN_body_bytes_cons m ms : lenN (body_bytes (m :: ms)) = msize m + lenN (body_bytes ms).
Proof. cbn [body_bytes]. rewrite !lenN_app, lenN_lh. unfold msize. lia. Qed.

Lemma parse_cd_cents ms : forall off rest acc,
  Forall mwf ms -> off + lenN (body_bytes ms) < 4294967296 ->
  parse_cd (length ms) (N.of_nat (length ms)) (cd_bytes ms off ++ rest) 0 acc
  = Some (rev acc ++ cents_of ms off).
Proof.
  induction ms as [|m ms IH]; intros off rest acc Hwf Hoff.
  - cbn. now rewrite rev_append_rev, !app_nil_r.
  - inversion Hwf as [|? ? Hm Hms]; subst. rewrite lenN_body_bytes_cons in Hoff.
    cbn [length cd_bytes]. rewrite <- app_assoc.
    unfold parse_cd; fold parse_cd.
    replace (N.eqb (N.of_nat (S (length ms))) 0) with false by (symmetry; apply N.eqb_neq; lia).
    rewrite parse_central_ch by (auto; lia).
    replace (N.pred (N.of_nat (S (length ms)))) with (N.of_nat (length ms)) by lia.
    rewrite IH by (auto; lia). cbn [cents_of rev]. now rewrite <- app_assoc.
Qed.
(* ------------------------------------------------------------------ locating the directory *)
Definition no_z64_locator (bs : list N) : bool :=
  if N.leb 42 (lenN bs) then
    match get32 (dropN (lenN bs - 42) bs) with
    | Some (sig, _) => negb (N.eqb sig SIG_Z64_LOC)
    | None => true
    end
  else true.

Definition eocd_tail (count cdsize cdoff : N) : list N :=
  le16 0 ++ le16 0 ++ le16 count ++ le16 count ++ le32 cdsize ++ le32 cdoff ++ le16 0.

Lemma eocd_split count cdsize cdoff : eocd count cdsize cdoff = le32 SIG_EOCD ++ eocd_tail count cdsize cdoff.
Proof. reflexivity. Qed.

Lemma lenN_eocd_tail a b c : lenN (eocd_tail a b c) = 18.
Proof. reflexivity. Qed.

Lemma get16_le16_end n : n < 65536 -> get16 (le16 n) = Some (n, []).
Proof. intro H. rewrite <- (app_nil_r (le16 n)). now apply get16_le16. Qed.

Lemma ltb_0_r x : N.ltb x 0 = false.
Proof. apply N.ltb_ge. apply N.le_0_l. Qed.

Lemma locate_tail X cd count :
  count < 65536 -> lenN cd < 4294967296 -> lenN X < 4294967296 ->
  no_z64_locator (X ++ cd ++ eocd count (lenN cd) (lenN X)) = true ->
  locate_directory (X ++ cd ++ eocd count (lenN cd) (lenN X)) = Some (mkDir 0 (lenN X) count).
Proof.
  intros Hc Hcd HX Hz.
  set (bs := X ++ cd ++ eocd count (lenN cd) (lenN X)) in *.
  assert (HL : lenN bs = lenN X + lenN cd + 22).
  { unfold bs. rewrite !lenN_app, lenN_eocd. lia. }
  assert (Hbs : bs = (X ++ cd) ++ eocd count (lenN cd) (lenN X)) by (unfold bs; now rewrite app_assoc).
  unfold locate_directory. rewrite HL.
  replace (N.ltb (lenN X + lenN cd + 22) 22) with false by (symmetry; apply N.ltb_ge; lia).
  replace (lenN X + lenN cd + 22 - 22) with (lenN (X ++ cd)) by (rewrite lenN_app; lia).
  (* the backward scan hits the real signature at once *)
  assert (Hscan : forall cnt, cnt <> 0 ->
            scan_eocd (dropN 18 (rev_append bs [])) (lenN (X ++ cd)) cnt = Some (lenN (X ++ cd))).
  { intros cnt Hcnt. rewrite rev_append_rev, app_nil_r, Hbs, eocd_split, !rev_app_distr, <- !app_assoc.
    replace 18 with (lenN (rev (eocd_tail count (lenN cd) (lenN X))))
      by (rewrite lenN_length, rev_length, <- lenN_length; apply lenN_eocd_tail).
    rewrite dropN_app_exact. change (rev (le32 SIG_EOCD)) with [6; 5; 75; 80].
    cbn [app scan_eocd]. apply N.eqb_neq in Hcnt. rewrite Hcnt. reflexivity. }
  rewrite Hscan by lia.
  rewrite Hbs at 1. rewrite dropN_app_exact.
  unfold eocd. rewrite <- ?app_assoc.
  g32. do 4 g16. do 2 g32. rewrite get16_le16_end by reflexivity. cbv beta iota.
  rewrite ltb_0_r. rewrite (N.eqb_refl 0). cbn [negb]. rewrite andb_false_r.
  (* no ZIP64 locator *)
  unfold no_z64_locator in Hz. rewrite HL in Hz. rewrite N.add_0_r.
  assert (Hloc : (if N.leb 42 (lenN X + lenN cd + 22)
                  then match get32 (dropN (lenN X + lenN cd + 22 - 42) bs) with
                       | Some (sig, s1) => if N.eqb sig SIG_Z64_LOC then Some s1 else None
                       | None => None
                       end
                  else None) = None).
  { destruct (N.leb 42 (lenN X + lenN cd + 22)); [|reflexivity].
    destruct (get32 (dropN (lenN X + lenN cd + 22 - 42) bs)) as [[sig s1]|]; [|reflexivity].
    apply negb_true_iff in Hz. now rewrite Hz. }
  rewrite Hloc.
  rewrite lenN_app.
  replace (N.ltb (lenN X + lenN cd) (lenN cd + lenN X)) with false by (symmetry; apply N.ltb_ge; lia).
  f_equal. f_equal; lia.
Qed.
Lemma count_of_length ms : count_of ms = N.of_nat (length ms).
Proof. unfold count_of. now rewrite lenN_length, map_length. Qed.

(* the reader's view of the directory does not depend on what precedes it, only on its length *)
Lemma open_tail ms X :
  Forall mwf ms -> lenN X = lenN (body_bytes ms) ->
  count_of ms <= U16MAX -> lenN (body_bytes ms) <= U32MAX -> lenN (cd_bytes ms 0) <= U32MAX ->
  no_z64_locator (X ++ cd_bytes ms 0 ++ eocd (count_of ms) (lenN (cd_bytes ms 0)) (lenN X)) = true ->
  open_archive (X ++ cd_bytes ms 0 ++ eocd (count_of ms) (lenN (cd_bytes ms 0)) (lenN X))
  = Some (cents_of ms 0).
Proof.
  intros Hwf HX Hcnt Hb Hcd Hz. unfold U16MAX, U32MAX in *.
  unfold open_archive. rewrite locate_tail by (auto; lia).
  cbn [d_start d_count d_offset].
  rewrite dropN_app_exact.
  pose proof (lenN_cd_bytes_ge ms 0) as Hge. rewrite <- count_of_length in Hge.
  assert (Hdiv : count_of ms <= lenN (cd_bytes ms 0 ++ eocd (count_of ms) (lenN (cd_bytes ms 0)) (lenN X)) / 46).
  { apply N.div_le_lower_bound; [discriminate|]. rewrite lenN_app, lenN_eocd. lia. }
  rewrite N.min_l by lia.
  rewrite count_of_length, Nat2N.id.
  rewrite parse_cd_cents by (auto; lia). reflexivity.
Qed.
(* ------------------------------------------------------------------ by_name *)
Lemma by_name_acc_nomatch (ar : list cent) name : forall acc,
  (forall c, In c ar -> c_key c <> name) ->
  fold_left (fun acc c => if beq (c_key c) name then Some c else acc) ar acc = acc.
Proof.
  induction ar as [|x ar IH]; intros acc H; cbn [fold_left]; [reflexivity|].
  rewrite beq_neq by (apply H; now left). apply IH. intros c Hc. apply H. now right.
Qed.

Lemma by_name_unique ar c : NoDup (map c_key ar) -> In c ar -> by_name ar (c_key c) = Some c.
Proof.
  unfold by_name. generalize (@None cent) as acc.
  induction ar as [|x ar IH]; intros acc Hnd Hin; [destruct Hin|].
  cbn [map] in Hnd. inversion Hnd as [|? ? Hx Hnd']; subst. cbn [fold_left].
  destruct Hin as [->|Hin].
  - rewrite beq_refl. apply by_name_acc_nomatch. intros y Hy E. apply Hx. rewrite <- E. now apply in_map.
  - now apply IH.
Qed.

Lemma by_name_none ar name : (forall c, In c ar -> c_key c <> name) -> by_name ar name = None.
Proof. apply by_name_acc_nomatch. Qed.

Lemma has_name_false ar name : (forall c, In c ar -> c_key c <> name) -> has_name ar name = false.
Proof.
  intro H. unfold has_name. induction ar as [|x ar IH]; [reflexivity|]. cbn [existsb].
  rewrite beq_neq by (apply H; now left). apply IH. intros c Hc. apply H. now right.
Qed.

Lemma has_name_true ar c : In c ar -> has_name ar (c_key c) = true.
Proof.
  intro H. unfold has_name. apply existsb_exists. exists c. split; [exact H|apply beq_refl].
Qed.

Lemma nodup_keys_true ar : NoDup (map c_key ar) -> nodup_keys ar = true.
Proof.
  induction ar as [|c ar IH]; intro H; [reflexivity|]. cbn [map] in H. inversion H as [|? ? Hc Hr]; subst.
  cbn [nodup_keys]. rewrite IH by assumption. rewrite has_name_false; [reflexivity|].
  intros c' Hc' E. apply Hc. rewrite <- E. now apply in_map.
Qed.

Lemma open_entry_of_archive bs ar :
  open_archive bs = Some ar -> NoDup (map c_key ar) -> open_entry bs = Some ar.
Proof. intros H Hnd. unfold open_entry. now rewrite H, nodup_keys_true. Qed.

Lemma body_bytes_app a b : body_bytes (a ++ b) = body_bytes a ++ body_bytes b.
Proof. induction a as [|m a IH]; cbn [app body_bytes]; [reflexivity|]. now rewrite IH, <- !app_assoc. Qed.

Lemma cents_of_app a : forall b off,
  cents_of (a ++ b) off = cents_of a off ++ cents_of b (off + lenN (body_bytes a)).
Proof.
  induction a as [|m a IH]; intros b off; cbn [app cents_of].
  - cbn [body_bytes]. rewrite lenN_nil. now rewrite N.add_0_r.
  - rewrite IH. rewrite lenN_body_bytes_cons. f_equal. f_equal. f_equal. lia.
Qed.

Lemma cents_of_keys ms : forall off, map c_key (cents_of ms off) = map m_name ms.
Proof. induction ms as [|m ms IH]; intro off; cbn [cents_of map]; [reflexivity|]. now rewrite IH. Qed.

Lemma in_cents_of ms1 m ms2 : In (cent_of m (lenN (body_bytes ms1))) (cents_of (ms1 ++ m :: ms2) 0).
Proof. rewrite cents_of_app, N.add_0_l. apply in_or_app. right. now left. Qed.

(* ------------------------------------------------------------------ one member *)
Lemma dropN_add n k l : dropN (n + k) l = dropN k (dropN n l).
Proof.
  revert n. induction l as [|x l IH]; intro n.
  - rewrite !(dropN_all []) by (rewrite lenN_nil; lia). reflexivity.
  - destruct (N.eq_dec n 0) as [->|Hn].
    + now rewrite N.add_0_l, dropN_0.
    + unfold dropN at 1 3; fold dropN.
      replace (N.eqb (n + k) 0) with false by (symmetry; apply N.eqb_neq; lia).
      replace (N.eqb n 0) with false by (symmetry; apply N.eqb_neq; lia).
      replace (N.pred (n + k)) with (N.pred n + k) by lia. apply IH.
Qed.

Lemma dropN_le16 x r : dropN 2 (le16 x ++ r) = r.
Proof. change 2 with (lenN (le16 x)). apply dropN_app_exact. Qed.
Lemma dropN_le32 x r : dropN 4 (le32 x ++ r) = r.
Proof. change 4 with (lenN (le32 x)). apply dropN_app_exact. Qed.

Lemma crc_take_app_exact D Q : N.lxor (crc_take (D ++ Q) (lenN D) MASK32) MASK32 = crc32 D.
Proof.
  rewrite crc_take_firstn, lenN_length, Nat2N.id, firstn_app, Nat.sub_diag, firstn_all.
  cbn [firstn]. now rewrite app_nil_r.
Qed.

Lemma unix_mode_cent_of m off :
  m_perm m < 65536 -> m_perm m <> 0 -> unix_mode (cent_of m off) = Some (m_perm m).
Proof.
  intros Hp Hz. unfold unix_mode, cent_of. cbn [c_attr c_system].
  replace (N.eqb (m_perm m * 65536) 0) with false by (symmetry; apply N.eqb_neq; lia).
  change (N.eqb 3 3) with true. cbv iota. f_equal. apply N.div_mul. discriminate.
Qed.

(* the member's data region may hold any bytes D of the right length: it is accepted iff the CRC matches *)
Lemma read_member_region m off P D Q :
  lenN P = off -> lenN D = lenN (m_data m) -> lenN (m_name m) < 65536 ->
  read_member (P ++ lh m ++ D ++ Q) (cent_of m off)
  = if N.eqb (crc32 D) (crc32 (m_data m)) then ROk (unix_mode (cent_of m off), D) else RErr.
Proof.
  intros HP HD Hn. unfold read_member.
  change (c_encrypted (cent_of m off)) with false. cbv iota.
  change (c_hstart (cent_of m off)) with off. change (c_method (cent_of m off)) with 0.
  change (c_aes (cent_of m off)) with false. change (c_csize (cent_of m off)) with (lenN (m_data m)).
  change (c_crc (cent_of m off)) with (crc32 (m_data m)).
  rewrite <- HP at 1. rewrite dropN_app_exact.
  unfold lh at 1. unfold local_header. rewrite <- !app_assoc.
  g32. change (N.eqb SIG_LOCAL SIG_LOCAL) with true. cbn [negb]. cbv iota.
  change 22 with (2 + (2 + (2 + (2 + (2 + (4 + (4 + 4))))))).
  rewrite !dropN_add, !dropN_le16, !dropN_le32.
  do 2 g16. change (N.eqb 0 0) with true. cbn [negb]. cbv iota.
  rewrite N.add_0_r.
  replace (P ++ lh m ++ D ++ Q) with ((P ++ lh m) ++ D ++ Q) by now rewrite <- app_assoc.
  replace (off + 30 + lenN (m_name m)) with (lenN (P ++ lh m)) by (rewrite lenN_app, lenN_lh; lia).
  rewrite dropN_app_exact. rewrite <- HD.
  rewrite crc_take_app_exact, takeN_app_exact. reflexivity.
Qed.
(* ------------------------------------------------------------------ sccache's glue: round trip *)
Lemma perm_of_range mode : 0 < perm_of mode /\ perm_of mode < 65536.
Proof.
  destruct mode as [md|]; cbn [perm_of]; [|split; reflexivity].
  assert (H : N.land md 511 < 512).
  { change 511 with (N.ones 9). rewrite N.land_ones. apply N.mod_lt. discriminate. }
  assert (A : forallb (fun x => N.ltb 0 (N.lor x 32768) && N.ltb (N.lor x 32768) 65536)
                      (map N.of_nat (seq 0 512)) = true) by (vm_compute; reflexivity).
  assert (I : In (N.land md 511) (map N.of_nat (seq 0 512))).
  { apply in_map_iff. exists (N.to_nat (N.land md 511)). split; [apply N2Nat.id|apply in_seq; lia]. }
  pose proof (proj1 (forallb_forall _ _) A _ I) as E. cbv beta in E.
  apply andb_true_iff in E as [E1 E2]. apply N.ltb_lt in E1. apply N.ltb_lt in E2. now split.
Qed.

Lemma nodup_app {A} (a b : list A) :
  NoDup a -> NoDup b -> (forall x, In x a -> In x b -> False) -> NoDup (a ++ b).
Proof.
  induction a as [|x a IH]; intros Ha Hb H; cbn [app]; [exact Hb|].
  inversion Ha as [|? ? Hx Ha']; subst. constructor.
  - intro Hin. apply in_app_or in Hin as [Hin|Hin]; [contradiction|]. apply (H x); [now left|exact Hin].
  - apply IH; auto. intros y Hy. apply H. now right.
Qed.

Definition obj_name (o : list N * option N * list N) : list N := fst (fst o).
Definition obj_mode (o : list N * option N * list N) : option N := snd (fst o).
Definition obj_content (o : list N * option N * list N) : list N := snd o.

Section GlueProofs.
  Variable compress : list N -> list N.
  Variable decompress : list N -> option (list N).
  Hypothesis zstd_roundtrip : forall x, decompress (compress x) = Some x.

  Definition member_of (o : list N * option N * list N) : member :=
    mkMember (obj_name o) (perm_of (obj_mode o)) (compress (obj_content o)).

  Definition stdio_members (name bytes : list N) : list member :=
    match bytes with [] => [] | _ => [mkMember name (perm_of None) (compress bytes)] end.

  Lemma put_objects_spec objs : forall w,
    fold_left (fun w o => put_object compress w (fst (fst o)) (snd o) (snd (fst o))) objs w
    = w ++ map member_of objs.
  Proof.
    induction objs as [|o objs IH]; intro w; cbn [fold_left map]; [now rewrite app_nil_r|].
    rewrite IH. unfold put_object. rewrite <- app_assoc. reflexivity.
  Qed.

  Lemma put_bytes_spec w name bytes : put_bytes compress w name bytes = w ++ stdio_members name bytes.
  Proof. destruct bytes; cbn; [now rewrite app_nil_r|reflexivity]. Qed.

  Lemma cache_members_spec objs so se :
    cache_members compress objs so se
    = map member_of objs ++ stdio_members NAME_STDOUT so ++ stdio_members NAME_STDERR se.
  Proof.
    unfold cache_members. rewrite put_objects_spec, !put_bytes_spec. cbn [app]. now rewrite <- app_assoc.
  Qed.

  (* reading one member of a well-formed written entry *)
  Lemma get_object_member ms1 m ms2 tail :
    let ms := ms1 ++ m :: ms2 in
    NoDup (map m_name ms) -> lenN (m_name m) < 65536 -> 0 < m_perm m -> m_perm m < 65536 ->
    get_object decompress (cents_of ms 0) (body_bytes ms ++ tail) (m_name m)
    = match decompress (m_data m) with Some x => GOk (Some (m_perm m)) x | None => GErr end.
  Proof.
    intros ms Hnd Hn Hp0 Hp. unfold get_object.
    change (m_name m) with (c_key (cent_of m (lenN (body_bytes ms1)))) at 1.
    rewrite by_name_unique; [|now rewrite cents_of_keys|apply in_cents_of].
    unfold ms. rewrite body_bytes_app. cbn [body_bytes]. rewrite <- !app_assoc.
    rewrite read_member_region by auto. rewrite N.eqb_refl.
    rewrite unix_mode_cent_of by lia. reflexivity.
  Qed.

  Definition objs_ok (objs : list (list N * option N * list N)) : Prop :=
    NoDup (map obj_name objs) /\
    forall o, In o objs -> name_ok (obj_name o) = true /\ lenN (obj_name o) < 65536
                           /\ obj_name o <> NAME_STDOUT /\ obj_name o <> NAME_STDERR.

  Lemma members_nodup objs so se :
    objs_ok objs -> NoDup (map m_name (cache_members compress objs so se)).
  Proof.
    intros [Hnd Hall]. rewrite cache_members_spec, !map_app, map_map. cbn [member_of m_name].
    change (map (fun x => obj_name x) objs) with (map obj_name objs).
    assert (Hno : forall n, In n (map obj_name objs) -> n <> NAME_STDOUT /\ n <> NAME_STDERR).
    { intros n Hin. apply in_map_iff in Hin as (o & <- & Ho). destruct (Hall o Ho) as (_ & _ & A & B). now split. }
    apply nodup_app; [exact Hnd| |].
    - destruct so, se; cbn; repeat constructor; cbn; intuition discriminate.
    - intros n Hin Hin2. destruct (Hno n Hin) as [A B].
      destruct so, se; cbn in Hin2; intuition congruence.
  Qed.

  Lemma stdio_wf name bytes :
    name = NAME_STDOUT \/ name = NAME_STDERR ->
    forall m, In m (stdio_members name bytes) ->
      m_name m = name /\ m_perm m = 33188 /\ m_data m = compress bytes /\ bytes <> [].
  Proof.
    intros _ m Hin. destruct bytes as [|b bytes]; [destruct Hin|].
    destruct Hin as [<-|[]]. repeat split. discriminate.
  Qed.

  Lemma members_wf objs so se :
    objs_ok objs -> writable (cache_members compress objs so se) = true ->
    Forall mwf (cache_members compress objs so se).
  Proof.
    intros [_ Hall] Hw. apply writable_spec in Hw as (Hd & _).
    apply Forall_forall. intros m Hm. specialize (Hd m Hm).
    rewrite cache_members_spec in Hm. apply in_app_or in Hm as [Hm|Hm].
    - apply in_map_iff in Hm as (o & <- & Ho). destruct (Hall o Ho) as (A & B & _).
      unfold mwf. cbn [member_of m_name m_perm m_data] in *. repeat split; auto.
      apply perm_of_range.
    - apply in_app_or in Hm as [Hm|Hm].
      + apply (stdio_wf NAME_STDOUT so (or_introl eq_refl)) in Hm as (En & Ep & _).
        unfold mwf. rewrite En, Ep. repeat split; auto; reflexivity.
      + apply (stdio_wf NAME_STDERR se (or_intror eq_refl)) in Hm as (En & Ep & _).
        unfold mwf. rewrite En, Ep. repeat split; auto; reflexivity.
  Qed.

  Lemma get_bytes_stdio ms1 name bytes ms2 tail :
    let ms := ms1 ++ stdio_members name bytes ++ ms2 in
    (name = NAME_STDOUT \/ name = NAME_STDERR) ->
    NoDup (map m_name ms) ->
    (forall m, In m ms1 -> m_name m <> name) -> (forall m, In m ms2 -> m_name m <> name) ->
    get_bytes decompress (cents_of ms 0) (body_bytes ms ++ tail) name = BOk bytes.
  Proof.
    intros ms Hname Hnd H1 H2. unfold get_bytes.
    destruct bytes as [|b bytes].
    - cbn [stdio_members app] in ms. rewrite has_name_false; [reflexivity|].
      intros c Hc E. apply (in_map c_key) in Hc. rewrite cents_of_keys in Hc.
      apply in_map_iff in Hc as (m & Em & Hm). unfold ms in Hm. cbn [app] in Hm.
      apply in_app_or in Hm as [Hm|Hm]; [apply (H1 m Hm)|apply (H2 m Hm)]; congruence.
    - set (m := mkMember name (perm_of None) (compress (b :: bytes))).
      assert (Ems : ms = ms1 ++ m :: ms2) by reflexivity.
      change name with (c_key (cent_of m (lenN (body_bytes ms1)))) at 1.
      rewrite has_name_true by (rewrite Ems; apply in_cents_of). cbn [negb].
      change (c_key (cent_of m (lenN (body_bytes ms1)))) with (m_name m).
      rewrite Ems in *. rewrite get_object_member; auto.
      + cbn [m m_data]. now rewrite zstd_roundtrip.
      + destruct Hname as [-> | ->]; reflexivity.
      + reflexivity.
      + reflexivity.
  Qed.

  Theorem roundtrip objs so se :
    let ms := cache_members compress objs so se in
    let bs := cache_write compress objs so se in
    objs_ok objs -> writable ms = true -> no_z64_locator bs = true ->
    open_archive bs = Some (cents_of ms 0)
    /\ (forall o, In o objs ->
          get_object decompress (cents_of ms 0) bs (obj_name o)
          = GOk (Some (perm_of (obj_mode o))) (obj_content o))
    /\ get_bytes decompress (cents_of ms 0) bs NAME_STDOUT = BOk so
    /\ get_bytes decompress (cents_of ms 0) bs NAME_STDERR = BOk se.
  Proof.
    intros ms bs Hok Hw Hz.
    pose proof (members_nodup objs so se Hok) as Hnd. fold ms in Hnd.
    pose proof (members_wf objs so se Hok Hw) as Hwf. fold ms in Hwf.
    pose proof (proj1 (writable_spec ms) Hw) as (Hd & Hcnt & Hb & Hcd).
    assert (Ebs : bs = body_bytes ms ++ cd_bytes ms 0
                       ++ eocd (count_of ms) (lenN (cd_bytes ms 0)) (lenN (body_bytes ms))).
    { unfold bs, cache_write. apply write_zip_spec. }
    destruct Hok as [HndO Hall].
    assert (Ems : ms = map member_of objs ++ stdio_members NAME_STDOUT so ++ stdio_members NAME_STDERR se)
      by apply cache_members_spec.
    repeat split.
    - rewrite Ebs. apply open_tail; auto. now rewrite <- Ebs.
    - intros o Ho. apply in_split in Ho as (o1 & o2 & ->).
      rewrite Ebs. rewrite map_app in Ems. cbn [map] in Ems. rewrite <- app_assoc in Ems. cbn [app] in Ems.
      rewrite Ems in *.
      change (obj_name o) with (m_name (member_of o)).
      rewrite get_object_member; auto.
      + cbn [member_of m_data m_perm]. now rewrite zstd_roundtrip.
      + cbn [member_of m_name]. apply Hall. apply in_or_app. right. now left.
      + apply perm_of_range.
      + apply perm_of_range.
    - rewrite Ebs, Ems in *. apply get_bytes_stdio; auto.
      + intros m Hm. apply in_map_iff in Hm as (o & <- & Ho). apply Hall in Ho. apply Ho.
      + intros m Hm. apply (stdio_wf NAME_STDERR se (or_intror eq_refl)) in Hm as (En & _).
        rewrite En. discriminate.
    - rewrite Ebs, Ems in *. rewrite app_assoc in *.
      replace (stdio_members NAME_STDERR se) with (stdio_members NAME_STDERR se ++ []) in * by apply app_nil_r.
      apply get_bytes_stdio; auto.
      + intros m Hm. apply in_app_or in Hm as [Hm|Hm].
        * apply in_map_iff in Hm as (o & <- & Ho). apply Hall in Ho. apply Ho.
        * apply (stdio_wf NAME_STDOUT so (or_introl eq_refl)) in Hm as (En & _). rewrite En. discriminate.
  Qed.

  Lemma extract_all ar bs objs : forall reqs,
    map fst reqs = map obj_name objs ->
    (forall o, In o objs ->
       get_object decompress ar bs (obj_name o) = GOk (Some (perm_of (obj_mode o))) (obj_content o)) ->
    extract_objects decompress ar bs reqs
    = XOk (map (fun o => Some (Some (perm_of (obj_mode o)), obj_content o)) objs).
  Proof.
    induction objs as [|o objs IH]; intros [|[key opt] reqs] E H; try discriminate; [reflexivity|].
    cbn [map fst] in E. inversion E as [[E1 E2]]. cbn [extract_objects map].
    rewrite H by now left. rewrite IH; auto. intros o' Ho'. apply H. now right.
  Qed.

  (* the whole cache-hit path on an intact entry *)
  Theorem roundtrip_unpack objs so se reqs :
    let ms := cache_members compress objs so se in
    let bs := cache_write compress objs so se in
    objs_ok objs -> writable ms = true -> no_z64_locator bs = true ->
    map fst reqs = map obj_name objs ->
    unpack decompress bs reqs
    = UHit so se (map (fun o => Some (Some (perm_of (obj_mode o)), obj_content o)) objs).
  Proof.
    intros ms bs Hok Hw Hz Hreqs.
    destruct (roundtrip objs so se Hok Hw Hz) as (Ho & Hg & Hso & Hse).
    fold ms bs in Ho, Hg, Hso, Hse.
    unfold unpack. rewrite (open_entry_of_archive _ _ Ho).
    - rewrite Hso, Hse. rewrite (extract_all _ _ objs); auto.
    - rewrite cents_of_keys. now apply members_nodup.
  Qed.
End GlueProofs.
(* ------------------------------------------------------------------ corruption of a payload byte *)
Lemma subst_at_app P x S v : subst_at (lenN P) v (P ++ x :: S) = P ++ v :: S.
Proof.
  unfold subst_at. rewrite dropN_app_exact, take_acc_spec, lenN_length, Nat2N.id.
  rewrite firstn_app, Nat.sub_diag, firstn_all. cbn [firstn]. rewrite !app_nil_r.
  rewrite rev_append_rev, rev_involutive. reflexivity.
Qed.

Lemma no_z64_tail X X' T :
  lenN X = lenN X' -> 42 <= lenN T -> no_z64_locator (X ++ T) = no_z64_locator (X' ++ T).
Proof.
  intros HX HT. unfold no_z64_locator. rewrite !lenN_app, <- HX.
  rewrite !dropN_app_ge by lia. rewrite <- HX. reflexivity.
Qed.

Definition data_start (ms1 : list member) (m : member) : N :=
  lenN (body_bytes ms1) + 30 + lenN (m_name m).

(* what "the data region of member m" means: the bytes of the written entry at that position *)
Lemma data_region_is_data ms1 m ms2 :
  takeN (lenN (m_data m)) (dropN (data_start ms1 m) (write_zip (ms1 ++ m :: ms2))) = m_data m.
Proof.
  rewrite write_zip_spec, body_bytes_app. cbn [body_bytes]. rewrite <- !app_assoc.
  rewrite (app_assoc (body_bytes ms1) (lh m)).
  replace (data_start ms1 m) with (lenN (body_bytes ms1 ++ lh m))
    by (unfold data_start; rewrite lenN_app, lenN_lh; lia).
  rewrite dropN_app_exact. apply takeN_app_exact.
Qed.

Section PayloadCorruption.
  Variable decompress : list N -> option (list N).

  Lemma payload_corruption_members ms1 m ms2 d1 b d2 v :
    let ms := ms1 ++ m :: ms2 in
    let bs := write_zip ms in
    let j := data_start ms1 m + lenN d1 in
    Forall mwf ms -> NoDup (map m_name ms) -> writable ms = true -> no_z64_locator bs = true ->
    m_data m = d1 ++ b :: d2 -> b < 256 -> v < 256 -> v <> b ->
    open_archive (subst_at j v bs) = Some (cents_of ms 0)
    /\ get_object decompress (cents_of ms 0) (subst_at j v bs) (m_name m) = GErr.
  Proof.
    intros ms bs j Hwf Hnd Hw Hz Hd Hb Hv Hne.
    pose proof (proj1 (writable_spec ms) Hw) as (_ & Hcnt & Hbb & Hcd).
    set (tail := cd_bytes ms 0 ++ eocd (count_of ms) (lenN (cd_bytes ms 0)) (lenN (body_bytes ms))).
    assert (Ebs : bs = body_bytes ms ++ tail) by (unfold bs; apply write_zip_spec).
    assert (Ebody : body_bytes ms = (body_bytes ms1 ++ lh m ++ d1) ++ b :: d2 ++ body_bytes ms2).
    { unfold ms. rewrite body_bytes_app. cbn [body_bytes]. rewrite Hd, <- !app_assoc. reflexivity. }
    set (body' := (body_bytes ms1 ++ lh m ++ d1) ++ v :: d2 ++ body_bytes ms2).
    assert (Ej : j = lenN (body_bytes ms1 ++ lh m ++ d1)).
    { unfold j, data_start. rewrite !lenN_app, lenN_lh. lia. }
    assert (Ebs' : subst_at j v bs = body' ++ tail).
    { rewrite Ebs, Ebody, Ej.
      rewrite <- (app_assoc (body_bytes ms1 ++ lh m ++ d1) (b :: d2 ++ body_bytes ms2) tail).
      cbn [app]. rewrite subst_at_app. unfold body'.
      rewrite <- (app_assoc (body_bytes ms1 ++ lh m ++ d1) (v :: d2 ++ body_bytes ms2) tail).
      reflexivity. }
    assert (Elen : lenN body' = lenN (body_bytes ms)).
    { rewrite Ebody. unfold body'. rewrite !lenN_app, !lenN_cons. reflexivity. }
    assert (Htail : 42 <= lenN tail).
    { unfold tail. rewrite lenN_app, lenN_eocd. pose proof (lenN_cd_bytes_ge ms 0) as G.
      assert (1 <= length ms)%nat by (unfold ms; rewrite app_length; cbn [length]; lia). lia. }
    split.
    - rewrite Ebs'. unfold tail. rewrite <- Elen. apply open_tail; auto.
      rewrite Elen. fold tail. rewrite (no_z64_tail body' (body_bytes ms)) by auto. now rewrite <- Ebs.
    - rewrite Ebs'. unfold get_object.
      change (m_name m) with (c_key (cent_of m (lenN (body_bytes ms1)))) at 1.
      rewrite by_name_unique; [|now rewrite cents_of_keys|apply in_cents_of].
      unfold body'. rewrite <- !app_assoc.
      replace (d1 ++ (v :: d2 ++ body_bytes ms2) ++ tail) with ((d1 ++ v :: d2) ++ body_bytes ms2 ++ tail)
        by (rewrite <- !app_assoc; cbn [app]; rewrite <- ?app_assoc; reflexivity).
      assert (Hm : mwf m) by (apply (proj1 (Forall_forall _ _) Hwf); unfold ms; apply in_or_app; right; now left).
      destruct Hm as (_ & Hn & _ & _).
      rewrite read_member_region; auto.
      + rewrite Hd. replace (N.eqb (crc32 (d1 ++ v :: d2)) (crc32 (d1 ++ b :: d2))) with false; [reflexivity|].
        symmetry. apply N.eqb_neq. apply crc32_single_byte; auto.
      + rewrite Hd, !lenN_app, !lenN_cons. reflexivity.
  Qed.
End PayloadCorruption.
(* ------------------------------------------------------------------ truncation *)
Definition sig_at (l : list N) (p : N) : bool :=
  match dropN p l with
  | a :: b :: c :: d :: _ => N.eqb a 80 && N.eqb b 75 && N.eqb c 5 && N.eqb d 6
  | _ => false
  end.

Definition Nseq (n : N) : list N := map N.of_nat (seq 0 (N.to_nat n)).

Lemma Nseq_in n p : p < n -> In p (Nseq n).
Proof.
  intro H. unfold Nseq. apply in_map_iff. exists (N.to_nat p). split; [apply N2Nat.id|apply in_seq; lia].
Qed.

(* the end-of-central-directory signature occurs nowhere before the real record *)
Definition eocd_sig_unique (bs : list N) : bool :=
  forallb (fun p => negb (sig_at bs p)) (Nseq (lenN bs - 22)).

Lemma scan_none r : forall pos cnt,
  (forall k, k < cnt -> is_sig_rev (dropN k r) = false) -> scan_eocd r pos cnt = None.
Proof.
  induction r as [|x r IH]; intros pos cnt H; [reflexivity|].
  unfold scan_eocd; fold scan_eocd.
  destruct (N.eqb_spec cnt 0) as [|Hc]; [reflexivity|].
  rewrite <- (dropN_0 (x :: r)), H by lia. apply IH. intros k Hk.
  specialize (H (1 + k) ltac:(lia)). rewrite dropN_add in H.
  replace (dropN 1 (x :: r)) with r in H; [exact H|].
  unfold dropN. change (N.eqb 1 0) with false. cbv iota. change (N.pred 1) with 0. now rewrite dropN_0.
Qed.

Lemma is_sig_rev_sig_at t m :
  is_sig_rev (dropN m (rev t)) = true -> m + 4 <= lenN t /\ sig_at t (lenN t - m - 4) = true.
Proof.
  rewrite dropN_skipn, skipn_rev. set (F := firstn (length t - N.to_nat m) t).
  intro H. destruct (rev F) as [|d [|c [|b [|a rest]]]] eqn:E; try discriminate.
  assert (EF : F = rev rest ++ [a; b; c; d]).
  { rewrite <- (rev_involutive F), E. cbn [rev]. rewrite <- !app_assoc. reflexivity. }
  assert (Et : t = (rev rest ++ [a; b; c; d]) ++ skipn (length t - N.to_nat m) t).
  { rewrite <- EF. unfold F. symmetry. apply firstn_skipn. }
  assert (HlenF : length F = (length (rev rest) + 4)%nat) by (rewrite EF, app_length; reflexivity).
  assert (HFle : (length F <= length t - N.to_nat m)%nat) by (unfold F; apply firstn_le_length).
  assert (HF2 : length F = Nat.min (length t - N.to_nat m) (length t)) by (unfold F; apply firstn_length).
  split.
  - rewrite lenN_length. lia.
  - unfold sig_at. rewrite lenN_length.
    replace (N.of_nat (length t) - m - 4) with (lenN (rev rest)) by (rewrite lenN_length; lia).
    rewrite Et at 1. rewrite <- !app_assoc. rewrite dropN_app_exact. cbn [app].
    cbn [is_sig_rev] in H. apply andb_true_iff in H as [H H4]. apply andb_true_iff in H as [H H3].
    apply andb_true_iff in H as [H1 H2]. now rewrite H1, H2, H3, H4.
Qed.

Lemma sig_at_prefix bs i p : sig_at (takeN i bs) p = true -> sig_at bs p = true.
Proof.
  unfold sig_at. intro H.
  destruct (dropN p (takeN i bs)) as [|a [|b [|c [|d rest]]]] eqn:E; try discriminate.
  assert (Hp : p <= lenN (takeN i bs)).
  { destruct (N.le_gt_cases p (lenN (takeN i bs))) as [|G]; [assumption|].
    rewrite dropN_all in E by lia. discriminate. }
  rewrite <- (takeN_dropN i bs). rewrite dropN_app_le by assumption. rewrite E. exact H.
Qed.

Lemma locate_none_of_scan bs :
  (22 <= lenN bs ->
   scan_eocd (dropN 18 (rev_append bs [])) (lenN bs - 22) (N.min (lenN bs - 22) 65535 + 1) = None) ->
  locate_directory bs = None.
Proof.
  intro H. unfold locate_directory. destruct (N.ltb_spec (lenN bs) 22) as [|G]; [reflexivity|].
  now rewrite H.
Qed.

Theorem truncation_detected bs i :
  eocd_sig_unique bs = true -> i < lenN bs -> open_archive (truncate_at i bs) = None.
Proof.
  intros Hu Hi. unfold open_archive. rewrite locate_none_of_scan; [reflexivity|].
  unfold truncate_at. set (t := takeN i bs). intro H22.
  assert (Ht : lenN t = i) by (unfold t; rewrite lenN_takeN; lia).
  apply scan_none. intros k _.
  destruct (is_sig_rev (dropN k (dropN 18 (rev_append t [])))) eqn:E; [exfalso|reflexivity].
  rewrite <- dropN_add, rev_append_rev, app_nil_r in E.
  apply is_sig_rev_sig_at in E as [Hk E]. apply sig_at_prefix in E.
  unfold eocd_sig_unique in Hu.
  pose proof (proj1 (forallb_forall _ _) Hu (lenN t - (18 + k) - 4)) as C. cbv beta in C.
  rewrite E in C. discriminate C. apply Nseq_in. lia.
Qed.
(* ------------------------------------------------------------------ a corrupted payload makes the whole hit path a miss *)
Lemma by_name_in ar name c : by_name ar name = Some c -> In c ar.
Proof.
  unfold by_name. assert (G : forall acc, fold_left (fun acc c0 => if beq (c_key c0) name then Some c0 else acc) ar acc = Some c
                              -> In c ar \/ acc = Some c).
  { induction ar as [|x ar IH]; intros acc H; cbn [fold_left] in H; [now right|].
    apply IH in H as [H|H]; [left; now right|].
    destruct (beq (c_key x) name); [inversion H; left; now left|now right]. }
  intro H. apply G in H as [H|H]; [exact H|discriminate].
Qed.

Lemma cents_of_no_aes ms : forall off c, In c (cents_of ms off) -> c_aes c = false.
Proof.
  induction ms as [|m ms IH]; intros off c H; [destruct H|].
  destruct H as [<-|H]; [reflexivity|eapply IH; eauto].
Qed.

Section Miss.
  Variable decompress : list N -> option (list N).

  Lemma read_member_no_panic bs c : c_aes c = false -> read_member bs c <> RPanic.
  Proof.
    intro H. unfold read_member. rewrite H.
    destruct (c_encrypted c); [discriminate|].
    destruct (get32 _) as [[sig s1]|]; [|discriminate].
    destruct (negb _); [discriminate|].
    destruct (get16 _) as [[nl s2]|]; [|discriminate].
    destruct (get16 s2) as [[xl s3]|]; [|discriminate].
    destruct (negb _); [discriminate|].
    destruct (N.eqb _ _); discriminate.
  Qed.

  Lemma get_object_no_panic ar bs name :
    (forall c, In c ar -> c_aes c = false) -> get_object decompress ar bs name <> GPanic.
  Proof.
    intro H. unfold get_object. destruct (by_name ar name) as [c|] eqn:E; [|discriminate].
    apply by_name_in in E. pose proof (read_member_no_panic bs c (H c E)) as P.
    destruct (read_member bs c) as [[mode data]| |]; try discriminate; [|contradiction].
    destruct (decompress data); discriminate.
  Qed.

  Lemma get_bytes_no_panic ar bs name :
    (forall c, In c ar -> c_aes c = false) -> get_bytes decompress ar bs name <> BPanic.
  Proof.
    intro H. unfold get_bytes. destruct (negb _); [discriminate|].
    pose proof (get_object_no_panic ar bs name H) as P.
    destruct (get_object decompress ar bs name); try discriminate. contradiction.
  Qed.

  Lemma extract_miss ar bs name : forall reqs,
    (forall c, In c ar -> c_aes c = false) ->
    In name (map fst reqs) -> get_object decompress ar bs name = GErr -> has_name ar name = true ->
    extract_objects decompress ar bs reqs = XErr.
  Proof.
    intros reqs Haes. induction reqs as [|[k o] reqs IH]; intros Hin Hg Hh; [destruct Hin|].
    cbn [extract_objects]. cbn [map fst] in Hin.
    destruct Hin as [->|Hin].
    - rewrite Hg, Hh. cbn [negb]. now rewrite andb_false_r.
    - specialize (IH Hin Hg Hh). pose proof (get_object_no_panic ar bs k Haes) as P.
      destruct (get_object decompress ar bs k); [now rewrite IH| |contradiction].
      destruct (o && negb (has_name ar k)); [now rewrite IH|reflexivity].
  Qed.

  Lemma unpack_miss ar bs name reqs :
    open_entry bs = Some ar -> (forall c, In c ar -> c_aes c = false) ->
    get_object decompress ar bs name = GErr -> has_name ar name = true ->
    In name (map fst reqs) \/ name = NAME_STDOUT \/ name = NAME_STDERR ->
    unpack decompress bs reqs = UMiss.
  Proof.
    intros Ho Haes Hg Hh Hwhere. unfold unpack. rewrite Ho.
    pose proof (get_bytes_no_panic ar bs NAME_STDOUT Haes) as P1.
    pose proof (get_bytes_no_panic ar bs NAME_STDERR Haes) as P2.
    destruct Hwhere as [Hin|[->| ->]].
    - destruct (get_bytes decompress ar bs NAME_STDOUT) as [so| |]; try contradiction;
      destruct (get_bytes decompress ar bs NAME_STDERR) as [se| |]; try contradiction; try reflexivity.
      now rewrite (extract_miss ar bs name reqs).
    - assert (E : get_bytes decompress ar bs NAME_STDOUT = BErr) by (unfold get_bytes; now rewrite Hh, Hg).
      rewrite E. destruct (get_bytes decompress ar bs NAME_STDERR); try contradiction; reflexivity.
    - assert (E : get_bytes decompress ar bs NAME_STDERR = BErr) by (unfold get_bytes; now rewrite Hh, Hg).
      rewrite E. destruct (get_bytes decompress ar bs NAME_STDOUT); try contradiction; reflexivity.
  Qed.

  Theorem payload_corruption_miss ms1 m ms2 d1 b d2 v reqs :
    let ms := ms1 ++ m :: ms2 in
    let bs := write_zip ms in
    let j := data_start ms1 m + lenN d1 in
    Forall mwf ms -> NoDup (map m_name ms) -> writable ms = true -> no_z64_locator bs = true ->
    m_data m = d1 ++ b :: d2 -> b < 256 -> v < 256 -> v <> b ->
    In (m_name m) (map fst reqs) \/ m_name m = NAME_STDOUT \/ m_name m = NAME_STDERR ->
    unpack decompress (subst_at j v bs) reqs = UMiss.
  Proof.
    intros ms bs j Hwf Hnd Hw Hz Hd Hb Hv Hne Hwhere.
    destruct (payload_corruption_members decompress ms1 m ms2 d1 b d2 v Hwf Hnd Hw Hz Hd Hb Hv Hne) as [Ho Hg].
    apply (unpack_miss (cents_of ms 0) _ (m_name m)); auto.
    - apply open_entry_of_archive; [exact Ho|now rewrite cents_of_keys].
    - apply cents_of_no_aes.
    - change (m_name m) with (c_key (cent_of m (lenN (body_bytes ms1)))). apply has_name_true. apply in_cents_of.
  Qed.
End Miss.
(* ------------------------------------------------------------------ what the reader never looks at *)
(* whatever a member read yields carries the CRC recorded in the directory entry that was used *)
Lemma takeN_take_firstn_crc region n :
  N.lxor (crc_take region n MASK32) MASK32 = crc32 (takeN n region).
Proof. rewrite crc_take_firstn, takeN_firstn. reflexivity. Qed.

Theorem read_member_crc bs c mode d :
  read_member bs c = ROk (mode, d) -> crc32 d = c_crc c /\ lenN d <= c_csize c.
Proof.
  unfold read_member. destruct (c_encrypted c); [discriminate|].
  destruct (get32 _) as [[sig s1]|]; [|discriminate].
  destruct (negb _); [discriminate|].
  destruct (get16 _) as [[nl s2]|]; [|discriminate].
  destruct (get16 s2) as [[xl s3]|]; [|discriminate].
  destruct (negb _); [discriminate|]. destruct (c_aes c); [discriminate|].
  rewrite takeN_take_firstn_crc.
  destruct (N.eqb_spec (crc32 (takeN (c_csize c) (dropN (c_hstart c + 30 + nl + xl) bs))) (c_crc c)) as [E|]; [|discriminate].
  intro H. inversion H; subst. split; [exact E|]. rewrite lenN_takeN. lia.
Qed.

(* a local header with arbitrary "metadata" bytes (versions, flags, method, time, date, crc, sizes) and an
   arbitrary name of the right length *)
Definition loose_header (mid name' : list N) (nlen : N) : list N :=
  le32 SIG_LOCAL ++ mid ++ le16 nlen ++ le16 0 ++ name'.

Lemma lh_is_loose m :
  exists mid, lenN mid = 22 /\ lh m = loose_header mid (m_name m) (lenN (m_name m)).
Proof.
  exists (le16 20 ++ le16 (gp_flags (m_name m)) ++ le16 0 ++ le16 0 ++ le16 33
          ++ le32 (crc32 (m_data m)) ++ le32 (lenN (m_data m)) ++ le32 (lenN (m_data m))).
  split; [reflexivity|]. unfold lh, local_header, loose_header. rewrite <- !app_assoc. reflexivity.
Qed.

Lemma dropN_exact_len a r n : lenN a = n -> dropN n (a ++ r) = r.
Proof. intros <-. apply dropN_app_exact. Qed.

Lemma read_member_loose m off P mid name' D Q :
  lenN P = off -> lenN mid = 22 -> lenN name' = lenN (m_name m) -> lenN D = lenN (m_data m) ->
  lenN (m_name m) < 65536 ->
  read_member (P ++ loose_header mid name' (lenN (m_name m)) ++ D ++ Q) (cent_of m off)
  = if N.eqb (crc32 D) (crc32 (m_data m)) then ROk (unix_mode (cent_of m off), D) else RErr.
Proof.
  intros HP Hmid Hname HD Hn. unfold read_member.
  change (c_encrypted (cent_of m off)) with false. cbv iota.
  change (c_hstart (cent_of m off)) with off. change (c_method (cent_of m off)) with 0.
  change (c_aes (cent_of m off)) with false. change (c_csize (cent_of m off)) with (lenN (m_data m)).
  change (c_crc (cent_of m off)) with (crc32 (m_data m)).
  rewrite <- HP at 1. rewrite dropN_app_exact.
  unfold loose_header. rewrite <- !app_assoc.
  g32. change (N.eqb SIG_LOCAL SIG_LOCAL) with true. cbn [negb]. cbv iota.
  rewrite (dropN_exact_len mid) by assumption.
  do 2 g16. change (N.eqb 0 0) with true. cbn [negb]. cbv iota.
  rewrite N.add_0_r.
  replace (P ++ le32 SIG_LOCAL ++ mid ++ le16 (lenN (m_name m)) ++ le16 0 ++ name' ++ D ++ Q)
    with ((P ++ le32 SIG_LOCAL ++ mid ++ le16 (lenN (m_name m)) ++ le16 0 ++ name') ++ D ++ Q)
    by (rewrite <- !app_assoc; reflexivity).
  rewrite (dropN_exact_len (P ++ le32 SIG_LOCAL ++ mid ++ le16 (lenN (m_name m)) ++ le16 0 ++ name'))
    by (rewrite !lenN_app, !lenN_le16, lenN_le32; lia).
  rewrite <- HD. rewrite crc_take_app_exact, takeN_app_exact. reflexivity.
Qed.
Definition lmember : Type := member * list N * list N.     (* member, its 22 metadata bytes, its local name *)
Definition lm_member (x : lmember) : member := fst (fst x).
Definition lm_ok (x : lmember) : Prop :=
  lenN (snd (fst x)) = 22 /\ lenN (snd x) = lenN (m_name (lm_member x)).

Fixpoint loose_body (ls : list lmember) : list N :=
  match ls with
  | [] => []
  | x :: r => loose_header (snd (fst x)) (snd x) (lenN (m_name (lm_member x)))
              ++ m_data (lm_member x) ++ loose_body r
  end.

Lemma lenN_loose_header mid nm n : lenN (loose_header mid nm n) = 8 + lenN mid + lenN nm.
Proof. unfold loose_header. rewrite !lenN_app, !lenN_le16, lenN_le32. lia. Qed.

Lemma lenN_loose_body ls : Forall lm_ok ls -> lenN (loose_body ls) = lenN (body_bytes (map lm_member ls)).
Proof.
  induction ls as [|x ls IH]; intro H; [reflexivity|]. inversion H as [|? ? [H1 H2] Hr]; subst.
  cbn [loose_body map]. rewrite lenN_body_bytes_cons, !lenN_app, lenN_loose_header, IH by assumption.
  unfold msize. lia.
Qed.

Lemma loose_body_app a b : loose_body (a ++ b) = loose_body a ++ loose_body b.
Proof. induction a as [|x a IH]; cbn [app loose_body]; [reflexivity|]. now rewrite IH, <- !app_assoc. Qed.

Lemma in_cents_split ms : forall off c, In c (cents_of ms off) ->
  exists a m b, ms = a ++ m :: b /\ c = cent_of m (off + lenN (body_bytes a)).
Proof.
  induction ms as [|m ms IH]; intros off c H; [destruct H|].
  destruct H as [<-|H].
  - exists [], m, ms. split; [reflexivity|]. cbn [body_bytes]. now rewrite lenN_nil, N.add_0_r.
  - apply IH in H as (a & m' & b & -> & ->). exists (m :: a), m', b. split; [reflexivity|].
    rewrite lenN_body_bytes_cons. f_equal. lia.
Qed.

Section Loose.
  Variable decompress : list N -> option (list N).

  Lemma get_object_loose l1 x l2 tail :
    let ls := l1 ++ x :: l2 in
    let ms := map lm_member ls in
    Forall lm_ok ls -> NoDup (map m_name ms) ->
    lenN (m_name (lm_member x)) < 65536 -> 0 < m_perm (lm_member x) -> m_perm (lm_member x) < 65536 ->
    get_object decompress (cents_of ms 0) (loose_body ls ++ tail) (m_name (lm_member x))
    = match decompress (m_data (lm_member x)) with
      | Some y => GOk (Some (m_perm (lm_member x))) y
      | None => GErr
      end.
  Proof.
    intros ls ms Hok Hnd Hn Hp0 Hp. unfold get_object.
    assert (Ems : ms = map lm_member l1 ++ lm_member x :: map lm_member l2)
      by (unfold ms, ls; now rewrite map_app).
    assert (Hl1 : Forall lm_ok l1) by (apply Forall_forall; intros y Hy; apply (proj1 (Forall_forall _ _) Hok); apply in_or_app; now left).
    assert (Hx : lm_ok x) by (apply (proj1 (Forall_forall _ _) Hok); apply in_or_app; right; now left).
    destruct Hx as [Hx1 Hx2].
    change (m_name (lm_member x)) with (c_key (cent_of (lm_member x) (lenN (body_bytes (map lm_member l1))))) at 1.
    rewrite by_name_unique; [|now rewrite cents_of_keys|rewrite Ems; apply in_cents_of].
    unfold ls. rewrite loose_body_app. cbn [loose_body]. rewrite <- !app_assoc.
    rewrite read_member_loose; auto.
    - rewrite N.eqb_refl, unix_mode_cent_of by lia. reflexivity.
    - now apply lenN_loose_body.
  Qed.

  Theorem local_headers_ignored ls reqs :
    let ms := map lm_member ls in
    Forall lm_ok ls -> Forall mwf ms -> (forall m, In m ms -> 0 < m_perm m) ->
    NoDup (map m_name ms) -> writable ms = true ->
    no_z64_locator (write_zip ms) = true ->
    unpack decompress
           (loose_body ls ++ cd_bytes ms 0 ++ eocd (count_of ms) (lenN (cd_bytes ms 0)) (lenN (body_bytes ms)))
           reqs
    = unpack decompress (write_zip ms) reqs.
  Proof.
    intros ms Hok Hwf Hperm Hnd Hw Hz.
    pose proof (proj1 (writable_spec ms) Hw) as (_ & Hcnt & Hbb & Hcd).
    set (tail := cd_bytes ms 0 ++ eocd (count_of ms) (lenN (cd_bytes ms 0)) (lenN (body_bytes ms))).
    assert (Ebs : write_zip ms = body_bytes ms ++ tail) by apply write_zip_spec.
    assert (Elen : lenN (loose_body ls) = lenN (body_bytes ms)) by now apply lenN_loose_body.
    (* both open to the same directory *)
    assert (Ho : open_archive (write_zip ms) = Some (cents_of ms 0)).
    { rewrite Ebs. unfold tail. apply open_tail; auto. now rewrite <- write_zip_spec. }
    assert (Ho' : open_archive (loose_body ls ++ tail) = Some (cents_of ms 0)).
    { destruct ls as [|x0 ls0] eqn:Els.
      - cbn [loose_body]. cbn [map] in ms. unfold ms in *. rewrite <- Ho, Ebs. reflexivity.
      - unfold tail. rewrite <- Elen. apply open_tail; auto. rewrite Elen. fold tail.
        rewrite (no_z64_tail (loose_body (x0 :: ls0)) (body_bytes ms)); auto.
        + now rewrite <- Ebs.
        + unfold tail. rewrite lenN_app, lenN_eocd. pose proof (lenN_cd_bytes_ge ms 0) as G.
          assert (1 <= length ms)%nat by (unfold ms; cbn [map length]; lia). lia. }
    assert (Hkeys : NoDup (map c_key (cents_of ms 0))) by now rewrite cents_of_keys.
    (* every lookup gives the same answer *)
    assert (Hg : forall name, get_object decompress (cents_of ms 0) (loose_body ls ++ tail) name
                              = get_object decompress (cents_of ms 0) (write_zip ms) name).
    { intro name. destruct (by_name (cents_of ms 0) name) as [c|] eqn:Eb.
      - pose proof (by_name_in _ _ _ Eb) as Hin.
        assert (Ek : c_key c = name).
        { unfold by_name in Eb. clear -Eb.
          assert (G : forall ar acc, fold_left (fun acc c0 => if beq (c_key c0) name then Some c0 else acc) ar acc = Some c
                                     -> c_key c = name \/ acc = Some c).
          { induction ar as [|y ar IH]; intros acc H; cbn [fold_left] in H; [now right|].
            apply IH in H as [H|H]; [now left|].
            destruct (beq (c_key y) name) eqn:E; [inversion H; subst; left; now apply beq_eq|now right]. }
          apply G in Eb as [?|?]; [assumption|discriminate]. }
        apply in_cents_split in Hin as (a & m & b & Ems & Ec). rewrite N.add_0_l in Ec.
        unfold ms in Ems. apply map_eq_app in Ems as (l1 & l2' & Els & El1 & El2).
        apply map_eq_cons in El2 as (x & l2 & -> & Ex & El2).
        subst name c a m b.
        assert (Hm : mwf (lm_member x)).
        { apply (proj1 (Forall_forall _ _) Hwf). unfold ms. rewrite Els, map_app. apply in_or_app. right. now left. }
        assert (Hp0 : 0 < m_perm (lm_member x)).
        { apply Hperm. unfold ms. rewrite Els, map_app. apply in_or_app. right. now left. }
        destruct Hm as (_ & Hn & _ & Hp).
        change (c_key (cent_of (lm_member x) (lenN (body_bytes (map lm_member l1))))) with (m_name (lm_member x)).
        unfold ms. rewrite Els.
        rewrite get_object_loose; auto; try (rewrite <- Els; assumption).
        rewrite write_zip_spec, map_app. cbn [map].
        rewrite get_object_member; auto.
        change (lm_member x :: map lm_member l2) with (map lm_member (x :: l2)).
        rewrite <- (map_app lm_member l1 (x :: l2)). rewrite <- Els. exact Hnd.
      - unfold get_object. now rewrite Eb. }
    unfold unpack.
    rewrite (open_entry_of_archive _ _ Ho Hkeys), (open_entry_of_archive _ _ Ho' Hkeys).
    unfold get_bytes. rewrite !Hg.
    assert (Hx : forall reqs0, extract_objects decompress (cents_of ms 0) (loose_body ls ++ tail) reqs0
                               = extract_objects decompress (cents_of ms 0) (write_zip ms) reqs0).
    { induction reqs0 as [|[k o] r IH]; [reflexivity|]. cbn [extract_objects]. now rewrite Hg, IH. }
    now rewrite Hx.
  Qed.
End Loose.
(* ------------------------------------------------------------------ the single-byte instance *)
Lemma subst_at_spec j v l : j < lenN l -> subst_at j v l = takeN j l ++ v :: dropN (j + 1) l.
Proof.
  intro H. unfold subst_at.
  destruct (dropN j l) as [|x r] eqn:E.
  - exfalso. assert (G := lenN_dropN j l). rewrite E, lenN_nil in G. lia.
  - rewrite rev_append_rev, take_acc_spec, app_nil_r, rev_involutive, <- takeN_firstn.
    f_equal. f_equal. rewrite dropN_add, E.
    unfold dropN. change (N.eqb 1 0) with false. cbv iota. change (N.pred 1) with 0. now rewrite dropN_0.
Qed.

Lemma lenN_subst_at j v l : lenN (subst_at j v l) = lenN l.
Proof.
  destruct (N.lt_ge_cases j (lenN l)) as [H|H].
  - rewrite subst_at_spec by assumption. rewrite lenN_app, lenN_cons, lenN_takeN, lenN_dropN. lia.
  - unfold subst_at. now rewrite dropN_all.
Qed.

Lemma takeN_app_ge a b n : lenN a <= n -> takeN n (a ++ b) = a ++ takeN (n - lenN a) b.
Proof.
  intro H. rewrite !takeN_firstn, lenN_length in *. rewrite firstn_app, firstn_all2 by lia.
  f_equal. f_equal. lia.
Qed.

Lemma subst_at_app_l i v A B : i < lenN A -> subst_at i v (A ++ B) = subst_at i v A ++ B.
Proof.
  intro H. rewrite !subst_at_spec by (try rewrite lenN_app; lia).
  rewrite takeN_app_le by lia. rewrite dropN_app_le by lia. rewrite <- app_assoc. reflexivity.
Qed.

Lemma subst_at_app_r i v A B : lenN A <= i -> subst_at i v (A ++ B) = A ++ subst_at (i - lenN A) v B.
Proof.
  intro H. destruct (N.lt_ge_cases (i - lenN A) (lenN B)) as [G|G].
  - rewrite !subst_at_spec by (try rewrite lenN_app; lia).
    rewrite dropN_app_ge by lia.
    replace (i + 1 - lenN A) with (i - lenN A + 1) by lia.
    rewrite takeN_app_ge by lia. rewrite <- app_assoc. reflexivity.
  - unfold subst_at. rewrite !dropN_all by (try rewrite lenN_app; lia). reflexivity.
Qed.

Definition mid_of (m : member) : list N :=
  le16 20 ++ le16 (gp_flags (m_name m)) ++ le16 0 ++ le16 0 ++ le16 33
  ++ le32 (crc32 (m_data m)) ++ le32 (lenN (m_data m)) ++ le32 (lenN (m_data m)).

Lemma lh_loose m : lh m = loose_header (mid_of m) (m_name m) (lenN (m_name m)).
Proof. unfold lh, local_header, loose_header, mid_of. rewrite <- !app_assoc. reflexivity. Qed.

Definition intact (m : member) : lmember := (m, mid_of m, m_name m).

Lemma intact_ok ms : Forall lm_ok (map intact ms).
Proof. apply Forall_forall. intros x Hx. apply in_map_iff in Hx as (m & <- & _). split; reflexivity. Qed.

Lemma map_lm_intact ms : map lm_member (map intact ms) = ms.
Proof. rewrite map_map. apply map_id. Qed.

Lemma loose_body_intact ms : loose_body (map intact ms) = body_bytes ms.
Proof.
  induction ms as [|m ms IH]; [reflexivity|]. cbn [map loose_body body_bytes]. rewrite IH.
  change (lm_member (intact m)) with m. cbn [intact fst snd]. now rewrite <- lh_loose.
Qed.

Section SingleByte.
  Variable decompress : list N -> option (list N).

  (* byte i of member m's local header, 4 <= i < 26 (versions, flags, method, time, date, crc, sizes) or
     30 <= i < 30 + name length (the name): the cache-hit path returns exactly what it returns for the intact entry *)
  Theorem local_header_substitution_ignored ms1 m ms2 i v reqs :
    let ms := ms1 ++ m :: ms2 in
    let bs := write_zip ms in
    let j := lenN (body_bytes ms1) + i in
    Forall mwf ms -> (forall m', In m' ms -> 0 < m_perm m') ->
    NoDup (map m_name ms) -> writable ms = true -> no_z64_locator bs = true ->
    (4 <= i < 26 \/ 30 <= i < 30 + lenN (m_name m)) ->
    unpack decompress (subst_at j v bs) reqs = unpack decompress bs reqs.
  Proof.
    intros ms bs j Hwf Hperm Hnd Hw Hz Hi.
    set (tail := cd_bytes ms 0 ++ eocd (count_of ms) (lenN (cd_bytes ms 0)) (lenN (body_bytes ms))).
    assert (Ebs : bs = body_bytes ms1 ++ lh m ++ (m_data m ++ body_bytes ms2 ++ tail)).
    { assert (Ebody : body_bytes ms = body_bytes ms1 ++ lh m ++ m_data m ++ body_bytes ms2).
      { unfold ms. rewrite body_bytes_app. cbn [body_bytes]. reflexivity. }
      assert (Ebs0 : bs = body_bytes ms ++ tail) by (unfold bs, tail; apply write_zip_spec).
      rewrite Ebs0, Ebody. rewrite <- !app_assoc. reflexivity. }
    assert (exists mid' nm', lenN mid' = 22 /\ lenN nm' = lenN (m_name m)
                             /\ subst_at i v (lh m) = loose_header mid' nm' (lenN (m_name m))) as (mid' & nm' & Hm1 & Hm2 & Hsub).
    { rewrite lh_loose. unfold loose_header.
      destruct Hi as [Hi|Hi].
      - exists (subst_at (i - 4) v (mid_of m)), (m_name m). repeat split; [now rewrite lenN_subst_at|].
        rewrite subst_at_app_r by (rewrite lenN_le32; lia). rewrite lenN_le32.
        rewrite subst_at_app_l by (change (lenN (mid_of m)) with 22; lia). reflexivity.
      - exists (mid_of m), (subst_at (i - 30) v (m_name m)). repeat split; [now rewrite lenN_subst_at|].
        rewrite subst_at_app_r by (rewrite lenN_le32; lia). rewrite lenN_le32.
        rewrite subst_at_app_r by (change (lenN (mid_of m)) with 22; lia). change (lenN (mid_of m)) with 22.
        rewrite subst_at_app_r by (rewrite lenN_le16; lia). rewrite lenN_le16.
        rewrite subst_at_app_r by (rewrite lenN_le16; lia). rewrite lenN_le16.
        replace (i - 4 - 22 - 2 - 2) with (i - 30) by lia. reflexivity. }
    assert (Ebs' : subst_at j v bs
                   = loose_body (map intact ms1 ++ (m, mid', nm') :: map intact ms2) ++ tail).
    { rewrite Ebs. unfold j. rewrite subst_at_app_r by lia.
      replace (lenN (body_bytes ms1) + i - lenN (body_bytes ms1)) with i by lia.
      rewrite subst_at_app_l by (rewrite lenN_lh; lia). rewrite Hsub.
      rewrite loose_body_app. cbn [loose_body]. rewrite !loose_body_intact.
      change (lm_member (m, mid', nm')) with m. cbn [fst snd]. rewrite <- !app_assoc. reflexivity. }
    set (ls := map intact ms1 ++ (m, mid', nm') :: map intact ms2) in *.
    assert (Els : map lm_member ls = ms).
    { unfold ls, ms. rewrite map_app. cbn [map]. now rewrite !map_lm_intact. }
    assert (Hok : Forall lm_ok ls).
    { unfold ls. apply Forall_app. split; [apply intact_ok|]. constructor; [now split|apply intact_ok]. }
    rewrite Ebs'. unfold tail. rewrite <- Els.
    rewrite (local_headers_ignored decompress ls reqs); rewrite ?Els; auto.
  Qed.
End SingleByte.
(* ------------------------------------------------------------------ a concrete entry: non-vacuity and refutations *)
Definition ex_objs : list (list N * option N * list N) :=
  [([111; 98; 106], Some 493, [127; 69; 76; 70]); ([100; 119; 111], Some 420, [1; 2])].   (* obj 0o755, dwo 0o644 *)
Definition ex_stderr : list N := [119; 97; 114; 110].                                      (* "warn" *)
Definition ex_compress (x : list N) : list N := 40 :: 181 :: x.          (* any injective framing will do *)
Definition ex_decompress (d : list N) : option (list N) :=
  match d with 40 :: 181 :: x => Some x | _ => None end.
Definition ex_bs : list N := cache_write ex_compress ex_objs [] ex_stderr.
Definition ex_reqs : list (list N * bool) := [([111; 98; 106], false); ([100; 119; 111], true)].

Lemma ex_zstd_law x : ex_decompress (ex_compress x) = Some x.
Proof. reflexivity. Qed.

Lemma ex_intact :
  unpack ex_decompress ex_bs ex_reqs
  = UHit [] ex_stderr [Some (Some 33261, [127; 69; 76; 70]); Some (Some 33188, [1; 2])].
Proof. vm_compute. reflexivity. Qed.

(* byte 158 holds the low byte of obj's mode in the central directory: 0o755 becomes 0o777, still a hit *)
Lemma mode_unprotected_witness :
  unpack ex_decompress (subst_at 158 255 ex_bs) ex_reqs
  = UHit [] ex_stderr [Some (Some 33279, [127; 69; 76; 70]); Some (Some 33188, [1; 2])].
Proof. vm_compute. reflexivity. Qed.

(* byte 267 is the last letter of the directory name "stderr": the warning is gone, still a hit *)
Lemma stdio_dropped_witness :
  unpack ex_decompress (subst_at 267 115 ex_bs) ex_reqs
  = UHit [] [] [Some (Some 33261, [127; 69; 76; 70]); Some (Some 33188, [1; 2])].
Proof. vm_compute. reflexivity. Qed.

(* byte 213 is the first letter of the directory name "dwo" (an optional object): not restored, still a hit *)
Lemma optional_dropped_witness :
  unpack ex_decompress (subst_at 213 68 ex_bs) ex_reqs
  = UHit [] ex_stderr [Some (Some 33261, [127; 69; 76; 70]); None].
Proof. vm_compute. reflexivity. Qed.

(* the same three substitutions inside the payloads are all misses *)
Lemma ex_payload_misses :
  unpack ex_decompress (subst_at 35 0 ex_bs) ex_reqs = UMiss          (* obj data *)
  /\ unpack ex_decompress (subst_at 74 0 ex_bs) ex_reqs = UMiss       (* dwo data: optional, yet a miss *)
  /\ unpack ex_decompress (subst_at 115 0 ex_bs) ex_reqs = UMiss.     (* stderr data *)
Proof. vm_compute. repeat split. Qed.

Lemma ex_hypotheses :
  writable (cache_members ex_compress ex_objs [] ex_stderr) = true
  /\ no_z64_locator ex_bs = true /\ eocd_sig_unique ex_bs = true /\ lenN ex_bs = 290.
Proof. vm_compute. repeat split. Qed.

(* without the hypothesis no_z64_locator the round trip fails: a legal 20-byte object name starting with "PK\6\7",
   stored last, is read as a ZIP64 locator and the entry is refused (known finding C08-K2) *)
Definition ex_z64_objs : list (list N * option N * list N) :=
  [([80; 75; 6; 7; 120; 120; 120; 120; 120; 120; 120; 120; 120; 120; 120; 120; 120; 120; 120; 120], Some 420, [100; 97; 116; 97])].

Lemma roundtrip_z64_witness :
  no_z64_locator (cache_write ex_compress ex_z64_objs [] []) = false
  /\ writable (cache_members ex_compress ex_z64_objs [] []) = true
  /\ unpack ex_decompress (cache_write ex_compress ex_z64_objs [] []) [(obj_name (hd ([], None, []) ex_z64_objs), false)] = UMiss.
Proof. vm_compute. repeat split. Qed.

Lemma ex_objs_ok : objs_ok ex_objs.
Proof.
  split.
  - cbn. repeat constructor; cbn; intuition discriminate.
  - intros o [<-|[<-|[]]]; cbn; repeat split; try reflexivity; discriminate.
Qed.

(* ------------------------------------------------------------------ the writer's configuration (zstd level) *)
Lemma digits_bound_mono l : forall acc n, digits l acc = Some n -> acc <= n.
Proof.
  induction l as [|b l IH]; intros acc n H; cbn [digits] in H.
  - inversion H. lia.
  - destruct (N.leb 48 b && N.leb b 57); [|discriminate]. apply IH in H. lia.
Qed.

(* whatever the variable holds, the level is an i32 *)
Lemma zstd_level_is_i32 env :
  let l := zstd_level env in
  (fst l = false -> snd l <= 2147483647) /\ (fst l = true -> 0 < snd l <= 2147483648).
Proof.
  unfold zstd_level. destruct env as [v|]; [|cbn; split; [lia|discriminate]].
  destruct (parse_i32 v) as [l|] eqn:E; [|cbn; split; [lia|discriminate]].
  unfold parse_i32 in E.
  assert (G : forall r, match digits r 0 with
                        | Some n => if N.leb n 2147483647 then Some (false, n) else None
                        | None => None end = Some l ->
              (fst l = false -> snd l <= 2147483647) /\ (fst l = true -> 0 < snd l <= 2147483648)).
  { intros r H. destruct (digits r 0) as [n|]; [|discriminate].
    destruct (N.leb_spec n 2147483647); [|discriminate]. inversion H; subst. cbn. split; [auto|discriminate]. }
  destruct v as [|c r]; [discriminate|].
  destruct (N.eq_dec c 45) as [->|H45].
  - destruct r as [|c2 r2]; [discriminate|].
    destruct (digits (c2 :: r2) 0) as [n|]; [|discriminate].
    destruct (N.leb_spec n 2147483648); [|discriminate]. inversion E; subst. cbn [fst snd].
    destruct (N.eqb_spec n 0); cbn; split; intros; try discriminate; lia.
  - destruct (N.eq_dec c 43) as [->|H43].
    + destruct r as [|c2 r2]; [discriminate|]. now apply (G (c2 :: r2)).
    + apply (G (c :: r)). revert E.
      destruct c as [|p]; [auto|].
      repeat (destruct p as [p|p|]; try (intro E; exact E); try congruence).
Qed.

Lemma zstd_level_unset : zstd_level None = DEFAULT_LEVEL.
Proof. reflexivity. Qed.

(* "22", "-5", "+7", "007", "-0", "-2147483648" parse; "", "-", "+", " 7", "7 ", "7.0", "0x7", "2147483648", "abc" do not *)
Lemma zstd_level_examples :
  zstd_level (Some [50; 50]) = (false, 22) /\ zstd_level (Some [45; 53]) = (true, 5)
  /\ zstd_level (Some [43; 55]) = (false, 7) /\ zstd_level (Some [48; 48; 55]) = (false, 7)
  /\ zstd_level (Some [45; 48]) = (false, 0)
  /\ zstd_level (Some [45; 50; 49; 52; 55; 52; 56; 51; 54; 52; 56]) = (true, 2147483648)
  /\ zstd_level (Some []) = DEFAULT_LEVEL /\ zstd_level (Some [45]) = DEFAULT_LEVEL
  /\ zstd_level (Some [43]) = DEFAULT_LEVEL /\ zstd_level (Some [32; 55]) = DEFAULT_LEVEL
  /\ zstd_level (Some [55; 32]) = DEFAULT_LEVEL /\ zstd_level (Some [55; 46; 48]) = DEFAULT_LEVEL
  /\ zstd_level (Some [48; 120; 55]) = DEFAULT_LEVEL
  /\ zstd_level (Some [50; 49; 52; 55; 52; 56; 51; 54; 52; 56]) = DEFAULT_LEVEL
  /\ zstd_level (Some [97; 98; 99]) = DEFAULT_LEVEL /\ zstd_level (Some [45; 45; 53]) = DEFAULT_LEVEL.
Proof. vm_compute. repeat split. Qed.

Section Levels.
  Variable compress_at : level -> list N -> list N.
  Variable decompress : list N -> option (list N).
  Hypothesis zstd_roundtrip_at : forall l x, decompress (compress_at l x) = Some x.

  (* the reader has no configuration: what the writer packed at ANY level — whatever SCCACHE_CACHE_ZSTD_LEVEL holds —
     unpacks to the original contents, modes, stdout and stderr *)
  Theorem roundtrip_every_level env objs so se reqs :
    let ms := cache_members_cfg compress_at env objs so se in
    let bs := cache_write_cfg compress_at env objs so se in
    objs_ok objs -> writable ms = true -> no_z64_locator bs = true ->
    map fst reqs = map obj_name objs ->
    unpack decompress bs reqs
    = UHit so se (map (fun o => Some (Some (perm_of (obj_mode o)), obj_content o)) objs).
  Proof.
    intros ms bs Hok Hw Hz Hreqs.
    apply (roundtrip_unpack (compress_at (zstd_level env)) decompress); auto.
  Qed.
End Levels.

(* ------------------------------------------------------------------ histories of packs *)
Definition op_objs (op : pack_op) : list (list N * option N * list N) :=
  map (fun o => (fst (fst o), snd (fst o), fst (snd o))) (fst (fst op)).

Section Histories.
  Variable compress : list N -> list N.
  Variable decompress : list N -> option (list N).
  Hypothesis zstd_roundtrip : forall x, decompress (compress x) = Some x.

  Lemma put_sources_ok objs : forall w w',
    put_sources compress w objs = Some w' ->
    w' = fold_left (fun w o => put_object compress w (fst (fst o)) (snd o) (snd (fst o)))
                   (map (fun o => (fst (fst o), snd (fst o), fst (snd o))) objs) w.
  Proof.
    induction objs as [|[[name mode] src] objs IH]; intros w w' H; cbn [put_sources] in H.
    - inversion H. reflexivity.
    - destruct (read_source src) as [c|] eqn:E; [|discriminate].
      unfold read_source in E. destruct (snd src); [discriminate|]. inversion E; subst.
      apply IH in H. cbn [map fold_left fst snd]. exact H.
  Qed.

  Lemma pack_one_is_cache_write op bs :
    pack_one compress op = Some bs -> bs = cache_write compress (op_objs op) (snd (fst op)) (snd op).
  Proof.
    unfold pack_one. destruct (put_sources compress [] (fst (fst op))) as [w|] eqn:E; [|discriminate].
    intro H. inversion H. apply put_sources_ok in E. unfold cache_write, cache_members, op_objs. now rewrite E.
  Qed.

  (* a failed read never produces an entry *)
  Lemma pack_one_fails op :
    (exists o, In o (fst (fst op)) /\ snd (snd o) <> None) -> pack_one compress op = None.
  Proof.
    intros (o & Hin & Hf). unfold pack_one.
    assert (G : forall objs w, In o objs -> put_sources compress w objs = None).
    { induction objs as [|[[name mode] src] objs IH]; intros w H; [destruct H|]. cbn [put_sources].
      destruct H as [<-|H].
      - unfold read_source. cbn [snd] in *. destruct (snd src); [reflexivity|congruence].
      - destruct (read_source src); [now apply IH|reflexivity]. }
    pose proof (G _ [] Hin) as E. destruct op as [[objs so] se]. cbn [fst snd] in *. now rewrite E.
  Qed.

  (* whatever the thread packed or failed to pack before: an entry that IS produced unpacks to its own inputs *)
  Theorem history_roundtrip ops i op bs reqs :
    nth_error ops i = Some op -> nth_error (pack_history compress ops) i = Some (Some bs) ->
    objs_ok (op_objs op) ->
    writable (cache_members compress (op_objs op) (snd (fst op)) (snd op)) = true ->
    no_z64_locator bs = true ->
    map fst reqs = map obj_name (op_objs op) ->
    unpack decompress bs reqs
    = UHit (snd (fst op)) (snd op)
           (map (fun o => Some (Some (perm_of (obj_mode o)), obj_content o)) (op_objs op)).
  Proof.
    intros Hop Hres Hok Hw Hz Hreqs. unfold pack_history in Hres.
    rewrite nth_error_map, Hop in Hres. cbn in Hres. inversion Hres as [Hp].
    apply pack_one_is_cache_write in Hp. subst bs.
    apply (roundtrip_unpack compress decompress); auto.
  Qed.

  (* and the i-th result does not depend on the rest of the history at all *)
  Theorem history_independent ops1 ops2 op :
    nth_error (pack_history compress (ops1 ++ op :: ops2)) (length ops1) = Some (pack_one compress op).
  Proof.
    unfold pack_history. rewrite map_app. cbn [map].
    rewrite nth_error_app2 by (rewrite map_length; lia). rewrite map_length, Nat.sub_diag. reflexivity.
  Qed.
End Histories.
